import itertools, random, math, sys, pickle, collections
from measured import *
from measured import systems, conversions
from measured.conversions import ConversionNotFound
sizes = pickle.load(open("sizes.pkl","rb"))
import math as m
sizes.update({'radian':1.0,'degree':m.pi/180,'arcminute':m.pi/10800,'arcsecond':m.pi/648000,'gradian':m.pi/200,'Furman':2*m.pi/65536})
named = sorted([u for u in set(Unit._by_name.values()) if all(f.name in sizes for f in u.factors) and u.name not in ('celsius','fahrenheit')], key=lambda u:u.name)
def usize(u):
    s = float(u.prefix.quantify())
    for f,e in u.factors.items(): s *= sizes[f.name]**e
    return s
by_dim = collections.defaultdict(list)
for u in named: by_dim[u.dimension].append(u)
def check(a,b):
    try:
        q = (1.0*a).in_unit(b)
    except ConversionNotFound: return 'notfound'
    except Exception as ex: return 'EXC '+type(ex).__name__
    expected = usize(a)/usize(b)
    deg = sum(abs(e) for e in a.factors.values())+sum(abs(e) for e in b.factors.values())
    rel = abs(q.magnitude/expected-1)
    return 'ok' if rel <= 1e-5*max(deg,1) else 'WRONG'
# Shape 1: x^e -> y^e, single named units same dimension
for e in [1,-1]:
    st = collections.Counter(); ex = {}
    for d, us in by_dim.items():
        for x in us:
            for y in us:
                if x is y: continue
                r = check(x**e, y**e); st[r]+=1
                ex.setdefault(r, []).append((str(x**e), str(y**e)))
    print("single exp", e, dict(st), {k:v[:3] for k,v in ex.items() if k!='ok'})
    print({k:v for k,v in ex.items() if k not in('ok',)})
