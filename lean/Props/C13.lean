/-
  Props/C13.lean — `str()` output denotes the same unit; exponent spellings are equivalent.

  * `superscript_round_trip`  for EVERY integer n ≠ 1: `from_superscript(superscript(n)) = n`
                              (and `superscript 1 = ""`: an omitted exponent is exponent 1);
  * `caret_round_trip`        `int(str(n)) = n` for every integer within the digit limit — the
                              `^n` spelling carries the same exponent as the superscript one;
  * `rendered_terms_are_the_unit`  in every state reachable from a canonical base state, for every
                              unit whose prefix can be pushed into its first factor: the
                              expression the parser rebuilds from the terms `unit_str` renders
                              (resolve, raise, multiply left to right, divide by One) evaluates —
                              after ANY further history — to the very same object.
  The `a/b` vs negative exponent, `*` vs juxtaposition and ordering spellings are C02's group laws
  (`C02.div_eq_mul_inv`, `C02.mul_comm`, `C02.mul_assoc` with `C02.eval_canonical`).
  Which concrete symbol a rendered term spells (prefix symbol + unit symbol) depends on the whole
  symbol table: `Obligations/C13.lean` evaluates that table exhaustively on every run.
-/
import Std.Data.String.ToInt
import Proofs.TermsDenote
import Proofs.BaseInv
import Props.C02

namespace Measured
namespace C13
open St UExpr

theorem digit_cases {c : Char} (h : c.isDigit = true) :
    c = '0' ∨ c = '1' ∨ c = '2' ∨ c = '3' ∨ c = '4' ∨ c = '5' ∨ c = '6' ∨ c = '7' ∨ c = '8' ∨ c = '9' := by
  have h1 : 48 ≤ c.val.toNat ∧ c.val.toNat ≤ 57 := by
    simp only [Char.isDigit, Bool.and_eq_true, decide_eq_true_eq] at h
    exact ⟨UInt32.le_iff_toNat_le.mp h.1, UInt32.le_iff_toNat_le.mp h.2⟩
  have hc : ∀ d : Char, c.val.toNat = d.val.toNat → c = d :=
    fun d hd => Char.ext (UInt32.toNat_inj.mp hd)
  have : c.val.toNat = 48 ∨ c.val.toNat = 49 ∨ c.val.toNat = 50 ∨ c.val.toNat = 51 ∨ c.val.toNat = 52 ∨
      c.val.toNat = 53 ∨ c.val.toNat = 54 ∨ c.val.toNat = 55 ∨ c.val.toNat = 56 ∨ c.val.toNat = 57 := by omega
  rcases this with h|h|h|h|h|h|h|h|h|h
  · exact Or.inl (hc '0' h)
  · exact Or.inr (Or.inl (hc '1' h))
  · exact Or.inr (Or.inr (Or.inl (hc '2' h)))
  · exact Or.inr (Or.inr (Or.inr (Or.inl (hc '3' h))))
  · exact Or.inr (Or.inr (Or.inr (Or.inr (Or.inl (hc '4' h)))))
  · exact Or.inr (Or.inr (Or.inr (Or.inr (Or.inr (Or.inl (hc '5' h))))))
  · exact Or.inr (Or.inr (Or.inr (Or.inr (Or.inr (Or.inr (Or.inl (hc '6' h)))))))
  · exact Or.inr (Or.inr (Or.inr (Or.inr (Or.inr (Or.inr (Or.inr (Or.inl (hc '7' h))))))))
  · exact Or.inr (Or.inr (Or.inr (Or.inr (Or.inr (Or.inr (Or.inr (Or.inr (Or.inl (hc '8' h)))))))))
  · exact Or.inr (Or.inr (Or.inr (Or.inr (Or.inr (Or.inr (Or.inr (Or.inr (Or.inr (hc '9' h)))))))))

theorem from_super_digit {c : Char} (h : c.isDigit = true ∨ c = '-') : fromSuperDigit (superDigit c) = some c := by
  rcases h with h | h
  · rcases digit_cases h with h|h|h|h|h|h|h|h|h|h <;> subst h <;> rfl
  · subst h; rfl

theorem mapM_from_super : ∀ (l : List Char), (∀ c ∈ l, c.isDigit = true ∨ c = '-') →
    (l.map superDigit).mapM fromSuperDigit = some l
  | [], _ => rfl
  | c :: rest, h => by
    simp only [List.map_cons, List.mapM_cons, from_super_digit (h c List.mem_cons_self)]
    rw [mapM_from_super rest (fun d hd => h d (List.mem_cons_of_mem _ hd))]
    rfl

theorem int_repr_chars (n : Int) : ∀ c ∈ (toString n).toList, c.isDigit = true ∨ c = '-' := by
  intro c hc
  rw [Int.toString_eq_repr, Int.repr_eq_if] at hc
  split at hc
  · rw [Nat.toList_repr] at hc
    exact Or.inl (Nat.isDigit_of_mem_toDigits (by omega) (by omega) hc)
  · rw [String.toList_append] at hc
    rcases List.mem_append.mp hc with h | h
    · right; simpa using h
    · rw [Nat.toList_repr] at h
      exact Or.inl (Nat.isDigit_of_mem_toDigits (by omega) (by omega) h)

theorem isDigit_eq (c : Char) : isDigit c = c.isDigit := by
  unfold isDigit Char.isDigit
  simp only [Char.le_def, ge_iff_le]

theorem toDigits_all_digit (n : Nat) : (Nat.toDigits 10 n).all isDigit = true := by
  rw [List.all_eq_true]
  intro c hc
  rw [isDigit_eq]
  exact Nat.isDigit_of_mem_toDigits (by omega) (by omega) hc

theorem intOfChars_digits : ∀ (ds : List Char), ds ≠ [] → ds.all isDigit = true →
    intOfChars ds = some ((Nat.ofDigitChars 10 ds 0 : Nat) : Int)
  | [], h, _ => absurd rfl h
  | c :: r, _, hall => by
    have hc : isDigit c = true := by simp [List.all_cons] at hall; exact hall.1
    have h1 : c ≠ '-' := by intro e; subst e; exact absurd hc (by decide)
    have h2 : c ≠ '+' := by intro e; subst e; exact absurd hc (by decide)
    have hneg : isNegChars (c :: r) = false := by
      unfold isNegChars
      split
      · rename_i heq; injection heq with a _; exact absurd a h1
      · rfl
    have hds : stripSign (c :: r) = c :: r := by
      unfold stripSign
      split
      · rename_i heq; injection heq with a _; exact absurd a h1
      · rename_i heq; injection heq with a _; exact absurd a h2
      · rfl
    unfold intOfChars
    simp only [hneg, hds, hall, List.isEmpty_cons, Bool.not_true, Bool.or_self, Bool.false_eq_true, if_false]

theorem intOfChars_neg (ds : List Char) (hne : ds ≠ []) (hall : ds.all isDigit = true) :
    intOfChars ('-' :: ds) = some (-((Nat.ofDigitChars 10 ds 0 : Nat) : Int)) := by
  unfold intOfChars
  have he : ds.isEmpty = false := by cases ds with | nil => exact absurd rfl hne | cons _ _ => rfl
  have h1 : stripSign ('-' :: ds) = ds := rfl
  have h2 : isNegChars ('-' :: ds) = true := rfl
  simp only [h1, h2, he, hall, Bool.not_true, Bool.or_self, Bool.false_eq_true, if_false, if_true]

/-- `int(str(n)) = n` at the level of characters, for every integer. -/
theorem intOfChars_repr (n : Int) : intOfChars (toString n).toList = some n := by
  rw [Int.toString_eq_repr, Int.repr_eq_if]
  split
  · rename_i hn
    rw [Nat.toList_repr, intOfChars_digits _ Nat.toDigits_ne_nil (toDigits_all_digit _),
      Nat.ofDigitChars_ten_toDigits]
    congr 1
    omega
  · rename_i hn
    rw [String.toList_append, Nat.toList_repr]
    have : "-".toList = ['-'] := rfl
    rw [this, List.singleton_append, intOfChars_neg _ Nat.toDigits_ne_nil (toDigits_all_digit _),
      Nat.ofDigitChars_ten_toDigits]
    congr 1
    have := Int.toNat_of_nonneg (show 0 ≤ -n by omega)
    omega

/-- **Superscript exponents round-trip, for every integer.** -/
theorem superscript_round_trip (n : Int) (h : n ≠ 1) : fromSuperscript (superscript n) = some n := by
  unfold superscript fromSuperscript
  have h1 : (n == 1) = false := by simpa using h
  simp only [h1, Bool.false_eq_true, if_false, String.toList_ofList]
  rw [mapM_from_super _ (int_repr_chars n)]
  exact intOfChars_repr n

/-- the omitted exponent is exponent 1 (`term: SYMBOL exponent?`, `exponent: int = 1`) -/
theorem superscript_one : superscript 1 = "" := rfl

/-- **`^n` carries the same exponent**: `int(str(n)) = n` whenever the text is within the digit limit. -/
theorem caret_round_trip (n : Int) (hlen : ((toString n).toList.filter isDigit).length ≤ intMaxStrDigits) :
    pyInt (toString n) = .ok n := by
  unfold pyInt
  simp only [Nat.not_lt.mpr hlen, if_false, intOfChars_repr n]

/-- **The text form denotes the unit.**  `base` is any canonical state (the shipped one is, per
    run: `Obligations.init_ginv`, `init_canon`); `ops` any further history. -/
theorem rendered_terms_are_the_unit {base : St} (h : GInv base) (hc : Canon base) {i : UId}
    (hi : i < base.units.length) (hbf : BaseFactors base (base.unit! i))
    {ts : List (Pfx × UId × Int)} (ht : unitTermList (base.unit! i) = .ok ts)
    (hok : ExprOK base (termsExpr base.one ts))
    (ops : List Op) (j : UId)
    (r : ((termsExpr base.one ts).eval (run base ops)).2 = .ok j) : j = i := by
  have hd := terms_denote hc hi hbf ht
  have hd' : SameDen base (.ref i) (termsExpr base.one ts) :=
    ⟨fun p₁ p₂ a b => (hd.1 p₂ p₁ b a).symm, fun k hk => (hd.2 k hk).symm⟩
  have hrefok : ExprOK base (.ref i) := ⟨fun r hr => by simp [refs] at hr; subst hr; exact hi, fun p hp => by simp [pfxs] at hp⟩
  exact (C02.eval_canonical h hc hrefok hok hd' [] ops i j rfl r).symm

/-- `BaseInv` gives `BaseFactors` for every unit of the state. -/
theorem baseFactors_of_baseInv {s : St} (hb : BaseInv s) {i : UId} (hi : i < s.units.length) :
    BaseFactors s (s.unit! i) :=
  fun f hf => ⟨(hb _ (St.unit!_mem hi) f hf).2.1, (hb _ (St.unit!_mem hi) f hf).2.2⟩

/-- **The text form denotes the unit, in every reachable state.**  `base` canonical with base-unit
    factors (the shipped state is, per run); `ops₁` ANY history before the unit is rendered — the unit
    may have been created by it —, `ops₂` ANY history between rendering and re-evaluation.  No
    hypothesis about the unit beyond its prefix being pushable (`unitTermList … = .ok ts`). -/
theorem rendered_terms_are_the_unit_reachable {base : St} (h : GInv base) (hc : Canon base) (hb : BaseInv base)
    (ops₁ : List Op) {i : UId} (hi : i < (run base ops₁).units.length)
    {ts : List (Pfx × UId × Int)} (ht : unitTermList ((run base ops₁).unit! i) = .ok ts)
    (ops₂ : List Op) (j : UId)
    (r : ((termsExpr (run base ops₁).one ts).eval (run (run base ops₁) ops₂)).2 = .ok j) : j = i := by
  have g1 := run_ginv h ops₁
  have c1 := run_canon h hc ops₁
  have b1 := run_baseInv h hc hb ops₁
  exact rendered_terms_are_the_unit g1 c1 hi (baseFactors_of_baseInv b1 hi) ht
    (termsExpr_ok g1.1.1 c1 hi ht) ops₂ j r

end C13
end Measured
