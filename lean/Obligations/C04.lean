/-
  Per-run obligations for C04: the model's planner, evaluated by the kernel on the graph
  regenerated from /repo, converts every pair of the family with the coefficient the
  verified size certificate dictates (and no additive term).
-/
import Props.C04
import Obligations.C09
import Generated.Family

namespace Measured.Obligations
open Measured Generated

def famConv : Conv Rat := convOfTables init ratios offsets

/-- one pair: coefficient = size(a)/size(b) within 1e-5·2 (shipped constants), no offset -/
def familyCase (ab : UId × UId) : Bool :=
  match convertCoeffs famConv Pfx.identity ab.1 Pfx.identity ab.2,
        unitSize init sizeCert ab.1, unitSize init sizeCert ab.2 with
  | .ok (A, B), some x, some y => (B == 0) && closeTo A (x / y) (2 / 10^5) 0
  | _, _, _ => false

theorem family_conversions_exact : familyQuick.all familyCase = true := by decide +kernel

end Measured.Obligations
