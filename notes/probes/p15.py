import sys, threading
from measured import *
from measured.si import Meter, Second
import measured
code = Unit.__new__.__code__
first = code.co_firstlineno
# find the line "self = super().__new__(cls)" relative
import inspect
src = inspect.getsource(Unit.__new__).splitlines()
alloc_line = first + next(i for i,l in enumerate(src) if "super().__new__" in l)
gateA = threading.Event(); reachedA = threading.Event()
def tracerA(frame, event, arg):
    if frame.f_code is code:
        def local(frame, event, arg):
            if event=='line' and frame.f_lineno==alloc_line:
                reachedA.set(); gateA.wait()
            return local
        return local
    return tracerA
res={}
def A():
    sys.settrace(tracerA)
    res['A'] = Unit(IdentityPrefix, {Meter: 11, Second: -7}, Meter.dimension**11/Second.dimension**7)
    sys.settrace(None)
def B():
    res['B'] = Unit(IdentityPrefix, {Meter: 11, Second: -7}, Meter.dimension**11/Second.dimension**7)
ta=threading.Thread(target=A); ta.start(); reachedA.wait()
tb=threading.Thread(target=B); tb.start(); tb.join()
gateA.set(); ta.join()
print("same object:", res['A'] is res['B'], "later:", (Meter**11/Second**7) is res['A'], (Meter**11/Second**7) is res['B'])
