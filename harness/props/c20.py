"""C20 — singletons stay singletons when constructed concurrently.

No op stream: threads.  `harness/c20_explore.py` drives 2-3 REAL threads through the interning
constructors of the real library under a deterministic line-granularity scheduler
(`sys.settrace`, no source hook): first-time construction of a dimension, a prefix, a unit and a
logarithm, directly and through the operators / memoised helpers; every single preemption point
(both orders), sampled double preemptions, random 2- and 3-thread schedules.
Oracle: no deadlock, no exception; all threads hold the identical object; the intern table has
exactly one entry for the key; a later evaluation returns that object; it is initialised.
"""
import json
import os
import subprocess

LEVEL_TEXT = ("Lean: for the constructor program with lookup + creation + initialisation inside one critical section, for EVERY "
              "schedule and ANY number of threads all threads that have returned hold the same object, it is the intern-table entry "
              "(agreement), at most one object is ever created for the key (single_entry) and a later evaluation returns that object "
              "(later_lookup) - by a lock-discipline invariant proved by induction over the schedule, for both kinds of registration: "
              "_known written by __new__, and Unit._by_name written by __init__ (base units). Without the lock a 2-thread schedule gives "
              "two different objects (race_exists, evaluated by the kernel): the defect repaired by the fix: commit; a lock around "
              "__new__ alone does not protect a base unit (race_new_only_lock). Per run the AST of measured/__init__.py is translated to Generated/Ctor.lean and the kernel checks that all five "
              "interning classes' __new__ are check-then-insert on cls._known and are constructed under a module-level re-entrant lock "
              "(ctor_shape_ok), i.e. that /repo contains the program the theorems are about. Tied to the runtime by schedule exploration "
              "on the real code with real threads.")
LEVEL_NOTE = ("Partial in the sense of the runtime: atomicity of one dict get/set under the GIL, lru_cache's own thread safety and the "
              "semantics of threading.RLock are assumed, not modelled; the model has one key (distinct keys of a dict do not interact). "
              "The translator recognises the locking metaclass syntactically; an equivalent but differently written protection breaks "
              "the obligation and is then decided by the schedule exploration (reported with no-failing-input-found if no schedule "
              "fails). pickle's direct cls.__new__ call bypasses the metaclass (it only looks existing objects up).")
TECHNIQUE = "Lean 4 invariant over all schedules and any number of threads (lock discipline) + kernel-evaluated race witness for the unprotected program + decide +kernel on the constructor shape regenerated from the AST + deterministic schedule exploration on the real code"

THEOREMS = [
    "Measured.C20.inv_step", "Measured.C20.agreement", "Measured.C20.single_entry", "Measured.C20.later_lookup",
    "Measured.C20.race_exists", "Measured.C20.race_new_only_lock", "Measured.Obligations.ctor_shape_ok", "Measured.Obligations.shipped_constructors_agree",
]
LEAN_TARGETS = ["Props.C20", "Obligations.C20"]
RULE = ("(target expression, number of threads, schedule); non-trivial = at least one preemption inside a constructor; "
        "distinct by schedule")
ASSUMPTIONS = ["a dict get/set of one key is atomic under the GIL", "functools.lru_cache is thread-safe",
               "threading.RLock provides mutual exclusion"]


def extra_checks(tier, seed, build_ok):
    here = os.path.dirname(os.path.abspath(__file__))
    script = os.path.join(os.path.dirname(here), "c20_explore.py")
    tier_arg = "thorough" if tier == "thorough" or not build_ok else "quick"    # widen the search when a proof is broken
    out = subprocess.run(["/venv/bin/python", script, str(seed), tier_arg], stdout=subprocess.PIPE, stderr=subprocess.PIPE,
                         text=True, timeout=3000)
    if out.returncode != 0:
        return {"problems": [("explore-crash", out.stderr[-600:])]}
    rep = json.loads(out.stdout.strip().splitlines()[-1])
    # what the translator saw (for the evidence)
    verif = os.path.dirname(os.path.dirname(here))
    tr = subprocess.run(["/venv/bin/python", os.path.join(verif, "translate", "gen_ctor.py"), "--report"],
                        stdout=subprocess.PIPE, stderr=subprocess.PIPE, text=True, timeout=120)
    shape = json.loads(tr.stdout.strip().splitlines()[-1]) if tr.returncode == 0 else {}
    return {"failures": rep["failures"], "evaluations": rep["explored"], "oracle_checks": rep["explored"],
            "distinct_nontrivial": rep["explored"], "samples": list(rep["by_target"])[:4],
            "info": {"schedules_by_target": rep["by_target"], "constructor_shape": shape}}


def replay_schedule(failure):
    """Re-run one recorded schedule (from a replay file) on the current tree."""
    here = os.path.dirname(os.path.abspath(__file__))
    script = os.path.join(os.path.dirname(here), "c20_explore.py")
    sched = failure["schedule"]
    if isinstance(sched, str):
        sched = json.loads(sched)
    out = subprocess.run(["/venv/bin/python", script, "--replay", failure["target"], str(failure.get("threads", 2)),
                          ",".join(str(x) for x in sched)], stdout=subprocess.PIPE, stderr=subprocess.PIPE, text=True, timeout=600)
    rep = json.loads(out.stdout.strip().splitlines()[-1]) if out.stdout.strip() else {"problem": out.stderr[-300:]}
    fails = []
    if rep.get("problem"):
        fails.append({"kind": "singleton-violated", "target": failure["target"], "threads": failure.get("threads", 2),
                      "problem": rep["problem"], "schedule": sched})
    return {"failures": fails, "evaluations": 1, "oracle_checks": 1, "distinct_nontrivial": 1}
