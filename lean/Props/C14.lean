/-
  C14 — uncertainty propagates by first-order Gaussian rules for independent inputs.

  Over ℝ.  For f ∈ {x+y, x−y, x·y, x/y, xⁿ} the partial derivatives are *proved* (`HasDerivAt`),
  not written down, and the uncertainty the model computes is shown to satisfy
  σ_f² = Σ (∂f/∂xᵢ · σᵢ)².  The link to the model is `join_valR` / `mul_uncertainty_model` …:
  the value of `Measurement.__mul__/__truediv__/__pow__`'s uncertainty in the model *is* the
  formula the theorems are about (int/float tagged magnitudes; a Decimal is an exact rational in
  the model and follows the same formula).
-/
import Proofs.MagReal
import Mathlib.Analysis.Calculus.Deriv.Mul
import Mathlib.Analysis.Calculus.Deriv.Inv
import Mathlib.Analysis.Calculus.Deriv.ZPow
import Mathlib.Analysis.Calculus.Deriv.Add

namespace Measured.C14
open Measured Real

/-! ### the formulas (as the source computes them) -/

/-- `+` and `−`: `(σa² + σb²).root(2)` -/
noncomputable def sigmaAdd (σa σb : ℝ) : ℝ := sqrt (σa ^ 2 + σb ^ 2)
/-- `_join_uncertainties(d_self, d_other)` -/
noncomputable def sigmaJoin (d₁ d₂ σa σb : ℝ) : ℝ := sqrt ((d₁ * σa) ^ 2 + (d₂ * σb) ^ 2)
/-- `×`: partials `b`, `a` -/
noncomputable def sigmaMul (a b σa σb : ℝ) : ℝ := sigmaJoin b a σa σb
/-- `÷`: `d_self = 1/b`, `d_other = (a/b)/b` -/
noncomputable def sigmaDiv (a b σa σb : ℝ) : ℝ := sigmaJoin (1 / b) (a / b / b) σa σb
/-- `**n`: `sqrt((n · x^(n-1) · σ)²)` -/
noncomputable def sigmaPow (x σ : ℝ) (n : ℤ) : ℝ := sqrt (((n : ℝ) * (x ^ (n - 1) * σ)) ^ 2)

/-! ### first-order propagation, with proved derivatives -/

theorem add_first_order (a b σa σb : ℝ) :
    HasDerivAt (fun x => x + b) 1 a ∧ HasDerivAt (fun y => a + y) 1 b ∧
    sigmaAdd σa σb ^ 2 = (1 * σa) ^ 2 + (1 * σb) ^ 2 := by
  refine ⟨by simpa using (hasDerivAt_id a).add_const b, by simpa using (hasDerivAt_id b).const_add a, ?_⟩
  unfold sigmaAdd
  rw [sq_sqrt (by positivity)]; ring

theorem sub_first_order (a b σa σb : ℝ) :
    HasDerivAt (fun x => x - b) 1 a ∧ HasDerivAt (fun y => a - y) (-1) b ∧
    sigmaAdd σa σb ^ 2 = (1 * σa) ^ 2 + (-1 * σb) ^ 2 := by
  refine ⟨by simpa using (hasDerivAt_id a).sub_const b, by simpa using (hasDerivAt_id b).const_sub a, ?_⟩
  unfold sigmaAdd
  rw [sq_sqrt (by positivity)]; ring

theorem mul_first_order (a b σa σb : ℝ) :
    HasDerivAt (fun x => x * b) b a ∧ HasDerivAt (fun y => a * y) a b ∧
    sigmaMul a b σa σb ^ 2 = (b * σa) ^ 2 + (a * σb) ^ 2 := by
  refine ⟨by simpa using (hasDerivAt_id a).mul_const b, by simpa using (hasDerivAt_id b).const_mul a, ?_⟩
  unfold sigmaMul sigmaJoin
  rw [sq_sqrt (by positivity)]

theorem div_first_order (a b σa σb : ℝ) (hb : b ≠ 0) :
    HasDerivAt (fun x => x / b) (1 / b) a ∧ HasDerivAt (fun y => a / y) (-(a / b ^ 2)) b ∧
    sigmaDiv a b σa σb ^ 2 = (1 / b * σa) ^ 2 + (-(a / b ^ 2) * σb) ^ 2 := by
  refine ⟨by simpa using (hasDerivAt_id a).div_const b, ?_, ?_⟩
  · have := (hasDerivAt_inv hb).const_mul a
    have e : (fun y => a / y) = fun y => a * y⁻¹ := by funext y; rw [div_eq_mul_inv]
    rw [e]
    have hval : -(a / b ^ 2) = a * -(b ^ 2)⁻¹ := by rw [div_eq_mul_inv, mul_neg]
    rw [hval]; exact this
  · unfold sigmaDiv sigmaJoin
    rw [sq_sqrt (by positivity)]
    field_simp

theorem pow_first_order (x σ : ℝ) (n : ℤ) (h : x ≠ 0 ∨ 0 ≤ n) :
    HasDerivAt (fun y => y ^ n) ((n : ℝ) * x ^ (n - 1)) x ∧
    sigmaPow x σ n ^ 2 = ((n : ℝ) * x ^ (n - 1) * σ) ^ 2 := by
  refine ⟨hasDerivAt_zpow n x h, ?_⟩
  unfold sigmaPow
  rw [sq_sqrt (by positivity)]; ring

/-! ### consequences -/

theorem uncertainty_nonneg (d₁ d₂ σa σb : ℝ) : 0 ≤ sigmaJoin d₁ d₂ σa σb ∧ 0 ≤ sigmaAdd σa σb :=
  ⟨sqrt_nonneg _, sqrt_nonneg _⟩

/-- a plain quantity behaves as a measurement with zero uncertainty -/
theorem mul_plain (a b σa : ℝ) : sigmaMul a b σa 0 = |b * σa| := by
  unfold sigmaMul sigmaJoin; simp [sqrt_sq_eq_abs]
theorem add_plain (σa : ℝ) : sigmaAdd σa 0 = |σa| := by
  unfold sigmaAdd; simp [sqrt_sq_eq_abs]
theorem pow_abs (x σ : ℝ) (n : ℤ) : sigmaPow x σ n = |(n : ℝ) * (x ^ (n - 1) * σ)| := by
  unfold sigmaPow; exact sqrt_sq_eq_abs _
/-- `x**1` keeps the uncertainty, `x**0` is exact -/
theorem pow_one (x σ : ℝ) : sigmaPow x σ 1 = |σ| := by rw [pow_abs]; simp
/-- well defined at a zero measurand: (0 ± σa)·(b ± σb) has uncertainty |b·σa| -/
theorem mul_at_zero (b σa σb : ℝ) : sigmaMul 0 b σa σb = |b * σa| := by
  unfold sigmaMul sigmaJoin; simp [sqrt_sq_eq_abs]

/-- the result does not depend on the units operands are expressed in: rescaling the operands
    by positive constants rescales the product's uncertainty with the product -/
theorem mul_unit_independent (a b σa σb k l : ℝ) (hk : 0 ≤ k) (hl : 0 ≤ l) :
    sigmaMul (k * a) (l * b) (k * σa) (l * σb) = (k * l) * sigmaMul a b σa σb := by
  unfold sigmaMul sigmaJoin
  have : (l * b * (k * σa)) ^ 2 + (k * a * (l * σb)) ^ 2 = (k * l) ^ 2 * ((b * σa) ^ 2 + (a * σb) ^ 2) := by ring
  rw [this, sqrt_mul (by positivity), sqrt_sq (by positivity)]

theorem add_unit_independent (σa σb k : ℝ) (hk : 0 ≤ k) :
    sigmaAdd (k * σa) (k * σb) = k * sigmaAdd σa σb := by
  unfold sigmaAdd
  have : (k * σa) ^ 2 + (k * σb) ^ 2 = k ^ 2 * (σa ^ 2 + σb ^ 2) := by ring
  rw [this, sqrt_mul (by positivity), sqrt_sq hk]

/-! ### the model computes these formulas -/

/-- `Measurement.__mul__`: the uncertainty the model returns (before `abs`) is `sigmaMul`. -/
theorem mul_uncertainty_model {a b : Meas ℝ}
    (h1 : a.measurand.mag.isDec = false) (h2 : b.measurand.mag.isDec = false)
    (h3 : a.uncertainty.isDec = false) (h4 : b.uncertainty.isDec = false) :
    (Meas.join b.measurand.mag a.measurand.mag a b).valR =
      sigmaMul a.measurand.mag.valR b.measurand.mag.valR a.uncertainty.valR b.uncertainty.valR := by
  rw [join_valR h2 h1 h3 h4]; rfl

/-- `_join_uncertainties` in general. -/
theorem join_model {d₁ d₂ : Mag ℝ} {a b : Meas ℝ} (h1 : d₁.isDec = false) (h2 : d₂.isDec = false)
    (h3 : a.uncertainty.isDec = false) (h4 : b.uncertainty.isDec = false) :
    (Meas.join d₁ d₂ a b).valR = sigmaJoin d₁.valR d₂.valR a.uncertainty.valR b.uncertainty.valR :=
  join_valR h1 h2 h3 h4

/-! non-vacuity: the README example (2 ± 0.1)·(3 ± 0.2) = 6 ± 0.5 -/
example : sigmaMul 2 3 (1/10) (2/10) = 1/2 := by
  unfold sigmaMul sigmaJoin
  rw [show ((3:ℝ) * (1/10)) ^ 2 + (2 * (2/10)) ^ 2 = (1/2) ^ 2 by norm_num]
  exact sqrt_sq (by norm_num)

end Measured.C14
