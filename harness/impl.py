"""Executes op lines of the line protocol (DESIGN.md Appendix A) on the REAL library,
in-process, and prints the same canonical answers the Lean driver prints.

Runs under /venv/bin/python with PYTHONPATH=<repo>/src.  Objects are named by creation
ordinal (`u17` = 18th entry of Unit._known), so object identity itself is compared.
"""
import copy
import decimal
import json
import pickle
import os
import struct
import sys
from decimal import Decimal
from fractions import Fraction

REPO = os.environ.get("MEASURED_REPO", "/repo")
SRC = os.path.join(REPO, "src")
if sys.path[0] != SRC:
    sys.path.insert(0, SRC)

import measured  # noqa: E402

assert os.path.abspath(measured.__file__).startswith(os.path.abspath(SRC)), measured.__file__

import measured.systems  # noqa: E402,F401
import measured.geometry  # noqa: E402,F401
import measured.physics  # noqa: E402,F401
from measured import (  # noqa: E402
    Dimension,
    FractionalDimensionError,
    Level,
    Logarithm,
    Measurement,
    One,
    Prefix,
    Quantity,
    Unit,
    approximately,
    conversions,
)
from measured.parsing import ParseError  # noqa: E402
from measured.json import MeasuredJSONDecoder, MeasuredJSONEncoder  # noqa: E402

MOD = 2305843009213693951


def hash_str(s):
    h = 7
    for b in s.encode("utf-8"):
        h = (h * 1000003 + b + 1) % MOD
    return h


def exc_name(e):
    if isinstance(e, ParseError):
        return "ParseError"
    if type(e).__module__.startswith("lark.") and any(c.__name__ == "LarkError" for c in type(e).__mro__):
        return "ParseError"
    if isinstance(e, conversions.ConversionNotFound):
        return "ConversionNotFound"
    if isinstance(e, FractionalDimensionError):
        return "Fractional"
    if isinstance(e, KeyError):
        return "KeyError"
    if isinstance(e, TypeError):
        return "TypeError"
    if isinstance(e, AssertionError):
        return "Assertion"
    if isinstance(e, ZeroDivisionError):
        return "ZeroDivision"
    if isinstance(e, OverflowError):
        return "Overflow"
    if isinstance(e, (decimal.InvalidOperation,)):
        return "Other:InvalidOperation"
    if isinstance(e, ValueError):
        return "ValueError"
    return "Other:" + type(e).__name__


_BIG = 10 ** 1000


def istr(n):
    """Decimal text of an int; beyond 1000 digits (Python refuses int->str past 4300 digits)
    hexadecimal with an `H` mark.  The Lean driver prints the same form."""
    if -_BIG < n < _BIG:
        return "%d" % n
    return ("-" if n < 0 else "") + "H" + "%x" % abs(n)


def show_mag(m):
    if isinstance(m, bool):
        return "x:bool"
    if isinstance(m, int):
        return "i:" + istr(m)
    if isinstance(m, float):
        return "f:%016x" % struct.unpack("<Q", struct.pack("<d", m))[0]
    if isinstance(m, Decimal):
        if not m.is_finite():
            return "d:nonfinite"
        f = Fraction(m)
        return "d:%s/%s" % (istr(f.numerator), istr(f.denominator))
    if isinstance(m, complex):
        return "x:complex"
    return "x:" + type(m).__name__


def parse_mag(t):
    if t.startswith("i:"):
        return int(t[2:])
    if t.startswith("f:"):
        return struct.unpack("<d", struct.pack("<Q", int(t[2:], 16)))[0]
    if t.startswith("d:"):
        n, d = t[2:].split("/")
        # exact when the denominator is of the form 2^a 5^b (the generators only emit such)
        with decimal.localcontext() as ctx:
            ctx.prec = 60
            return Decimal(int(n)) / Decimal(int(d))
    raise ValueError(t)


class Bad(Exception):
    pass


class Session:
    def __init__(self):
        self.units = []
        self.ord = {}
        self.sync()
        self.qs = []
        self.ms = []
        self.ls = []
        self.lus = []

    # --- object <-> ordinal -------------------------------------------------
    def sync(self):
        vals = list(Unit._known.values())
        for i in range(len(self.units), len(vals)):
            self.units.append(vals[i])
            self.ord[id(vals[i])] = i

    def uid(self, u):
        self.sync()
        return self.ord[id(u)]

    def U(self, t):
        if not t.startswith("u"):
            raise Bad(t)
        i = int(t[1:])
        self.sync()
        if i >= len(self.units):
            raise Bad(t)
        return self.units[i]

    def P(self, t):
        b, e = t[1:].split(":")
        return Prefix(int(b), int(e))

    def D(self, t):
        body = t[1:]
        exps = tuple(int(x) for x in body.split(",")) if body else ()
        return Dimension(exps)

    def arg(self, t):
        if t.startswith("s:"):
            return t[2:]
        if t.startswith("h:"):            # arbitrary text: dot-separated hex code points
            return "".join(chr(int(x, 16)) for x in t[2:].split(".") if x)
        if t.startswith("n:"):
            return int(t[2:])
        if t.startswith("u"):
            return self.U(t)
        if t.startswith("q"):
            return self.qs[int(t[1:])]
        if t.startswith("M"):
            return self.ms[int(t[1:])]
        if t.startswith("L"):
            return self.ls[int(t[1:])]
        if t.startswith("p"):
            return self.P(t)
        return parse_mag(t)

    # --- canonical output ---------------------------------------------------
    def show_pfx(self, p):
        e = p.exponent
        if isinstance(e, float) and e == int(e):
            e = int(e)
        return "%d:%s" % (p.base, istr(e) if isinstance(e, int) else e)

    def show_unit_rec(self, u):
        return "%s|%s|%s|%s|%s" % (
            self.show_pfx(u.prefix),
            ",".join("%d:%s" % (self.uid(f), istr(e)) for f, e in u.factors.items()),
            ",".join(istr(e) for e in u.dimension.exponents),
            ";".join(u.names),
            ";".join(u.symbols),
        )

    def show_q(self, q):
        return "%s\tu%d" % (show_mag(q.magnitude), self.uid(q.unit))

    def show(self, r):
        if r is None:
            return "ok"
        if isinstance(r, bool):
            return "ok\tb\t%s" % ("true" if r else "false")
        if isinstance(r, Unit):
            return "ok\tu%d" % self.uid(r)
        if isinstance(r, Quantity):
            self.qs.append(r)
            return "ok\tq\t" + self.show_q(r)
        if isinstance(r, Measurement):
            self.ms.append(r)
            return "ok\tM\t%s\t%s" % (self.show_q(r.measurand), show_mag(r.uncertainty.magnitude))
        if isinstance(r, Level):
            self.ls.append(r)
            return "ok\tL\t%s\t%d" % (show_mag(r.magnitude), [i for i, x in enumerate(self.lus) if x is r.unit][0])
        if isinstance(r, Prefix):
            return "ok\tp" + self.show_pfx(r)
        if isinstance(r, tuple) and len(r) == 2 and all(isinstance(x, Unit) for x in r):
            return "ok\tu%d\tu%d" % (self.uid(r[0]), self.uid(r[1]))
        if isinstance(r, str):
            return "ok\ts\t" + r
        if isinstance(r, (int, float, Decimal)):
            return "ok\tm\t" + show_mag(r)
        if r is NotImplemented:
            return "ERR\tTypeError"
        return "ok\t?" + type(r).__name__

    def state_digest(self):
        self.sync()
        us = hash_str("\n".join(self.show_unit_rec(u) for u in self.units))
        bn = hash_str("\n".join("%s=%d" % (n, self.uid(u)) for n, u in Unit._by_name.items()))
        bs = hash_str("\n".join("%s=%d" % (n, self.uid(u)) for n, u in Unit._by_symbol.items()))
        pn = hash_str("\n".join("%s=%s" % (n, self.show_pfx(p)) for n, p in Prefix._by_name.items()))
        ps = hash_str("\n".join("%s=%s" % (n, self.show_pfx(p)) for n, p in Prefix._by_symbol.items()))
        dn = hash_str("\n".join("%s=%s" % (n, ",".join(istr(e) for e in d.exponents))
                                for n, d in Dimension._by_name.items()))
        b = hash_str(",".join(str(i) for i in sorted(self.uid(u) for u in Unit._base)))
        g = hash_str("\n".join(
            "%d>%s" % (self.uid(a), ",".join(str(self.uid(c)) for c in row))
            for a, row in sorted(conversions._ratios.items(), key=lambda kv: self.uid(kv[0])) if row))
        return ("n=%d units=%d byName=%d bySym=%d pfxByName=%d pfxBySym=%d dimByName=%d base=%d graph=%d"
                % (len(self.units), us, bn, bs, pn, ps, dn, b, g))

    def show_plan(self, plan):
        def hop(h):
            return "%s+%s@u%d" % (show_mag(h[0]), show_mag(h[1]), self.uid(h[2]))
        return ";".join("%s^%d[%s]" % (show_mag(r), e, ",".join(hop(h) for h in path))
                        for r, path, e in plan)

    # --- execution ------------------------------------------------------------
    def execute(self, line):
        f = line.split("\t")
        try:
            try:
                return self.show(self.dispatch(f))
            finally:
                self.sync()
        except Bad:
            return "BAD"
        except RecursionError:
            return "ERR\tOther:RecursionError"
        except Exception as e:  # noqa: BLE001
            return "ERR\t" + exc_name(e)

    def dispatch(self, f):
        if f == ["STATE"]:
            return RawLine("ok\t" + self.state_digest())
        if f[0] == "U":
            return self.unit_op(f[1], f[2:])
        if f[0] == "N" and f[1] in ("pser", "dser"):
            if f[1] == "pser":
                b, e = f[3][1:].split(":")
                obj = Prefix(int(b), int(e))
                back = roundtrip(f[2], obj)
                if back is not obj:
                    return RawLine("ok\tNOT-IDENTICAL")
                return RawLine("ok\tp" + self.show_pfx(back))
            key = tuple(int(x) for x in f[3][1:].split(","))
            obj = Dimension(key)
            back = roundtrip(f[2], obj)
            if back is not obj:
                return RawLine("ok\tNOT-IDENTICAL")
            return RawLine("ok\td" + ",".join(istr(e) for e in back.exponents))
        if f[0] == "N":
            return self.n_op(f[1], f[2:])
        if f[0] == "X" and f[1] in ("reenter", "qreenter", "qtext") and len(f) == 4:
            return roundtrip(f[2], self.arg(f[3]))
        if f[0] == "X" and f[1] == "pdump":
            self.blobs = getattr(self, "blobs", [])
            self.blobs.append((pickle.dumps(self.arg(f[2])), json.dumps(self.arg(f[2]), cls=MeasuredJSONEncoder)))
            return RawLine("ok")
        if f[0] == "X" and f[1] == "pload":
            blob = self.blobs[int(f[3][2:])]
            return pickle.loads(blob[0]) if f[2] == "pickle" else json.loads(blob[1], cls=MeasuredJSONDecoder)
        if f[0] == "X" and f[1] == "ptree" and len(f) == 5:
            return RawLine("ok\ts\t" + show_tree(tree_parser(f[2]).parse(self.arg(f[4]), start=f[3])))
        if f[0] == "X":
            return self.x_op(f[1], [self.arg(t) for t in f[2:]])
        raise Bad(f[0])

    # --- names of the single-name classes (Prefix, Dimension) ---------------------------------
    @staticmethod
    def opt(t):
        return None if t == "-" else ("" if t == "=" else t)

    def n_op(self, op, a):
        if op == "pfx":
            b, e = a[0][1:].split(":")
            p = Prefix(int(b), int(e), self.opt(a[1]), self.opt(a[2]))
            return RawLine("ok\tp" + self.show_pfx(p))
        if op == "dim":
            d = Dimension(tuple(int(x) for x in a[0][1:].split(",")), self.opt(a[1]), self.opt(a[2]))
            return RawLine("ok\td" + ",".join(istr(e) for e in d.exponents))
        if op == "ddefine":
            # only asked with a taken name: must raise ValueError before anything is widened
            Dimension.define(a[0], self.opt(a[1]))
            raise Unmodelled()
        if op == "dderive":
            key = tuple(int(x) for x in a[0][1:].split(","))
            if key not in Dimension._known:
                raise Unmodelled()
            d = Dimension.derive(Dimension._known[key], a[1], self.opt(a[2]))
            return RawLine("ok\td" + ",".join(istr(e) for e in d.exponents))
        if op == "pstate":
            # canonical order: anonymous prefixes may have been created (by unit arithmetic) long
            # before they were named, so `_known` order is not comparable; sort the lines
            named = "\n".join(sorted("%s|%s|%s" % (self.show_pfx(p), p.name or "-", p.symbol or "-")
                                     for p in Prefix._known.values() if p.name or p.symbol))
            bn = "\n".join("%s=%s" % (n, self.show_pfx(p)) for n, p in Prefix._by_name.items())
            bs = "\n".join("%s=%s" % (n, self.show_pfx(p)) for n, p in Prefix._by_symbol.items())
            return RawLine("ok\tobjs=%d byName=%d bySym=%d" % (hash_str(named), hash_str(bn), hash_str(bs)))
        if op == "dstate":
            named = "\n".join(sorted("%s|%s" % (",".join(istr(e) for e in d.exponents), d.name)
                                     for d in Dimension._known.values() if d.name))
            bn = "\n".join("%s=%s" % (n, ",".join(istr(e) for e in d.exponents)) for n, d in Dimension._by_name.items())
            return RawLine("ok\tobjs=%d byName=%d" % (hash_str(named), hash_str(bn)))
        raise Bad(op)

    def unit_op(self, op, a):
        if op == "info":
            return RawLine("ok\t" + self.show_unit_rec(self.U(a[0])))
        if op == "mul":
            return self.U(a[0]) * self.U(a[1])
        if op == "div":
            return self.U(a[0]) / self.U(a[1])
        if op == "pow":
            return self.U(a[0]) ** int(a[1])
        if op == "root":
            return self.U(a[0]).root(int(a[1]))
        if op == "ratio":
            return self.U(a[0]).as_ratio()
        if op == "unpre":
            return self.U(a[0]).quantify().unit
        if op == "pmul":
            return self.P(a[0]) * self.U(a[1])
        if op == "define":
            return Unit.define(self.D(a[0]), a[1], a[2])
        if op == "derive":
            return Unit.derive(self.U(a[0]), a[1], a[2])
        if op == "alias":
            return self.U(a[0]).alias(name=None if a[1] == "-" else a[1],
                                      symbol=None if a[2] == "-" else a[2])
        if op == "resolve":
            return Unit.resolve_symbol(a[0])
        if op == "named":
            return Unit.named(a[0])
        raise Bad(op)

    def x_op(self, op, a):
        import operator as o
        binops = {"add": o.add, "sub": o.sub, "mul": o.mul, "div": o.truediv,
                  "eq": o.eq, "ne": o.ne, "lt": o.lt, "le": o.le, "gt": o.gt, "ge": o.ge}
        if op == "qnew":
            return Quantity(a[0], a[1])
        if op in binops:
            return binops[op](a[0], a[1])
        if op == "pow":
            return a[0] ** a[1]
        if op == "root":
            return a[0].root(a[1])
        if op == "neg":
            return -a[0]
        if op == "pos":
            return +a[0]
        if op == "abs":
            return abs(a[0])
        if op == "conv":
            return a[0].in_unit(a[1])
        if op == "unpre":
            return a[0].unprefixed()
        if op == "quantify":
            return a[0].quantify()
        if op == "pvalue":
            return a[0].quantify()
        if op == "equate":
            return conversions.equate(a[0], a[1])
        if op == "translate":
            return conversions.translate(a[0], a[1])
        if op == "plan":
            return RawLine("ok\tplan\t" + self.show_plan(conversions._plan_conversion(a[0], a[1])))
        if op == "path":
            p = conversions._find_path(a[0], a[1])
            return RawLine("ok\tplan\t" + self.show_plan([(1, p, 1)]))
        if op == "mnew":
            return Measurement(a[0], a[1])
        if op == "approx":
            return approximately(a[0], a[1])
        if op == "lunit":
            lu = Logarithm(a[0], prefix=a[1])[a[2]]
            for i, x in enumerate(self.lus):
                if x is lu:
                    return RawLine("ok\tlu\t%d" % i)
            self.lus.append(lu)
            return RawLine("ok\tlu\t%d" % (len(self.lus) - 1))
        if op == "lnew":
            return Level(a[0], self.lus[a[1]])
        if op == "level":
            return self.lus[a[0]].level(a[1])
        if op == "lquant":
            return a[0].quantify()
        if op == "ustr":
            return str(a[0])
        if op == "qstr":
            # the unit part of str(quantity): everything after str(magnitude) + " "
            q = a[0]
            text = str(q)
            if q.unit.symbol:
                head = "%s " % (q.magnitude,)
            else:
                from measured.formatting import _unit_to_magnitude_and_terms
                um, _ = _unit_to_magnitude_and_terms(q.unit)
                head = "%s " % ((q * um).magnitude,)
            assert text.startswith(head), (text, head)
            if not q.unit.symbol and um != 1:
                raise Unmodelled()
            return text[len(head):]
        if op == "ufmt":
            return format(a[0], "/")
        if op in ("reenter", "qreenter", "qtext") :
            raise Bad(op)            # routed in dispatch (they carry a `how` argument)
        if op == "uparse":
            return Unit.parse(a[0])
        if op == "qparse":
            return Quantity.parse(a[0])
        raise Bad(op)


_ADAPTERS = {}


def _type_adapter(cls):
    if cls not in _ADAPTERS:
        from pydantic import TypeAdapter
        _ADAPTERS[cls] = TypeAdapter(cls)
    return _ADAPTERS[cls]


def roundtrip(how, obj):
    """The real serialisers: pickle (all protocols via `how`), copy, deepcopy, the library's JSON
    codec, the pydantic validator on the JSON form, and the SQL composite form."""
    if how.startswith("pickle"):
        proto = int(how[6:] or pickle.HIGHEST_PROTOCOL)
        return pickle.loads(pickle.dumps(obj, protocol=proto))
    if how == "copy":
        return copy.copy(obj)
    if how == "deepcopy":
        return copy.deepcopy(obj)
    if how == "json":
        return json.loads(json.dumps(obj, cls=MeasuredJSONEncoder), cls=MeasuredJSONDecoder)
    if how == "jsoninstalled":
        from measured.json import codecs_installed
        with codecs_installed():
            return json.loads(json.dumps(obj))
    if how == "pydantic":
        # what a pydantic model with a field of this type does: model_dump_json / model_validate_json
        ta = _type_adapter(type(obj))
        return ta.validate_json(ta.dump_json(obj))
    if how == "pydanticname":
        # the other two inputs the validators accept: a registered name, or the object itself
        name = getattr(obj, "name", None)
        return type(obj)._pydantic_validate(name if isinstance(name, str) and name else obj)
    if how == "composite":
        return Quantity(*obj.__composite_values__())
    raise Bad(how)


_TREE_PARSERS = {}


def makefile_args():
    """Arguments of the Makefile rule `python -m lark.tools.standalone ARGS $<`."""
    import re
    text = open(os.path.join(REPO, "Makefile"), encoding="utf-8").read()
    m = re.search(r"lark\.tools\.standalone([^\n|]*)", text)
    if not m:
        return ["--start", "unit", "--start", "quantity"]
    return [x for x in m.group(1).split() if x not in ("$<", "\\")]


def tree_parser(which):
    """`shipped`: the checked-in generated module, no transformer (plain trees);
    `fresh`: the installed lark compiling measured.lark the way the Makefile rule does."""
    if which not in _TREE_PARSERS:
        if which == "shipped":
            from measured import _parser
            _TREE_PARSERS[which] = _parser.Parser()
        elif which == "fresh":
            from lark.tools import build_lalr, lalr_argparser
            path = os.path.join(REPO, "src", "measured", "measured.lark")
            ns = lalr_argparser.parse_args(makefile_args() + [path])
            try:
                _TREE_PARSERS[which] = build_lalr(ns)[0]
            finally:
                ns.grammar_file.close()
        else:
            raise Bad(which)
    return _TREE_PARSERS[which]


def show_tree(t):
    if hasattr(t, "children"):
        return "(%s %s)" % (t.data, " ".join(show_tree(c) for c in t.children))
    return "%s:%s" % (t.type, str(t))


class RawLine:
    def __init__(self, text):
        self.text = text


class Unmodelled(Exception):
    pass


_orig_show = Session.show


def _show(self, r):
    if isinstance(r, RawLine):
        return r.text
    return _orig_show(self, r)


Session.show = _show


def main():
    s = Session()
    out = sys.stdout
    # IMPL_ALIGN=<file with another run's answers>: keep this run's quantity/measurement/level
    # stores index-aligned with that run (used to compare python and python -O on one op list:
    # an op that raises in one mode and returns a quantity in the other must not shift the
    # numbering of later operands).
    align = None
    if os.environ.get("IMPL_ALIGN"):
        with open(os.environ["IMPL_ALIGN"], encoding="utf-8") as fh:
            align = fh.read().split("\n")
    for i, line in enumerate(sys.stdin):
        line = line.rstrip("\n").rstrip("\r")
        before = (len(s.qs), len(s.ms), len(s.ls))
        res = s.execute(line)
        if align is not None and i < len(align):
            for store, tag, k in ((s.qs, "ok\tq\t", 0), (s.ms, "ok\tM\t", 1), (s.ls, "ok\tL\t", 2)):
                other_added = align[i].startswith(tag)
                mine_added = len(store) > before[k]
                if other_added and not mine_added:
                    store.append(None)
                elif mine_added and not other_added:
                    store.pop()
        out.write(res + "\n")
    out.flush()


if __name__ == "__main__":
    main()
