"""C07 — impossible conversions fail only with ConversionNotFound, with or without -O.

Generator: source/target pairs of equal dimension from the C04 space plus (a) pairs with no
connecting definitions (freshly defined, unconnected units), (b) partially connected compound
units, (c) units defined in terms of products (a Time unit defined as a quotient of others);
each pair is converted, added, subtracted and compared (== < sorted-style).
The whole case list runs under the default interpreter AND under `python -O` (and the Lean
driver with and without assertions); the default run then replays its own op list in a
`python -O` child and compares line by line.
Oracle (implementation only): the exception class of every failure is ConversionNotFound for
conversions / + / -, `== False` or TypeError for comparisons; no AssertionError, KeyError,
ZeroDivisionError, IndexError, RecursionError; and -O changes neither which operations succeed
nor any returned value.
"""
import os
import subprocess
import sys
import tempfile
from fractions import Fraction as F

from measured import Quantity, Unit

from .convcommon import ConvContext, classify, ftok

LEVEL_TEXT = ("Lean, for every input: == and != never let ConversionNotFound escape (Quantity.__eq__ answers NotImplemented: "
              "eqCore_no_notFound) and < likewise (ltCore_no_notFound; the reflected dunder then yields TypeError - C03 "
              "lt_incommensurable); converting across dimensions raises exactly ConversionNotFound and changes nothing; an assert "
              "is a no-op under -O and otherwise passes or raises AssertionError only (cassert_off/on). The PATH SEARCH "
              "(_find_path_recursive/_reduce_dimension) is proved to end quietly: on every graph reached by unit operations and "
              "dimensionally sound, size-consistent declarations, between units of one dimension it returns a path or the empty "
              "list and raises nothing, with assertions on or off, and the model's recursion fuel is never exhausted "
              "(findPath_total, path_search_never_raises: the bounded recursion of the model is the unbounded one of the code), and "
              "python -O changes nothing there: the search returns the same path and interns the same units in both modes, and a "
              "directly settled conversion succeeds in both modes with the same result (path_search_mode_independent, "
              "direct_conversion_mode_independent; Proofs/PathMode: every action of the search is oblivious of the flag except "
              "the one assert of _reduce_dimension, which holds for units of one dimension). THROUGH THE FACTOR PLANNER, for "
              "conversions between simple units (products of powers of prefixed base units of fundamental, independent dimensions "
              "whose pairing exhausts both sides): convert returns a quantity or raises ConversionNotFound and nothing else "
              "(simple_conversion_only_not_found: _inline_paths total, plan application cannot divide by zero) and python -O "
              "returns the same result (simple_conversion_mode_independent). ON THE SHIPPED DEFINITIONS THEMSELVES (float constants, "
              "only approximately consistent - termination and exception freedom need only the SHAPE of the graph, which the kernel "
              "checks per run on the regenerated tables): the search returns for every pair of interned units of one dimension after "
              "any unit operations (findPath_totalN, shipped_path_search_never_raises) and convert between simple units returns or "
              "raises ConversionNotFound only (convert_simple_totalN, shipped_simple_only_not_found; inhabited by 60 mile/hour -> "
              "meter/second); and CONNECTED => CONVERTS: the search is complete on fundamental dimensions (flatPath_complete), so units "
              "of one fundamental dimension that are linked by declared edges - any prefixes, also inside simple compound units - "
              "convert: convert returns, no exception of any kind (convert_flat_connected, convert_simple_connected; on the "
              "regenerated graph the 90 fundamental units are mutually reachable: shipped_fundamental_units_interconvert). "
              "That no AssertionError escapes the factor-matching PLANNER is false for the pinned code (known findings, by structural class); outside those classes the "
              "claim rests on the kernel-evaluated family - identical outcomes with assertions on and off (family_dashO_same) - on "
              "differential execution of the model in both modes against python and python -O, and on the oracle.")
LEVEL_NOTE = ("Partial: the planner is not proved assertion-free. ZeroDivisionError from float under/overflow of extreme prefixes "
              "(K6) is a float-range effect the exact model cannot exhibit; generated magnitudes keep results within 1e+-250.")
TECHNIQUE = "Lean 4 proofs (exception closure of == and <, assert semantics) + kernel-evaluated family in both interpreter modes + differential correspondence under python and python -O + oracle; partial"

THEOREMS = [
    "Measured.C07.cassert_off", "Measured.C07.cassert_on", "Measured.C07.eqCore_no_notFound",
    "Measured.C07.ltCore_no_notFound", "Measured.C07.convert_incommensurable",
    "Measured.C03.lt_incommensurable", "Measured.C03.eq_incommensurable",
    "Measured.Obligations.family_dashO_same",
    "Measured.findPath_total", "Measured.C07.path_search_never_raises",
    "Measured.C07.path_search_mode_independent", "Measured.C07.direct_conversion_mode_independent",
    "Measured.C07.simple_conversion_only_not_found", "Measured.C07.simple_conversion_mode_independent",
    "Measured.convert_simple_total", "Measured.convert_simple_mode",
    "Measured.findPath_totalN", "Measured.convert_simple_totalN",
    "Measured.Obligations.NearShipped.shipped_path_search_never_raises",
    "Measured.Obligations.NearShipped.shipped_simple_only_not_found",
    "Measured.Obligations.NearShipped.shipped_simple_total_inhabited",
    "Measured.convert_flat_connected", "Measured.convert_simple_connected",
    "Measured.Obligations.NearShipped.shipped_fundamental_units_interconvert",
    "Measured.Obligations.NearShipped.shipped_simple_units_interconvert",
    "Measured.C07.path_search_never_raises_near", "Measured.C07.simple_conversion_only_not_found_near", "Measured.C07.search_complete", "Measured.C07.connected_converts", "Measured.C07.connected_converts_simple",
]
LEAN_TARGETS = ["Props.C07", "Obligations.C07", "Obligations.C07Near", "Obligations.C09Flat", "Props.Planner"]
QUICK = {"chunks": 3, "ops": 1200}
THOROUGH = {"chunks": 8, "ops": 8000}
RTOL = 1e-11
MODES = [{"py": [], "drv": []}, {"py": ["-O"], "drv": ["--no-asserts"]}]
RULE = ("(source unit, target unit, operation) incl. unconnected and product-defined units; each case under python and "
        "python -O; non-trivial = the operation needs a conversion; distinct by (units, operation)")

ALLOWED = {
    "conv": {"ConversionNotFound"}, "add": {"ConversionNotFound"}, "sub": {"ConversionNotFound"},
    "eq": set(), "ne": set(), "lt": {"TypeError"}, "le": {"TypeError"}, "gt": {"TypeError"}, "ge": {"TypeError"},
}


class Context(ConvContext):
    def __init__(self, sess, rng):
        super().__init__(sess, rng)
        self.lines = []
        self.outs = []


def oracle(ctx, line, res):
    ctx.lines.append(line)
    ctx.outs.append(res)
    f = line.split("\t")
    if f[0] != "X" or f[1] not in ALLOWED:
        return []
    try:
        a, b = ctx.sess.arg(f[2]), ctx.sess.arg(f[3])
    except Exception:  # noqa: BLE001
        return []
    if not isinstance(a, Quantity):
        return []
    ctx.oracle_checks += 1
    tu = b if isinstance(b, Unit) else b.unit
    if res.startswith("ERR"):
        err = res[4:]
        if err in ALLOWED[f[1]]:
            return []
        cls = classify(a.unit, tu)
        return [{"kind": "conversion-raises", "error": err, "class": cls, "opname": f[1],
                 "from": str(a.unit), "to": str(tu)}]
    return []


def final_oracle(ctx):
    """default interpreter vs python -O on the same op list (only meaningful in the default run)."""
    if sys.flags.optimize:
        return []
    here = os.path.dirname(os.path.dirname(os.path.abspath(__file__)))
    with tempfile.NamedTemporaryFile("w", suffix=".ops", delete=False, dir="/tmp", encoding="utf-8") as fh:
        fh.write("\n".join(ctx.lines) + "\n")
        path = fh.name
    with tempfile.NamedTemporaryFile("w", suffix=".out", delete=False, dir="/tmp", encoding="utf-8") as fh:
        fh.write("\n".join(ctx.outs) + "\n")
        apath = fh.name
    try:
        env = dict(os.environ, IMPL_ALIGN=apath)
        with open(path, "rb") as fin:
            p = subprocess.run(["/venv/bin/python", "-O", os.path.join(here, "impl.py")], stdin=fin,
                               stdout=subprocess.PIPE, stderr=subprocess.PIPE, timeout=1200, env=env)
    finally:
        os.unlink(path)
        os.unlink(apath)
    outs_o = p.stdout.decode("utf-8", "replace").split("\n")[:-1]
    fails = []
    from diff import line_equal
    ctx.extra["dashO_compared"] = 0
    for i, (line, a) in enumerate(zip(ctx.lines, ctx.outs)):
        if i >= len(outs_o):
            fails.append({"kind": "dashO-run-truncated", "at": i})
            break
        b = outs_o[i]
        ctx.extra["dashO_compared"] += 1
        ctx.oracle_checks += 1
        if line_equal(a, b, 1e-15):
            continue
        f = line.split("\t")
        if a == "ERR\tAssertion":
            # the default run already failed this case (reported by `oracle`); -O continuing with a
            # number is the same defect seen from the other side
            continue
        if f[0] == "STATE" or b == "BAD" or (a.startswith("ok\tu") and b.startswith("ok\tu")):
            # creation ordinals diverged: an assertion-only code path (`(unit**-1)` inside an
            # `assert`) interned a unit in the default run only.  The rest of this op list names
            # units by ordinal and is no longer the same program under -O; stop here (the -O mode
            # has its own generated run, compared with the model built without assertions).
            ctx.extra["dashO_stopped_at"] = i
            break
        fails.append({"kind": "dashO-changes-outcome", "op": line, "default": a, "dashO": b, "op_index": i})
        if len(fails) > 20:
            break
    return fails


def nontrivial(ctx, line, res):
    f = line.split("\t")
    if f[0] == "X" and f[1] in ALLOWED:
        return line
    return None


def generate(ctx, n_ops):
    rng = ctx.rng
    emitted = 0
    tag = "c7_%d_" % rng.randrange(10**6)
    meter = ctx.sess.uid(Unit._by_name["meter"])
    second = ctx.sess.uid(Unit._by_name["second"])
    ldim = ",".join(str(e) for e in Unit._by_name["meter"].dimension.exponents)
    tdim = ",".join(str(e) for e in Unit._by_name["second"].dimension.exponents)
    special = {}

    def define(name, dim):
        nonlocal emitted
        res = yield "U\tdefine\td%s\t%s\t%s" % (dim, tag + name, tag + name)
        emitted += 1
        return int(res.split("\t")[1][1:]) if res.startswith("ok\tu") else None

    def eq_units(a, k, b):
        nonlocal emitted
        yield "X\tqnew\ti:1\tu%d" % a
        yield "X\tqnew\ti:%d\tu%d" % (k, b)
        ctx.nq += 2
        emitted += 2
        yield "X\tequate\tq%d\tq%d" % (ctx.nq - 2, ctx.nq - 1)
        emitted += 1

    # (a) unconnected length units, (b) a pair connected only to each other, (c) product-defined time unit
    for nm, dim in (("Gud", ldim), ("Mun", ldim), ("Stride", ldim), ("Pace", None), ("Lap", tdim), ("Iso", tdim)):
        if nm == "Pace":
            continue
        special[nm] = yield from define(nm, dim)
    if all(v is not None for v in special.values()):
        yield from eq_units(special["Gud"], 7, special["Mun"])
        # Pace = Stride / second (a compound unit), Lap = 6 Stride / Pace  (a Time unit defined through a quotient)
        res = yield "U\tdiv\tu%d\tu%d" % (special["Stride"], second)
        emitted += 1
        if res.startswith("ok\tu"):
            pace = int(res.split("\t")[1][1:])
            res = yield "U\tdiv\tu%d\tu%d" % (special["Stride"], pace)
            emitted += 1
            if res.startswith("ok\tu"):
                yield from eq_units(special["Lap"], 6, int(res.split("\t")[1][1:]))
    # (d) named units whose dimension is a product of different base dimensions, each to the first power
    # (mass x length, a "tonne-kilometre"), with no definition as a product of a mass and a length unit:
    #     Haul2 = 2 Haul,  Haul = 5 OtherSack*Pace2;  Sack is connected to nothing
    mdim = ",".join(str(e) for e in Unit._by_name["gram"].dimension.exponents)
    mldim = ",".join(str(e) for e in (Unit._by_name["gram"].dimension * Unit._by_name["meter"].dimension).exponents)
    prod = {}
    for nm, dim in (("Haul", mldim), ("Haul2", mldim), ("Sack", mdim), ("OtherSack", mdim), ("Pace2", ldim), ("Tick", tdim)):
        prod[nm] = yield from define(nm, dim)
    product_cases = []
    if all(v is not None for v in prod.values()):
        yield from eq_units(prod["Haul2"], 2, prod["Haul"])
        res = yield "U\tmul\tu%d\tu%d" % (prod["OtherSack"], prod["Pace2"])
        emitted += 1
        if res.startswith("ok\tu"):
            yield from eq_units(prod["Haul"], 5, int(res.split("\t")[1][1:]))
        S, O, P, H, H2, T = (prod[k] for k in ("Sack", "OtherSack", "Pace2", "Haul", "Haul2", "Tick"))
        product_cases = [([S, P], [H2]), ([H2], [S, P]), ([S, P, T], [H2, T]), ([H2, T], [O, P, T]), ([H], [O, P]),
                         ([O, P], [H2]), ([S, P], [O, P]), ([H2, S], [H, O]), ([P, S], [H])]
    # (e) opaque base units of a MIXED-SIGN dimension (speed), two unrelated and one linked, for the
    # cancelling shapes of _cancel_factors: warp/impulse -> 1, 1 -> warp/impulse, kg*warp/impulse -> lb, crawl/warp -> 1
    from measured import One
    sdim = ",".join(str(e) for e in (Unit._by_name["meter"].dimension / Unit._by_name["second"].dimension).exponents)
    opq = {}
    for nm in ("Warp", "Impulse", "Crawl"):
        opq[nm] = yield from define(nm, sdim)
    cancel_cases = []
    if all(v is not None for v in opq.values()) and all(v is not None for v in prod.values()):
        yield from eq_units(opq["Crawl"], 2, opq["Warp"])
        one = ctx.sess.uid(One)
        kg, lb = ctx.sess.uid(Unit._by_name["kilogram"]), ctx.sess.uid(Unit._by_name["pound"])
        W, I, C = opq["Warp"], opq["Impulse"], opq["Crawl"]
        # (numerator, denominator) of source and of target
        cancel_cases = [(([W], [I]), ([one], [])), (([one], []), ([W], [I])), (([kg, W], [I]), ([lb], [])),
                        (([C], [W]), ([one], [])), (([prod["Sack"]], [prod["OtherSack"]]), ([one], [])),
                        (([prod["Sack"], W], [I]), ([kg], [])), (([kg, C], [W]), ([lb], [])), (([W], [I]), ([C], [W]))]
    ctx.resolve_sizes()
    pool_special = [v for v in special.values() if v is not None] + [meter, second]

    def build(fs, p):
        nonlocal emitted
        g = ctx.build(fs, p)
        try:
            line = next(g)
            while True:
                res = yield line
                emitted += 1
                line = g.send(res)
        except StopIteration as stop:
            return stop.value

    def ratio_unit(num, den):
        nonlocal emitted
        cur = num[0]
        for nxt in num[1:]:
            res = yield "U\tmul\tu%d\tu%d" % (cur, nxt)
            emitted += 1
            if not res.startswith("ok\tu"):
                return None
            cur = int(res.split("\t")[1][1:])
        for nxt in den:
            res = yield "U\tdiv\tu%d\tu%d" % (cur, nxt)
            emitted += 1
            if not res.startswith("ok\tu"):
                return None
            cur = int(res.split("\t")[1][1:])
        return cur

    while emitted < n_ops:
        r = rng.random()
        if cancel_cases and r < 0.05:
            (an, ad), (bn, bd) = rng.choice(cancel_cases)
            a = yield from ratio_unit(an, ad)
            b = yield from ratio_unit(bn, bd)
            if a is None or b is None:
                continue
        elif product_cases and r < 0.12:
            fa, fb = rng.choice(product_cases)
            a = b = None
            for side, fs in (("a", fa), ("b", fb)):
                cur = fs[0]
                for nxt in fs[1:]:
                    res = yield "U\tmul\tu%d\tu%d" % (cur, nxt)
                    emitted += 1
                    cur = int(res.split("\t")[1][1:]) if res.startswith("ok\tu") else None
                    if cur is None:
                        break
                if side == "a":
                    a = cur
                else:
                    b = cur
            if a is None or b is None:
                continue
        elif r < 0.35:
            # special units: same dimension, often unconnected
            a = rng.choice(pool_special)
            same = [u for u in pool_special if ctx.unit(u).dimension is ctx.unit(a).dimension]
            b = rng.choice(same)
            e = rng.choice([1, 1, 2, -1])
            ra = yield "U\tpow\tu%d\t%d" % (a, e)
            rb = yield "U\tpow\tu%d\t%d" % (b, e)
            emitted += 2
            if not (ra.startswith("ok\tu") and rb.startswith("ok\tu")):
                continue
            a, b = int(ra.split("\t")[1][1:]), int(rb.split("\t")[1][1:])
            if rng.random() < 0.3:
                # partially connected compound: multiply both by a shipped unit pair
                s, d = ctx.gen_units(clean_bias=1.0)
                x = yield from build(s[:1], None)
                y = yield from build(d[:1], None)
                if x is not None and y is not None:
                    ra = yield "U\tmul\tu%d\tu%d" % (a, x)
                    rb = yield "U\tmul\tu%d\tu%d" % (b, y)
                    emitted += 2
                    if ra.startswith("ok\tu") and rb.startswith("ok\tu"):
                        a, b = int(ra.split("\t")[1][1:]), int(rb.split("\t")[1][1:])
        else:
            src, dst = ctx.gen_units(clean_bias=0.5)
            a = yield from build(src, ctx.si_prefix() if rng.random() < 0.3 else None)
            b = yield from build(dst, ctx.si_prefix() if rng.random() < 0.3 else None)
            if a is None or b is None:
                continue
        res = yield "X\tqnew\t%s\tu%d" % (ctx.magnitude(), a)
        emitted += 1
        if not res.startswith("ok\tq"):
            continue
        qa = ctx.nq
        ctx.nq += 1
        res = yield "X\tqnew\t%s\tu%d" % (ctx.magnitude(), b)
        emitted += 1
        if not res.startswith("ok\tq"):
            continue
        qb = ctx.nq
        ctx.nq += 1
        res = yield "X\tconv\tq%d\tu%d" % (qa, b)
        emitted += 1
        if res.startswith("ok\tq"):
            ctx.nq += 1
        for op in rng.sample(["add", "sub", "eq", "ne", "lt", "le", "gt", "ge"], 3):
            res = yield "X\t%s\tq%d\tq%d" % (op, qa, qb)
            emitted += 1
            if res.startswith("ok\tq"):
                ctx.nq += 1
    yield "STATE"
