/-
  C09 — Shipped unit definitions are mutually consistent and connected to SI.

  `checkDecls` (Model/Sizes.lean) verifies an (untrusted) size certificate against every
  declaration; the theorems below say what an accepted certificate implies for *every*
  chain and *every* cycle of declarations, of any length.
-/
import Proofs.Sizes

namespace Measured.C09
open Measured

/-- If the checker accepts, the product along **any chain** of checked declarations is the
    ratio of the two end units' sizes within `(1 - tol)^k … (1/(1 - tol))^k`. -/
theorem chain_sound {s : St} {c : SizeCert} {tight loose : Rat} {inexact excluded : List Nat}
    {decls : List Decl} (h0 : 0 ≤ loose) (h1 : loose < 1) (htl : tight ≤ loose)
    (hok : checkDecls s c tight loose inexact excluded decls 0 = .ok)
    {a b : UId} {p : Rat} {k : Nat}
    (hc : Chain ((checkedDecls excluded decls 0).flatMap declEdges) a b p k) :
    (1 - loose) ^ k * sizeFn s c a ≤ p * sizeFn s c b ∧
    p * sizeFn s c b ≤ (1 / (1 - loose)) ^ k * sizeFn s c a := by
  have hlo : 0 ≤ 1 - loose := by linarith
  have hhi : 0 ≤ 1 / (1 - loose) := by apply div_nonneg <;> linarith
  exact chain_bound hlo hhi (checked_edges_ok h0 h1 htl hok) hc

/-- **Every cycle**: a closed chain of checked declarations multiplies out to 1 within the
    accumulated tolerance, whatever its length and route. -/
theorem cycle_sound {s : St} {c : SizeCert} {tight loose : Rat} {inexact excluded : List Nat}
    {decls : List Decl} (h0 : 0 ≤ loose) (h1 : loose < 1) (htl : tight ≤ loose)
    (hok : checkDecls s c tight loose inexact excluded decls 0 = .ok)
    (hσ : ∀ u, 0 < sizeFn s c u)
    {a : UId} {p : Rat} {k : Nat}
    (hc : Chain ((checkedDecls excluded decls 0).flatMap declEdges) a a p k) :
    (1 - loose) ^ k ≤ p ∧ p ≤ (1 / (1 - loose)) ^ k := by
  have hlo : 0 ≤ 1 - loose := by linarith
  have hhi : 0 ≤ 1 / (1 - loose) := by apply div_nonneg <;> linarith
  exact cycle_bound hlo hhi hσ (checked_edges_ok h0 h1 htl hok) hc

/-- **Any two chains** between the same two units agree: `p₁/p₂ ≤ (1/(1-tol))^k₁ / (1-tol)^k₂`. -/
theorem chains_agree' {s : St} {c : SizeCert} {tight loose : Rat} {inexact excluded : List Nat}
    {decls : List Decl} (h0 : 0 ≤ loose) (h1 : loose < 1) (htl : tight ≤ loose)
    (hok : checkDecls s c tight loose inexact excluded decls 0 = .ok)
    (hσ : ∀ u, 0 < sizeFn s c u)
    {a b : UId} {p₁ p₂ : Rat} {k₁ k₂ : Nat}
    (c₁ : Chain ((checkedDecls excluded decls 0).flatMap declEdges) a b p₁ k₁)
    (c₂ : Chain ((checkedDecls excluded decls 0).flatMap declEdges) a b p₂ k₂) :
    p₁ * (1 - loose) ^ k₂ ≤ p₂ * (1 / (1 - loose)) ^ k₁ := by
  have hlo : 0 < 1 - loose := by linarith
  have hhi : 0 ≤ 1 / (1 - loose) := by apply div_nonneg <;> linarith
  exact chains_agree hlo hhi hσ (checked_edges_ok h0 h1 htl hok) c₁ c₂

/-! ### non-vacuity: a three-unit system with a redundant, slightly rounded definition -/

def demo : St :=
  { ndim := 2,
    units := [ { pfx := Pfx.identity, factors := [(0, 1)], dim := [0, 0] },
               { pfx := Pfx.identity, factors := [(1, 1)], dim := [0, 1] },     -- metre
               { pfx := Pfx.identity, factors := [(2, 1)], dim := [0, 1] },     -- inch
               { pfx := Pfx.identity, factors := [(3, 1)], dim := [0, 1] } ],   -- foot
    one := 0 }

def demoDecls : List Decl :=
  [ .equate (.int 1) 2 (.dec 254 10000) 1,      -- 1 in = 0.0254 m
    .equate (.int 1) 3 (.int 12) 2,             -- 1 ft = 12 in
    .equate (.int 1) 3 (.dec 3048001 10000000) 1 ]  -- 1 ft = 0.3048001 m (rounded, 3.3e-7 off)

def demoCert : SizeCert := [(1, 1, 1), (2, 254, 10000), (3, 3048, 10000)]

example : checkDecls demo demoCert (1 / 10^12) (1 / 10^5) [2] [] demoDecls 0 = .ok := by decide +kernel
example : checkDecls demo demoCert (1 / 10^12) (1 / 10^5) [] [] demoDecls 0 = .inconsistent 2 := by decide +kernel

end Measured.C09
