/-
  Proofs/MagReal.lean — the real-number instance of the float carrier (exact arithmetic with
  `sqrt`, `log`, `rpow`), for the theorems about uncertainty propagation (C14) and levels (C18).
  A `Decimal` is an exact rational in the model; over ℝ the theorems are stated for int/float
  tagged magnitudes (`isDec = false`), whose value is `valR`.
-/
import Model.Measure
import Mathlib.Analysis.SpecialFunctions.Pow.Real
import Mathlib.Analysis.SpecialFunctions.Sqrt

namespace Measured

noncomputable instance : FloatLike ℝ where
  ofInt i := (i : ℝ)
  ofBits b := ((ratOfBits b : Rat) : ℝ)
  toRat _ := 0
  ofRat q := (q : ℝ)
  sqrt := Real.sqrt
  log := Real.log
  rpow := fun x y => x ^ y
  powInt x n := x ^ n
  isZero x := by classical exact decide (x = 0)
  lt x y := by classical exact decide (x < y)
  beq x y := by classical exact decide (x = y)

/-- value of an int/float tagged magnitude over ℝ -/
noncomputable def Mag.valR : Mag ℝ → ℝ
  | .int i => (i : ℝ)
  | .flt x => x
  | .dec q => (q : ℝ)

theorem valR_toFlt (m : Mag ℝ) : m.toFlt = m.valR := by cases m <;> rfl

theorem valR_add {a b : Mag ℝ} (ha : a.isDec = false) (hb : b.isDec = false) :
    (Mag.add a b).valR = a.valR + b.valR ∧ (Mag.add a b).isDec = false := by
  unfold Mag.add
  simp only [ha, hb, Bool.or_self, Bool.false_eq_true, ↓reduceIte]
  cases a <;> cases b <;> simp_all [Mag.valR, Mag.toFlt, Mag.isDec, FloatLike.ofInt]

theorem valR_mul {a b : Mag ℝ} (ha : a.isDec = false) (hb : b.isDec = false) :
    (Mag.mul a b).valR = a.valR * b.valR ∧ (Mag.mul a b).isDec = false := by
  unfold Mag.mul
  simp only [ha, hb, Bool.or_self, Bool.false_eq_true, ↓reduceIte]
  cases a <;> cases b <;> simp_all [Mag.valR, Mag.toFlt, Mag.isDec, FloatLike.ofInt]

theorem valR_sq {a : Mag ℝ} (ha : a.isDec = false) : a.sq.valR = a.valR ^ 2 ∧ a.sq.isDec = false := by
  cases a <;> simp_all [Mag.sq, Mag.valR, Mag.isDec, pow_two]

theorem valR_sqrtF (a : Mag ℝ) : a.sqrtF.valR = Real.sqrt a.valR ∧ a.sqrtF.isDec = false := by
  simp [Mag.sqrtF, Mag.valR, valR_toFlt, Mag.isDec, FloatLike.sqrt]

/-- the value of `_join_uncertainties(d_self, d_other, other)` -/
theorem join_valR {d₁ d₂ : Mag ℝ} {a b : Meas ℝ} (h1 : d₁.isDec = false) (h2 : d₂.isDec = false)
    (ha : a.uncertainty.isDec = false) (hb : b.uncertainty.isDec = false) :
    (Meas.join d₁ d₂ a b).valR =
      Real.sqrt ((d₁.valR * a.uncertainty.valR) ^ 2 + (d₂.valR * b.uncertainty.valR) ^ 2) := by
  unfold Meas.join
  obtain ⟨m1, n1⟩ := valR_mul h1 ha
  obtain ⟨m2, n2⟩ := valR_mul h2 hb
  obtain ⟨s1, t1⟩ := valR_sq n1
  obtain ⟨s2, t2⟩ := valR_sq n2
  obtain ⟨p1, _⟩ := valR_add t1 t2
  rw [(valR_sqrtF _).1, p1, s1, s2, m1, m2]

end Measured
