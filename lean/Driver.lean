/-
  Driver.lean — line-protocol driver for the model (DESIGN.md Appendix A).
  Reads one operation per line on stdin (fields separated by TAB), applies it to the model
  started from `Generated.init`, prints one canonical answer per line.
  Built as a native executable: nothing it imports touches Mathlib.
-/
import Model.Step
import Model.Graph
import Model.World
import Generated.Init
import Generated.Graph
import Generated.Grammar


open Measured

/-- Correctly rounded (round-half-even) conversion of an exact rational to binary64, as
    Python's `float("<decimal literal>")` and `float(Decimal)` do; subnormals and overflow to
    infinity included. -/
def ratToFloat (r : Rat) : Float :=
  if r.num == 0 then 0.0 else
  let n := r.num.natAbs
  let d := r.den
  let quot (e : Int) : Nat × Nat × Nat :=
    let sh : Int := 52 - e
    let num := if sh ≥ 0 then n <<< sh.toNat else n
    let den := if sh ≥ 0 then d else d <<< (-sh).toNat
    (num / den, num % den, den)
  let e0 : Int := (n.log2 : Int) - (d.log2 : Int)
  let e : Int := if (quot e0).1 < 2 ^ 52 then e0 - 1 else e0
  let bits : Nat :=
    if e > 1023 then 0x7ff0000000000000
    else
      let e' : Int := if e < -1022 then -1022 else e
      let (q, rem, den) := quot e'
      let q := if 2 * rem > den || (2 * rem == den && q % 2 == 1) then q + 1 else q
      if e < -1022 then q else ((e' + 1023).toNat <<< 52) + (q - 2 ^ 52)
  let bits := if bits > 0x7ff0000000000000 then 0x7ff0000000000000 else bits
  let x := Float.ofBits (UInt64.ofNat bits)
  if r.num < 0 then -x else x

instance : FloatLike Float where
  ofInt := Float.ofInt
  ofBits b := Float.ofBits (UInt64.ofNat b)
  toRat x := ratOfBits x.toBits.toNat
  ofRat := ratToFloat
  sqrt := Float.sqrt
  log := Float.log
  rpow := Float.pow
  powInt x n := Float.pow x (Float.ofInt n)
  isZero x := x == 0.0
  lt x y := x < y
  beq x y := x == y

namespace Drv

def hashStr (s : String) : Nat :=
  s.toUTF8.foldl (fun h b => (h * 1000003 + b.toNat + 1) % 2305843009213693951) 7

/-- Decimal text; beyond 1000 digits hexadecimal with an `H` mark (Python refuses int->str
    past 4300 digits, so the harness prints the same form). -/
def showInt (i : Int) : String :=
  if i.natAbs < 10 ^ 1000 then toString i
  else (if i < 0 then "-" else "") ++ "H" ++ String.ofList (Nat.toDigits 16 i.natAbs)

def showDim (d : Dim) : String := ",".intercalate (d.map showInt)
def showPfx (p : Pfx) : String := s!"{p.base}:{showInt p.exp}"
def showFactors (fs : Factors) : String := ",".intercalate (fs.map (fun f => s!"{f.1}:{showInt f.2}"))

def showUnitRec (s : St) (i : Nat) (u : UnitRec) : String :=
  s!"{showPfx u.pfx}|{showFactors u.factors}|{showDim u.dim}|{";".intercalate (s.namesOf i)}|{";".intercalate (s.symsOf i)}"

def showAssoc (l : List (String × Nat)) : String :=
  "\n".intercalate (l.map (fun p => s!"{p.1}={p.2}"))

def stateDigest (s : St) : String :=
  let us := hashStr ("\n".intercalate ((List.range s.units.length).map (fun i => showUnitRec s i (s.unit! i))))
  let bn := hashStr (showAssoc s.unitByName)
  let bs := hashStr (showAssoc s.unitBySym)
  let pn := hashStr ("\n".intercalate (s.pfxByName.map (fun p => s!"{p.1}={showPfx p.2}")))
  let ps := hashStr ("\n".intercalate (s.pfxBySym.map (fun p => s!"{p.1}={showPfx p.2}")))
  let dn := hashStr ("\n".intercalate (s.dimByName.map (fun p => s!"{p.1}={showDim p.2}")))
  let b := hashStr (",".intercalate (s.base.map toString))
  s!"n={s.units.length} units={us} byName={bn} bySym={bs} pfxByName={pn} pfxBySym={ps} dimByName={dn} base={b}"

def hexDigit (n : Nat) : Char := if n < 10 then Char.ofNat (48 + n) else Char.ofNat (87 + n)

def hex16 (n : Nat) : String :=
  String.ofList ((List.range 16).reverse.map (fun i => hexDigit (n / 16^i % 16)))

def parseHex (s : String) : Option Nat :=
  s.toList.foldl (fun acc c =>
    match acc with
    | none => none
    | some n =>
      if '0' ≤ c ∧ c ≤ '9' then some (n * 16 + (c.toNat - 48))
      else if 'a' ≤ c ∧ c ≤ 'f' then some (n * 16 + (c.toNat - 87))
      else none) (some 0)

def showMag : Mag Float → String
  | .int i => s!"i:{showInt i}"
  | .flt x => s!"f:{hex16 x.toBits.toNat}"
  | .dec r => s!"d:{showInt r.num}/{showInt (r.den : Int)}"

def parseMag (s : String) : Option (Mag Float) :=
  if s.startsWith "i:" then (s.drop 2).toString.toInt?.map .int
  else if s.startsWith "f:" then (parseHex (s.drop 2).toString).map (fun b => .flt (Float.ofBits (UInt64.ofNat b)))
  else if s.startsWith "d:" then
    match (s.drop 2).toString.splitOn "/" with
    | [n, d] => match n.toInt?, d.toNat? with
      | some n, some d => some (.dec ((n : Rat) / (d : Rat)))
      | _, _ => none
    | _ => none
  else none

def parseU (s : String) : Option Nat :=
  if s.startsWith "u" then (s.drop 1).toString.toNat? else none

def parseP (s : String) : Option Pfx :=
  if s.startsWith "p" then
    match (s.drop 1).toString.splitOn ":" with
    | [b, e] => match b.toNat?, e.toInt? with
      | some b, some e => some ⟨b, e⟩
      | _, _ => none
    | _ => none
  else none

def parseD (s : String) : Option Dim :=
  if s.startsWith "d" then
    let body := (s.drop 1).toString
    if body.isEmpty then some [] else
    (body.splitOn ",").foldr (fun t acc => match t.toInt?, acc with
      | some i, some l => some (i :: l)
      | _, _ => none) (some [])
  else none

def parseOptStr (s : String) : Option String := if s == "-" then none else some s

def showOut : Out → String
  | .unit i => s!"ok\tu{i}"
  | .pair i j => s!"ok\tu{i}\tu{j}"
  | .none => "ok"
  | .err e => s!"ERR\t{e.name}"

end Drv

open Drv

abbrev W := World Float

def showQ (q : Qty Float) : String := s!"{showMag q.mag}\tu{q.unit}"

def showRet : Ret Float → String
  | .qty q => s!"ok\tq\t{showQ q}"
  | .bool b => s!"ok\tb\t{b}"
  | .mag m => s!"ok\tm\t{showMag m}"
  | .unit i => s!"ok\tu{i}"
  | .pair i j => s!"ok\tu{i}\tu{j}"
  | .str t => s!"ok\ts\t{t}"
  | .meas m => s!"ok\tM\t{showQ m.measurand}\t{showMag m.uncertainty}"
  | .level m lu => s!"ok\tL\t{showMag m}\t{lu}"
  | .pfx p => s!"ok\tp{showPfx p}"
  | .lunit i => s!"ok\tlu\t{i}"
  | .plan p => s!"ok\tplan\t{showPlan p}"
  | .none => "ok"
  | .err e => s!"ERR\t{e.name}"
where
  showPlan (p : Plan Float) : String :=
    ";".intercalate (p.map (fun st =>
      s!"{showMag st.ratio}^{st.exp}[" ++
        ",".intercalate (st.path.map (fun h => s!"{showMag h.scale}+{showMag h.offset}@u{h.unit}")) ++ "]"))

/-- Parse an operand: a unit `uN`, a stored quantity `qN`, a stored measurement `MN`,
    a stored level `LN`, a prefix `pB:E`, or a bare magnitude. -/
def parseArg (w : W) (t : String) : Option (Arg Float) :=
  if t.startsWith "u" then (parseU t).bind (fun i => if i < w.st.units.length then some (.unit i) else none)
  else if t.startsWith "q" then ((t.drop 1).toString.toNat?).bind (fun i => (w.qs[i]?).map .qty)
  else if t.startsWith "M" then ((t.drop 1).toString.toNat?).bind (fun i => (w.ms[i]?).map .meas)
  else if t.startsWith "L" then ((t.drop 1).toString.toNat?).bind (fun i => (w.ls[i]?).map (fun l => .level l.1 l.2))
  else if t.startsWith "p" then (parseP t).map .pfx
  else (parseMag t).map .num

def validU (w : W) (i : Nat) : Bool := i < w.st.units.length

def handle (w : W) (line : String) : W × String :=
  let f := line.splitOn "\t"
  -- serialisation ops name the serialiser (pickle2.., copy, json, ...) for the implementation side;
  -- the model is the constructor re-entry they all end in
  let f := match f with
    | ["X", "pload", _how, _k, u] => ["X", "reenter", u]
    | ["X", "reenter", _how, u] => ["X", "reenter", u]
    | ["X", "qreenter", _how, q] => ["X", "qreenter", q]
    | ["X", "qtext", _how, q] => ["X", "qtext", q]
    | f => f
  let bad : W × String := (w, "BAD")
  let unitOp (o : Op) : W × String :=
    if o.ok w.st then
      let (s', out) := stepC w.st o
      ({ w with cv := { w.cv with st := s' } }, showOut out)
    else bad
  match f with
  | ["STATE"] => (w, "ok\t" ++ stateDigest w.st ++ s!" graph={hashStr (showGraph w)}")
  | ["U", "info", a] => match parseU a with
      | some i => match w.st.units[i]? with
        | some u => (w, "ok\t" ++ showUnitRec w.st i u)
        | none => bad
      | none => bad
  | ["U", "mul", a, b] => match parseU a, parseU b with
      | some a, some b => unitOp (.mul a b) | _, _ => bad
  | ["U", "div", a, b] => match parseU a, parseU b with
      | some a, some b => unitOp (.div a b) | _, _ => bad
  | ["U", "pow", a, n] => match parseU a, n.toInt? with
      | some a, some n => unitOp (.pow a n) | _, _ => bad
  | ["U", "root", a, n] => match parseU a, n.toInt? with
      | some a, some n => unitOp (.root a n) | _, _ => bad
  | ["U", "ratio", a] => match parseU a with
      | some a => unitOp (.ratio a) | _ => bad
  | ["U", "unpre", a] => match parseU a with
      | some a => unitOp (.unprefixed a) | _ => bad
  | ["U", "pmul", p, a] => match parseP p, parseU a with
      | some p, some a => unitOp (.pmul p a) | _, _ => bad
  | ["U", "define", d, name, sym] => match parseD d with
      | some d => unitOp (.define d name sym) | _ => bad
  | ["U", "derive", a, name, sym] => match parseU a with
      | some a => unitOp (.derive a name sym) | _ => bad
  | ["U", "alias", a, name, sym] => match parseU a with
      | some a => unitOp (.alias a (parseOptStr name) (parseOptStr sym)) | _ => bad
  | ["U", "resolve", text] => unitOp (.resolve text)
  | ["U", "named", name] => unitOp (.named name)
  | ["N", "pfx", p, name, sym] =>
      (match parseP p with
       | some q =>
         let (t, r) := w.ptab.construct (Pfx.new q.base q.exp) (optStr name) (optStr sym)
         (syncNames { w with ptab := t }, match r with
           | .ok i => (match t.objs[i]? with | some o => s!"ok\tp{showPfx o.key}" | none => "BAD")
           | .error e => s!"ERR\t{e.name}")
       | none => bad)
  | ["N", "dim", d, name, sym] =>
      (match parseD d with
       | some v =>
         let (t, r) := w.dtab.construct v (optStr name) (optStr sym)
         (syncNames { w with dtab := t }, match r with
           | .ok i => (match t.objs[i]? with | some o => s!"ok\td{showDim o.key}" | none => "BAD")
           | .error e => s!"ERR\t{e.name}")
       | none => bad)
  | ["N", "ddefine", name, sym] =>
      -- `Dimension.define` with a TAKEN name: the constructor raises before any key is widened (a successful
      -- define re-keys every dimension and is not modelled; the generator never asks for one)
      let v : Dim := List.replicate w.st.ndim 0 ++ [1]
      let (_, r) := w.dtab.construct v (optStr name) (optStr sym)
      (w, match r with | .error e => s!"ERR\t{e.name}" | .ok _ => "ERR\tUnmodelled")
  | ["N", "dderive", d, name, sym] =>
      (match parseD d with
       | some v =>
         (match w.dtab.find v with
          | none => (w, "ERR\tUnmodelled")
          | some i =>
            let (t, r) := w.dtab.derive i name (optStr sym)
            (syncNames { w with dtab := t }, match r with
              | .ok _ => s!"ok\td{showDim v}"
              | .error e => s!"ERR\t{e.name}"))
       | none => bad)
  | ["N", "pser", _how, p] =>
      (match parseP p with
       | some q =>
         let (t, r) := w.ptab.construct (Pfx.new q.base q.exp) none none
         (syncNames { w with ptab := t }, match r with
           | .ok i => (match t.objs[i]? with | some o => s!"ok\tp{showPfx o.key}" | none => "BAD")
           | .error e => s!"ERR\t{e.name}")
       | none => bad)
  | ["N", "dser", _how, d] =>
      (match parseD d with
       | some v =>
         let (t, r) := w.dtab.construct v none none
         (syncNames { w with dtab := t }, match r with
           | .ok i => (match t.objs[i]? with | some o => s!"ok\td{showDim o.key}" | none => "BAD")
           | .error e => s!"ERR\t{e.name}")
       | none => bad)
  | ["X", "pdump", _u] => (w, "ok")

  | ["N", "pstate"] =>
      let named := sortStrings ((w.ptab.objs.filter (fun o => o.name.isSome || o.sym.isSome)).map
        (fun o => s!"{showPfx o.key}|{o.name.getD "-"}|{o.sym.getD "-"}"))
      let key (i : Nat) : String := match w.ptab.objs[i]? with | some o => showPfx o.key | none => "?"
      (w, s!"ok\tobjs={hashStr ("\n".intercalate named)} byName={hashStr ("\n".intercalate (w.ptab.byName.map (fun e => s!"{e.1}={key e.2}")))} bySym={hashStr ("\n".intercalate (w.ptab.bySym.map (fun e => s!"{e.1}={key e.2}")))}")
  | ["N", "dstate"] =>
      let named := sortStrings ((w.dtab.objs.filter (fun o => o.name.isSome)).map (fun o => s!"{showDim o.key}|{o.name.getD "-"}"))
      let key (i : Nat) : String := match w.dtab.objs[i]? with | some o => showDim o.key | none => "?"
      (w, s!"ok\tobjs={hashStr ("\n".intercalate named)} byName={hashStr ("\n".intercalate (w.dtab.byName.map (fun e => s!"{e.1}={key e.2}")))}")
  | ["X", "collisions"] =>
      (w, "ok\ts\t" ++ ",".intercalate ((collisionList w.st).map (fun c => c.1 ++ "+" ++ c.2)))
  | ["X", "ptree", which, start, text] =>
      -- C16: the plain parse tree from the shipped or the freshly generated tables
      (match parseArgX w text, which, start with
       | some (.str t), "shipped", "unit" => (w, showTree (parseTree Generated.shipped.grammar Generated.shipped.grammar.startUnit Generated.shipped.grammar.endUnit t))
       | some (.str t), "shipped", "quantity" => (w, showTree (parseTree Generated.shipped.grammar Generated.shipped.grammar.startQty Generated.shipped.grammar.endQty t))
       | some (.str t), "fresh", "unit" => (w, showTree (parseTree Generated.fresh.grammar Generated.fresh.grammar.startUnit Generated.fresh.grammar.endUnit t))
       | some (.str t), "fresh", "quantity" => (w, showTree (parseTree Generated.fresh.grammar Generated.fresh.grammar.startQty Generated.fresh.grammar.endQty t))
       | _, _, _ => bad)
  | "X" :: op :: args =>
      -- extended operations on the whole world (quantities, conversions, text, …)
      match args.mapM (parseArgX w) with
      | some as =>
        let (w', r) := World.exec w op as
        let w'' := w'.store r
        (w'', showRet r)
      | none => bad
  | _ => bad
where
  parseArgX (w : W) (t : String) : Option (Arg Float) :=
    if t.startsWith "s:" then some (.str (t.drop 2).toString)
    else if t.startsWith "h:" then
      (((t.drop 2).toString.splitOn ".").filter (· ≠ "")).mapM (fun x => (hexNat x).map Char.ofNat)
        |>.map (fun cs => .str (String.ofList cs))
    else if t.startsWith "n:" then ((t.drop 2).toString.toInt?).map .int
    else parseArg w t
  /-- `Prefix._by_name/_by_symbol` and `Dimension._by_name` as the unit-level state sees them
      (symbol resolution reads them) are the name tables' registries. -/
  syncNames (w : W) : W :=
    let pk (i : Nat) : Pfx := match w.ptab.objs[i]? with | some o => o.key | none => Pfx.identity
    let dk (i : Nat) : Dim := match w.dtab.objs[i]? with | some o => o.key | none => []
    { w with cv := { w.cv with st := { w.cv.st with
        pfxByName := w.ptab.byName.map (fun e => (e.1, pk e.2)),
        pfxBySym := w.ptab.bySym.map (fun e => (e.1, pk e.2)),
        dimByName := w.dtab.byName.map (fun e => (e.1, dk e.2)) } } }
  /-- Python's `sorted` on str: by code point -/
  sortStrings (l : List String) : List String :=
    (l.toArray.qsort (fun a b => a.toList.map Char.toNat < b.toList.map Char.toNat)).toList
  optStr (t : String) : Option String := if t == "-" then none else if t == "=" then some "" else some t
  showTree : Except Exc Tree → String
    | .ok t => "ok\ts\t" ++ t.show
    | .error e => "ERR\t" ++ e.name
  hexNat (x : String) : Option Nat :=
    x.toList.foldlM (fun acc c =>
      if '0' ≤ c && c ≤ '9' then some (acc * 16 + (c.toNat - 48))
      else if 'a' ≤ c && c ≤ 'f' then some (acc * 16 + (c.toNat - 87))
      else none) 0
  showGraph (w : W) : String :=
    "\n".intercalate ((isort (fun a b => decide (a.1 ≤ b.1)) (w.ratios.filter (fun r => !r.2.isEmpty))).map (fun r => s!"{r.1}>" ++ ",".intercalate (r.2.map (fun c => toString c.1))))

partial def loop (h : IO.FS.Stream) (out : IO.FS.Stream) (w : W) : IO Unit := do
  let line ← h.getLine
  if line.isEmpty then return ()
  let line := (line.dropEndWhile (fun c => c == '\n' || c == '\r')).toString
  let (w', o) := handle w line
  out.putStrLn o
  loop h out w'

def main (args : List String) : IO Unit := do
  let asserts := !(args.contains "--no-asserts")
  let w0 : W := World.init Generated.init Generated.ratios Generated.offsets Generated.rootPowerDims Generated.shipped.grammar asserts
  let w0 : W := { w0 with
    ptab := NTab.ofRegistries (Generated.prefixes.map (fun p => (p.1, p.2.2.1, p.2.2.2))) Generated.pfxByName Generated.pfxBySym true,
    dtab := NTab.ofRegistries Generated.dims Generated.dimByName [] false }
  let out ← IO.getStdout
  loop (← IO.getStdin) out w0
  out.flush
