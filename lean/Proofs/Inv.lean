/-
  Proofs/Inv.lean — the intern-table invariant behind C01:
  every interned unit's dimension is the product of its factors' dimensions.
-/
import Model.Step
import Proofs.Dim

namespace Measured

/-- Every factor refers to an existing unit. -/
def ValidF (s : St) (fs : Factors) : Prop := ∀ f ∈ fs, f.1 < s.units.length

/-- Shape well-formedness of the intern table. -/
structure WF (s : St) : Prop where
  dimLen   : ∀ u ∈ s.units, u.dim.length = s.ndim
  facValid : ∀ u ∈ s.units, ValidF s u.factors
  oneLt    : s.one < s.units.length
  oneNum   : s.dimOfUnit s.one = Dim.number s.ndim

/-- C01's statement for one state. -/
def DimOK (s : St) : Prop := ∀ u ∈ s.units, u.dim = s.dimOf u.factors

def Inv (s : St) : Prop := WF s ∧ DimOK s

theorem getD_eq_getElem' {α} (l : List α) (d : α) {i : Nat} (hi : i < l.length) :
    l.getD i d = l[i] := by
  rw [List.getD_eq_getElem?_getD, List.getElem?_eq_getElem hi]; rfl

namespace St

theorem unit!_mem {s : St} {i : Nat} (hi : i < s.units.length) : s.unit! i ∈ s.units := by
  unfold unit!
  rw [getD_eq_getElem' _ _ hi]
  exact List.getElem_mem hi

theorem unit!_eq {s : St} {i : Nat} (hi : i < s.units.length) : s.unit! i = s.units[i] := by
  unfold unit!; exact getD_eq_getElem' _ _ hi

theorem dimOfUnit_len {s : St} (h : WF s) {i : Nat} (hi : i < s.units.length) :
    (s.dimOfUnit i).length = s.ndim := h.dimLen _ (unit!_mem hi)

theorem dimOf_nil (s : St) : s.dimOf [] = Dim.number s.ndim := rfl

theorem dimOf_cons (s : St) (f : UId × Int) (fs : Factors) :
    s.dimOf (f :: fs) = Dim.mul ((s.dimOfUnit f.1).pow f.2) (s.dimOf fs) := rfl

theorem dimOf_length {s : St} (h : WF s) {fs : Factors} (hv : ValidF s fs) :
    (s.dimOf fs).length = s.ndim := by
  induction fs with
  | nil => simp [dimOf_nil]
  | cons f rest ih =>
    have h1 : f.1 < s.units.length := hv f (List.mem_cons_self)
    have h2 : ValidF s rest := fun g hg => hv g (List.mem_cons_of_mem _ hg)
    rw [dimOf_cons, Dim.length_mul, Dim.length_pow, dimOfUnit_len h h1, ih h2]
    simp

end St

open St

/-! ### `ValidF` is preserved by the factor helpers -/

theorem validF_insertAdd {s : St} {fs : Factors} {k : Nat} {e : Int}
    (hv : ValidF s fs) (hk : k < s.units.length) : ValidF s (insertAdd fs k e) := by
  induction fs with
  | nil => intro f hf; simp [insertAdd] at hf; subst hf; exact hk
  | cons p rest ih =>
    have h2 : ValidF s rest := fun g hg => hv g (List.mem_cons_of_mem _ hg)
    have hp := hv p List.mem_cons_self
    unfold insertAdd
    split
    · intro f hf
      rcases List.mem_cons.1 hf with rfl | hf
      · exact hp
      · exact h2 f hf
    · intro f hf
      rcases List.mem_cons.1 hf with rfl | hf
      · exact hp
      · exact ih h2 f hf

theorem validF_mergeAdd {s : St} {a b : Factors} (ha : ValidF s a) (hb : ValidF s b) :
    ValidF s (mergeAdd a b) := by
  unfold mergeAdd
  induction b generalizing a with
  | nil => simpa using ha
  | cons p rest ih =>
    simp only [List.foldl_cons]
    exact ih (validF_insertAdd ha (hb p List.mem_cons_self))
      (fun g hg => hb g (List.mem_cons_of_mem _ hg))

theorem validF_map {s : St} {fs : Factors} (g : Int → Int) (hv : ValidF s fs) :
    ValidF s (fs.map (fun p => (p.1, g p.2))) := by
  intro f hf
  rcases List.mem_map.1 hf with ⟨p, hp, rfl⟩
  exact hv p hp

theorem validF_negate {s : St} {fs : Factors} (hv : ValidF s fs) : ValidF s (negate fs) :=
  validF_map (fun e => -e) hv

theorem validF_filter {s : St} {fs : Factors} (p : UId × Int → Bool) (hv : ValidF s fs) :
    ValidF s (fs.filter p) := fun f hf => hv f (List.mem_filter.1 hf).1

theorem validF_simplify {s : St} {fs : Factors} (h : WF s) (hv : ValidF s fs) :
    ValidF s (simplify s.one fs) := by
  unfold simplify
  simp only
  split
  · intro f hf; simp at hf; subst hf; exact h.oneLt
  · exact validF_filter _ hv

/-! ### `dimOf` is a homomorphism for the factor helpers -/

theorem dimOf_insertAdd {s : St} (h : WF s) {fs : Factors} (hv : ValidF s fs) {k : Nat}
    (hk : k < s.units.length) (e : Int) :
    s.dimOf (insertAdd fs k e) = Dim.mul ((s.dimOfUnit k).pow e) (s.dimOf fs) := by
  induction fs with
  | nil => simp [insertAdd, dimOf_cons, dimOf_nil]
  | cons p rest ih =>
    obtain ⟨k', e'⟩ := p
    have h2 : ValidF s rest := fun g hg => hv g (List.mem_cons_of_mem _ hg)
    unfold insertAdd
    split
    · next hkk =>
      subst hkk
      simp only [dimOf_cons]
      rw [← Dim.pow_add, Dim.mul_assoc, Dim.mul_left_comm]
    · simp only [dimOf_cons]
      rw [ih h2, Dim.mul_left_comm]

theorem dimOf_mergeAdd {s : St} (h : WF s) {a b : Factors} (ha : ValidF s a) (hb : ValidF s b) :
    s.dimOf (mergeAdd a b) = Dim.mul (s.dimOf a) (s.dimOf b) := by
  unfold mergeAdd
  induction b generalizing a with
  | nil =>
    have hl := dimOf_length h ha
    simp only [List.foldl_nil, dimOf_nil]
    rw [← hl, Dim.mul_number]
  | cons p rest ih =>
    have hp := hb p List.mem_cons_self
    have h2 : ValidF s rest := fun g hg => hb g (List.mem_cons_of_mem _ hg)
    simp only [List.foldl_cons]
    rw [ih (validF_insertAdd ha hp) h2, dimOf_insertAdd h ha hp, dimOf_cons]
    rw [Dim.mul_comm ((s.dimOfUnit p.1).pow p.2) _, Dim.mul_assoc]

theorem dimOf_scale {s : St} (h : WF s) {fs : Factors} (hv : ValidF s fs) (n : Int) :
    s.dimOf (fs.map (fun p => (p.1, p.2 * n))) = (s.dimOf fs).pow n := by
  induction fs with
  | nil => simp [dimOf_nil, Dim.number_pow]
  | cons p rest ih =>
    have h2 : ValidF s rest := fun g hg => hv g (List.mem_cons_of_mem _ hg)
    simp only [List.map_cons, dimOf_cons]
    rw [ih h2, Dim.mul_pow, Dim.pow_mul]

theorem dimOf_negate {s : St} (h : WF s) {fs : Factors} (hv : ValidF s fs) :
    s.dimOf (negate fs) = (s.dimOf fs).pow (-1) := by
  have := dimOf_scale h hv (-1)
  unfold negate
  simpa [Int.mul_neg, Int.mul_one] using this

/-- Dropping `One` and zero exponents does not change the dimension. -/
theorem dimOf_filter_simplify {s : St} (h : WF s) {fs : Factors} (hv : ValidF s fs) :
    s.dimOf (fs.filter (fun p => p.1 != s.one && p.2 != 0)) = s.dimOf fs := by
  induction fs with
  | nil => rfl
  | cons p rest ih =>
    have h2 : ValidF s rest := fun g hg => hv g (List.mem_cons_of_mem _ hg)
    have hp := hv p List.mem_cons_self
    have hl := dimOf_length h h2
    rw [List.filter_cons]
    split
    · simp only [dimOf_cons, ih h2]
    · next hc =>
      rw [ih h2, dimOf_cons]
      have : p.1 = s.one ∨ p.2 = 0 := by
        simp only [Bool.and_eq_true, bne_iff_ne, ne_eq, not_and, Decidable.not_not] at hc
        by_cases h1 : p.1 = s.one
        · exact Or.inl h1
        · exact Or.inr (hc h1)
      rcases this with h1 | h1
      · rw [h1, h.oneNum, Dim.number_pow, ← hl, Dim.number_mul]
      · rw [h1, Dim.pow_zero, dimOfUnit_len h hp, ← hl, Dim.number_mul]

theorem dimOf_simplify {s : St} (h : WF s) {fs : Factors} (hv : ValidF s fs) :
    s.dimOf (simplify s.one fs) = s.dimOf fs := by
  unfold simplify
  simp only
  split
  · next hemp =>
    have := dimOf_filter_simplify h hv
    rw [List.isEmpty_iff.1 hemp] at this
    rw [← this, dimOf_cons, dimOf_nil, h.oneNum, Dim.number_pow]
    have := Dim.number_mul (Dim.number s.ndim)
    simpa using this
  · exact dimOf_filter_simplify h hv

/-! ### state extension -/

/-- `s'` extends `s`: same parameters, and the structural part (prefix, factors,
    dimension) of every old record is unchanged. -/
structure Ext (s s' : St) : Prop where
  ndim : s'.ndim = s.ndim
  one  : s'.one = s.one
  len  : s.units.length ≤ s'.units.length
  same : ∀ i (hi : i < s.units.length),
    (s'.unit! i).pfx = (s.unit! i).pfx ∧ (s'.unit! i).factors = (s.unit! i).factors ∧
    (s'.unit! i).dim = (s.unit! i).dim

theorem Ext.refl (s : St) : Ext s s :=
  ⟨rfl, rfl, Nat.le_refl _, fun _ _ => ⟨rfl, rfl, rfl⟩⟩

theorem Ext.trans {a b c : St} (h1 : Ext a b) (h2 : Ext b c) : Ext a c :=
  ⟨h2.ndim.trans h1.ndim, h2.one.trans h1.one, Nat.le_trans h1.len h2.len, fun i hi => by
    have x := h1.same i hi
    have y := h2.same i (Nat.lt_of_lt_of_le hi h1.len)
    exact ⟨y.1.trans x.1, y.2.1.trans x.2.1, y.2.2.trans x.2.2⟩⟩

theorem Ext.validF {s s' : St} (h : Ext s s') {fs : Factors} (hv : ValidF s fs) : ValidF s' fs :=
  fun f hf => Nat.lt_of_lt_of_le (hv f hf) h.len

theorem Ext.dimOf {s s' : St} (h : Ext s s') {fs : Factors} (hv : ValidF s fs) :
    s'.dimOf fs = s.dimOf fs := by
  induction fs with
  | nil => simp [dimOf_nil, h.ndim]
  | cons p rest ih =>
    have h2 : ValidF s rest := fun g hg => hv g (List.mem_cons_of_mem _ hg)
    have hp := hv p List.mem_cons_self
    simp only [dimOf_cons, ih h2]
    unfold dimOfUnit
    rw [(h.same p.1 hp).2.2]

/-! ### `newUnit` -/

theorem findUnit_lt {us : List UnitRec} {p : Pfx} {fs : Factors} {i : Nat}
    (h : findUnit us p fs = some i) : i < us.length := by
  unfold findUnit at h
  simp only at h
  exact (List.findIdx?_eq_some_iff_getElem.1 h).1

theorem unit!_append_old {s : St} {r : UnitRec} {i : Nat} (hi : i < s.units.length) :
    ({ s with units := s.units ++ [r] } : St).unit! i = s.unit! i := by
  unfold unit!
  simp only
  rw [getD_eq_getElem' _ _ hi, getD_eq_getElem' _ _ (by simp; omega)]
  exact List.getElem_append_left hi

theorem newUnit_ext (s : St) (p : Pfx) (fs : Factors) (d : Dim) : Ext s (s.newUnit p fs d).1 := by
  unfold newUnit
  split
  · exact Ext.refl s
  · refine ⟨rfl, rfl, by simp, fun i hi => ?_⟩
    rw [unit!_append_old hi]
    exact ⟨rfl, rfl, rfl⟩

theorem newUnit_lt (s : St) (p : Pfx) (fs : Factors) (d : Dim) :
    (s.newUnit p fs d).2 < (s.newUnit p fs d).1.units.length := by
  unfold newUnit
  split
  · next i hf => exact findUnit_lt hf
  · simp

/-- Interning a unit whose dimension is the product of its factors' dimensions keeps
    the invariant. -/
theorem newUnit_inv {s : St} (h : Inv s) (p : Pfx) {fs : Factors} {d : Dim}
    (hv : ValidF s fs) (hd : d = s.dimOf fs) : Inv (s.newUnit p fs d).1 := by
  have hext := newUnit_ext s p fs d
  unfold newUnit at hext ⊢
  split
  · exact h
  · next hnone =>
    simp only [hnone] at hext
    obtain ⟨hw, hok⟩ := h
    have hlen : d.length = s.ndim := by rw [hd]; exact dimOf_length hw hv
    refine ⟨⟨?_, ?_, ?_, ?_⟩, ?_⟩
    · intro u hu
      rcases List.mem_append.1 hu with hu | hu
      · exact hw.dimLen u hu
      · simp at hu; subst hu; exact hlen
    · intro u hu
      rcases List.mem_append.1 hu with hu | hu
      · exact hext.validF (hw.facValid u hu)
      · simp at hu; subst hu; exact hext.validF hv
    · simp; exact Nat.lt_succ_of_lt hw.oneLt
    · show St.dimOfUnit _ s.one = _
      unfold dimOfUnit
      rw [unit!_append_old hw.oneLt]
      exact hw.oneNum
    · intro u hu
      rcases List.mem_append.1 hu with hu | hu
      · rw [hext.dimOf (hw.facValid u hu)]; exact hok u hu
      · simp at hu; subst hu
        rw [hext.dimOf hv]; exact hd

end Measured
