/-
  Proofs/PlanVal.lean — the arithmetic of applying a conversion plan, as plain field
  arithmetic; linearity for offset-free plans (C05) and affine closed forms (C10).
-/
import Proofs.MagVal

namespace Measured

structure HopV where
  scale  : Rat
  offset : Rat

structure StepV where
  ratio : Rat
  path  : List HopV
  exp   : Int

def Hop.toV (h : Hop Rat) : HopV := ⟨h.scale.val, h.offset.val⟩
def PlanStep.toV (s : PlanStep Rat) : StepV := ⟨s.ratio.val, s.path.map Hop.toV, s.exp⟩

/-- `for scale, offset, _ in path: m = m * scale**exponent + offset` -/
def applyPathV (e : Int) : Rat → List HopV → Rat
  | m, [] => m
  | m, h :: rest => applyPathV e (m * h.scale ^ e + h.offset) rest

/-- The application loop of `convert`, on values. -/
def applyPlanV : Rat → List StepV → Rat
  | m, [] => m
  | m, st :: rest => applyPlanV (applyPathV st.exp (m * st.ratio) st.path) rest

theorem applyPath_val {e : Int} (path : List (Hop Rat)) :
    ∀ {m r : Mag Rat}, applyPath e m path = .ok r → r.val = applyPathV e m.val (path.map Hop.toV) := by
  induction path with
  | nil => intro m r h; simp only [applyPath] at h; injection h with h; subst h; rfl
  | cons h0 rest ih =>
    intro m r h
    simp only [applyPath] at h
    cases hp : h0.scale.powInt e with
    | error err => simp [hp] at h
    | ok sc =>
      simp only [hp] at h
      rw [ih h]
      simp only [List.map_cons, applyPathV, Hop.toV, val_add, val_mul, val_powInt hp]

/-- The model's `applyPlan` computes `applyPlanV` on the values. -/
theorem applyPlan_val (plan : Plan Rat) :
    ∀ {m r : Mag Rat}, applyPlan m plan = .ok r → r.val = applyPlanV m.val (plan.map PlanStep.toV) := by
  induction plan with
  | nil => intro m r h; simp only [applyPlan] at h; injection h with h; subst h; rfl
  | cons s0 rest ih =>
    intro m r h
    simp only [applyPlan] at h
    cases hs : applyPath s0.exp (Mag.mul m s0.ratio) s0.path with
    | error err => simp [hs] at h
    | ok m1 =>
      simp only [hs] at h
      rw [ih h, applyPath_val s0.path hs]
      simp only [List.map_cons, applyPlanV, PlanStep.toV, val_mul]

/-! ### linearity (offset-free plans) -/

def offsetFree (plan : List StepV) : Prop := ∀ st ∈ plan, ∀ h ∈ st.path, h.offset = 0

theorem applyPathV_linear {e : Int} {path : List HopV} (hf : ∀ h ∈ path, h.offset = 0) (k m : Rat) :
    applyPathV e (k * m) path = k * applyPathV e m path := by
  induction path generalizing m with
  | nil => rfl
  | cons h rest ih =>
    simp only [applyPathV]
    have h0 := hf h List.mem_cons_self
    rw [h0, ← ih (fun h' hh => hf h' (List.mem_cons_of_mem _ hh))]
    congr 1; ring

/-- **C05 linearity**: for any offset-free plan — whatever the planner produced — converting
    `k·q` gives `k` times the conversion of `q`. -/
theorem applyPlanV_linear {plan : List StepV} (hf : offsetFree plan) (k m : Rat) :
    applyPlanV (k * m) plan = k * applyPlanV m plan := by
  induction plan generalizing m with
  | nil => rfl
  | cons st rest ih =>
    simp only [applyPlanV]
    rw [← ih (fun s hs => hf s (List.mem_cons_of_mem _ hs)),
      ← applyPathV_linear (e := st.exp) (hf st List.mem_cons_self)]
    congr 2; ring

theorem applyPlanV_zero {plan : List StepV} (hf : offsetFree plan) : applyPlanV 0 plan = 0 := by
  have := applyPlanV_linear hf 0 0
  simpa using this

/-- An offset-free plan is multiplication by one constant (the conversion factor). -/
theorem applyPlanV_factor {plan : List StepV} (hf : offsetFree plan) (m : Rat) :
    applyPlanV m plan = m * applyPlanV 1 plan := by
  have := applyPlanV_linear hf m 1
  simpa using this

def positivePlan (plan : List StepV) : Prop :=
  ∀ st ∈ plan, 0 < st.ratio ∧ ∀ h ∈ st.path, 0 < h.scale

theorem applyPathV_pos {e : Int} {path : List HopV} (hf : ∀ h ∈ path, h.offset = 0)
    (hp : ∀ h ∈ path, 0 < h.scale) {m : Rat} (hm : 0 < m) : 0 < applyPathV e m path := by
  induction path generalizing m with
  | nil => exact hm
  | cons h rest ih =>
    simp only [applyPathV]
    have h0 := hf h List.mem_cons_self
    have hs := hp h List.mem_cons_self
    apply ih (fun h' hh => hf h' (List.mem_cons_of_mem _ hh)) (fun h' hh => hp h' (List.mem_cons_of_mem _ hh))
    rw [h0, add_zero]
    exact mul_pos hm (zpow_pos hs e)

/-- The conversion factor of a plan with positive ratios is positive, so the sign of the
    magnitude is preserved. -/
theorem applyPlanV_one_pos {plan : List StepV} (hf : offsetFree plan) (hp : positivePlan plan) :
    0 < applyPlanV 1 plan := by
  suffices ∀ m : Rat, 0 < m → 0 < applyPlanV m plan from this 1 one_pos
  induction plan with
  | nil => intro m hm; exact hm
  | cons st rest ih =>
    intro m hm
    simp only [applyPlanV]
    apply ih (fun s hs => hf s (List.mem_cons_of_mem _ hs)) (fun s hs => hp s (List.mem_cons_of_mem _ hs))
    exact applyPathV_pos (hf st List.mem_cons_self) (hp st List.mem_cons_self).2
      (mul_pos hm (hp st List.mem_cons_self).1)

theorem applyPlanV_sign {plan : List StepV} (hf : offsetFree plan) (hp : positivePlan plan) (m : Rat) :
    (0 < m → 0 < applyPlanV m plan) ∧ (m < 0 → applyPlanV m plan < 0) ∧ (m = 0 → applyPlanV m plan = 0) := by
  have hc := applyPlanV_one_pos hf hp
  rw [applyPlanV_factor hf m]
  refine ⟨fun h => mul_pos h hc, fun h => mul_neg_of_neg_of_pos h hc, fun h => by rw [h]; ring⟩

end Measured
