/-
  Props/C19.lean — declared names and symbols bind faithfully; failed definitions change nothing.

  Units (`St`, multi-name): `Faithful s` — every `_by_name`/`_by_symbol` entry points at an existing
  unit that reports it, and every name/symbol a unit reports looks up to that very unit.
  Prefixes and dimensions (`NTab`, one name each): `NFaithful t`, the same with one slot.

  * `unit_names_faithful_in_every_history`   Faithful is preserved by EVERY finite history of public
                                              operations (arithmetic, parsing, define/derive/alias, …);
  * `failed_unit_naming_changes_nothing`      a define/derive/alias that raises returns the state
                                              it was given — every registry, the intern table, all of it;
  * `alias_binds`                             a successful alias binds the name to that unit;
  * `declarations_faithful_in_every_history`  Prefix/Dimension: every history of constructor calls
                                              (anonymous or naming, in any order) and derives;
  * `failed_declaration_changes_nothing`, `declaration_binds`, `name_never_bound_twice`.
-/
import Proofs.Faithful
import Proofs.NamesFaithful

namespace Measured
namespace C19
open St

theorem unit_names_faithful_in_every_history {s : St} (h : Faithful s) (ops : List Op) : Faithful (run s ops) :=
  run_faithful h ops

theorem failed_unit_naming_changes_nothing (s : St) (o : Op) (e : Exc)
    (hn : match o with | .define .. | .derive .. | .alias .. => True | _ => False)
    (h : (stepC s o).2 = .err e) : (stepC s o).1 = s :=
  failed_naming_is_noop s o e hn h

theorem alias_binds {s : St} (h : Faithful s) {a : UId} (ha : a < s.units.length) (n : String)
    (sym : Option String) (hne : n ≠ "") (hr : (s.aliasUnit a (some n) sym).2 = .ok ()) :
    lookup n (s.aliasUnit a (some n) sym).1.unitByName = some a ∧ (a, n) ∈ (s.aliasUnit a (some n) sym).1.nameLog :=
  aliasUnit_binds h ha n sym hne hr

/-- a name is never bound to two units: two units reporting one name are one unit -/
theorem unit_name_never_bound_twice {s : St} (h : Faithful s) {i j : UId} {n : String}
    (hi : (i, n) ∈ s.nameLog) (hj : (j, n) ∈ s.nameLog) : i = j := by
  have a := h.nameLog _ hi
  have b := h.nameLog _ hj
  simp only at a b
  rw [a] at b; injection b

section
variable {κ : Type} [DecidableEq κ]

theorem declarations_faithful_in_every_history {t : NTab κ} (h : t.NFaithful) (ops : List (NTab.NOp κ)) :
    (t.run ops).NFaithful := NTab.run_faithful h ops

theorem failed_declaration_changes_nothing (t : NTab κ) (o : NTab.NOp κ) (e : Exc)
    (h : (t.step o).2 = .error e) : (t.step o).1 = t := NTab.step_error_noop t o e h

theorem declaration_binds {t : NTab κ} (h : t.NFaithful) (key : κ) (name sym : Option String) (i : Nat)
    (hr : (t.construct key name sym).2 = .ok i) (n : String) (hn : NTab.given name = some n) :
    NTab.lookupS n (t.construct key name sym).1.byName = some i ∧
    ((t.construct key name sym).1.objs[i]?).bind (·.name) = some n :=
  NTab.construct_binds h key name sym i hr n hn

theorem name_never_bound_twice {t : NTab κ} (h : t.NFaithful) {i j : Nat} {a b : NObj κ} {n : String}
    (hi : t.objs[i]? = some a) (hj : t.objs[j]? = some b) (ha : a.name = some n) (hb : b.name = some n) : i = j :=
  h.name_unique hi hj ha hb

end

/-- Non-vacuity: an anonymous prefix created first, then declared — the declaration binds. -/
def demo : NTab (Nat × Int) × Except Exc Nat :=
  (((({ objs := [] } : NTab (Nat × Int)).construct (10, -1) none none).1).construct (10, -1) (some "deci") (some "d"))

example : (match demo.2 with | .ok 0 => true | _ => false) = true ∧ NTab.lookupS "deci" demo.1.byName = some 0 ∧ NTab.lookupS "d" demo.1.bySym = some 0 := by
  decide +kernel

end C19
end Measured
