#!/usr/bin/env python3
"""keep_seed.py <out_dir> <patch> <demo> <seed_id> <property> <caught_by_csv> <needs...>
Stores a confirmed seeded defect under /verif/seeded/<seed_id>/ (patch.diff, demo.py, meta.json)."""
import json, os, shutil, sys
out, patch, demo, sid, prop, caught = sys.argv[1:7]
needs = " ".join(sys.argv[7:])
d = os.path.join("/verif/seeded", sid)
os.makedirs(d, exist_ok=True)
shutil.copy(os.path.join(out, patch), os.path.join(d, "patch.diff"))
shutil.copy(os.path.join(out, demo), os.path.join(d, "demo.py"))
notes = os.path.join(out, "notes.md")
if os.path.exists(notes):
    shutil.copy(notes, os.path.join(d, "author_notes.md"))
meta = {
    "id": sid, "breaks_property": prop,
    "needs_to_manifest": needs,
    "written_by": "independent sub-agent given only the property text and a scratch worktree",
    "confirmed": {
        "how": "tools/confirm_seed.sh: fresh scratch worktree of /repo; demo exits 0 on the unmodified tree; "
               "tools/baseline.sh passes (907/907 stable tests) with the patch; demo exits 1 with the patch",
        "result": "confirmed",
    },
    "checks_run": "tools/try_seed.sh <patch> %s  (git -C /repo apply; ./check <id> quick; git -C /repo checkout -- .)" % caught.replace(",", " "),
    "caught_by": [c for c in caught.split(",") if c],
}
json.dump(meta, open(os.path.join(d, "meta.json"), "w"), indent=1)
print("kept", sid)
