/-
  Proofs/PfxVal.lean — the numeric value of a prefix is a group homomorphism:
  value(p·q) = value p · value q, value(p/q), value(pⁿ), value(root) (C11, same base: exact).
-/
import Proofs.Pfx
import Proofs.ConvertVal

namespace Measured
namespace Pfx

/-- The exact value `base ^ exponent` of a prefix. -/
def val (p : Pfx) : Rat := ((p.base : Nat) : Rat) ^ p.exp

theorem val_identity : val identity = 1 := by simp [val, identity]

theorem val_new {b : Nat} (hb : b ≠ 0) (e : Int) : val (new b e) = ((b : Nat) : Rat) ^ e := by
  unfold new
  split
  · next h => simp [val, identity, h.2]
  · rfl

theorem base_cast_ne {b : Nat} (hb : b ≠ 0) : ((b : Nat) : Rat) ≠ 0 := by exact_mod_cast hb

theorem val_pos {p : Pfx} (hp : p.Normal) : 0 < val p := by
  by_cases hb : p.base = 0
  · rw [eq_identity_of_base hp hb, val_identity]; norm_num
  · unfold val
    apply zpow_pos
    exact_mod_cast Nat.pos_of_ne_zero hb

/-- value(p·q) = value p · value q (same base, or either one the identity). -/
theorem val_mul {a b c : Pfx} (ha : a.Normal) (hb : b.Normal) (h : mul a b = .ok c) :
    val c = val a * val b := by
  unfold mul at h
  split at h
  · next hb0 =>
    injection h with h; subst h
    have : b = identity := eq_identity_of_base hb (by simpa using hb0)
    rw [this, val_identity, mul_one]
  · split at h
    · next _ ha0 =>
      injection h with h; subst h
      have : a = identity := eq_identity_of_base ha (by simpa using ha0)
      rw [this, val_identity, one_mul]
    · next hb0 ha0 =>
      split at h
      · next hab =>
        injection h with h; subst h
        have hane : a.base ≠ 0 := by simpa using ha0
        have hab' : b.base = a.base := by simpa using hab
        rw [val_new hane]
        unfold val
        rw [hab', zpow_add₀ (base_cast_ne hane)]
      · cases h

/-- value(p/q) = value p / value q. -/
theorem val_div {a b c : Pfx} (ha : a.Normal) (hb : b.Normal) (h : div a b = .ok c) :
    val c = val a / val b := by
  unfold div at h
  split at h
  · next hb0 =>
    injection h with h; subst h
    have : b = identity := eq_identity_of_base hb (by simpa using hb0)
    rw [this, val_identity, div_one]
  · next hb0 =>
    have hbne : b.base ≠ 0 := by simpa using hb0
    split at h
    · next ha0 =>
      injection h with h; subst h
      have : a = identity := eq_identity_of_base ha (by simpa using ha0)
      rw [this, val_identity, val_new hbne]
      unfold val
      rw [zpow_neg, one_div]
    · next ha0 =>
      split at h
      · next hab =>
        injection h with h; subst h
        have hane : a.base ≠ 0 := by simpa using ha0
        have hab' : b.base = a.base := by simpa using hab
        rw [val_new hane]
        unfold val
        rw [hab', zpow_sub₀ (base_cast_ne hane)]
      · cases h

/-- value(pⁿ) = (value p)ⁿ. -/
theorem val_pow {a : Pfx} (ha : a.Normal) (n : Int) : val (pow a n) = val a ^ n := by
  unfold pow
  by_cases hb : a.base = 0
  · have := eq_identity_of_base ha hb
    subst this
    simp [new, identity, val]
  · rw [val_new hb]
    unfold val
    rw [zpow_mul]

/-- (value (root p n))ⁿ = value p. -/
theorem val_root {a c : Pfx} (ha : a.Normal) {n : Int} (hn : n ≠ 0) (h : root a n = .ok c) :
    val c ^ n = val a := by
  unfold root at h
  have hn0 : (n == 0) = false := by simpa using hn
  simp only [hn0, Bool.false_eq_true, ↓reduceIte] at h
  split at h
  · cases h
  · next hdiv =>
    injection h with h; subst h
    have hmod : a.exp % n = 0 := by simpa using hdiv
    have hd := Int.dvd_of_emod_eq_zero hmod
    by_cases hb : a.base = 0
    · have := eq_identity_of_base ha hb
      subst this
      simp [new, identity, val, Int.fdiv]
    · rw [val_new hb]
      unfold val
      rw [← zpow_mul, Int.fdiv_eq_ediv_of_dvd hd, Int.ediv_mul_cancel hd]

/-- The model's `Prefix.quantify` has this value. -/
theorem value_val (p : Pfx) : (Pfx.value p : Mag Rat).val = val p := pfxValue_val p

/-- (p·q)ⁿ = pⁿ · qⁿ on prefixes (used for `(p•u)ⁿ = pⁿ•uⁿ`). -/
theorem mul_pow {a b c : Pfx} (ha : a.Normal) (hb : b.Normal) (h : mul a b = .ok c) (n : Int) :
    mul (a.pow n) (b.pow n) = .ok (c.pow n) := by
  by_cases za : a.base = 0
  · have := eq_identity_of_base ha za; subst this
    rw [identity_mul hb] at h; injection h with h; subst h
    have : identity.pow n = identity := by simp [pow, new, identity]
    rw [this, identity_mul (pow_normal hb n)]
  by_cases zb : b.base = 0
  · have := eq_identity_of_base hb zb; subst this
    rw [mul_identity] at h; injection h with h; subst h
    have : identity.pow n = identity := by simp [pow, new, identity]
    rw [this, mul_identity]
  have hab : b.base = a.base := by
    unfold mul at h; simp only [beq_iff_eq, zb, za, ↓reduceIte] at h
    split at h
    · next hh => exact hh
    · cases h
  have hc : c = new a.base (a.exp + b.exp) := by
    unfold mul at h; simp only [beq_iff_eq, zb, za, hab, ↓reduceIte] at h
    injection h with h; exact h.symm
  subst hc
  have hea : a.exp ≠ 0 := fun e => za (ha.2 e)
  have heb : b.exp ≠ 0 := fun e => zb (hb.2 e)
  cases a with | mk ba ea => cases b with | mk bb eb =>
  simp only at za zb hab hea heb
  subst hab
  unfold mul pow new identity
  by_cases hn : n = 0
  · subst hn
    by_cases hs : ea + eb = 0 <;> simp [za, hs]
  · have h1 : ea * n ≠ 0 := by simp [Int.mul_eq_zero, hea, hn]
    have h2 : eb * n ≠ 0 := by simp [Int.mul_eq_zero, heb, hn]
    by_cases hs : ea + eb = 0
    · have : ea * n + eb * n = 0 := by rw [← Int.add_mul, hs]; simp
      simp [za, h1, h2, hs, this]
    · have : ea * n + eb * n ≠ 0 := by rw [← Int.add_mul]; simp [Int.mul_eq_zero, hs, hn]
      simp [za, h1, h2, hs, this, Int.add_mul]

end Pfx
end Measured
