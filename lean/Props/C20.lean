/-
  Props/C20.lean — singletons stay singletons when constructed concurrently.

  * `agreement`      with the lock: for EVERY schedule and ANY number of threads, all threads that
                     have returned hold the same object, it is the intern-table entry, and exactly one
                     object was ever created for the key (`single_entry`);
  * `later_lookup`   a later evaluation (a thread that starts after the others) returns that object;
  * `race_exists`    without the lock there is a 6-step, 2-thread schedule on which the two threads
                     obtain different objects (the defect the `fix:` commit repairs) — evaluated by
                     the kernel; per run, `Obligations/C20.lean` checks which program /repo contains.
-/
import Model.Threads

namespace Measured
namespace C20
open Threads

/-- invariant: lock discipline + every returned object is the table entry + one allocation -/
structure LockInv (s : Sh) : Prop where
  holder : ∀ t, ((s.thr t).pc = .check ∨ (s.thr t).pc = .allocInsert ∨ (s.thr t).pc = .release) → s.lock = some t
  alloc_none : ∀ t, (s.thr t).pc = .allocInsert → s.known = none
  ret_known : ∀ t o, (s.thr t).ret = some o → s.known = some o
  ret_pc : ∀ t, ((s.thr t).pc = .acquire ∨ (s.thr t).pc = .check ∨ (s.thr t).pc = .allocInsert) → (s.thr t).ret = none
  count : (s.known = none ∧ s.next = 0) ∨ (s.known = some 0 ∧ s.next = 1)

theorem inv_init : LockInv ({} : Sh) := by
  constructor
  · intro t; simp
  · intro t; simp
  · intro t; simp
  · intro t; simp
  · exact Or.inl ⟨rfl, rfl⟩

theorem inv_step (s : Sh) (t : Nat) (h : LockInv s) : LockInv (step true s t) := by
  obtain ⟨h1, h2, h3, h4, h5⟩ := h
  have a1 := h1 t; have a2 := h2 t; have a3 := h3 t; have a4 := h4 t
  unfold step
  cases hpc : (s.thr t).pc <;> simp only [hpc, if_true] at a1 a2 a4 ⊢
  · cases hl : s.lock with
    | some x => exact ⟨h1, h2, h3, h4, h5⟩
    | none =>
      refine ⟨?_, ?_, ?_, ?_, h5⟩ <;> intro u <;> by_cases hut : u = t <;> simp only [upd, hut, if_true, if_false] <;> grind
  · cases hk : s.known with
    | some o =>
      refine ⟨?_, ?_, ?_, ?_, ?_⟩
      · intro u; by_cases hut : u = t <;> simp only [upd, hut, if_true, if_false] <;> grind
      · intro u; by_cases hut : u = t <;> simp only [upd, hut, if_true, if_false] <;> grind
      · intro u; by_cases hut : u = t <;> simp only [upd, hut, if_true, if_false] <;> grind
      · intro u; by_cases hut : u = t <;> simp only [upd, hut, if_true, if_false] <;> grind
      · simpa [hk] using h5
    | none =>
      refine ⟨?_, ?_, ?_, ?_, ?_⟩
      · intro u; by_cases hut : u = t <;> simp only [upd, hut, if_true, if_false] <;> grind
      · intro u; by_cases hut : u = t <;> simp only [upd, hut, if_true, if_false] <;> grind
      · intro u; by_cases hut : u = t <;> simp only [upd, hut, if_true, if_false] <;> grind
      · intro u; by_cases hut : u = t <;> simp only [upd, hut, if_true, if_false] <;> grind
      · simpa [hk] using h5
  · have hkn := a2 trivial
    have hnext : s.next = 0 := by
      rcases h5 with ⟨_, h⟩ | ⟨h, _⟩
      · exact h
      · rw [hkn] at h; cases h
    refine ⟨?_, ?_, ?_, ?_, ?_⟩
    · intro u; by_cases hut : u = t <;> simp only [upd, hut, if_true, if_false] <;> grind
    · intro u; by_cases hut : u = t <;> simp only [upd, hut, if_true, if_false] <;> grind
    · intro u; by_cases hut : u = t <;> simp only [upd, hut, if_true, if_false] <;> grind
    · intro u; by_cases hut : u = t <;> simp only [upd, hut, if_true, if_false] <;> grind
    · right; simp [hnext]
  · refine ⟨?_, ?_, ?_, ?_, h5⟩ <;> intro u <;> by_cases hut : u = t <;> simp only [upd, hut, if_true, if_false] <;> grind
  · exact ⟨h1, h2, h3, h4, h5⟩

theorem inv_run (s : Sh) (sched : List Nat) (h : LockInv s) : LockInv (run true s sched) := by
  induction sched generalizing s with
  | nil => exact h
  | cons t rest ih => exact ih _ (inv_step s t h)

/-- **Every schedule, any number of threads**: all threads that returned got the same object, and
    it is the table entry. -/
theorem agreement (sched : List Nat) (t u : Nat) (a b : Nat)
    (ha : ((run true {} sched).thr t).ret = some a) (hb : ((run true {} sched).thr u).ret = some b) :
    a = b ∧ (run true {} sched).known = some a := by
  have h := inv_run {} sched inv_init
  have h1 := h.ret_known t a ha
  have h2 := h.ret_known u b hb
  rw [h1] at h2
  exact ⟨Option.some.inj h2, h1⟩

/-- **The registry ends with a single entry**: at most one object is ever created for the key. -/
theorem single_entry (sched : List Nat) : (run true {} sched).next ≤ 1 := by
  have h := (inv_run {} sched inv_init).count
  rcases h with ⟨_, h⟩ | ⟨_, h⟩ <;> omega

/-- **Later evaluations return that object**: whatever happened before (`before`), a thread that
    evaluates afterwards (`after`, any continuation) obtains the object an earlier thread got. -/
theorem later_lookup (before after : List Nat) (t u : Nat) (a b : Nat)
    (ha : ((run true {} before).thr t).ret = some a)
    (hb : ((run true {} (before ++ after)).thr u).ret = some b) : a = b := by
  have hi := inv_run {} before inv_init
  have hk := hi.ret_known t a ha
  -- the entry, once set, never changes (count invariant: it is object 0 forever)
  have h2 := inv_run {} (before ++ after) inv_init
  have hk2 := h2.ret_known u b hb
  have c1 := hi.count
  have c2 := h2.count
  rw [hk] at c1
  rw [hk2] at c2
  rcases c1 with ⟨c, _⟩ | ⟨c, _⟩
  · cases c
  · rcases c2 with ⟨d, _⟩ | ⟨d, _⟩
    · cases d
    · injection c with c; injection d with d; omega

/-- **Without the lock the property fails**: both threads miss, both create. -/
theorem race_exists :
    ((run false {} [0, 0, 1, 1, 0, 1]).thr 0).ret = some 0 ∧ ((run false {} [0, 0, 1, 1, 0, 1]).thr 1).ret = some 1 ∧
    (run false {} [0, 0, 1, 1, 0, 1]).next = 2 := by
  decide

/-- Non-vacuity of `agreement`: a schedule on which two threads do return. -/
example : ((run true {} [0, 1, 0, 0, 0, 1, 1, 1, 1]).thr 0).ret = some 0 ∧
    ((run true {} [0, 1, 0, 0, 0, 1, 1, 1, 1]).thr 1).ret = some 0 := by decide

end C20
end Measured
