"""C17 — parsing is total: any text yields a Unit/Quantity or ParseError/KeyError.

Generator: grammar derivations over the REGISTERED symbols, names and prefix+symbol splits
(plus unknown symbols), with ^n / superscript exponents from 0 to thousands of digits, int and
float magnitudes of every literal shape (huge, tiny, 400 and 5000 digits, 1e400, -0.0),
token-level mutations, class-boundary characters, random alphabet strings and arbitrary
unicode.  Each text is parsed twice with each entry point.  The last fifth of every chunk uses
texts outside the Lean model (prefixes of different bases multiplied, float exponents beyond
400), where only the implementation oracle applies.
Oracle (implementation only): the outcome is a Unit/Quantity, ParseError or KeyError; the
second parse gives the identical unit / an equal quantity of the same magnitude type (or the
same exception type); Unit._by_name/_by_symbol, Prefix._by_name/_by_symbol and
Dimension._by_name are unchanged by every parse; an accepted magnitude is an int or a float as
written and not NaN.
"""
import math
import re
import traceback

from measured import Dimension, Prefix, Quantity, Unit
from measured.parsing import ParseError

from .c16 import BOUNDARY, ALPHA, SUPER, htok, mutate, ws
from .common import BaseContext

LEVEL_TEXT = ("Lean, for EVERY LR table, text and state: Unit.parse/Quantity.parse in the model return a value or fail with ParseError or "
              "KeyError only (parse_total_unit/_quantity; the model's own `unmodelled' is the third, declared, outcome), and - accepted or "
              "rejected - leave all registries of names and symbols, the prefix and dimension tables, the base units and the conversion "
              "graph exactly as they were, the unit table only gaining interned anonymous units (parse_frame_*, parse_graph_*). Proved by "
              "two generic inductions over the LR driver (Proofs/ParseGen: a relation every semantic action respects is respected by the "
              "whole run; an error is parseError, fuel, or one an action produced) and a case analysis of every QuantityTransformer "
              "callback (Proofs/ParseFrame). In every state satisfying the C01 invariant and C02's canonical table - hence in every state "
              "reachable from the imported library (reachable_good) - parsing a text and parsing it again gives the same outcome, the "
              "same object or the same exception, and the second parse changes nothing; more generally the second parse may happen "
              "after any further interning (parse_idempotent_unit/_quantity, parse_repeatable: a third induction over the LR driver, "
              "`every semantic action is stable under extension of the intern table', Proofs/ParseStable + Proofs/ParseIdem). Tied to "
              "the code by differential execution of parse on generated texts and an implementation "
              "oracle for exception types, idempotence, registry snapshots and magnitude types.")
LEVEL_NOTE = ("Magnitude type: proved that an accepted quantity never carries a Decimal and that its unit exists (parse_magnitude_type); and that the magnitude is int(text) of an integer literal or float(text) of a decimal literal, the callbacks never turning one into the other (parse_magnitude_as_written, parse_magnitude_int_iff), an int magnitude being the decimal value of a text of the shape [+-]digits with no point and no exponent (parse_int_magnitude_is_integer_literal); that the literal is the NUMBER token of the input (not some other piece of text) is decided by the oracle and the correspondence. The model declines products of prefixes with different bases; there "
              "the implementation is only checked by the oracle. Trusted: Lean kernel; Model/LALR.lean as a model of the embedded lark "
              "engine; the hand-written terminal matchers (see C16).")
TECHNIQUE = "Lean 4 induction over the LR driver (error closure and registry frame for every table/text/state) + differential correspondence + implementation oracle"

THEOREMS = [
    "Measured.parseWith_rel", "Measured.parseWith_err", "Measured.transformerAct_frame",
    "Measured.C17.parse_total_unit", "Measured.C17.parse_total_quantity",
    "Measured.C17.parse_frame_unit", "Measured.C17.parse_frame_quantity",
    "Measured.C17.parse_graph_unit", "Measured.C17.parse_graph_quantity",
    "Measured.parseWith_stable", "Measured.parseWith_idempotent", "Measured.transformerAct_ok",
    "Measured.C17.parse_idempotent_unit", "Measured.C17.parse_idempotent_quantity", "Measured.C17.parse_repeatable", "Measured.C17.parse_magnitude_type", "Measured.C17.parse_magnitude_as_written", "Measured.C17.parse_magnitude_int_iff", "Measured.C17.parse_int_magnitude_is_integer_literal", "Measured.pyInt_ok_shape",
    "Measured.Obligations.reachable_good", "Measured.Obligations.reachable_parse_idempotent_unit",
    "Measured.Obligations.reachable_parse_idempotent_quantity", "Measured.Obligations.reachable_parse_magnitude_as_written",
]
LEAN_TARGETS = ["Props.C17", "Obligations.C17"]
QUICK = {"chunks": 8, "ops": 1500}
THOROUGH = {"chunks": 16, "ops": 12000}
RULE = ("(entry point, text); non-trivial = the text reaches the transformer (at least one symbol resolved) or is rejected after the "
        "first token; distinct by text")


FLOAT_RE = re.compile(r"(?:(?:\+|\-))?(?:(?:[0-9])+(?:e|E)(?:(?:\+|\-))?(?:[0-9])+|(?:(?:[0-9])+\.(?:(?:[0-9])+)?|\.(?:[0-9])+)(?:(?:e|E)(?:(?:\+|\-))?(?:[0-9])+)?)")
INT_RE = re.compile(r"(?:(?:\+|\-))?(?:[0-9])+")


class Context(BaseContext):
    def __init__(self, sess, rng):
        super().__init__(sess, rng)
        self.symbols = sorted(Unit._by_symbol)
        self.names = sorted(n for n in Unit._by_name if " " not in n)
        self.si = [p.symbol for p in self.si_prefixes if p.symbol]
        self.iec = [p.symbol for p in self.iec_prefixes if p.symbol]
        self.extra = {"outcomes": {}, "kinds": {}}
        self.snap = self.snapshot()

    def snapshot(self):
        return (dict(Unit._by_name), dict(Unit._by_symbol), dict(Prefix._by_name), dict(Prefix._by_symbol),
                dict(Dimension._by_name))


def sym_bases(text):
    """Non-zero prefix bases met when Unit.resolve_symbol(text) runs (computed without interning)."""
    if text in Unit._by_symbol:
        return {Unit._by_symbol[text].prefix.base} - {0}
    for i in range(1, len(text)):
        p = Prefix._by_symbol.get(text[:i])
        u = Unit._by_symbol.get(text[i:])
        if p is not None and u is not None:
            return {p.base, u.prefix.base} - {0}
    if text in Unit._by_name:
        return {Unit._by_name[text].prefix.base} - {0}
    return set()


def pick_symbol(ctx, base):
    rng = ctx.rng
    for _ in range(30):
        r = rng.random()
        if r < 0.45:
            s = rng.choice(ctx.symbols)
        elif r < 0.75:
            s = rng.choice(ctx.si if rng.random() < 0.7 else ctx.iec) + rng.choice(ctx.symbols)
        elif r < 0.88:
            s = rng.choice(ctx.names)
        else:
            s = rng.choice(["xyz", "q", "kk", "Zm", "mm.", "°", "(", "K°", "1", "11", "µm", "k", "Mi", "da", "dam", "-m"])
        bs = sym_bases(s)
        if base[0] is None:            # anything goes (texts outside the model)
            return s
        if len(bs) > 1 or (bs and base[0] and bs != {base[0]}):
            continue
        if bs:
            base[0] = next(iter(bs))
        return s
    return "m"


def exponent(rng, wild):
    r = rng.random()
    if r < 0.45:
        return ""
    n = str(rng.choice([0, 1, 2, 3, -1, -2, 7, 12, 100]))
    if wild and rng.random() < 0.3:
        n = rng.choice(["1000000", "1" + "0" * 30, "9" * 400, "1" * 4299, "1" * 4300, "1" * 4301, "7" * 5000, "-" + "3" * 4400,
                        "0" * 4400 + "2"])
    neg = n.startswith("-")
    digits = n.lstrip("-")
    if r < 0.75:
        return "^" + ("-" if neg else rng.choice(["", "+"])) + digits
    return ("⁻" if neg else "") + "".join(SUPER[int(d)] for d in digits)


def magnitude(rng, wild):
    r = rng.random()
    if r < 0.35:
        return rng.choice(["5", "-5", "+5", "0", "-0", "007", str(rng.randint(-10 ** 9, 10 ** 9)), "9" * 25])
    if r < 0.75:
        return rng.choice(["5.1", "5.", ".5", "-.5e3", "5e3", "5E-3", "+1.25e+10", "1e300", "-1e-300", "-0.0", "0e0", "1e-320",
                           repr(rng.uniform(-1e6, 1e6)), "%.3e" % rng.uniform(-1e6, 1e6), "0." + "1" * 40])
    if wild:
        return rng.choice(["1e400", "-1e400", "1e-400", "9" * 400, "9" * 4300, "9" * 4301, "-" + "9" * 5000, "1e99999999999", "1e-99999999999",
                           "0." + "1" * 5000, "1" * 5000 + ".5", "1e" + "9" * 5000])
    return "1"


def gen_tokens(ctx, quantity, wild, cross):
    rng = ctx.rng
    toks = []
    base = [0]
    if quantity:
        toks += [magnitude(rng, wild), ws(rng)]

    def seq():
        n = rng.choice([1, 1, 2, 2, 3, 4])
        style = rng.choice(["juxt", "mul"])
        for i in range(n):
            if i:
                if style == "mul":
                    toks.extend([ws(rng), rng.choice(["*", "⋅"]), ws(rng)])
                else:
                    prev = toks[-1]
                    toks.append(ws(rng, need=not (prev and prev[-1] in SUPER)))
            if cross:
                base[0] = None
            toks.append(pick_symbol(ctx, base))
            e = exponent(rng, wild)
            if e:
                toks.append(e)

    seq()
    if rng.random() < 0.4:
        toks.extend([ws(rng), "/", ws(rng)])
        seq()
    return toks


def gen_text(ctx, outside):
    rng = ctx.rng
    r = rng.random()
    q = rng.random() < 0.5
    if outside:
        return "outside-model", "".join(gen_tokens(ctx, q, True, True))
    if r < 0.45:
        return "valid", "".join(gen_tokens(ctx, q, False, False))
    if r < 0.55:
        return "valid-wild-int", "".join(gen_tokens(ctx, q, rng.random() < 0.5, False)).replace("1e400", "1e300")
    if r < 0.80:
        return "mutated", "".join(mutate(rng, gen_tokens(ctx, q, False, False)))
    if r < 0.92:
        n = rng.choice([0, 1, 2, 3, 5, 8])
        return "alphabet", "".join(rng.choice(ALPHA + BOUNDARY) for _ in range(n))
    n = rng.choice([1, 2, 4, 9])
    return "unicode", "".join(chr(rng.choice([rng.randrange(32, 127), rng.randrange(0x80, 0x3000), rng.randrange(1, 0x20)]))
                              for _ in range(n))


def outcome_of(res):
    if res.startswith("ok"):
        return "ok"
    return res[4:]


def oracle(ctx, line, res):
    f = line.split("\t")
    if f[0] != "X" or f[1] not in ("uparse", "qparse"):
        return []
    fails = []
    text = ctx.sess.arg(f[2])
    ctx.oracle_checks += 1
    out = outcome_of(res)
    ctx.extra["outcomes"][out] = ctx.extra["outcomes"].get(out, 0) + 1
    fn = Unit.parse if f[1] == "uparse" else Quantity.parse
    shown = text if len(text) < 120 else text[:60] + "…(%d chars)" % len(text)
    # (1) only the allowed exception types escape
    if out not in ("ok", "ParseError", "KeyError"):
        site = ""
        try:
            fn(text)
        except Exception as e:  # noqa: BLE001
            # the innermost method of the library on the stack (helpers like _add/_mul skipped)
            tb = e.__traceback__
            while tb is not None:
                code = tb.tb_frame.f_code
                if "/measured/" in code.co_filename and not code.co_filename.endswith("_parser.py") \
                        and "." in code.co_qualname:
                    site = code.co_qualname
                tb = tb.tb_next
        fails.append({"kind": "escaping-exception", "error": out, "site": site, "entry": f[1], "text": shown, "codepoints": f[2][:400]})
    # (2) a REJECTED input leaves the registries unchanged (the property says nothing about accepted
    #     ones; there the Lean frame theorem and the STATE digests of the correspondence apply)
    snap = ctx.snapshot()
    for name, a, b in zip(("Unit._by_name", "Unit._by_symbol", "Prefix._by_name", "Prefix._by_symbol", "Dimension._by_name"), ctx.snap, snap):
        if a.keys() != b.keys() or any(a[k] is not b[k] for k in a):
            ctx.snap = snap
            if out == "ok":
                break
            fails.append({"kind": "registry-changed", "registry": name, "outcome": out, "entry": f[1], "text": shown,
                          "added": sorted(set(b) - set(a))[:5], "removed": sorted(set(a) - set(b))[:5]})
            break
    # (3) the same text again gives the same result
    first = ctx.sess.qs[-1] if (out == "ok" and f[1] == "qparse") else None
    try:
        again = fn(text)
        out2 = "ok"
    except ParseError:
        again, out2 = None, "ParseError"
    except KeyError:
        again, out2 = None, "KeyError"
    except Exception as e:  # noqa: BLE001
        again, out2 = None, type(e).__name__
    if out in ("ok", "ParseError", "KeyError") and out2 != out:
        fails.append({"kind": "not-idempotent", "first": out, "second": out2, "entry": f[1], "text": shown})
    elif out == "ok" and f[1] == "uparse":
        u1 = ctx.sess.U(res.split("\t")[1])
        if again is not u1:
            fails.append({"kind": "not-idempotent", "first": str(u1), "second": str(again), "entry": f[1], "text": shown})
    elif out == "ok" and first is not None:
        same = (type(again.magnitude) is type(first.magnitude) and again.unit is first.unit
                and (again.magnitude == first.magnitude or (again.magnitude != again.magnitude and first.magnitude != first.magnitude)))
        if not same:
            fails.append({"kind": "not-idempotent", "first": repr(first.magnitude), "second": repr(again.magnitude), "entry": f[1], "text": shown})
        # (4) magnitude of the type written, numeric, not NaN
        m = first.magnitude
        # the literal as the grammar's lexer reads it: SIGNED_FLOAT is tried before SIGNED_INT
        body = text.lstrip(" \t\x0c\r\n")
        mf = FLOAT_RE.match(body)
        mi = INT_RE.match(body)
        lit = (mf or mi).group(0) if (mf or mi) else ""
        wrote_float = mf is not None
        if type(m) not in (int, float) or (isinstance(m, float) and math.isnan(m)) or (type(m) is float) != wrote_float:
            fails.append({"kind": "magnitude-type", "magnitude": repr(m)[:60], "literal": lit[:60], "text": shown})
    return fails


def nontrivial(ctx, line, res):
    f = line.split("\t")
    if f[0] == "X" and f[1] in ("uparse", "qparse"):
        return f[1] + f[2]
    return None


def generate(ctx, n_ops):
    rng = ctx.rng
    emitted = 0
    while emitted < n_ops:
        outside = emitted > n_ops * 0.8
        if outside and not ctx.extra.get("marked"):
            ctx.extra["marked"] = emitted
            yield "STATE"
        kind, text = gen_text(ctx, outside)
        text = text.replace("\x00", "").replace("\ud800", "")
        ctx.extra["kinds"][kind] = ctx.extra["kinds"].get(kind, 0) + 1
        tok = htok(text)
        for op in (("uparse", "qparse") if rng.random() < 0.3 else (("qparse",) if text[:1] in "+-.0123456789" else ("uparse",))):
            res = yield "X\t%s\t%s" % (op, tok)
            emitted += 1
            if res.startswith("ok\tq"):
                ctx.nq = getattr(ctx, "nq", 0) + 1
    yield "STATE"
