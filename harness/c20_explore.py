"""C20 exploration on the REAL library: 2-3 threads constructing the same first-time object under
a deterministic line-granularity scheduler (sched.py).

usage: c20_explore.py <seed> <quick|thorough>  -> one JSON line
       c20_explore.py --replay <target> <n> <schedule,comma,separated>

Targets: first-time construction of a dimension, a prefix and a unit, directly through the
interning constructor and through the operators / memoised helpers that end in it.  Schedules:
every single preemption point (thread A runs k lines, B runs to completion, A finishes; all k,
both orders), sampled double preemptions, random schedules of 2 and 3 threads.
"""
import itertools
import json
import os
import random
import sys

HERE = os.path.dirname(os.path.abspath(__file__))
sys.path.insert(0, HERE)
REPO = os.environ.get("MEASURED_REPO", "/repo")
sys.path.insert(0, os.path.join(REPO, "src"))

import sched  # noqa: E402
import measured  # noqa: E402
import measured.systems  # noqa: E402,F401
from measured import Dimension, IdentityPrefix, Length, Logarithm, Prefix, Time, Unit  # noqa: E402
from measured.si import Kilo, Meter, Second  # noqa: E402

FRESH = itertools.count(4000)


def dim_key(n):
    return (0, n, -n, 0, 0, 0, 0, 0, 0, 0)


TARGETS = {
    # name: (tasks for a fresh n, entries-in-table counter, later evaluation)
    "Dimension(key)": lambda n: (
        [lambda: Dimension(dim_key(n))] * 3,
        lambda: sum(1 for d in list(Dimension._known.values()) if d.exponents == dim_key(n)),
        lambda: Dimension(dim_key(n))),
    "Length**n / Time**n": lambda n: (
        [lambda: Length ** n / Time ** n, lambda: Dimension(dim_key(n)), lambda: Length ** n / Time ** n],
        lambda: sum(1 for d in list(Dimension._known.values()) if d.exponents == dim_key(n)),
        lambda: Dimension(dim_key(n))),
    "Prefix(7, n)": lambda n: (
        [lambda: Prefix(7, n)] * 3,
        lambda: sum(1 for p in list(Prefix._known.values()) if (p.base, p.exponent) == (7, n)),
        lambda: Prefix(7, n)),
    "Kilo**n": lambda n: (
        [lambda: Kilo ** n, lambda: Prefix(10, 3 * n), lambda: Kilo ** n],
        lambda: sum(1 for p in list(Prefix._known.values()) if (p.base, p.exponent) == (10, 3 * n)),
        lambda: Prefix(10, 3 * n)),
    "Meter**n": lambda n: (
        [lambda: Meter ** n, lambda: Meter ** n, lambda: Unit(IdentityPrefix, {Meter: n}, Length ** n)],
        lambda: sum(1 for u in list(Unit._known.values()) if u.prefix is IdentityPrefix and dict(u.factors) == {Meter: n}),
        lambda: Meter ** n),
    "Meter**n * Second": lambda n: (
        [lambda: (Meter ** n) * Second, lambda: Second * (Meter ** n), lambda: (Meter ** n) * Second],
        lambda: sum(1 for u in list(Unit._known.values()) if u.prefix is IdentityPrefix and dict(u.factors) == {Meter: n, Second: 1}),
        lambda: (Meter ** n) * Second),
    # a base unit is interned by NAME (`_by_name`, filled by `__init__` -> `alias`): what unpickling does
    "Unit(IdentityPrefix, {}, Length, name, symbol)": lambda n: (
        [lambda: Unit(IdentityPrefix, {}, Length, "smoot%d" % n, "smt%s" % "".join("abcdefghij"[int(c)] for c in str(n)))] * 3,
        lambda: sum(1 for u in list(Unit._known.values()) if "smoot%d" % n in getattr(u, "names", ())),
        lambda: Unit(IdentityPrefix, {}, Length, "smoot%d" % n, "smt%s" % "".join("abcdefghij"[int(c)] for c in str(n)))),
    "Logarithm(n)": lambda n: (
        [lambda: Logarithm(n)] * 3,
        lambda: sum(1 for g in list(Logarithm._known.values()) if g.base == n),
        lambda: Logarithm(n)),
}


def one(target, nthreads, schedule):
    n = next(FRESH)
    tasks, count, later = TARGETS[target](n)
    out = sched.run_schedule(tasks[:nthreads], schedule)
    res = out["results"]
    problem = None
    if out["deadlock"]:
        problem = "deadlock: threads %s did not finish" % out["deadlock"]
    elif any(e is not None for e in out["errors"]):
        problem = "exception: %r" % ([repr(e) for e in out["errors"] if e is not None][:2],)
    elif any(r is not res[0] for r in res):
        problem = "threads obtained different objects (ids %s)" % [id(r) for r in res]
    elif count() != 1:
        problem = "the intern table holds %d entries for the key" % count()
    elif later() is not res[0]:
        problem = "a later evaluation returned another object"
    elif not getattr(res[0], "_initialized", False):
        problem = "the object is not initialised"
    return problem, out, n


def main():
    if sys.argv[1] == "--replay":
        target, nthreads = sys.argv[2], int(sys.argv[3])
        schedule = [int(x) for x in sys.argv[4].split(",") if x]
        problem, out, n = one(target, nthreads, schedule)
        print(json.dumps({"target": target, "problem": problem, "lines": out["lines"]}))
        return 1 if problem else 0
    seed, tier = int(sys.argv[1]), sys.argv[2]
    rng = random.Random(seed)
    failures, explored, hist = [], 0, {}
    for target in TARGETS:
        _p, solo, _n = one(target, 1, [0] * 200)
        L = solo["lines"][0] + 2
        schedules = []
        for k in range(0, L + 1):                      # every single preemption point, both orders
            schedules.append((2, [0] * k + [1] * (L + 30) + [0] * (L + 30)))
            schedules.append((2, [1] * k + [0] * (L + 30) + [1] * (L + 30)))
        pairs = [(k, m) for k in range(1, L) for m in range(1, L)]
        rng.shuffle(pairs)
        for k, m in pairs[: (12 if tier == "quick" else 300)]:   # double preemption
            schedules.append((2, [0] * k + [1] * m + [0] * (L + 30) + [1] * (L + 30)))
        for _ in range(10 if tier == "quick" else 100):                   # random, 2 and 3 threads
            nt = rng.choice([2, 3])
            schedules.append((nt, [rng.randrange(nt) for _ in range(3 * L)]))
        for k in range(0, L + 1, 1 if tier != "quick" else 3):           # 3 threads: one stops at k
            schedules.append((3, [0] * k + [1] * (L + 30) + [2] * (L + 30) + [0] * (L + 30)))
        for nt, s in schedules:
            problem, out, n = one(target, nt, s)
            explored += 1
            hist[target] = hist.get(target, 0) + 1
            if problem:
                failures.append({"kind": "singleton-violated", "target": target, "threads": nt, "problem": problem,
                                 "schedule": out["executed"], "requested_schedule": s[:80], "lines_per_thread": out["lines"],
                                 "replay_cmd": "c20_explore.py --replay %r %d %s" % (target, nt, ",".join(map(str, out["executed"])))})
                if len([f for f in failures if f["target"] == target]) >= 3:
                    break
        if len(failures) >= 3:
            break          # a replayable failing schedule is what is needed; no point in exploring on
    print(json.dumps({"explored": explored, "by_target": hist, "failures": failures[:20], "n_failures": len(failures)}))
    return 0


if __name__ == "__main__":
    sys.exit(main())
