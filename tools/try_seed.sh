#!/bin/bash
# usage: try_seed.sh <patch> <Cxx> [more Cyy ...]   — applies the patch to /repo, runs the quick checks, reverts.
# The evidence files of the unchanged tree are saved and restored: what is committed under evidence/
# must always come from a run on /repo itself.
P=$1; shift
S=$(mktemp -d /tmp/evsave.XXXXXX)
cp /verif/evidence/*.json $S/ 2>/dev/null
cd /repo && git apply "$P" || { echo "patch does not apply"; rm -rf $S; exit 3; }
cd /verif
for c in "$@"; do ./check $c quick 2>&1 | grep -E "VIOLATION|exit [0-9]" ; done
cd /repo && git checkout -- . && git status --short | head -3
cp $S/*.json /verif/evidence/ 2>/dev/null; rm -rf $S
