import itertools, random, math, sys
from fractions import Fraction as F
from measured import *
from measured import systems, conversions
from measured.conversions import ConversionNotFound
# sizes: potential over _ratios graph; node = unprefixed Unit (possibly compound)
R = conversions._ratios
O = conversions._offsets
bases = [u for u in Unit._base]
# size of compound node in terms of base unit sizes: log-linear system. Solve via iterative propagation:
size = {}
from measured.si import Meter, Second, Gram, Coulomb, Kelvin, Mole, Candela, Radian
from measured.iec import Bit
for u in [Meter, Second, Gram, Coulomb, Kelvin, Mole, Candela, One, Bit]:
    size[u] = 1.0
def node_size(n):
    s = 1.0
    for f,e in n.factors.items():
        if f not in size: return None
        s *= size[f]**e
    return s
changed = True
while changed:
    changed = False
    for a, nb in list(R.items()):
        for b, r in list(nb.items()):
            if (a in O and b in O[a]): continue
            # 1 a = r b  => size(a) = r*size(b)
            sa, sb = node_size(a), node_size(b)
            if sa is None and sb is not None:
                unknown = [f for f in a.factors if f not in size]
                if len(unknown)==1:
                    f = unknown[0]; e = a.factors[f]
                    rest = 1.0
                    for g,eg in a.factors.items():
                        if g is not f: rest *= size[g]**eg
                    size[f] = (float(r)*sb/rest)**(1/e)
                    changed = True
missing = [u.name for u in bases if u not in size]
print("unsized base units:", missing)
# check edges
bad = []
for a, nb in R.items():
    for b, r in nb.items():
        if (a in O and b in O[a]): continue
        sa, sb = node_size(a), node_size(b)
        if sa is None or sb is None: continue
        rel = abs(float(r)*sb/sa - 1)
        if rel > 1e-5: bad.append((str(a), str(b), r, rel))
print("inconsistent edges:", len(bad))
for b in bad[:40]: print("  ", b)
import pickle
pickle.dump({u.name: s for u,s in size.items()}, open("sizes.pkl","wb"))
