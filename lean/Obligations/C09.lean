/-
  Per-run obligations for C09 over the declarations intercepted from /repo on this run.
-/
import Props.C09
import Generated.Init
import Generated.Graph
import Generated.Sizes

namespace Measured.Obligations
open Measured Generated

/-- Every shipped declaration (except listed known findings) holds for the certificate. -/
theorem shipped_decls_ok :
    checkDecls init sizeCert tightTol looseTol inexactDecls excludedDecls decls 0 = .ok := by
  decide +kernel

/-- Every ratio stored in the final conversion graph is consistent with the certificate. -/
theorem shipped_graph_ok :
    checkGraph init sizeCert looseTol excludedPairs
      ((flattenTable ratios).filter (fun e => ((offsets.find? (fun r => r.1 == e.1)).map
        (fun r => r.2.any (fun c => c.1 == e.2.1))).getD false == false)) = none := by
  decide +kernel

/-- Every base unit with a physical dimension is reachable from the SI seeds by following
    declarations (the dimensionless ones — radian, degree, … — relate only to each other). -/
theorem shipped_connected :
    (init.base.filter (fun b =>
        !((knownAfter init decls 64 siSeeds).contains b) && !((init.dimOfUnit b).isNumber))) = [] := by
  decide +kernel

theorem tolerances_ok : (0 : Rat) ≤ looseTol ∧ looseTol < 1 ∧ tightTol ≤ looseTol := by
  decide +kernel

/-- C09 instantiated: any two chains of shipped declarations between the same units agree. -/
theorem shipped_chains_agree (hσ : ∀ u, 0 < sizeFn init sizeCert u)
    {a b : UId} {p₁ p₂ : Rat} {k₁ k₂ : Nat}
    (c₁ : Chain ((checkedDecls excludedDecls decls 0).flatMap declEdges) a b p₁ k₁)
    (c₂ : Chain ((checkedDecls excludedDecls decls 0).flatMap declEdges) a b p₂ k₂) :
    p₁ * (1 - looseTol) ^ k₂ ≤ p₂ * (1 / (1 - looseTol)) ^ k₁ :=
  C09.chains_agree' tolerances_ok.1 tolerances_ok.2.1 tolerances_ok.2.2 shipped_decls_ok hσ c₁ c₂

end Measured.Obligations
