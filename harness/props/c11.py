"""C11 — a prefixed unit means exactly prefix factor times unit.

Generator: every registered SI and IEC prefix (and their products, quotients, powers, roots)
applied to registered and compound units, exponents in [-4, 4]; for each case the identities of
the property are executed as operations: m*(p*u) == (m*value(p))*u, (p*u)**n is p**n * u**n,
p*q / p/q on prefixes, identity prefix neutral, division by a prefixed unit, unprefixed().
Oracle (implementation only): SI value = magnitude x prefix value in exact arithmetic (the
unit is the same on both sides), object identity for the unit identities, 1e-9 relative for
products of prefixes of different bases (floats there, as the property says).
"""
import math
import struct
from decimal import Decimal
from fractions import Fraction as F

from measured import One, Prefix, Quantity, Unit

from .common import BaseContext

LEVEL_TEXT = ("Lean: the value of a prefix is a group homomorphism on same-base prefixes - value(p*q) = value p * value q, "
              "value(p/q), value(p**n) = value(p)**n, value(root(p,n))**n = value p, value(identity) = 1, value > 0 - exactly, over Q "
              "(value_mul/div/pow/root); what Prefix.quantify returns in the model has that value; (p.u)**n and p**n . u**n evaluate "
              "to the SAME unit object in every history (unit_pow_prefix, through C02's canonical-identity theorem); "
              "Quantity.unprefixed multiplies the magnitude by exactly the prefix value and strips exactly the prefix "
              "(unprefixed_value). AT THE LEVEL OF CONVERSIONS (the property's `target prefix divided out at the start of every "
              "plan'): for single-factor units of any fundamental dimension, offsets included, a prefix on the source only scales the "
              "magnitude and a prefix on the target is divided out AFTER the path - q.in_unit(p.u)*value(p) = q.in_unit(u) and "
              "(m.(p.u)).in_unit(t) = ((m*value(p)).u).in_unit(t) in every state (flat_prefix_laws, from convert_flat_single). "
              "For prefixes of different bases the implementation's float exponent e2*log b2/log b1 is proved "
              "exact over the reals (cross_base_mul/div/pow in C11Real, Mathlib rpow), so the 1e-9 is rounding only. Per run: every "
              "registered prefix is normalised with key = attributes, and the same-base algebra is total on the shipped prefixes "
              "(decide +kernel). Tied to the code by differential execution and an exact SI-value oracle over all registered "
              "prefixes x units x exponents.")
LEVEL_NOTE = ("Trusted: Lean kernel + Mathlib (zpow lemmas; Real.rpow for the cross-base statement). Cross-base products have float "
              "exponents in Python and are declined by the integer model (Exc.unmodelled); they are checked numerically on the "
              "implementation only. IEEE rounding not modelled.")
TECHNIQUE = "Lean 4 proofs (prefix value homomorphism over Q; cross-base over R; identity via canonical-form theorem) + decide +kernel on regenerated prefixes + differential correspondence + exact oracle"

THEOREMS = [
    "Measured.C11.value_identity", "Measured.C11.value_mul", "Measured.C11.value_div", "Measured.C11.value_pow",
    "Measured.C11.value_root", "Measured.C11.value_pos", "Measured.C11.quantify_value",
    "Measured.C11.den_unit_pow_prefix", "Measured.C11.unit_pow_prefix", "Measured.C11.unprefixed_value",
    "Measured.C11.cross_base_mul", "Measured.C11.cross_base_div", "Measured.C11.cross_base_pow",
    "Measured.Obligations.prefixes_wellformed", "Measured.Obligations.prefixes_closed",
    "Measured.Obligations.shipped_unit_pow_prefix",
    "Measured.flat_prefix_laws", "Measured.convert_flat_single",
    "Measured.C11.prefixes_scale_conversions",
]
LEAN_TARGETS = ["Props.C11", "Props.C11Real", "Proofs.Flat", "Obligations.C11", "Props.Planner"]
QUICK = {"chunks": 4, "ops": 1000}
THOROUGH = {"chunks": 16, "ops": 6000}
RTOL = 1e-11
RULE = ("(prefix, unit, exponent, magnitude) tuples with prefixes enumerated round-robin over all registered SI and IEC "
        "prefixes; non-trivial = the prefix is not the identity; distinct by the op text")


class Context(BaseContext):
    def __init__(self, sess, rng):
        super().__init__(sess, rng)
        self.nq = 0
        self.extra["cross_base_checks"] = 0


def pval(p):
    if p.base == 0:
        return F(1)
    e = p.exponent
    if isinstance(e, int):
        return F(p.base) ** e
    return None


def si(q):
    v = pval(q.unit.prefix)
    return None if v is None else F(q.magnitude) * v


def oracle(ctx, line, res):
    f = line.split("\t")
    fails = []
    if f[0] == "X" and f[1] == "eq" and getattr(ctx, "expect_eq", None) == line:
        # m*(p*u) equals (m*value(p))*u: same unprefixed unit, SI values equal.  Python's `==`
        # compares the two float products exactly, so a one-ulp rounding difference makes it
        # False; the oracle therefore compares the exact SI values (1e-12) and requires `==`
        # itself only when the two products are bit-identical.
        ctx.oracle_checks += 1
        a, b = ctx.sess.arg(f[2]), ctx.sess.arg(f[3])
        va, vb = si(a), si(b)
        same_unit = a.unprefixed().unit is b.unprefixed().unit
        if not same_unit:
            fails.append({"kind": "prefix-identity-broken", "law": ctx.expect_law, "a": str(a), "b": str(b),
                          "detail": "unprefixed units differ"})
        elif va is not None and vb is not None and abs(va - vb) > F(1, 10**12) * max(abs(va), abs(vb)):
            fails.append({"kind": "prefix-identity-broken", "law": ctx.expect_law, "a": str(a), "b": str(b),
                          "si_a": float(va), "si_b": float(vb)})
        elif a.unprefixed().magnitude == b.unprefixed().magnitude and res != "ok\tb\ttrue":
            fails.append({"kind": "prefix-identity-broken", "law": ctx.expect_law, "a": str(a), "b": str(b), "got": res})
    elif f[0] == "X" and f[1] == "unpre" and res.startswith("ok\tq"):
        ctx.oracle_checks += 1
        q = ctx.sess.arg(f[2])
        r = ctx.sess.qs[-1]
        want = si(q)
        if r.unit.prefix.exponent != 0:
            fails.append({"kind": "unprefixed-has-prefix", "unit": str(r.unit)})
        if want is not None and abs(F(r.magnitude) - want) > F(1, 10**12) * abs(want):
            fails.append({"kind": "unprefixed-changes-value", "q": str(q), "got": str(r.magnitude), "want": float(want)})
        if list(r.unit.factors.items()) != list(q.unit.factors.items()) or r.unit.dimension is not q.unit.dimension:
            fails.append({"kind": "unprefixed-changes-unit", "q": str(q)})
    elif f[0] == "X" and f[1] == "conv" and getattr(ctx, "expect_conv", (None,))[0] == line:
        _, i1, ptxt = ctx.expect_conv
        ctx.expect_conv = (None,)
        if res.startswith("ok\tq"):
            ctx.oracle_checks += 1
            r1, r2 = ctx.sess.qs[i1], ctx.sess.qs[-1]
            v = pval(r1.unit.prefix)
            if v is not None:
                got, want = F(r1.magnitude) * v, F(r2.magnitude)
                slack = F(1000) if r2.unit.dimension.name == "temperature" else F(0)
                if abs(got - want) > F(1, 10**9) * (max(abs(got), abs(want)) + slack):
                    fails.append({"kind": "prefixed-target-conversion", "law": "q.in_unit(p*u) * value(p) == q.in_unit(u)",
                                  "prefix": ptxt, "into_prefixed": str(r1), "into_plain": str(r2),
                                  "si_prefixed": float(got), "si_plain": float(want)})
    elif f[0] == "X" and f[1] == "pvalue" and res.startswith("ok\tm"):
        ctx.oracle_checks += 1
        p = ctx.sess.arg(f[2])
        want = pval(p)
        got = p.quantify()
        if want is not None and abs(F(got) - want) > F(1, 10**12) * want:
            fails.append({"kind": "prefix-value", "prefix": repr(p), "got": str(got)})
    return fails


def final_oracle(ctx):
    """Cross-base identities, numerically (1e-9), on the implementation."""
    rng = ctx.rng
    fails = []
    from measured.si import Meter
    from measured.iec import Bit
    for _ in range(150):
        p, q = rng.choice(ctx.si_prefixes), rng.choice(ctx.iec_prefixes)
        if rng.random() < 0.5:
            p, q = q, p
        n = rng.choice([-3, -2, -1, 1, 2, 3])
        m = rng.choice([1, 3, 2.5, -7])
        u = rng.choice([Bit, Meter])
        ctx.extra["cross_base_checks"] += 1
        checks = [
            ("value-mul", (p * q).quantify(), p.quantify() * q.quantify()),
            ("value-div", (p / q).quantify(), p.quantify() / q.quantify()),
            ("value-pow", ((p * q) ** n).quantify(), (p.quantify() * q.quantify()) ** n),
            ("quantity", (m * ((p * q) * u)).unprefixed().magnitude, m * p.quantify() * q.quantify()),
            ("div-prefixed", ((m * (p * u)) / (1 * (q * u))).unprefixed().magnitude, m * p.quantify() / q.quantify()),
        ]
        for name, got, want in checks:
            ctx.oracle_checks += 1
            if not math.isclose(got, want, rel_tol=1e-9):
                fails.append({"kind": "cross-base-" + name, "p": repr(p), "q": repr(q), "got": got, "want": want})
    return fails


def nontrivial(ctx, line, res):
    f = line.split("\t")
    if "p0:0" in line or f[0] == "STATE":
        return None
    if any(t.startswith("p") and ":" in t for t in f[2:]) or f[1] in ("unpre", "eq"):
        return line
    return None


def ftok(x):
    return "f:%016x" % struct.unpack("<Q", struct.pack("<d", float(x)))[0]


def generate(ctx, n_ops):
    rng = ctx.rng
    emitted = 0
    prefixes = sorted(ctx.prefixes, key=lambda p: (p.base, p.exponent)) + [Prefix(0, 0)]
    k = rng.randrange(10**6)

    def ptok(p):
        return "p%d:%d" % (p.base, p.exponent)

    def uref(res):
        return int(res.split("\t")[1][1:]) if res.startswith("ok\tu") else None

    while emitted < n_ops:
        k += 1
        p = prefixes[k % len(prefixes)]
        same = [x for x in prefixes if x.base in (0, p.base)] if p.base else prefixes
        q = rng.choice(same)
        # a unit without prefix of another base
        for _ in range(20):
            u = ctx.pick_unit()
            if ctx.unit(u).prefix.base in (0, p.base or ctx.unit(u).prefix.base):
                break
        else:
            u = ctx.base_units[0]
        n = ctx.small_int(-4, 4, nonzero=True)
        m = rng.choice(["i:1", "i:3", "i:-7", ftok(2.5), ftok(1e-3), "d:125/10"])
        law = rng.choice(["shift", "powprefix", "ppq", "unpre", "divpre", "identity", "pvalue", "proot", "convpre"])
        if law == "pvalue":
            yield "X\tpvalue\t%s" % ptok(p)
            emitted += 1
            continue
        if law == "ppq":
            # p*q and p/q on prefixes, then applied to a unit, agree with successive application
            res = yield "X\tmul\t%s\t%s" % (ptok(p), ptok(q))
            emitted += 1
            if res.startswith("ok\tp"):
                pq = res.split("\t")[1]
                a = uref((yield "U\tpmul\t%s\tu%d" % (pq, u)))
                b1 = uref((yield "U\tpmul\t%s\tu%d" % (ptok(p), u)))
                emitted += 2
                if b1 is not None:
                    b = uref((yield "U\tpmul\t%s\tu%d" % (ptok(q), b1)))
                    emitted += 1
                    if a is not None and b is not None and a != b:
                        ctx.extra.setdefault("identity_mismatch", []).append((pq, u, a, b))
            res = yield "X\tdiv\t%s\t%s" % (ptok(p), ptok(q))
            emitted += 1
            continue
        if law == "proot":
            res = yield "X\tpow\t%s\tn:%d" % (ptok(p), n)
            emitted += 1
            if res.startswith("ok\tp"):
                yield "X\troot\t%s\tn:%d" % (res.split("\t")[1], n)
                emitted += 1
            continue
        if law == "convpre":
            # converting INTO p*u is converting into u and dividing by value(p) - with offsets too (the target
            # prefix must be divided out after the path, not before): fundamental base units only (the
            # planner's clean fragment), temperatures over-represented
            fund = getattr(ctx, "fund_base", None)
            if fund is None:
                fund = ctx.fund_base = [i for i in ctx.base_units
                                        if sum(abs(e) for e in ctx.unit(i).dimension.exponents) == 1]
                ctx.temp_base = [i for i in fund if ctx.unit(i).dimension.name == "temperature"]
            u2 = rng.choice(ctx.temp_base) if (ctx.temp_base and rng.random() < 0.4) else rng.choice(fund)
            ws = [j for j in fund if j != u2 and ctx.unit(j).dimension is ctx.unit(u2).dimension]
            if not ws or p.base == 0:
                continue
            w = rng.choice(ws)
            pu2 = uref((yield "U\tpmul\t%s\tu%d" % (ptok(p), u2)))
            emitted += 1
            if pu2 is None:
                continue
            res = yield "X\tqnew\t%s\tu%d" % (m, w)
            emitted += 1
            if not res.startswith("ok\tq"):
                continue
            qa = ctx.nq
            ctx.nq += 1
            r1 = yield "X\tconv\tq%d\tu%d" % (qa, pu2)
            emitted += 1
            if r1.startswith("ok\tq"):
                ctx.nq += 1
            line = "X\tconv\tq%d\tu%d" % (qa, u2)
            if r1.startswith("ok\tq"):
                ctx.expect_conv = (line, len(ctx.sess.qs) - 1, ptok(p))
            r2 = yield line
            emitted += 1
            if r2.startswith("ok\tq"):
                ctx.nq += 1
            continue
        pu = uref((yield "U\tpmul\t%s\tu%d" % (ptok(p), u)))
        emitted += 1
        if pu is None:
            continue
        if law == "shift":
            # m*(p*u) == (m*value(p))*u
            ra = yield "X\tqnew\t%s\tu%d" % (m, pu)
            emitted += 1
            qa = ctx.nq
            ctx.nq += 1
            res = yield "X\tmul\t%s\t%s" % (m, ptok(p))      # a quantity of One with magnitude m*value(p)
            emitted += 1
            if not res.startswith("ok\tq"):
                continue
            qo = ctx.nq
            ctx.nq += 1
            res = yield "X\tmul\tq%d\tu%d" % (qo, u)
            emitted += 1
            if not res.startswith("ok\tq"):
                continue
            qb = ctx.nq
            ctx.nq += 1
            line = "X\teq\tq%d\tq%d" % (qa, qb)
            ctx.expect_eq, ctx.expect_law = line, "m*(p*u) == (m*value(p))*u"
            yield line
            emitted += 1
        elif law == "powprefix":
            a = uref((yield "U\tpow\tu%d\t%d" % (pu, n)))
            res = yield "X\tpow\t%s\tn:%d" % (ptok(p), n)
            un = uref((yield "U\tpow\tu%d\t%d" % (u, n)))
            emitted += 3
            if res.startswith("ok\tp") and un is not None:
                b = uref((yield "U\tpmul\t%s\tu%d" % (res.split("\t")[1], un)))
                emitted += 1
                if a is not None and b is not None and a != b:
                    ctx.extra.setdefault("identity_mismatch", []).append(("powprefix", pu, n, a, b))
        elif law == "unpre":
            yield "X\tqnew\t%s\tu%d" % (m, pu)
            qa = ctx.nq
            ctx.nq += 1
            res = yield "X\tunpre\tq%d" % qa
            emitted += 2
            if res.startswith("ok\tq"):
                ctx.nq += 1
        elif law == "divpre":
            # dividing by a prefixed unit divides by its factor: (m u) / (p u) == (m / value(p)) one-ish
            yield "X\tqnew\t%s\tu%d" % (m, u)
            qa = ctx.nq
            ctx.nq += 1
            res = yield "X\tdiv\tq%d\tu%d" % (qa, pu)
            emitted += 2
            if res.startswith("ok\tq"):
                qd = ctx.nq
                ctx.nq += 1
                res = yield "X\tunpre\tq%d" % qd
                emitted += 1
                if res.startswith("ok\tq"):
                    ctx.nq += 1
        elif law == "identity":
            a = uref((yield "U\tpmul\tp0:0\tu%d" % pu))
            emitted += 1
            if a is not None and a != pu:
                ctx.extra.setdefault("identity_mismatch", []).append(("identity", pu, a))
    yield "STATE"


def final_oracle_wrapper(ctx):
    fails = final_oracle(ctx)
    for mm in ctx.extra.get("identity_mismatch", []):
        fails.append({"kind": "prefix-object-identity", "detail": repr(mm)})
    return fails


_final = final_oracle


def final_oracle(ctx):  # noqa: F811
    fails = _final(ctx)
    for mm in ctx.extra.get("identity_mismatch", []):
        fails.append({"kind": "prefix-object-identity", "detail": repr(mm)})
    return fails
