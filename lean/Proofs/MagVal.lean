/-
  Proofs/MagVal.lean — exact arithmetic instance: over `ℚ` the tagged magnitude arithmetic
  (`_add/_sub/_mul/_div`, `**`) is a homomorphism onto the field, so theorems about values
  can be stated about plain rationals.
-/
import Model.Convert
import Mathlib.Algebra.Order.Field.Basic
import Mathlib.Tactic.Ring
import Mathlib.Tactic.FieldSimp
import Mathlib.Tactic.Linarith
import Mathlib.Tactic.Positivity
import Mathlib.Tactic.NormNum

namespace Measured

/-- The exact-arithmetic carrier: a "float" is a rational (no rounding).  `sqrt`, `log`,
    `rpow` have no rational counterpart; they are constants here and no theorem below
    mentions them. -/
instance : FloatLike Rat where
  ofInt i := (i : Rat)
  ofBits b := ratOfBits b
  toRat x := x
  ofRat x := x
  sqrt _ := 0
  log _ := 0
  rpow _ _ := 0
  powInt x n := x ^ n
  isZero x := x == 0
  lt x y := decide (x < y)
  beq x y := x == y

/-- The value of a tagged magnitude. -/
def Mag.val (m : Mag Rat) : Rat := m.toRat

@[simp] theorem val_int (i : Int) : (Mag.int i : Mag Rat).val = (i : Rat) := rfl
@[simp] theorem val_flt (x : Rat) : (Mag.flt x : Mag Rat).val = x := rfl
@[simp] theorem val_dec (x : Rat) : (Mag.dec x : Mag Rat).val = x := rfl

theorem toFlt_val (m : Mag Rat) : m.toFlt = m.val := by cases m <;> rfl

theorem val_add (a b : Mag Rat) : (Mag.add a b).val = a.val + b.val := by
  unfold Mag.add
  split
  · rfl
  · cases a <;> cases b <;> simp [Mag.val, Mag.toRat, Mag.toFlt, FloatLike.ofInt, FloatLike.toRat, FloatLike.ofRat]

theorem val_sub (a b : Mag Rat) : (Mag.sub a b).val = a.val - b.val := by
  unfold Mag.sub
  split
  · rfl
  · cases a <;> cases b <;> simp [Mag.val, Mag.toRat, Mag.toFlt, FloatLike.ofInt, FloatLike.toRat, FloatLike.ofRat]

theorem val_mul (a b : Mag Rat) : (Mag.mul a b).val = a.val * b.val := by
  unfold Mag.mul
  split
  · rfl
  · cases a <;> cases b <;> simp [Mag.val, Mag.toRat, Mag.toFlt, FloatLike.ofInt, FloatLike.toRat, FloatLike.ofRat]

theorem val_neg (a : Mag Rat) : a.neg.val = - a.val := by
  cases a <;> simp [Mag.neg, Mag.val, Mag.toRat, FloatLike.toRat]

theorem isZero_iff (a : Mag Rat) : a.isZero = true ↔ a.val = 0 := by
  cases a <;> simp [Mag.isZero, Mag.val, Mag.toRat, FloatLike.isZero, FloatLike.toRat]

theorem divErr_none {a b : Mag Rat} (h : Mag.divErr a b = none) : b.val ≠ 0 := by
  unfold Mag.divErr at h
  split at h
  · split at h <;> cases h
  · next hz => exact fun e => hz ((isZero_iff b).2 e)

theorem val_div {a b r : Mag Rat} (h : Mag.div a b = .ok r) : r.val = a.val / b.val ∧ b.val ≠ 0 := by
  unfold Mag.div at h
  cases he : Mag.divErr a b with
  | some e => rw [he] at h; cases h
  | none =>
    rw [he] at h
    have hb := divErr_none he
    simp only at h
    split at h
    · injection h with h; subst h; exact ⟨rfl, hb⟩
    · injection h with h; subst h
      refine ⟨?_, hb⟩
      simp only [val_flt, toFlt_val]

theorem npow_eq (x : Rat) (n : Nat) : npow x n = x ^ n := by
  induction n with
  | zero => simp [npow]
  | succ n ih => simp [npow, ih, pow_succ]

theorem ipow_eq (x : Rat) (n : Int) : ipow x n = x ^ n := by
  unfold ipow
  split
  · next h =>
    rw [npow_eq]
    conv => rhs; rw [← Int.toNat_of_nonneg h]
    rfl
  · next h =>
    rw [npow_eq]
    have hn : n = -((-n).toNat : Int) := by
      rw [Int.toNat_of_nonneg (by omega)]; omega
    conv => rhs; rw [hn]
    rw [zpow_neg, zpow_natCast, one_div]

theorem val_powInt {a r : Mag Rat} {n : Int} (h : a.powInt n = .ok r) : r.val = a.val ^ n := by
  unfold Mag.powInt at h
  cases he : Mag.powErr a n with
  | some e => rw [he] at h; cases h
  | none =>
    rw [he] at h
    simp only at h
    cases a with
    | int i =>
      simp only at h
      split at h
      · next hn =>
        injection h with h; subst h
        simp only [val_int]
        conv => rhs; rw [← Int.toNat_of_nonneg hn]
        rw [zpow_natCast]; push_cast; rfl
      · injection h with h; subst h
        simp only [val_flt, val_int]; rfl
    | flt x => injection h with h; subst h; simp [FloatLike.powInt]
    | dec x => injection h with h; subst h; simp [ipow_eq]

end Measured
