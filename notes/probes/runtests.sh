#!/bin/bash
# usage: runtests.sh <tree>   -> prints stable_pass tests that did not pass
T=$1
cd $T && PYTHONPATH=$T/src /venv/bin/python -m pytest -q -p no:cacheprovider --timeout=900 --continue-on-collection-errors --junitxml=/tmp/explore/junit.xml >/tmp/explore/pytest.out 2>&1
python3 - <<'PY'
import json, xml.etree.ElementTree as ET
sp=set(json.load(open('/root/.vp/BASELINE.json'))['stable_pass'])
t=ET.parse('/tmp/explore/junit.xml')
passed=set()
for tc in t.iter('testcase'):
    ok = not any(c.tag in ('failure','error','skipped') for c in tc)
    name=f"{tc.get('classname')}::{tc.get('name')}"
    if ok: passed.add(name)
missing=sorted(sp-passed)
print("stable_pass:",len(sp),"passed-in-stable:",len(sp&passed),"missing:",len(missing))
for m in missing[:30]: print("  ",m)
PY
