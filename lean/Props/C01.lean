/-
  C01 — A unit's dimension always equals the product of its factors' dimensions.

  Only the property theorems and their non-vacuity examples live here; the helper lemmas
  are in Proofs/.  `GInv s` is: every interned unit's dimension is the product of its
  factors' dimensions (`DimOK`), the table is well-shaped (`WF`), and every registered
  name/symbol denotes an existing unit (`Reg`).
-/
import Proofs.ExprDim
import Proofs.Check

namespace Measured.C01
open Measured

/-- One public operation — unit arithmetic, root, numerator/denominator split (also
    reached by `format "/"`, `pretty`, the CLI), `quantify`, prefix application, symbol
    resolution (parsing), definition, derivation, aliasing — keeps the invariant. -/
theorem step_preserves_inv {s : St} (h : GInv s) (o : Op) : GInv (stepC s o).1 :=
  stepC_ginv h o

/-- **Every history.**  After any finite sequence of public operations every unit in the
    intern table reports the product of its factors' dimensions. -/
theorem run_inv {s : St} (h : GInv s) (ops : List Op) :
    ∀ u ∈ (run s ops).units, u.dim = (run s ops).dimOf u.factors :=
  (run_ginv h ops).1.2

/-- **History independence.**  The dimension reported for a unit expression over units of
    the state `base` is the same after any two histories: it is the homomorphic image of
    the expression (`dimDenote`), whatever was interned in between. -/
theorem dimension_history_independent {base : St} (h : GInv base) (e : UExpr)
    (hrefs : ∀ r ∈ e.refs, r < base.units.length) (ops₁ ops₂ : List Op) (i₁ i₂ : UId)
    (h₁ : (e.eval (run base ops₁)).2 = .ok i₁) (h₂ : (e.eval (run base ops₂)).2 = .ok i₂) :
    (e.eval (run base ops₁)).1.dimOfUnit i₁ = (e.eval (run base ops₂)).1.dimOfUnit i₂ := by
  have a := (eval_spec base e hrefs (run_ginv h ops₁) (run_ext base ops₁)).2.2 i₁ h₁
  have b := (eval_spec base e hrefs (run_ginv h ops₂) (run_ext base ops₂)).2.2 i₂ h₂
  have := a.2.symm.trans b.2
  exact Option.some.inj this

/-- The reported dimension *is* the denotation of the expression. -/
theorem eval_dimension {base : St} (h : GInv base) (e : UExpr)
    (hrefs : ∀ r ∈ e.refs, r < base.units.length) (ops : List Op) (i : UId)
    (hi : (e.eval (run base ops)).2 = .ok i) :
    e.dimDenote base = some ((e.eval (run base ops)).1.dimOfUnit i) :=
  ((eval_spec base e hrefs (run_ginv h ops) (run_ext base ops)).2.2 i hi).2

/-! ### non-vacuity: a concrete state meets the hypotheses, and the history below really
    interns new units through `ratio` and `root`. -/

/-- Two base units `one`, `m` (length) and a base unit `g` whose own dimension is L·T⁻². -/
def tiny : St :=
  { ndim := 3,
    units := [ { pfx := Pfx.identity, factors := [(0, 1)], dim := [0, 0, 0] },
               { pfx := Pfx.identity, factors := [(1, 1)], dim := [0, 1, 0] },
               { pfx := Pfx.identity, factors := [(2, 1)], dim := [0, 1, -2] } ],
    unitBySym := [("1", 0), ("m", 1), ("g", 2)], unitByName := [("one", 0)],
    pfxBySym := [("k", ⟨10, 3⟩)], one := 0 }

example : GInv tiny := checkGInv_sound (by decide)

example :
    let s := run tiny [.div 2 1, .mul 3 2, .ratio 4, .pow 4 2, .root 6 2, .pmul ⟨10, 3⟩ 4, .resolve "kg"]
    s.units.length = 9 ∧ (s.unit! 5).dim = [0, 2, -4] ∧ (s.unit! 4).factors = [(2, 2), (1, -1)] := by
  decide +kernel

end Measured.C01
