/-
  Props/C20.lean — singletons stay singletons when constructed concurrently.

  With the lock around the whole constructor call (`Lock.call`, the code after the `fix:` commit),
  for EVERY schedule, ANY number of threads, and both kinds of registration (`_known` written in
  `__new__`; `_by_name` written in `__init__`):
  * `agreement`      all threads that have returned hold the same object and it is the registry entry;
  * `single_entry`   at most one object is ever created for the key;
  * `later_lookup`   a later evaluation returns that object.
  Without it, kernel-evaluated counterexamples:
  * `race_exists`           no lock: two threads, six steps, two objects (the pinned code);
  * `race_new_only_lock`    a lock around `__new__` alone does not help a base unit, which is
                            registered by `__init__`.
  `Obligations/C20.lean` checks per run which program /repo contains.
-/
import Model.Threads

namespace Measured
namespace C20
open Threads

def inCS (p : PC) : Prop := p = .check ∨ p = .alloc ∨ p = .releaseNew ∨ p = .init ∨ p = .release

structure LockInv (ri : Bool) (s : Sh) : Prop where
  holder : ∀ t, inCS (s.thr t).pc → s.lock = some t
  ret_reg : ∀ t o, (s.thr t).ret = some o → s.reg = some o
  ret_done : ∀ t, (s.thr t).pc ≠ .done → (s.thr t).ret = none
  at_release : ∀ t, (s.thr t).pc = .release → s.reg = (s.thr t).obj ∧ ∃ o, (s.thr t).obj = some o
  found : ∀ t, ((s.thr t).pc = .releaseNew ∨ (s.thr t).pc = .init) → (s.thr t).fresh = false →
            s.reg = (s.thr t).obj ∧ ∃ o, (s.thr t).obj = some o
  made : ∀ t, ((s.thr t).pc = .releaseNew ∨ (s.thr t).pc = .init) → (s.thr t).fresh = true →
            (s.thr t).obj = some 0 ∧ s.next = 1 ∧ (ri = false → s.reg = some 0)
  at_alloc : ∀ t, (s.thr t).pc = .alloc → s.reg = none ∧ s.next = 0
  at_check : ∀ t, (s.thr t).pc = .check → s.reg = none → s.next = 0
  count : s.next ≤ 1 ∧ ∀ o, s.reg = some o → o = 0 ∧ s.next = 1
  idle : s.lock = none → s.reg = none → s.next = 0

theorem inv_init (ri : Bool) : LockInv ri ({} : Sh) := by
  constructor <;> intros <;> simp_all [inCS]

/-- split every `∀ thread` goal on "is it the thread that moved", then let `grind` close it -/
local macro "close_goals" t:ident : tactic => `(tactic| all_goals first
  | (intro u; by_cases hut : u = $t <;> (try simp only [upd, inCS, hut, if_true, if_false]) <;> grind [inCS])
  | (simp only [upd, inCS]; grind)
  | grind [upd, inCS])

theorem inv_step (ri : Bool) (s : Sh) (t : Nat) (h : LockInv ri s) : LockInv ri (step .call ri s t) := by
  obtain ⟨h1, h2, h3, h4, h5, h6, h7, h8, h9, h10⟩ := h
  have a1 := h1 t; have a2 := h2 t; have a3 := h3 t; have a4 := h4 t; have a5 := h5 t
  have a6 := h6 t; have a7 := h7 t; have a8 := h8 t
  unfold step
  cases hpc : (s.thr t).pc <;> simp only [hpc, inCS] at a1 a3 a4 a5 a6 a7 a8 ⊢
  · -- acquire
    simp only [show (Lock.call = Lock.none) = False from by simp, if_false]
    cases hl : s.lock with
    | some x => exact ⟨h1, h2, h3, h4, h5, h6, h7, h8, h9, h10⟩
    | none =>
      refine ⟨?_, ?_, ?_, ?_, ?_, ?_, ?_, ?_, ?_, ?_⟩
      close_goals t
  · -- check
    cases hk : s.reg with
    | some o =>
      refine ⟨?_, ?_, ?_, ?_, ?_, ?_, ?_, ?_, ?_, ?_⟩
      close_goals t
    | none =>
      refine ⟨?_, ?_, ?_, ?_, ?_, ?_, ?_, ?_, ?_, ?_⟩
      close_goals t
  · -- alloc
    cases ri
    · refine ⟨?_, ?_, ?_, ?_, ?_, ?_, ?_, ?_, ?_, ?_⟩
      close_goals t
    · refine ⟨?_, ?_, ?_, ?_, ?_, ?_, ?_, ?_, ?_, ?_⟩
      close_goals t
  · -- releaseNew
    simp only [show (Lock.call = Lock.newOnly) = False from by simp, if_false]
    refine ⟨?_, ?_, ?_, ?_, ?_, ?_, ?_, ?_, ?_, ?_⟩
    close_goals t
  · -- init
    cases ri <;> cases hf : (s.thr t).fresh
    all_goals (refine ⟨?_, ?_, ?_, ?_, ?_, ?_, ?_, ?_, ?_, ?_⟩)
    close_goals t
  · -- release
    simp only [if_true]
    refine ⟨?_, ?_, ?_, ?_, ?_, ?_, ?_, ?_, ?_, ?_⟩
    close_goals t
  · exact ⟨h1, h2, h3, h4, h5, h6, h7, h8, h9, h10⟩

theorem inv_run (ri : Bool) (s : Sh) (sched : List Nat) (h : LockInv ri s) : LockInv ri (run .call ri s sched) := by
  induction sched generalizing s with
  | nil => exact h
  | cons t rest ih => exact ih _ (inv_step ri s t h)

/-- **Every schedule, any number of threads**: all threads that returned got the same object, and
    it is the registry entry. -/
theorem agreement (ri : Bool) (sched : List Nat) (t u : Nat) (a b : Nat)
    (ha : ((run .call ri {} sched).thr t).ret = some a) (hb : ((run .call ri {} sched).thr u).ret = some b) :
    a = b ∧ (run .call ri {} sched).reg = some a := by
  have h := inv_run ri {} sched (inv_init ri)
  have h1 := h.ret_reg t a ha
  have h2 := h.ret_reg u b hb
  rw [h1] at h2
  exact ⟨Option.some.inj h2, h1⟩

/-- **The registry ends with a single entry**: at most one object is ever created for the key. -/
theorem single_entry (ri : Bool) (sched : List Nat) : (run .call ri {} sched).next ≤ 1 :=
  (inv_run ri {} sched (inv_init ri)).count.1

/-- **Later evaluations return that object**: whatever happened before (`before`), a thread that
    evaluates afterwards (`after`, any continuation) obtains the object an earlier thread got. -/
theorem later_lookup (ri : Bool) (before after : List Nat) (t u : Nat) (a b : Nat)
    (ha : ((run .call ri {} before).thr t).ret = some a)
    (hb : ((run .call ri {} (before ++ after)).thr u).ret = some b) : a = b := by
  have hi := inv_run ri {} before (inv_init ri)
  have h2 := inv_run ri {} (before ++ after) (inv_init ri)
  have c1 := hi.count.2 a (hi.ret_reg t a ha)
  have c2 := h2.count.2 b (h2.ret_reg u b hb)
  omega

/-- **Without the lock the property fails** (the pinned code): both threads miss, both create. -/
theorem race_exists :
    ((run .none false {} [0, 0, 1, 1, 0, 1, 0, 0, 0, 1, 1, 1]).thr 0).ret = some 0 ∧
    ((run .none false {} [0, 0, 1, 1, 0, 1, 0, 0, 0, 1, 1, 1]).thr 1).ret = some 1 := by
  decide

/-- **A lock around `__new__` alone is not enough** for an object that is registered by `__init__`
    (a base unit, found through `_by_name`): thread 1 runs its whole `__new__` between thread 0's
    `__new__` and `__init__`. -/
theorem race_new_only_lock :
    ((run .newOnly true {} [0, 0, 0, 0, 1, 1, 1, 1, 0, 0, 1, 1]).thr 0).ret = some 0 ∧
    ((run .newOnly true {} [0, 0, 0, 0, 1, 1, 1, 1, 0, 0, 1, 1]).thr 1).ret = some 1 := by
  decide

/-- Non-vacuity of `agreement`: a schedule on which two threads do return (both registrations). -/
example : ((run .call true {} [0, 1, 0, 0, 0, 0, 0, 1, 1, 1, 1, 1, 1]).thr 0).ret = some 0 ∧
    ((run .call true {} [0, 1, 0, 0, 0, 0, 0, 1, 1, 1, 1, 1, 1]).thr 1).ret = some 0 := by decide

end C20
end Measured
