from measured import *
from measured import systems, conversions
from measured.conversions import ConversionNotFound
from measured.si import *
from measured.us import *
from measured.iec import *
from decimal import Decimal
import pickle, copy, json
from measured.json import MeasuredJSONEncoder, MeasuredJSONDecoder
def t(label, f):
    try:
        print(label, "->", f())
    except Exception as e:
        print(label, "!!", type(e).__name__, str(e)[:150])
rt = lambda x: json.loads(json.dumps(x, cls=MeasuredJSONEncoder), cls=MeasuredJSONDecoder)
for u in [Meter, Kilo*Meter, Meter/Second, Kilo*Meter/Second**2, Milli*Tesla, One, Hertz, Kilo*Hertz, Byte, Kibi*Byte, Kilo*Mebi*Bit, Kilo*Meter**2, Kilogram, Kilo*Gram, Celsius, Degree]:
    t(f"pickle {u}", lambda: pickle.loads(pickle.dumps(u)) is u)
    t(f"deepcopy {u}", lambda: copy.deepcopy(u) is u)
    t(f"json {u}", lambda: rt(u) is u)
for p in [Kilo, Kibi, IdentityPrefix, Kilo*Mebi, Prefix(10,-1), Deca]:
    t(f"pickle {p!r}", lambda: pickle.loads(pickle.dumps(p)) is p)
    t(f"json {p!r}", lambda: rt(p) is p)
for d in [Length, Speed, Number, Length**7]:
    t(f"json {d!r}", lambda: rt(d) is d)
for q in [5*Meter, 5.5*Kilo*Meter, 5.5*(Kilo*Meter), Decimal("5.5")*(Kilo*Meter), 3*(Kilo*Meter**2), 2*(Milli*Inch), 1e300*Meter, float('inf')*Meter, 7*(Kibi*Byte), 7*(Kilo*Mebi*Bit), 3*(Meter/Second), 2*(Kilo*Gram), 10**30*Meter]:
    def f():
        r = rt(q)
        return (str(r), r == q, type(r.magnitude).__name__, type(q.magnitude).__name__, r.unit is q.unit)
    t(f"json q {q}", f)
    t(f"pickle q {q}", lambda: (pickle.loads(pickle.dumps(q)) == q, pickle.loads(pickle.dumps(q)).unit is q.unit))
