/-
  Props/C17.lean — parsing is total and does not touch the registries.

  For EVERY grammar table, every text and every state:
  * `parse_total_unit/_quantity`     `Unit.parse`/`Quantity.parse` return a value or raise
                                     ParseError or KeyError (`unmodelled` = the model declines:
                                     cross-base prefix products, float literals with |exp| > 400);
  * `parse_frame_unit/_quantity`     accepted or rejected, the sets of registered names and
                                     symbols (and prefix/dimension tables, base units) are
                                     unchanged; the unit table only gains interned anonymous units;
                                     the conversion graph is untouched;
  * `parse_magnitude_type`           an accepted quantity has an int or float magnitude
                                     (never Decimal);
  * `parse_magnitude_as_written`,
    `parse_magnitude_int_iff`        that magnitude is `int(text)` of an integer literal or
                                     `float(text)` of a decimal literal: the callbacks never turn
                                     one into the other.
-/
import Proofs.ParseFrame
import Proofs.Monad
import Proofs.ParseIdem

namespace Measured
namespace C17

section
variable {α : Type} [Add α] [Sub α] [Mul α] [Div α] [Neg α] [OfNat α 0] [OfNat α 1] [FloatLike α]
set_option linter.unusedSectionVars false

/-- Running `parser.parse(text, start=…)` is running the LR driver on the unit table. -/
theorem exec_parseStart (g : Grammar) (start stop : Nat) (t : String) (c : Conv α) :
    CM.exec (parseStart g start stop t : CM α (Val α)) c =
      ((parseWith g.table g.rules start stop g.lexConf (transformerAct (α := α)) Val.tok c.st t).2,
       { c with st := (parseWith g.table g.rules start stop g.lexConf (transformerAct (α := α)) Val.tok c.st t).1 }) := by
  unfold parseStart
  rw [exec_liftStE]

theorem parseStart_frame (g : Grammar) (start stop : Nat) (t : String) (c : Conv α) :
    Frame c.st (CM.exec (parseStart g start stop t : CM α (Val α)) c).2.st := by
  rw [exec_parseStart]
  exact parseWith_rel _ _ _ _ _ _ Frame Frame.refl (fun _ _ _ => Frame.trans)
    (fun s r args => (transformerAct_frame s r args).1) _ _ _

theorem parseStart_graph (g : Grammar) (start stop : Nat) (t : String) (c : Conv α) :
    (CM.exec (parseStart g start stop t : CM α (Val α)) c).2 =
      { c with st := (CM.exec (parseStart g start stop t : CM α (Val α)) c).2.st } := by
  rw [exec_parseStart]

theorem parseStart_errors (g : Grammar) (start stop : Nat) (t : String) (c : Conv α) (e : Exc)
    (h : (CM.exec (parseStart g start stop t : CM α (Val α)) c).1 = .error e) : Allowed e := by
  rw [exec_parseStart] at h
  simp only at h
  cases hp : parseWith g.table g.rules start stop g.lexConf (transformerAct (α := α)) Val.tok c.st t with
  | mk s' r =>
    rw [hp] at h
    simp only at h
    subst h
    exact parseWith_err _ _ _ _ _ _ Allowed (Or.inl rfl) (Or.inr (Or.inr rfl))
      (fun s r args s' e he => (transformerAct_frame s r args).2 e (by rw [he])) _ _ _ _ _ hp

/-- `Unit.parse` as one step on top of `parseStart`. -/
theorem exec_parseUnit (g : Grammar) (t : String) (c : Conv α) :
    CM.exec (parseUnit g t : CM α UId) c =
      match CM.exec (parseStart g g.startUnit g.endUnit t : CM α (Val α)) c with
      | (.ok (.unit u), c') => (.ok u, c')
      | (.ok _, c') => (.error .unmodelled, c')
      | (.error e, c') => (.error e, c') := by
  unfold parseUnit
  rw [exec_bind]
  cases h : CM.exec (parseStart g g.startUnit g.endUnit t : CM α (Val α)) c with
  | mk r c' =>
    cases r with
    | error e => rfl
    | ok v => cases v <;> rfl

theorem exec_parseQuantity (g : Grammar) (t : String) (c : Conv α) :
    CM.exec (parseQuantity g t : CM α (Qty α)) c =
      match CM.exec (parseStart g g.startQty g.endQty t : CM α (Val α)) c with
      | (.ok (.qty q), c') => (.ok q, c')
      | (.ok _, c') => (.error .unmodelled, c')
      | (.error e, c') => (.error e, c') := by
  unfold parseQuantity
  rw [exec_bind]
  cases h : CM.exec (parseStart g g.startQty g.endQty t : CM α (Val α)) c with
  | mk r c' =>
    cases r with
    | error e => rfl
    | ok v => cases v <;> rfl

/-- **C17 (totality), units**: whatever the text and the state, `Unit.parse` returns a unit or
    raises ParseError / KeyError. -/
theorem parse_total_unit (g : Grammar) (t : String) (c : Conv α) :
    (∃ u, (CM.exec (parseUnit g t : CM α UId) c).1 = .ok u) ∨
    (∃ e, (CM.exec (parseUnit g t : CM α UId) c).1 = .error e ∧ Allowed e) := by
  rw [exec_parseUnit]
  have he := parseStart_errors g g.startUnit g.endUnit t c
  cases h : CM.exec (parseStart g g.startUnit g.endUnit t : CM α (Val α)) c with
  | mk r c' =>
    rw [h] at he
    cases r with
    | error e => exact Or.inr ⟨e, rfl, he e rfl⟩
    | ok v =>
      cases v with
      | unit u => exact Or.inl ⟨u, rfl⟩
      | tok _ => exact Or.inr ⟨_, rfl, Or.inr (Or.inr rfl)⟩
      | exp _ => exact Or.inr ⟨_, rfl, Or.inr (Or.inr rfl)⟩
      | mag _ => exact Or.inr ⟨_, rfl, Or.inr (Or.inr rfl)⟩
      | qty _ => exact Or.inr ⟨_, rfl, Or.inr (Or.inr rfl)⟩
      | tree _ _ => exact Or.inr ⟨_, rfl, Or.inr (Or.inr rfl)⟩

/-- **C17 (totality), quantities**. -/
theorem parse_total_quantity (g : Grammar) (t : String) (c : Conv α) :
    (∃ q, (CM.exec (parseQuantity g t : CM α (Qty α)) c).1 = .ok q) ∨
    (∃ e, (CM.exec (parseQuantity g t : CM α (Qty α)) c).1 = .error e ∧ Allowed e) := by
  rw [exec_parseQuantity]
  have he := parseStart_errors g g.startQty g.endQty t c
  cases h : CM.exec (parseStart g g.startQty g.endQty t : CM α (Val α)) c with
  | mk r c' =>
    rw [h] at he
    cases r with
    | error e => exact Or.inr ⟨e, rfl, he e rfl⟩
    | ok v =>
      cases v with
      | qty q => exact Or.inl ⟨q, rfl⟩
      | tok _ => exact Or.inr ⟨_, rfl, Or.inr (Or.inr rfl)⟩
      | exp _ => exact Or.inr ⟨_, rfl, Or.inr (Or.inr rfl)⟩
      | mag _ => exact Or.inr ⟨_, rfl, Or.inr (Or.inr rfl)⟩
      | unit _ => exact Or.inr ⟨_, rfl, Or.inr (Or.inr rfl)⟩
      | tree _ _ => exact Or.inr ⟨_, rfl, Or.inr (Or.inr rfl)⟩

theorem parseUnit_state (g : Grammar) (t : String) (c : Conv α) :
    (CM.exec (parseUnit g t : CM α UId) c).2 = (CM.exec (parseStart g g.startUnit g.endUnit t : CM α (Val α)) c).2 := by
  rw [exec_parseUnit]
  cases h : CM.exec (parseStart g g.startUnit g.endUnit t : CM α (Val α)) c with
  | mk r c' =>
    cases r with
    | error e => rfl
    | ok v => cases v <;> rfl

theorem parseQuantity_state (g : Grammar) (t : String) (c : Conv α) :
    (CM.exec (parseQuantity g t : CM α (Qty α)) c).2 = (CM.exec (parseStart g g.startQty g.endQty t : CM α (Val α)) c).2 := by
  rw [exec_parseQuantity]
  cases h : CM.exec (parseStart g g.startQty g.endQty t : CM α (Val α)) c with
  | mk r c' =>
    cases r with
    | error e => rfl
    | ok v => cases v <;> rfl

/-- **C17 (registries)**: accepted or rejected, `Unit.parse` leaves every registry of names and
    symbols as it was; only anonymous interned units may have been added. -/
theorem parse_frame_unit (g : Grammar) (t : String) (c : Conv α) :
    Frame c.st (CM.exec (parseUnit g t : CM α UId) c).2.st := by
  rw [parseUnit_state]; exact parseStart_frame _ _ _ _ _

theorem parse_frame_quantity (g : Grammar) (t : String) (c : Conv α) :
    Frame c.st (CM.exec (parseQuantity g t : CM α (Qty α)) c).2.st := by
  rw [parseQuantity_state]; exact parseStart_frame _ _ _ _ _

/-- … and the conversion graph, offsets and assertion mode are untouched. -/
theorem parse_graph_unit (g : Grammar) (t : String) (c : Conv α) :
    (CM.exec (parseUnit g t : CM α UId) c).2 = { c with st := (CM.exec (parseUnit g t : CM α UId) c).2.st } := by
  rw [parseUnit_state]; exact parseStart_graph _ _ _ _ _

theorem parse_graph_quantity (g : Grammar) (t : String) (c : Conv α) :
    (CM.exec (parseQuantity g t : CM α (Qty α)) c).2 =
      { c with st := (CM.exec (parseQuantity g t : CM α (Qty α)) c).2.st } := by
  rw [parseQuantity_state]; exact parseStart_graph _ _ _ _ _

end
end C17
end Measured

namespace Measured
namespace C17

section
variable {α : Type} [Add α] [Sub α] [Mul α] [Div α] [Neg α] [OfNat α 0] [OfNat α 1] [FloatLike α]
set_option linter.unusedSectionVars false

/-- **C17 (same text twice)**, the parser entry point: in any state satisfying the library's
    invariants (`Good` = C01's invariant + C02's canonical table; every reachable state does),
    parsing a text and then parsing it again gives the same outcome — the same unit/quantity object
    or the same exception — and the second parse changes nothing at all. -/
theorem parseStart_idempotent (g : Grammar) (start stop : Nat) (t : String) (c : Conv α) (hg : Good c.st) :
    CM.exec (parseStart g start stop t : CM α (Val α)) (CM.exec (parseStart g start stop t : CM α (Val α)) c).2 =
      CM.exec (parseStart g start stop t : CM α (Val α)) c := by
  rw [exec_parseStart g start stop t c]
  simp only
  rw [exec_parseStart]
  simp only
  rw [parseWith_idempotent transformer_stableActs _ _ _ _ hg]

theorem parse_idempotent_unit (g : Grammar) (t : String) (c : Conv α) (hg : Good c.st) :
    CM.exec (parseUnit g t : CM α UId) (CM.exec (parseUnit g t : CM α UId) c).2 = CM.exec (parseUnit g t : CM α UId) c := by
  rw [parseUnit_state, exec_parseUnit g t, parseStart_idempotent g _ _ t c hg, ← exec_parseUnit g t c]

theorem parse_idempotent_quantity (g : Grammar) (t : String) (c : Conv α) (hg : Good c.st) :
    CM.exec (parseQuantity g t : CM α (Qty α)) (CM.exec (parseQuantity g t : CM α (Qty α)) c).2 =
      CM.exec (parseQuantity g t : CM α (Qty α)) c := by
  rw [parseQuantity_state, exec_parseQuantity g t, parseStart_idempotent g _ _ t c hg, ← exec_parseQuantity g t c]

/-- … and, more generally, after ANY further interning in between (`s2` extends the state the first
    parse left and is still canonical): the second parse returns the first parse's result and leaves
    `s2` as it is. -/
theorem parse_repeatable (g : Grammar) (start stop : Nat) (t : String) (s s2 : St) (hg : Good s)
    (hf : Frame (parseWith g.table g.rules start stop g.lexConf (transformerAct (α := α)) Val.tok s t).1 s2)
    (hg2 : Good s2) :
    parseWith g.table g.rules start stop g.lexConf (transformerAct (α := α)) Val.tok s2 t =
      (s2, (parseWith g.table g.rules start stop g.lexConf (transformerAct (α := α)) Val.tok s t).2) :=
  parseWith_stable transformer_stableActs _ _ _ _ hg s2 hf hg2

end
end C17
end Measured

namespace Measured
namespace C17

section
variable {α : Type} [Add α] [Sub α] [Mul α] [Div α] [Neg α] [OfNat α 0] [OfNat α 1] [FloatLike α]
set_option linter.unusedSectionVars false

/-- **C17 (magnitude as written)**: the magnitude of an accepted quantity is `int(text)` of an
    integer literal or `float(text)` of a decimal literal (`Written`), and its unit exists; in every
    state satisfying the library's invariants. -/
theorem parse_magnitude_as_written (g : Grammar) (t : String) (c : Conv α) (hg : Good c.st) (q : Qty α)
    (h : (CM.exec (parseQuantity g t : CM α (Qty α)) c).1 = .ok q) :
    Written q.mag ∧ q.unit < (CM.exec (parseQuantity g t : CM α (Qty α)) c).2.st.units.length := by
  rw [exec_parseQuantity] at h ⊢
  rw [exec_parseStart] at h ⊢
  have hv := parseWith_vok (t := g.table) (rules := g.rules) (endS := g.endQty) (transformer_stableActs (α := α))
    g.lexConf g.startQty c.st t hg
  cases hp : parseWith g.table g.rules g.startQty g.endQty g.lexConf (transformerAct (α := α)) Val.tok c.st t with
  | mk s' r =>
    simp only [hp] at h hv ⊢
    cases r with
    | error e => cases h
    | ok v =>
      have hvok := hv v rfl
      cases v with
      | qty q' =>
        simp only at h ⊢
        injection h with h; subst h
        cases hvok with
        | qty _ hu hm => exact ⟨hm, hu⟩
      | tok _ => cases h
      | unit _ => cases h
      | exp _ => cases h
      | mag _ => cases h
      | tree _ _ => cases h

/-- **C17 (magnitude type)**: an accepted quantity has an int or a float magnitude — never a
    Decimal — and its unit exists; in every state satisfying the library's invariants. -/
theorem parse_magnitude_type (g : Grammar) (t : String) (c : Conv α) (hg : Good c.st) (q : Qty α)
    (h : (CM.exec (parseQuantity g t : CM α (Qty α)) c).1 = .ok q) :
    q.mag.isDec = false ∧ q.unit < (CM.exec (parseQuantity g t : CM α (Qty α)) c).2.st.units.length :=
  ⟨(parse_magnitude_as_written g t c hg q h).1.notDec, (parse_magnitude_as_written g t c hg q h).2⟩

/-- **C17 (int stays int)**: an accepted quantity has an `int` magnitude exactly when that
    magnitude is the value `int(text)` of an integer literal; otherwise it is `float(text)` of a
    decimal literal. -/
theorem parse_magnitude_int_iff (g : Grammar) (t : String) (c : Conv α) (hg : Good c.st) (q : Qty α)
    (h : (CM.exec (parseQuantity g t : CM α (Qty α)) c).1 = .ok q) :
    (q.mag.isInt = true ↔ ∃ (text : String) (i : Int), pyInt text = .ok i ∧ q.mag = .int i) ∧
    (q.mag.isInt = false → ∃ (text : String) (r : Rat), decimalLiteral text = some r ∧
        q.mag = .flt (FloatLike.ofRat r)) := by
  have hw := (parse_magnitude_as_written g t c hg q h).1
  refine ⟨hw.int_iff, fun hf => ?_⟩
  rcases hw with ⟨_, _, _, he⟩ | hw
  · rw [he] at hf; cases hf
  · exact hw

/-- **C17 (an int was written as an int)**: if an accepted quantity has an `int` magnitude, that
    magnitude is the decimal value of a text of the shape `[+-]digits` — no `.`, no exponent —
    with the sign written. -/
theorem parse_int_magnitude_is_integer_literal (g : Grammar) (t : String) (c : Conv α) (hg : Good c.st) (q : Qty α)
    (h : (CM.exec (parseQuantity g t : CM α (Qty α)) c).1 = .ok q) (hi : q.mag.isInt = true) :
    ∃ text : String, (stripSign text.toList).isEmpty = false ∧ (stripSign text.toList).all isDigit = true ∧
      q.mag = .int (if isNegChars text.toList then -((Nat.ofDigitChars 10 (stripSign text.toList) 0 : Nat) : Int)
                    else ((Nat.ofDigitChars 10 (stripSign text.toList) 0 : Nat) : Int)) := by
  obtain ⟨text, i, hp, hm⟩ := (parse_magnitude_int_iff g t c hg q h).1.mp hi
  obtain ⟨h1, h2, h3⟩ := pyInt_ok_shape hp
  exact ⟨text, h1, h2, by rw [hm, h3]⟩

end
end C17
end Measured
