/- Thorough tier: the whole family (every named fundamental-dimension unit <-> SI seed). -/
import Obligations.C04

namespace Measured.Obligations
open Measured Generated

theorem family_conversions_exact_full : familyFull.all familyCase = true := by decide +kernel

end Measured.Obligations
