abbrev Factors := List (Nat × Int)
def le (a b : Nat × Int) : Bool := a.1 < b.1 || (a.1 == b.1 && a.2 ≤ b.2)
def key (fs : Factors) : Factors := fs.mergeSort le

theorem le_trans' (a b c : Nat × Int) : le a b = true → le b c = true → le a c = true := by
  simp only [le, Bool.or_eq_true, Bool.and_eq_true, decide_eq_true_eq, beq_iff_eq]; omega
theorem le_total' (a b : Nat × Int) : (le a b || le b a) = true := by
  simp only [le, Bool.or_eq_true, Bool.and_eq_true, decide_eq_true_eq, beq_iff_eq]; omega
theorem le_antisymm' (a b : Nat × Int) : le a b = true → le b a = true → a = b := by
  obtain ⟨a1,a2⟩ := a; obtain ⟨b1,b2⟩ := b
  simp only [le, Bool.or_eq_true, Bool.and_eq_true, decide_eq_true_eq, beq_iff_eq, Prod.mk.injEq]; omega

/-- canonical keys: two duplicate-free factor lists with the same elements have the same key -/
theorem key_eq_of_same_elems (a b : Factors) (ha : a.Nodup) (hb : b.Nodup)
    (h : ∀ x, x ∈ a ↔ x ∈ b) : key a = key b := by
  have hp : a.Perm b := (List.perm_ext_iff_of_nodup ha hb).2 h
  have hpk : (key a).Perm (key b) :=
    (List.mergeSort_perm a le).trans (hp.trans (List.mergeSort_perm b le).symm)
  exact List.Perm.eq_of_pairwise (fun x y _ _ hxy hyx => le_antisymm' x y hxy hyx)
    (List.pairwise_mergeSort le_trans' le_total' a) (List.pairwise_mergeSort le_trans' le_total' b) hpk
#print axioms key_eq_of_same_elems
