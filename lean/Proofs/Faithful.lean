/-
  Proofs/Faithful.lean — declared unit names and symbols bind faithfully, in every history (C19).

  `Faithful s`:
  * every `_by_name` entry points at an existing unit that reports the name (`names` tuple),
    and every name a unit reports is looked up to that very unit; likewise for symbols;
  A failing `define` / `derive` / `alias` returns the state it was given (`*_error_noop`).
-/
import Proofs.ParseFrame
import Proofs.StepAll
import Model.Serial

namespace Measured
open St

structure Faithful (s : St) : Prop where
  nameReg : ∀ e ∈ s.unitByName, e.2 < s.units.length ∧ (e.2, e.1) ∈ s.nameLog
  nameLog : ∀ e ∈ s.nameLog, lookup e.2 s.unitByName = some e.1
  symReg  : ∀ e ∈ s.unitBySym, e.2 < s.units.length ∧ (e.2, e.1) ∈ s.symLog
  symLog  : ∀ e ∈ s.symLog, lookup e.2 s.unitBySym = some e.1

/-- a state with the same registries and at least as many units -/
theorem Faithful.of_frame {s s' : St} (h : Faithful s) (f : Frame s s') : Faithful s' := by
  obtain ⟨ext, hext⟩ := f.units
  have hl : s.units.length ≤ s'.units.length := by rw [hext]; simp
  refine ⟨?_, ?_, ?_, ?_⟩
  · intro e he; rw [f.unitByName] at he; rw [f.nameLog]
    exact ⟨Nat.lt_of_lt_of_le (h.nameReg e he).1 hl, (h.nameReg e he).2⟩
  · intro e he; rw [f.nameLog] at he; rw [f.unitByName]; exact h.nameLog e he
  · intro e he; rw [f.unitBySym] at he; rw [f.symLog]
    exact ⟨Nat.lt_of_lt_of_le (h.symReg e he).1 hl, (h.symReg e he).2⟩
  · intro e he; rw [f.symLog] at he; rw [f.unitBySym]; exact h.symLog e he

/-! ### association-list facts -/

theorem lookup_append_of_some {β} {k : String} {l : List (String × β)} {v : β} (h : lookup k l = some v)
    (m : List (String × β)) : lookup k (l ++ m) = some v := by
  induction l with
  | nil => cases h
  | cons x rest ih =>
    obtain ⟨k', v'⟩ := x
    simp only [List.cons_append, lookup] at h ⊢
    split
    · rename_i hk; rw [if_pos hk] at h; exact h
    · rename_i hk; rw [if_neg hk] at h; exact ih h

theorem lookup_append_of_none {β} {k : String} {l : List (String × β)} (h : lookup k l = none)
    (m : List (String × β)) : lookup k (l ++ m) = lookup k m := by
  induction l with
  | nil => rfl
  | cons x rest ih =>
    obtain ⟨k', v'⟩ := x
    simp only [List.cons_append, lookup] at h ⊢
    split
    · rename_i hk; rw [if_pos hk] at h; cases h
    · rename_i hk; rw [if_neg hk] at h; exact ih h

theorem lookup_single {β} (k : String) (v : β) : lookup k [(k, v)] = some v := by
  simp [lookup]

/-! ### binding one name -/

theorem bindName_faithful {s : St} (h : Faithful s) {a : UId} (ha : a < s.units.length)
    (name : Option String) (hc : s.nameClash a name = false) : Faithful (s.bindName a name) := by
  cases name with
  | none => exact h
  | some n =>
    by_cases hne : (n == "") = true
    · have hb : s.bindName a (some n) = s := by simp only [bindName, hne, if_true]
      rw [hb]; exact h
    · have hne' : (n != "") = true := by simpa using hne
      simp only [bindName, hne, Bool.false_eq_true, if_false]
      unfold nameClash at hc
      simp only [hne', Bool.true_and] at hc
      cases hl : lookup n s.unitByName with
      | some j =>
        rw [hl] at hc
        have hja : j = a := by simpa using hc
        subst hja
        simp only [hl, Option.isSome_some, if_true]
        refine ⟨?_, ?_, h.symReg, h.symLog⟩
        · intro e he
          exact ⟨(h.nameReg e he).1, List.mem_append_left _ (h.nameReg e he).2⟩
        · intro e he
          rcases List.mem_append.mp he with he | he
          · exact h.nameLog e he
          · simp only [List.mem_singleton] at he; subst he; exact hl
      | none =>
        simp only [hl, Option.isSome_none, Bool.false_eq_true, if_false]
        refine ⟨?_, ?_, h.symReg, h.symLog⟩
        · intro e he
          rcases List.mem_append.mp he with he | he
          · exact ⟨(h.nameReg e he).1, List.mem_append_left _ (h.nameReg e he).2⟩
          · simp only [List.mem_singleton] at he; subst he
            exact ⟨ha, List.mem_append_right _ (by simp)⟩
        · intro e he
          rcases List.mem_append.mp he with he | he
          · exact lookup_append_of_some (h.nameLog e he) _
          · simp only [List.mem_singleton] at he; subst he
            rw [lookup_append_of_none hl]; exact lookup_single _ _

theorem bindSym_faithful {s : St} (h : Faithful s) {a : UId} (ha : a < s.units.length)
    (sym : Option String) (hc : s.symClash a sym = false) : Faithful (s.bindSym a sym) := by
  cases sym with
  | none => exact h
  | some n =>
    by_cases hne : (n == "") = true
    · have hb : s.bindSym a (some n) = s := by simp only [bindSym, hne, if_true]
      rw [hb]; exact h
    · have hne' : (n != "") = true := by simpa using hne
      simp only [bindSym, hne, Bool.false_eq_true, if_false]
      unfold symClash at hc
      simp only [hne', Bool.true_and, Bool.or_eq_false_iff] at hc
      cases hl : lookup n s.unitBySym with
      | some j =>
        rw [hl] at hc
        have hja : j = a := by simpa using hc.1
        subst hja
        simp only [hl, Option.isSome_some, if_true]
        refine ⟨h.nameReg, h.nameLog, ?_, ?_⟩
        · intro e he
          exact ⟨(h.symReg e he).1, List.mem_append_left _ (h.symReg e he).2⟩
        · intro e he
          rcases List.mem_append.mp he with he | he
          · exact h.symLog e he
          · simp only [List.mem_singleton] at he; subst he; exact hl
      | none =>
        simp only [hl, Option.isSome_none, Bool.false_eq_true, if_false]
        refine ⟨h.nameReg, h.nameLog, ?_, ?_⟩
        · intro e he
          rcases List.mem_append.mp he with he | he
          · exact ⟨(h.symReg e he).1, List.mem_append_left _ (h.symReg e he).2⟩
          · simp only [List.mem_singleton] at he; subst he
            exact ⟨ha, List.mem_append_right _ (by simp)⟩
        · intro e he
          rcases List.mem_append.mp he with he | he
          · exact lookup_append_of_some (h.symLog e he) _
          · simp only [List.mem_singleton] at he; subst he
            rw [lookup_append_of_none hl]; exact lookup_single _ _

theorem bindName_symClash (s : St) (a b : UId) (name sym : Option String) :
    (s.bindName a name).symClash b sym = s.symClash b sym := by
  cases name with
  | none => rfl
  | some n => by_cases hne : (n == "") = true <;> simp [bindName, hne, symClash]

theorem bindName_len (s : St) (a : UId) (name : Option String) : (s.bindName a name).units = s.units := by
  cases name with
  | none => rfl
  | some n => by_cases hne : (n == "") = true <;> simp [bindName, hne]

/-- `Unit.alias`: faithful afterwards, and a failure changes nothing. -/
theorem aliasUnit_faithful {s : St} (h : Faithful s) {a : UId} (ha : a < s.units.length)
    (name sym : Option String) : Faithful (s.aliasUnit a name sym).1 := by
  unfold aliasUnit
  cases hn : s.nameClash a name with
  | true => simpa using h
  | false =>
    cases hs : s.symClash a sym with
    | true => simpa using h
    | false =>
      simp only [Bool.false_eq_true, if_false]
      have h1 := bindName_faithful h ha name hn
      exact bindSym_faithful h1 (by rw [bindName_len]; exact ha) sym (by rw [bindName_symClash]; exact hs)

theorem aliasUnit_error_noop (s : St) (a : UId) (name sym : Option String) (e : Exc)
    (h : (s.aliasUnit a name sym).2 = .error e) : (s.aliasUnit a name sym).1 = s := by
  unfold aliasUnit at h ⊢
  split
  · rfl
  · split
    · rfl
    · rename_i h1 h2; simp only [h1, h2, Bool.false_eq_true, if_false] at h; cases h

theorem deriveUnit_error_noop (s : St) (a : UId) (name sym : String) (e : Exc)
    (h : (s.deriveUnit a name sym).2 = .error e) : (s.deriveUnit a name sym).1 = s := by
  unfold deriveUnit at h ⊢
  cases hr : s.aliasUnit a (some name) (some sym) with
  | mk s' r =>
    cases r with
    | ok u => rw [hr] at h; cases h
    | error e' =>
      have := aliasUnit_error_noop s a (some name) (some sym) e' (by rw [hr])
      rw [hr] at this
      simpa using this

theorem defineUnit_error_noop (s : St) (d : Dim) (name sym : String) (e : Exc)
    (h : (s.defineUnit d name sym).2 = .error e) : (s.defineUnit d name sym).1 = s := by
  unfold defineUnit at h ⊢
  split
  · rfl
  · split
    · rfl
    · split
      · rfl
      · rename_i h1 h2 h3
        simp only [h1, h2, h3, Bool.false_eq_true, if_false] at h
        cases h

theorem appendBase_faithful {s : St} (h : Faithful s) (d : Dim) : Faithful (s.appendBase d) := by
  unfold appendBase
  refine ⟨?_, h.nameLog, ?_, h.symLog⟩
  · intro e he
    exact ⟨by simp only [List.length_append]; exact Nat.lt_add_right _ (h.nameReg e he).1, (h.nameReg e he).2⟩
  · intro e he
    exact ⟨by simp only [List.length_append]; exact Nat.lt_add_right _ (h.symReg e he).1, (h.symReg e he).2⟩

theorem defineUnit_faithful {s : St} (h : Faithful s) (d : Dim) (name sym : String) :
    Faithful (s.defineUnit d name sym).1 := by
  unfold defineUnit
  split
  · exact h
  · split
    · exact h
    · split
      · exact h
      · simp only
        have hb := appendBase_faithful h d
        have hlen : s.units.length < (s.appendBase d).units.length := by
          unfold appendBase; simp
        exact aliasUnit_faithful hb hlen _ _

theorem deriveUnit_faithful {s : St} (h : Faithful s) {a : UId} (ha : a < s.units.length) (name sym : String) :
    Faithful (s.deriveUnit a name sym).1 := by
  unfold deriveUnit
  have := aliasUnit_faithful h ha (some name) (some sym)
  cases hr : s.aliasUnit a (some name) (some sym) with
  | mk s' r =>
    rw [hr] at this
    cases r <;> exact this

/-! ### the interning operations do not touch the registries -/

theorem rootUnit_frame (s : St) (a : UId) (n : Int) : Frame s (s.rootUnit a n).1 := by
  unfold rootUnit
  split
  · exact Frame.refl s
  · simp only
    split
    · exact Frame.refl s
    · split
      · exact Frame.refl s
      · split
        · exact Frame.refl s
        · exact newUnit_frame _ _ _ _

theorem asRatio_frame (s : St) (a : UId) : Frame s (s.asRatio a).1 := by
  unfold asRatio
  simp only
  exact (newUnit_frame _ _ _ _).trans (newUnit_frame _ _ _ _)

theorem unprefixedUnit_frame (s : St) (a : UId) : Frame s (s.unprefixedUnit a).1 := by
  unfold unprefixedUnit
  exact newUnit_frame _ _ _ _

/-- one public operation -/
theorem step_faithful {s : St} (h : Faithful s) (o : Op) (hok : o.ok s = true) : Faithful (step s o).1 := by
  have hrefs : ∀ r ∈ o.refs, r < s.units.length := by
    unfold Op.ok at hok
    simp only [Bool.and_eq_true, List.all_eq_true, decide_eq_true_eq] at hok
    exact hok.1
  cases o with
  | mul a b => exact h.of_frame (mulUnit_frame s a b).1
  | div a b => exact h.of_frame (divUnit_frame s a b).1
  | pow a n => exact h.of_frame (powUnit_frame s a n)
  | root a n => exact h.of_frame (rootUnit_frame s a n)
  | ratio a => exact h.of_frame (asRatio_frame s a)
  | unprefixed a => exact h.of_frame (unprefixedUnit_frame s a)
  | pmul p a => exact h.of_frame (pmulUnit_frame s p a).1
  | define d name sym => exact defineUnit_faithful h d name sym
  | derive a name sym => exact deriveUnit_faithful h (hrefs a (by simp [Op.refs])) name sym
  | «alias» a name sym =>
    have := aliasUnit_faithful h (hrefs a (by simp [Op.refs])) name sym
    simp only [step]
    cases hr : s.aliasUnit a name sym with
    | mk s' r => rw [hr] at this; cases r <;> exact this
  | resolve t => exact h.of_frame (resolveSymbol_frame s t).1
  | named n =>
    simp only [step]
    split <;> exact h

theorem stepC_faithful {s : St} (h : Faithful s) (o : Op) : Faithful (stepC s o).1 := by
  unfold stepC
  split
  · rename_i hok; exact step_faithful h o hok
  · exact h

/-- **Every history keeps the registries faithful.** -/
theorem run_faithful {s : St} (h : Faithful s) (ops : List Op) : Faithful (run s ops) := by
  induction ops generalizing s with
  | nil => exact h
  | cons o rest ih => exact ih (stepC_faithful h o)

/-- **A naming call that raises leaves the whole state as it was.** -/
theorem failed_naming_is_noop (s : St) (o : Op) (e : Exc)
    (hn : match o with | .define .. | .derive .. | .alias .. => True | _ => False)
    (h : (stepC s o).2 = .err e) : (stepC s o).1 = s := by
  unfold stepC at h ⊢
  split
  · rename_i hok
    rw [if_pos hok] at h
    cases o with
    | define d name sym =>
      simp only [step] at h ⊢
      cases hr : s.defineUnit d name sym with
      | mk s' r =>
        rw [hr] at h
        cases r with
        | ok u => simp [Out.ofExcept] at h
        | error e' =>
          have := defineUnit_error_noop s d name sym e' (by rw [hr])
          rw [hr] at this; exact this
    | derive a name sym =>
      simp only [step] at h ⊢
      cases hr : s.deriveUnit a name sym with
      | mk s' r =>
        rw [hr] at h
        cases r with
        | ok u => simp [Out.ofExcept] at h
        | error e' =>
          have := deriveUnit_error_noop s a name sym e' (by rw [hr])
          rw [hr] at this; exact this
    | «alias» a name sym =>
      simp only [step] at h ⊢
      cases hr : s.aliasUnit a name sym with
      | mk s' r =>
        rw [hr] at h
        cases r with
        | ok u => simp at h
        | error e' =>
          have := aliasUnit_error_noop s a name sym e' (by rw [hr])
          rw [hr] at this; simpa using this
    | _ => exact absurd hn (by simp)
  · rfl

end Measured

namespace Measured
open St

/-- **A successful `alias` binds**: the name looks up to the unit and the unit reports it. -/
theorem aliasUnit_binds {s : St} (h : Faithful s) {a : UId} (ha : a < s.units.length) (n : String)
    (sym : Option String) (hne : n ≠ "") (hr : (s.aliasUnit a (some n) sym).2 = .ok ()) :
    lookup n (s.aliasUnit a (some n) sym).1.unitByName = some a ∧ (a, n) ∈ (s.aliasUnit a (some n) sym).1.nameLog := by
  have hf := aliasUnit_faithful h ha (some n) sym
  suffices hm : (a, n) ∈ (s.aliasUnit a (some n) sym).1.nameLog from ⟨hf.nameLog _ hm, hm⟩
  unfold aliasUnit at hr ⊢
  split
  · rename_i hc; simp only [hc, if_true] at hr; cases hr
  · split
    · rename_i hc hc2; simp only [hc, hc2, Bool.false_eq_true, if_false, if_true] at hr; cases hr
    · have hne' : (n == "") = false := by simpa using hne
      have hlog : (a, n) ∈ (s.bindName a (some n)).nameLog := by
        simp only [bindName, hne', Bool.false_eq_true, if_false]
        exact List.mem_append_right _ (by simp)
      cases sym with
      | none => exact hlog
      | some y =>
        by_cases hy : (y == "") = true
        · simp only [bindSym, hy, if_true]; exact hlog
        · simp only [bindSym, hy, Bool.false_eq_true, if_false]; exact hlog

end Measured

namespace Measured
open St

/-! ### names are only ever added -/

theorem bindName_log (s : St) (a : UId) (name : Option String) :
    ∃ ext, (s.bindName a name).nameLog = s.nameLog ++ ext := by
  cases name with
  | none => exact ⟨[], by simp [bindName]⟩
  | some n =>
    by_cases hne : (n == "") = true
    · exact ⟨[], by simp [bindName, hne]⟩
    · exact ⟨[(a, n)], by simp [bindName, hne]⟩

theorem bindSym_log (s : St) (a : UId) (sym : Option String) : (s.bindSym a sym).nameLog = s.nameLog := by
  cases sym with
  | none => rfl
  | some n => by_cases hne : (n == "") = true <;> simp [bindSym, hne]

theorem aliasUnit_log (s : St) (a : UId) (name sym : Option String) :
    ∃ ext, (s.aliasUnit a name sym).1.nameLog = s.nameLog ++ ext := by
  unfold aliasUnit
  split
  · exact ⟨[], by simp⟩
  · split
    · exact ⟨[], by simp⟩
    · obtain ⟨ext, h⟩ := bindName_log s a name
      exact ⟨ext, by simp only [bindSym_log]; exact h⟩

theorem step_log (s : St) (o : Op) : ∃ ext, (step s o).1.nameLog = s.nameLog ++ ext := by
  have fr : ∀ {s' : St}, Frame s s' → ∃ ext, s'.nameLog = s.nameLog ++ ext := fun f => ⟨[], by rw [f.nameLog]; simp⟩
  cases o with
  | mul a b => exact fr (mulUnit_frame s a b).1
  | div a b => exact fr (divUnit_frame s a b).1
  | pow a n => exact fr (powUnit_frame s a n)
  | root a n => exact fr (rootUnit_frame s a n)
  | ratio a => exact fr (asRatio_frame s a)
  | unprefixed a => exact fr (unprefixedUnit_frame s a)
  | pmul p a => exact fr (pmulUnit_frame s p a).1
  | define d name sym =>
    simp only [step]
    unfold defineUnit
    split
    · exact ⟨[], by simp⟩
    · split
      · exact ⟨[], by simp⟩
      · split
        · exact ⟨[], by simp⟩
        · simp only
          obtain ⟨ext, h⟩ := aliasUnit_log (s.appendBase d) s.units.length (some name) (some sym)
          exact ⟨ext, by rw [h]; rfl⟩
  | derive a name sym =>
    simp only [step]
    unfold deriveUnit
    obtain ⟨ext, h⟩ := aliasUnit_log s a (some name) (some sym)
    cases hr : s.aliasUnit a (some name) (some sym) with
    | mk s' r => rw [hr] at h; cases r <;> exact ⟨ext, h⟩
  | «alias» a name sym =>
    simp only [step]
    obtain ⟨ext, h⟩ := aliasUnit_log s a name sym
    cases hr : s.aliasUnit a name sym with
    | mk s' r => rw [hr] at h; cases r <;> exact ⟨ext, h⟩
  | resolve t => exact fr (resolveSymbol_frame s t).1
  | named n =>
    simp only [step]
    split <;> exact ⟨[], by simp⟩

theorem run_log (s : St) (ops : List Op) : ∃ ext, (run s ops).nameLog = s.nameLog ++ ext := by
  induction ops generalizing s with
  | nil => exact ⟨[], by simp [run]⟩
  | cons o rest ih =>
    have h1 : ∃ e1, (stepC s o).1.nameLog = s.nameLog ++ e1 := by
      unfold stepC; split
      · exact step_log s o
      · exact ⟨[], by simp⟩
    obtain ⟨e1, h1⟩ := h1
    obtain ⟨e2, h2⟩ := ih (stepC s o).1
    exact ⟨e1 ++ e2, by show (run (stepC s o).1 rest).nameLog = _; rw [h2, h1, List.append_assoc]⟩

/-- a unit that has a name keeps its first name through every history -/
theorem firstName_stable (s : St) (ops : List Op) (i : UId) (n : String) (h : s.firstName i = some n) :
    (run s ops).firstName i = some n := by
  obtain ⟨ext, he⟩ := run_log s ops
  unfold firstName namesOf at h ⊢
  rw [he, List.filter_append, List.map_append]
  cases hl : (s.nameLog.filter (fun e => e.1 == i)).map (·.2) with
  | nil => rw [hl] at h; cases h
  | cons x rest => rw [hl] at h; simpa using h

end Measured
