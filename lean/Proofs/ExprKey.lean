/-
  Proofs/ExprKey.lean — evaluating a unit expression yields the unit whose key is the
  expression's denotation in the free abelian group; hence equal denotations evaluate to
  the very same object (C02).
-/
import Proofs.KeySpec

namespace Measured
open St

theorem Ext.unit_same {s s' : St} (h : Ext s s') {i : Nat} (hi : i < s.units.length) :
    (s'.unit! i).pfx = (s.unit! i).pfx ∧ (s'.unit! i).factors = (s.unit! i).factors :=
  ⟨(h.same i hi).1, (h.same i hi).2.1⟩

theorem expDenote_ref (base : St) (i k : Nat) :
    (UExpr.ref i).expDenote base k = expOf (base.unit! i).factors k := rfl

/-- Key specification of `UExpr.eval`. -/
theorem eval_key_spec (base : St) (e : UExpr) :
    ∀ {s : St}, (∀ r ∈ e.refs, r < base.units.length) → (∀ p ∈ e.pfxs, p.Normal) →
      GInv s → Canon s → Ext base s →
      Canon (e.eval s).1 ∧
      ∀ i, (e.eval s).2 = .ok i →
        e.pfxDenote base = .ok ((e.eval s).1.unit! i).pfx ∧
        ∀ k, k ≠ base.one → expOf ((e.eval s).1.unit! i).factors k = e.expDenote base k := by
  induction e with
  | ref i =>
    intro s hb _ _ hc hx
    refine ⟨hc, ?_⟩
    intro j hj
    simp only [UExpr.eval] at hj ⊢
    injection hj with hj; subst hj
    have hi := hb i (by simp [UExpr.refs])
    obtain ⟨p1, p2⟩ := hx.unit_same hi
    exact ⟨by simp [UExpr.pfxDenote, p1], fun k _ => by rw [p2]; rfl⟩
  | mul a b iha ihb =>
    intro s hb hpn h hc hx
    have hba : ∀ r ∈ a.refs, r < base.units.length := fun r hr => hb r (by simp [UExpr.refs, hr])
    have hbb : ∀ r ∈ b.refs, r < base.units.length := fun r hr => hb r (by simp [UExpr.refs, hr])
    obtain ⟨g1, x1, r1⟩ := eval_spec base a hba h hx
    obtain ⟨c1, q1⟩ := iha hba (fun p hp => hpn p (by simp [UExpr.pfxs, hp])) h hc hx
    simp only [UExpr.eval]
    cases ha : a.eval s with
    | mk s1 ra =>
      rw [ha] at g1 x1 r1 c1 q1
      cases ra with
      | error e => exact ⟨c1, fun i hi => by cases hi⟩
      | ok i =>
        simp only
        obtain ⟨hi1, _⟩ := r1 i rfl
        obtain ⟨pi, ei⟩ := q1 i rfl
        obtain ⟨g2, x2, r2⟩ := eval_spec base b hbb g1 (hx.trans x1)
        obtain ⟨c2, q2⟩ := ihb hbb (fun p hp => hpn p (by simp [UExpr.pfxs, hp])) g1 c1 (hx.trans x1)
        cases hb' : b.eval s1 with
        | mk s2 rb =>
          rw [hb'] at g2 x2 r2 c2 q2
          cases rb with
          | error e => exact ⟨c2, fun i hi => by cases hi⟩
          | ok j =>
            simp only
            obtain ⟨hj2, _⟩ := r2 j rfl
            obtain ⟨pj, ej⟩ := q2 j rfl
            have hi2 : i < s2.units.length := Nat.lt_of_lt_of_le hi1 x2.len
            obtain ⟨u1, u2⟩ := x2.unit_same hi1
            refine ⟨mulUnit_canon c2 hi2 hj2, ?_⟩
            intro k hk
            obtain ⟨kp, ke⟩ := mulUnit_key c2 hi2 hj2 hk
            have hone : s2.one = base.one := ((hx.trans x1).trans x2).one
            refine ⟨?_, ?_⟩
            · simp only [UExpr.pfxDenote, pi, pj]
              rw [← kp, u1]; rfl
            · intro k' hk'
              rw [ke k' (by rw [hone]; exact hk'), u2, ei k' hk', ej k' hk']
              rfl
  | div a b iha ihb =>
    intro s hb hpn h hc hx
    have hba : ∀ r ∈ a.refs, r < base.units.length := fun r hr => hb r (by simp [UExpr.refs, hr])
    have hbb : ∀ r ∈ b.refs, r < base.units.length := fun r hr => hb r (by simp [UExpr.refs, hr])
    obtain ⟨g1, x1, r1⟩ := eval_spec base a hba h hx
    obtain ⟨c1, q1⟩ := iha hba (fun p hp => hpn p (by simp [UExpr.pfxs, hp])) h hc hx
    simp only [UExpr.eval]
    cases ha : a.eval s with
    | mk s1 ra =>
      rw [ha] at g1 x1 r1 c1 q1
      cases ra with
      | error e => exact ⟨c1, fun i hi => by cases hi⟩
      | ok i =>
        simp only
        obtain ⟨hi1, _⟩ := r1 i rfl
        obtain ⟨pi, ei⟩ := q1 i rfl
        obtain ⟨g2, x2, r2⟩ := eval_spec base b hbb g1 (hx.trans x1)
        obtain ⟨c2, q2⟩ := ihb hbb (fun p hp => hpn p (by simp [UExpr.pfxs, hp])) g1 c1 (hx.trans x1)
        cases hb' : b.eval s1 with
        | mk s2 rb =>
          rw [hb'] at g2 x2 r2 c2 q2
          cases rb with
          | error e => exact ⟨c2, fun i hi => by cases hi⟩
          | ok j =>
            simp only
            obtain ⟨hj2, _⟩ := r2 j rfl
            obtain ⟨pj, ej⟩ := q2 j rfl
            have hi2 : i < s2.units.length := Nat.lt_of_lt_of_le hi1 x2.len
            obtain ⟨u1, u2⟩ := x2.unit_same hi1
            refine ⟨divUnit_canon c2 hi2 hj2, ?_⟩
            intro k hk
            obtain ⟨kp, ke⟩ := divUnit_key c2 hi2 hj2 hk
            have hone : s2.one = base.one := ((hx.trans x1).trans x2).one
            refine ⟨?_, ?_⟩
            · simp only [UExpr.pfxDenote, pi, pj]
              rw [← kp, u1]; rfl
            · intro k' hk'
              rw [ke k' (by rw [hone]; exact hk'), u2, ei k' hk', ej k' hk']
              rfl
  | pow a n iha =>
    intro s hb hpn h hc hx
    have hba : ∀ r ∈ a.refs, r < base.units.length := fun r hr => hb r (by simp [UExpr.refs, hr])
    obtain ⟨g1, x1, r1⟩ := eval_spec base a hba h hx
    obtain ⟨c1, q1⟩ := iha hba (fun p hp => hpn p (by simp [UExpr.pfxs, hp])) h hc hx
    simp only [UExpr.eval]
    cases ha : a.eval s with
    | mk s1 ra =>
      rw [ha] at g1 x1 r1 c1 q1
      cases ra with
      | error e => exact ⟨c1, fun i hi => by cases hi⟩
      | ok i =>
        simp only
        obtain ⟨hi1, _⟩ := r1 i rfl
        obtain ⟨pi, ei⟩ := q1 i rfl
        refine ⟨powUnit_canon c1 hi1 n, ?_⟩
        intro k hk
        injection hk with hk; subst hk
        obtain ⟨kp, ke⟩ := powUnit_key s1 i n
        have hone : s1.one = base.one := (hx.trans x1).one
        refine ⟨?_, ?_⟩
        · simp only [UExpr.pfxDenote, pi]; rw [kp]; rfl
        · intro k' hk'
          rw [ke k' (by rw [hone]; exact hk'), ei k' hk']; rfl
  | root a n iha =>
    intro s hb hpn h hc hx
    have hba : ∀ r ∈ a.refs, r < base.units.length := fun r hr => hb r (by simp [UExpr.refs, hr])
    obtain ⟨g1, x1, r1⟩ := eval_spec base a hba h hx
    obtain ⟨c1, q1⟩ := iha hba (fun p hp => hpn p (by simp [UExpr.pfxs, hp])) h hc hx
    simp only [UExpr.eval]
    cases ha : a.eval s with
    | mk s1 ra =>
      rw [ha] at g1 x1 r1 c1 q1
      cases ra with
      | error e => exact ⟨c1, fun i hi => by cases hi⟩
      | ok i =>
        simp only
        obtain ⟨hi1, _⟩ := r1 i rfl
        obtain ⟨pi, ei⟩ := q1 i rfl
        refine ⟨rootUnit_canon c1 hi1 n, ?_⟩
        intro k hk
        have hone : s1.one = base.one := (hx.trans x1).one
        by_cases hn : n = 0
        · subst hn
          have hres : s1.rootUnit i 0 = (s1, .ok s1.one) := by simp [rootUnit]
          rw [hres] at hk ⊢
          injection hk with hk; subst hk
          obtain ⟨_, o2, o3⟩ := c1.oneRec
          refine ⟨by simp [UExpr.pfxDenote, pi, o2], ?_⟩
          intro k' hk'
          rw [o3]
          have : ¬ s1.one = k' := by rw [hone]; exact fun e => hk' e.symm
          simp [UExpr.expDenote, this]
        · obtain ⟨kp, ke⟩ := rootUnit_key c1 hi1 hn hk
          have hn0 : (n == 0) = false := by simpa using hn
          refine ⟨?_, ?_⟩
          · simp only [UExpr.pfxDenote, pi, hn0]
            rw [← kp]; rfl
          · intro k' hk'
            rw [ke k' (by rw [hone]; exact hk'), ei k' hk']
            simp [UExpr.expDenote, hn]
  | pfx p a iha =>
    intro s hb hpn h hc hx
    have hba : ∀ r ∈ a.refs, r < base.units.length := fun r hr => hb r (by simp [UExpr.refs, hr])
    obtain ⟨g1, x1, r1⟩ := eval_spec base a hba h hx
    obtain ⟨c1, q1⟩ := iha hba (fun p hp => hpn p (by simp [UExpr.pfxs, hp])) h hc hx
    simp only [UExpr.eval]
    cases ha : a.eval s with
    | mk s1 ra =>
      rw [ha] at g1 x1 r1 c1 q1
      cases ra with
      | error e => exact ⟨c1, fun i hi => by cases hi⟩
      | ok i =>
        simp only
        obtain ⟨hi1, _⟩ := r1 i rfl
        obtain ⟨pi, ei⟩ := q1 i rfl
        refine ⟨pmulUnit_canon c1 (hpn p (by simp [UExpr.pfxs])) hi1, ?_⟩
        intro k hk
        obtain ⟨kp, ke⟩ := pmulUnit_key s1 p i hk
        refine ⟨?_, ?_⟩
        · simp only [UExpr.pfxDenote, pi]; rw [← kp]; rfl
        · intro k' hk'
          rw [ke k', ei k' hk']; rfl

end Measured
