/-
  C06 — arithmetic and comparison do not depend on the units operands are written in.

  `si σ s q` is the SI value of a quantity: magnitude × prefix value × ∏ σ(base)^exponent for
  an arbitrary assignment σ of non-zero sizes to the base units.  For `*`, `/`, `**` the SI
  value of the result is the operation on the SI values — full strength, for every σ, because
  no conversion is involved.  For `+`, `-`, `==`, `<` the statement is proved relative to the
  conversion of the right operand (whose soundness is C04's subject).
-/
import Proofs.SizeOf
import Proofs.GraphHist
import Proofs.Monad
import Proofs.ConvertVal

namespace Measured.C06
open Measured St

/-- SI value of a quantity in state `s`. -/
def si (σ : UId → Rat) (s : St) (q : Qty Rat) : Rat := q.mag.val * unitSz σ s q.unit

variable {σ : UId → Rat}

theorem si_mul {c c' : Conv Rat} {a b q : Qty Rat} (hσ : ∀ k, σ k ≠ 0) (h1 : σ c.st.one = 1)
    (hc : Canon c.st) (ha : a.unit < c.st.units.length) (hb : b.unit < c.st.units.length)
    (hr : CM.exec (Qty.mul a b) c = (.ok q, c')) :
    si σ c'.st q = si σ c.st a * si σ c.st b := by
  unfold Qty.mul at hr
  rw [exec_bind, exec_liftStE] at hr
  cases hm : (c.st.mulUnit a.unit b.unit).2 with
  | error e => simp [hm] at hr
  | ok u =>
    simp only [hm, exec_pure, Prod.mk.injEq, Except.ok.injEq] at hr
    obtain ⟨hq, hcc⟩ := hr
    subst hq; subst hcc
    unfold si
    simp only [val_mul]
    rw [mulUnit_size hσ h1 hc ha hb hm]
    ring

theorem si_div {c c' : Conv Rat} {a b q : Qty Rat} (hσ : ∀ k, σ k ≠ 0) (h1 : σ c.st.one = 1)
    (hc : Canon c.st) (ha : a.unit < c.st.units.length) (hb : b.unit < c.st.units.length)
    (hr : CM.exec (Qty.div a b) c = (.ok q, c')) :
    si σ c'.st q = si σ c.st a / si σ c.st b := by
  unfold Qty.div at hr
  rw [exec_bind, exec_liftE] at hr
  cases hd : Mag.div a.mag b.mag with
  | error e => simp [hd] at hr
  | ok m =>
    simp only [hd] at hr
    rw [exec_bind, exec_liftStE] at hr
    cases hm : (c.st.divUnit a.unit b.unit).2 with
    | error e => simp [hm] at hr
    | ok u =>
      simp only [hm, exec_pure, Prod.mk.injEq, Except.ok.injEq] at hr
      obtain ⟨hq, hcc⟩ := hr
      subst hq; subst hcc
      unfold si
      obtain ⟨hv, hb0⟩ := val_div hd
      simp only [hv]
      rw [divUnit_size hσ h1 hc ha hb hm]
      have hz : unitSz σ c.st b.unit ≠ 0 := by
        unfold unitSz
        exact mul_ne_zero (Pfx.val_pos (canon_pfx hc hb)).ne' (sizeOf_ne_zero hσ _)
      field_simp

theorem si_pow {c c' : Conv Rat} {a q : Qty Rat} {n : Int} (h1 : σ c.st.one = 1)
    (hc : Canon c.st) (ha : a.unit < c.st.units.length)
    (hr : CM.exec (Qty.pow a n) c = (.ok q, c')) :
    si σ c'.st q = si σ c.st a ^ n := by
  unfold Qty.pow at hr
  rw [exec_bind, exec_liftE] at hr
  cases hp : a.mag.powInt n with
  | error e => simp [hp] at hr
  | ok m =>
    simp only [hp] at hr
    rw [exec_bind, exec_liftSt] at hr
    simp only [exec_pure, Prod.mk.injEq, Except.ok.injEq] at hr
    obtain ⟨hq, hcc⟩ := hr
    subst hq; subst hcc
    unfold si
    simp only [val_powInt hp]
    rw [powUnit_size h1 hc ha, mul_zpow]

/-- `a + b`: the result is in `a`'s unit with magnitude `a + (b converted to a's unit)`; so
    its SI value is the sum of the SI values exactly when the conversion of `b` is sound. -/
theorem add_value {c c' : Conv Rat} {a b q : Qty Rat} (hr : CM.exec (Qty.add a b) c = (.ok q, c')) :
    q.unit = a.unit ∧ ∃ (b' : Qty Rat) (c1 : Conv Rat),
      CM.exec (convert b a.unit) c = (.ok b', c1) ∧ q.mag.val = a.mag.val + b'.mag.val := by
  unfold Qty.add at hr
  rw [exec_bind] at hr
  cases hcv : CM.exec (convert b a.unit) c with
  | mk res c1 =>
    cases res with
    | error e => simp [hcv] at hr
    | ok b' =>
      simp only [hcv, exec_pure, Prod.mk.injEq, Except.ok.injEq] at hr
      obtain ⟨hq, _⟩ := hr
      subst hq
      exact ⟨rfl, b', c1, rfl, by simp [val_add]⟩

theorem sub_value {c c' : Conv Rat} {a b q : Qty Rat} (hr : CM.exec (Qty.sub a b) c = (.ok q, c')) :
    q.unit = a.unit ∧ ∃ (b' : Qty Rat) (c1 : Conv Rat),
      CM.exec (convert b a.unit) c = (.ok b', c1) ∧ q.mag.val = a.mag.val - b'.mag.val := by
  unfold Qty.sub at hr
  rw [exec_bind] at hr
  cases hcv : CM.exec (convert b a.unit) c with
  | mk res c1 =>
    cases res with
    | error e => simp [hcv] at hr
    | ok b' =>
      simp only [hcv, exec_pure, Prod.mk.injEq, Except.ok.injEq] at hr
      obtain ⟨hq, _⟩ := hr
      subst hq
      exact ⟨rfl, b', c1, rfl, by simp [val_sub]⟩

/-- SI value of a sum under a sound conversion of the right operand. -/
theorem si_add {s : St} {a b' q : Qty Rat} (hu : q.unit = a.unit) (hbu : b'.unit = a.unit)
    (hv : q.mag.val = a.mag.val + b'.mag.val) : si σ s q = si σ s a + si σ s b' := by
  unfold si; rw [hu, hbu, hv]; ring

/-- Comparing two magnitudes compares the values. -/
theorem beq_iff (x y : Mag Rat) : Mag.beq x y = true ↔ x.val = y.val := by
  cases x <;> cases y <;> simp [Mag.beq, Mag.val, Mag.toRat, FloatLike.beq, FloatLike.toRat]
theorem lt_iff (x y : Mag Rat) : Mag.lt x y = true ↔ x.val < y.val := by
  cases x <;> cases y <;> simp only [Mag.lt, Mag.val, Mag.toRat, FloatLike.lt, FloatLike.toRat] <;>
    first | exact decide_eq_true_iff | (simp only [decide_eq_true_eq]; exact Int.cast_lt.symm)

/-- Equal unit ⇒ `==`/`<` on quantities is `==`/`<` on SI values (positive unit size). -/
theorem same_unit_order {s : St} {a b : Qty Rat} (hu : a.unit = b.unit) (hz : 0 < unitSz σ s a.unit) :
    (a.mag.val = b.mag.val ↔ si σ s a = si σ s b) ∧ (a.mag.val < b.mag.val ↔ si σ s a < si σ s b) := by
  unfold si; rw [← hu]
  constructor
  · constructor
    · intro h; rw [h]
    · intro h; exact mul_right_cancel₀ hz.ne' h
  · constructor
    · intro h; exact mul_lt_mul_of_pos_right h hz
    · intro h; exact lt_of_mul_lt_mul_right h hz.le

/-! ### sums and differences through a directly settled conversion: unconditional -/

/-- `a + b` where `b` is brought into `a`'s unit by a directly found path: the SI value of the result
    is the sum of the SI values — in every state reached by unit operations, size-consistent
    declarations and directly settled conversions (no hypothesis about the conversion). -/
theorem add_direct_exact (hσ : ∀ k, σ k ≠ 0) {c c' : Conv Rat} (hr : Reach σ c) {a b q : Qty Rat}
    (ha : a.unit < c.st.units.length) (hb : b.unit < c.st.units.length)
    (h : CM.exec (Qty.add a b) c = (.ok q, c')) :
    q.unit = a.unit ∧
    ∃ (direct : List (Hop Rat)) (c2 : Conv Rat),
      CM.exec (findPath b.unit a.unit)
        { c with st := ((c.st.unprefixedUnit b.unit).1.unprefixedUnit a.unit).1 } = (.ok direct, c2) ∧
      (direct ≠ [] → si σ c.st q = si σ c.st a + si σ c.st b) := by
  obtain ⟨hu, b', c1, hcv, hv⟩ := add_value h
  obtain ⟨hbu, d, c2, hfp, hd⟩ := reach_convert_exact hσ hr hb ha hcv
  refine ⟨hu, d, c2, hfp, ?_⟩
  intro hne
  have := hd hne
  unfold si
  rw [hu, hv, add_mul, this]

theorem sub_direct_exact (hσ : ∀ k, σ k ≠ 0) {c c' : Conv Rat} (hr : Reach σ c) {a b q : Qty Rat}
    (ha : a.unit < c.st.units.length) (hb : b.unit < c.st.units.length)
    (h : CM.exec (Qty.sub a b) c = (.ok q, c')) :
    q.unit = a.unit ∧
    ∃ (direct : List (Hop Rat)) (c2 : Conv Rat),
      CM.exec (findPath b.unit a.unit)
        { c with st := ((c.st.unprefixedUnit b.unit).1.unprefixedUnit a.unit).1 } = (.ok direct, c2) ∧
      (direct ≠ [] → si σ c.st q = si σ c.st a - si σ c.st b) := by
  obtain ⟨hu, b', c1, hcv, hv⟩ := sub_value h
  obtain ⟨hbu, d, c2, hfp, hd⟩ := reach_convert_exact hσ hr hb ha hcv
  refine ⟨hu, d, c2, hfp, ?_⟩
  intro hne
  have := hd hne
  unfold si
  rw [hu, hv, sub_mul, this]

end Measured.C06
