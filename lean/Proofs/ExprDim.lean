/-
  Proofs/ExprDim.lean — evaluating a unit expression in any reachable state yields a unit
  whose dimension is the homomorphic image of the expression.
-/
import Model.Expr
import Proofs.ResultDim

namespace Measured
open St

theorem Ext.dimOfUnit {s s' : St} (h : Ext s s') {i : Nat} (hi : i < s.units.length) :
    s'.dimOfUnit i = s.dimOfUnit i := by
  unfold St.dimOfUnit; rw [(h.same i hi).2.2]

theorem mulUnit_lt (s : St) (a b : Nat) {i : Nat} (hr : (s.mulUnit a b).2 = .ok i) :
    i < (s.mulUnit a b).1.units.length := by
  unfold mulUnit at hr ⊢
  simp only at hr ⊢
  split at hr
  · cases hr
  · next p hp => simp only [hp]; simp only at hr; injection hr with hr; subst hr; exact newUnit_lt _ _ _ _

theorem divUnit_lt (s : St) (a b : Nat) {i : Nat} (hr : (s.divUnit a b).2 = .ok i) :
    i < (s.divUnit a b).1.units.length := by
  unfold divUnit at hr ⊢
  simp only at hr ⊢
  split at hr
  · cases hr
  · next p hp => simp only [hp]; simp only at hr; injection hr with hr; subst hr; exact newUnit_lt _ _ _ _

theorem powUnit_lt (s : St) (a : Nat) (n : Int) : (s.powUnit a n).2 < (s.powUnit a n).1.units.length := by
  unfold powUnit; exact newUnit_lt _ _ _ _

theorem pmulUnit_lt (s : St) (p : Pfx) (a : Nat) {i : Nat} (hr : (s.pmulUnit p a).2 = .ok i) :
    i < (s.pmulUnit p a).1.units.length := by
  unfold pmulUnit at hr ⊢
  simp only at hr ⊢
  split at hr
  · cases hr
  · next p hp => simp only [hp]; simp only at hr; injection hr with hr; subst hr; exact newUnit_lt _ _ _ _

theorem rootUnit_lt {s : St} (h : WF s) (a : Nat) (n : Int) {i : Nat} (hr : (s.rootUnit a n).2 = .ok i) :
    i < (s.rootUnit a n).1.units.length := by
  by_cases h0 : (n == 0) = true
  · have : s.rootUnit a n = (s, .ok s.one) := by simp [rootUnit, h0]
    rw [this] at hr ⊢
    injection hr with hr; subst hr; exact h.oneLt
  · have h0' : (n == 0) = false := by simpa using h0
    cases hroot : (s.unit! a).dim.root n with
    | error e => simp [rootUnit, h0', hroot] at hr
    | ok d =>
      cases hp : (s.unit! a).pfx.root n with
      | error e => simp [rootUnit, h0', hroot, hp] at hr
      | ok p =>
        by_cases hall : ((s.unit! a).factors.any (fun f => f.1 != s.one && f.2 % n != 0)) = true
        · simp [rootUnit, h0', hroot, hp, hall] at hr
        · have hres : s.rootUnit a n = ((s.newUnit p (simplify s.one ((s.unit! a).factors.map (fun f => (f.1, Int.fdiv f.2 n)))) d).1,
              .ok (s.newUnit p (simplify s.one ((s.unit! a).factors.map (fun f => (f.1, Int.fdiv f.2 n)))) d).2) := by
            simp [rootUnit, h0', hroot, hp, hall]
          rw [hres] at hr ⊢
          injection hr with hr; subst hr; exact newUnit_lt _ _ _ _

/-- Specification of `UExpr.eval` in a state that extends `base`. -/
theorem eval_spec (base : St) (e : UExpr) :
    ∀ {s : St}, (∀ r ∈ e.refs, r < base.units.length) → GInv s → Ext base s →
      GInv (e.eval s).1 ∧ Ext s (e.eval s).1 ∧
      ∀ i, (e.eval s).2 = .ok i →
        i < (e.eval s).1.units.length ∧ e.dimDenote base = some ((e.eval s).1.dimOfUnit i) := by
  induction e with
  | ref i =>
    intro s hb h hx
    refine ⟨h, Ext.refl s, ?_⟩
    intro j hj
    simp only [UExpr.eval] at hj ⊢
    injection hj with hj; subst hj
    have hi := hb i (by simp [UExpr.refs])
    exact ⟨Nat.lt_of_lt_of_le hi hx.len, by simp [UExpr.dimDenote, hx.dimOfUnit hi]⟩
  | mul a b iha ihb =>
    intro s hb h hx
    have hba : ∀ r ∈ a.refs, r < base.units.length := fun r hr => hb r (by simp [UExpr.refs, hr])
    have hbb : ∀ r ∈ b.refs, r < base.units.length := fun r hr => hb r (by simp [UExpr.refs, hr])
    obtain ⟨g1, x1, r1⟩ := iha hba h hx
    simp only [UExpr.eval]
    cases ha : a.eval s with
    | mk s1 ra =>
      rw [ha] at g1 x1 r1
      cases ra with
      | error e => exact ⟨g1, x1, fun i hi => by cases hi⟩
      | ok i =>
        simp only
        obtain ⟨hi1, di⟩ := r1 i rfl
        obtain ⟨g2, x2, r2⟩ := ihb hbb g1 (hx.trans x1)
        cases hb' : b.eval s1 with
        | mk s2 rb =>
          rw [hb'] at g2 x2 r2
          cases rb with
          | error e => exact ⟨g2, x1.trans x2, fun i hi => by cases hi⟩
          | ok j =>
            simp only
            obtain ⟨hj2, dj⟩ := r2 j rfl
            have hi2 : i < s2.units.length := Nat.lt_of_lt_of_le hi1 x2.len
            refine ⟨⟨mulUnit_inv g2.1 hi2 hj2, mulUnit_reg g2.2 i j⟩, (x1.trans x2).trans (mulUnit_ext s2 i j), ?_⟩
            intro k hk
            refine ⟨mulUnit_lt s2 i j hk, ?_⟩
            rw [mulUnit_dim g2.1 hi2 hj2 hk]
            simp only [UExpr.dimDenote, di, dj, x2.dimOfUnit hi1]
            rfl
  | div a b iha ihb =>
    intro s hb h hx
    have hba : ∀ r ∈ a.refs, r < base.units.length := fun r hr => hb r (by simp [UExpr.refs, hr])
    have hbb : ∀ r ∈ b.refs, r < base.units.length := fun r hr => hb r (by simp [UExpr.refs, hr])
    obtain ⟨g1, x1, r1⟩ := iha hba h hx
    simp only [UExpr.eval]
    cases ha : a.eval s with
    | mk s1 ra =>
      rw [ha] at g1 x1 r1
      cases ra with
      | error e => exact ⟨g1, x1, fun i hi => by cases hi⟩
      | ok i =>
        simp only
        obtain ⟨hi1, di⟩ := r1 i rfl
        obtain ⟨g2, x2, r2⟩ := ihb hbb g1 (hx.trans x1)
        cases hb' : b.eval s1 with
        | mk s2 rb =>
          rw [hb'] at g2 x2 r2
          cases rb with
          | error e => exact ⟨g2, x1.trans x2, fun i hi => by cases hi⟩
          | ok j =>
            simp only
            obtain ⟨hj2, dj⟩ := r2 j rfl
            have hi2 : i < s2.units.length := Nat.lt_of_lt_of_le hi1 x2.len
            refine ⟨⟨divUnit_inv g2.1 hi2 hj2, divUnit_reg g2.2 i j⟩, (x1.trans x2).trans (divUnit_ext s2 i j), ?_⟩
            intro k hk
            refine ⟨divUnit_lt s2 i j hk, ?_⟩
            rw [divUnit_dim g2.1 hi2 hj2 hk]
            simp only [UExpr.dimDenote, di, dj, x2.dimOfUnit hi1]
            rfl
  | pow a n iha =>
    intro s hb h hx
    obtain ⟨g1, x1, r1⟩ := iha (fun r hr => hb r (by simp [UExpr.refs, hr])) h hx
    simp only [UExpr.eval]
    cases ha : a.eval s with
    | mk s1 ra =>
      rw [ha] at g1 x1 r1
      cases ra with
      | error e => exact ⟨g1, x1, fun i hi => by cases hi⟩
      | ok i =>
        simp only
        obtain ⟨hi1, di⟩ := r1 i rfl
        refine ⟨⟨powUnit_inv g1.1 hi1 n, powUnit_reg g1.2 i n⟩, x1.trans (powUnit_ext s1 i n), ?_⟩
        intro k hk
        injection hk with hk; subst hk
        refine ⟨powUnit_lt s1 i n, ?_⟩
        rw [powUnit_dim g1.1 hi1 n]
        simp only [UExpr.dimDenote, di]
        rfl
  | root a n iha =>
    intro s hb h hx
    obtain ⟨g1, x1, r1⟩ := iha (fun r hr => hb r (by simp [UExpr.refs, hr])) h hx
    simp only [UExpr.eval]
    cases ha : a.eval s with
    | mk s1 ra =>
      rw [ha] at g1 x1 r1
      cases ra with
      | error e => exact ⟨g1, x1, fun i hi => by cases hi⟩
      | ok i =>
        simp only
        obtain ⟨hi1, di⟩ := r1 i rfl
        refine ⟨⟨rootUnit_inv g1.1 hi1 n, rootUnit_reg g1.2 i n⟩, x1.trans (rootUnit_ext s1 i n), ?_⟩
        intro k hk
        refine ⟨rootUnit_lt g1.1.1 i n hk, ?_⟩
        by_cases hn : n = 0
        · subst hn
          have : s1.rootUnit i 0 = (s1, .ok s1.one) := by simp [rootUnit]
          rw [this] at hk ⊢
          injection hk with hk; subst hk
          simp only [UExpr.dimDenote, di]
          have hlen := dimOfUnit_len g1.1.1 hi1
          simp [Dim.root, g1.1.1.oneNum, hlen]
        · have := rootUnit_dim g1.1 hi1 hn hk
          simp only [UExpr.dimDenote, di]
          show (match (s1.dimOfUnit i).root n with | .ok d => some d | .error _ => none) = _
          rw [this]
  | pfx p a iha =>
    intro s hb h hx
    obtain ⟨g1, x1, r1⟩ := iha (fun r hr => hb r (by simp [UExpr.refs, hr])) h hx
    simp only [UExpr.eval]
    cases ha : a.eval s with
    | mk s1 ra =>
      rw [ha] at g1 x1 r1
      cases ra with
      | error e => exact ⟨g1, x1, fun i hi => by cases hi⟩
      | ok i =>
        simp only
        obtain ⟨hi1, di⟩ := r1 i rfl
        refine ⟨⟨pmulUnit_inv g1.1 p hi1, pmulUnit_reg g1.2 p i⟩, x1.trans (pmulUnit_ext s1 p i), ?_⟩
        intro k hk
        refine ⟨pmulUnit_lt s1 p i hk, ?_⟩
        rw [pmulUnit_dim g1.1 p hi1 hk]
        simp only [UExpr.dimDenote, di]

end Measured
