"""C02 — dimensions, prefixes and units are canonical objects forming abelian groups.

Generator: random expression trees over registered and freshly defined base units, named
derived units and registered prefixes, evaluated one operator at a time (so every
sub-expression is an op line compared with the model by creation ordinal), interleaved with
explicit instances of the group laws (commutativity, associativity, neutral element,
inverse, a/b = a*b**-1, x**a * x**b = x**(a+b), (x**a)**b = x**(a*b), (x**n).root(n) = x).
Oracle (implementation only, independent of the Lean model): every unit ever returned is
mapped to its normal form in the free abelian group (prefix (base, exponent), frozenset of
(base unit, exponent)) computed *from the operands' normal forms*, never from the result;
two results with one normal form must be the very same object (`is`).
Cross-base prefix products are checked numerically (1e-9), as the property states.
"""
import math

from measured import Dimension, Prefix, Unit

from .common import BaseContext

LEVEL_TEXT = 'eval_canonical: in every reachable state, two unit expressions with the same denotation in (prefix group) x (free abelian group over base units) evaluate to the same intern-table index, with arbitrary histories before and between the evaluations; the eight group laws are proved as denotation equalities and therefore hold up to object identity; dimensions and same-base prefixes are proved abelian groups as values (the value is the object). Reachable states include those after histories with QUERIES: after any history of conversions, comparisons, arithmetic and unit operations about existing units - whatever they returned or raised - GInv and Canon hold again (queries_good, Proofs/Kept.lean), so the identity theorem applies in those states as well. Hypotheses (GInv, Canon) are discharged for the shipped registries on every run by decide +kernel. Tied to the code by differential execution of random expression trees and explicit law instances, and by an independent normal-form oracle that demands `is`-identity on the real library.'
LEVEL_NOTE = "Trusted: Lean kernel (+ Mathlib.Data.List.Nodup lemmas), translator, harness. Python's id()-sort is modelled by ordinal sort (any injective total order yields the same canonical key). Cross-base (SI x IEC) prefix products have float exponents: identity is not claimed for them, only the numeric law within 1e-9, checked on the implementation."
TECHNIQUE = 'Lean 4 proof of canonical-form/identity theorem over the intern-table model + decide +kernel obligation on regenerated registries + differential correspondence'

LEAN_TARGETS = ["Props.C02", "Obligations.C02", "Props.Planner", "Obligations.History"]
THEOREMS = [
    "Measured.C02.eval_canonical",
    "Measured.C02.eval_idempotent",
    "Measured.C02.mul_comm", "Measured.C02.mul_assoc", "Measured.C02.one_mul", "Measured.C02.mul_inv",
    "Measured.C02.div_eq_mul_inv", "Measured.C02.pow_add", "Measured.C02.pow_mul", "Measured.C02.root_pow",
    "Measured.C02.mul_comm_identity",
    "Measured.C02.dim_mul_comm", "Measured.C02.dim_mul_assoc", "Measured.C02.dim_mul_inv",
    "Measured.C02.dim_pow_add", "Measured.C02.dim_pow_mul", "Measured.C02.dim_root_pow",
    "Measured.C02.pfx_mul_comm", "Measured.C02.pfx_mul_assoc", "Measured.C02.pfx_mul_inv",
    "Measured.C02.pfx_pow_add", "Measured.C02.pfx_pow_mul", "Measured.C02.pfx_root_pow",
    "Measured.Obligations.init_canon",
    "Measured.Obligations.shipped_eval_canonical",
    "Measured.queries_good", "Measured.C02.canonical_after_every_query_history", "Measured.Obligations.History.shippedState_after",
]
QUICK = {"chunks": 4, "ops": 700}
THOROUGH = {"chunks": 16, "ops": 5000}
RULE = ("expression trees (depth <= 5, exponents -4..4) over base units, named derived units, registered "
        "prefixes and 3 freshly defined base units, plus explicit group-law instances; non-trivial = the op "
        "returned a compound or prefixed unit; distinct by (op, operand normal forms)")
ASSUMPTIONS = ["identity of cross-base (SI x IEC) prefix products is not claimed, only their numeric value within 1e-9"]


class Context(BaseContext):
    def __init__(self, sess, rng):
        super().__init__(sess, rng)
        self.nf = {}       # ordinal -> normal form
        self.by_nf = {}    # normal form -> ordinal
        self.one = sess.uid(__import__("measured").One)
        for i, u in enumerate(sess.units):
            self.learn(i, self.nf_of_unit(u))
        self.extra["law_instances"] = 0
        self.extra["cross_base_checks"] = 0
        self.fresh = 0

    def nf_of_unit(self, u):
        fs = frozenset((self.sess.uid(f), e) for f, e in u.factors.items()
                       if self.sess.uid(f) != self.one and e != 0)
        p = u.prefix
        return ((p.base, p.exponent) if p.exponent != 0 else (0, 0), fs)

    def learn(self, i, nf):
        self.nf[i] = nf
        if nf not in self.by_nf:
            self.by_nf[nf] = i
            return None
        return self.by_nf[nf]


def pmul(p, q):
    if q[0] == 0:
        return p
    if p[0] == 0:
        return q
    if p[0] != q[0]:
        return None
    e = p[1] + q[1]
    return (p[0], e) if e != 0 else (0, 0)


def pinv(p):
    return (p[0], -p[1]) if p[0] != 0 else p


def ppow(p, n):
    if p[0] == 0 or n == 0:
        return (0, 0)
    return (p[0], p[1] * n)


def fmul(a, b, sign=1):
    d = dict(a)
    for k, e in b:
        d[k] = d.get(k, 0) + sign * e
    return frozenset((k, e) for k, e in d.items() if e != 0)


def expected_nf(ctx, f):
    """Normal form of the result of a U op, from the operands' normal forms."""
    op = f[1]
    g = lambda t: ctx.nf.get(int(t[1:]))
    if op in ("mul", "div"):
        a, b = g(f[2]), g(f[3])
        if a is None or b is None:
            return None
        p = pmul(a[0], b[0] if op == "mul" else pinv(b[0]))
        if p is None:
            return None
        return (p, fmul(a[1], b[1], 1 if op == "mul" else -1))
    if op == "pow":
        a, n = g(f[2]), int(f[3])
        if a is None:
            return None
        return (ppow(a[0], n), frozenset((k, e * n) for k, e in a[1] if e * n != 0))
    if op == "root":
        a, n = g(f[2]), int(f[3])
        if a is None:
            return None
        if n == 0:
            return ((0, 0), frozenset())
        if a[0][1] % n or any(e % n for _, e in a[1]):
            return "raises"
        return ((a[0][0], a[0][1] // n) if a[0][1] // n != 0 else (0, 0),
                frozenset((k, e // n) for k, e in a[1]))
    if op == "pmul":
        b, e = f[2][1:].split(":")
        a = g(f[3])
        if a is None:
            return None
        p = pmul(a[0], (int(b), int(e)) if int(e) != 0 else (0, 0))
        if p is None:
            return None
        return (p, a[1])
    if op == "unpre":
        a = g(f[2])
        return None if a is None else ((0, 0), a[1])
    return None


def oracle(ctx, line, res):
    f = line.split("\t")
    fails = []
    if f[0] == "U" and f[1] in ("mul", "div", "pow", "root", "pmul", "unpre"):
        want = expected_nf(ctx, f)
        ctx.oracle_checks += 1
        if want == "raises":
            if not res.startswith("ERR\tFractional"):
                fails.append({"kind": "root-should-raise", "got": res})
        elif want is not None and res.startswith("ok\tu"):
            i = int(res.split("\t")[1][1:])
            other = ctx.learn(i, want)
            if other is not None and other != i:
                fails.append({"kind": "identity", "normal_form": repr(want), "first": other, "second": i})
            # and the object's own key must be that normal form
            got = ctx.nf_of_unit(ctx.unit(i))
            if got != want:
                fails.append({"kind": "wrong-key", "unit": i, "expected": repr(want), "got": repr(got)})
        elif want is not None and res.startswith("ERR") and f[1] != "root":
            fails.append({"kind": "unexpected-error", "got": res})
    elif f[0] == "U" and f[1] == "define" and res.startswith("ok\tu"):
        i = int(res.split("\t")[1][1:])
        ctx.learn(i, ((0, 0), frozenset([(i, 1)])))
    return fails


def nontrivial(ctx, line, res):
    f = line.split("\t")
    if f[0] != "U" or not res.startswith("ok\tu"):
        return None
    i = int(res.split("\t")[1][1:])
    nf = ctx.nf.get(i)
    if nf is None or (nf[0] == (0, 0) and len(nf[1]) <= 1 and all(e == 1 for _, e in nf[1])):
        return None
    return (f[1], tuple(repr(ctx.nf.get(int(t[1:]))) for t in f[2:] if t.startswith("u")), f[-1])


def cross_base_check(ctx):
    """(p*q).quantify() == p.quantify()*q.quantify() within 1e-9 for prefixes of different bases."""
    rng = ctx.rng
    p, q = rng.choice(ctx.si_prefixes), rng.choice(ctx.iec_prefixes)
    if rng.random() < 0.5:
        p, q = q, p
    fails = []
    for name, got, want in (
        ("mul", (p * q).quantify(), p.quantify() * q.quantify()),
        ("div", (p / q).quantify(), p.quantify() / q.quantify()),
        ("mul_inv", ((p * q) / q).quantify(), p.quantify()),
        ("pow", ((p * q) ** 2).quantify(), (p.quantify() * q.quantify()) ** 2),
    ):
        ctx.oracle_checks += 1
        if not math.isclose(got, want, rel_tol=1e-9):
            fails.append({"kind": "cross-base-" + name, "p": repr(p), "q": repr(q), "got": got, "want": want})
    ctx.extra["cross_base_checks"] += 1
    return fails


def final_oracle(ctx):
    fails = []
    for _ in range(60):
        fails += cross_base_check(ctx)
    # dimensions: a Dimension is interned by its exponent tuple
    dims = list(Dimension._known.values())
    for _ in range(200):
        a, b = ctx.rng.choice(dims), ctx.rng.choice(dims)
        n = ctx.rng.randint(-4, 4)
        ctx.oracle_checks += 4
        if a * b is not b * a:
            fails.append({"kind": "dim-comm", "a": repr(a), "b": repr(b)})
        if (a * b) / b is not a:
            fails.append({"kind": "dim-inv", "a": repr(a), "b": repr(b)})
        if n and (a ** n).root(n) is not a:
            fails.append({"kind": "dim-root", "a": repr(a), "n": n})
        if a ** 2 * a ** n is not a ** (n + 2):
            fails.append({"kind": "dim-pow-add", "a": repr(a), "n": n})
    # the same after a NEW FUNDAMENTAL DIMENSION is defined at run time (this is the last thing the chunk does:
    # the model does not follow the re-keying): every interned dimension, named or anonymous, must have been
    # widened, so that expressions over old and new dimensions still meet in one object
    try:
        before = list(Dimension._known.values())
        fresh = Dimension.define("verif-c02-dimension-%d" % ctx.rng.randrange(10**9), "")
        dims2 = list(Dimension._known.values())
        widths = {len(d.exponents) for d in dims2}
        ctx.oracle_checks += 1
        if len(widths) != 1 or any(d not in dims2 for d in before):
            fails.append({"kind": "dim-define-rekey", "widths": sorted(widths)})
        for _ in range(200):
            a, b = ctx.rng.choice(before), ctx.rng.choice(before + [fresh])
            n = ctx.rng.randint(-4, 4)
            ctx.oracle_checks += 4
            try:
                if a * b is not b * a:
                    fails.append({"kind": "dim-comm-after-define", "a": repr(a), "b": repr(b)})
                if (a * b) / b is not a:
                    fails.append({"kind": "dim-inv-after-define", "a": repr(a), "b": repr(b)})
                if n and (a ** n).root(n) is not a:
                    fails.append({"kind": "dim-root-after-define", "a": repr(a), "n": n})
                if a ** 2 * a ** n is not a ** (n + 2):
                    fails.append({"kind": "dim-pow-add-after-define", "a": repr(a), "n": n})
            except Exception as e:  # noqa: BLE001
                fails.append({"kind": "dim-law-raises-after-define", "a": repr(a), "b": repr(b), "error": type(e).__name__})
        units = ctx.sess.units
        for _ in range(100):
            u, v = ctx.rng.choice(units), ctx.rng.choice(units)
            ctx.oracle_checks += 1
            try:
                w = u * v
                if w.dimension is not u.dimension * v.dimension:
                    fails.append({"kind": "unit-dim-after-define", "u": str(u), "v": str(v)})
            except (ValueError, OverflowError):
                pass          # cross-base / out-of-range prefixes: not this check's business
            except Exception as e:  # noqa: BLE001
                fails.append({"kind": "unit-law-raises-after-define", "u": str(u), "v": str(v), "error": type(e).__name__})
    except Exception as e:  # noqa: BLE001
        fails.append({"kind": "dim-define-raises", "error": repr(e)})
    fails = fails[:12]
    # same-base prefixes
    for _ in range(200):
        p, q = ctx.rng.choice(ctx.si_prefixes), ctx.rng.choice(ctx.si_prefixes)
        n = ctx.rng.randint(-4, 4)
        ctx.oracle_checks += 4
        if p * q is not q * p:
            fails.append({"kind": "pfx-comm", "p": repr(p), "q": repr(q)})
        if (p * q) / q is not p:
            fails.append({"kind": "pfx-inv", "p": repr(p), "q": repr(q)})
        if n and (p ** n).root(n) is not p:
            fails.append({"kind": "pfx-root", "p": repr(p), "n": n})
        if p ** 2 * p ** n is not p ** (n + 2):
            fails.append({"kind": "pfx-pow-add", "p": repr(p), "n": n})
    return fails


def generate(ctx, n_ops):
    rng = ctx.rng
    emitted = 0

    def uref(res):
        return int(res.split("\t")[1][1:]) if res.startswith("ok\tu") else None

    # three freshly defined base units
    dims = [d for d in Dimension._known.values()]
    for k in range(3):
        d = rng.choice(dims)
        name = "fresh%d_%d" % (rng.randrange(10**6), k)
        res = yield "U\tdefine\td%s\t%s\t%s" % (",".join(str(e) for e in d.exponents), name, name)
        emitted += 1
        i = uref(res)
        if i is not None:
            ctx.base_units.append(i)

    def leaf():
        return ctx.pick_unit()

    while emitted < n_ops:
        r = rng.random()
        if r < 0.55:
            # one random operator application
            k = rng.random()
            if k < 0.3:
                a, b = ctx.pick_pair()
                line = "U\tmul\tu%d\tu%d" % (a, b)
            elif k < 0.6:
                a, b = ctx.pick_pair()
                line = "U\tdiv\tu%d\tu%d" % (a, b)
            elif k < 0.75:
                line = "U\tpow\tu%d\t%d" % (leaf(), ctx.small_int())
            elif k < 0.87:
                line = "U\troot\tu%d\t%d" % (leaf(), ctx.small_int(-3, 3))
            else:
                a = leaf()
                line = "U\tpmul\t%s\tu%d" % (ctx.pfx_tok(ctx.pick_prefix_for(a)), a)
            yield line
            emitted += 1
            continue
        # a law instance: compute both sides; the oracle's identity map catches a difference
        ctx.extra["law_instances"] += 1
        law = rng.choice(["comm", "assoc", "one", "inv", "div", "powadd", "powmul", "rootpow", "dimless", "dimless"])
        x, y = ctx.pick_pair()
        z = leaf()
        if not (ctx.compatible(x, z) and ctx.compatible(y, z)):
            z = x
        a, b = ctx.small_int(), ctx.small_int()
        n = ctx.small_int(-4, 4, nonzero=True)
        seqs = {
            "comm": [("mul", x, y), ("mul", y, x)],
            "one": [("mul", ctx.one, x), ("mul", x, ctx.one), ("div", x, ctx.one)],
        }
        if law in seqs:
            for op, p, q in seqs[law]:
                yield "U\t%s\tu%d\tu%d" % (op, p, q)
                emitted += 1
        elif law == "assoc":
            xy = uref((yield "U\tmul\tu%d\tu%d" % (x, y)))
            yz = uref((yield "U\tmul\tu%d\tu%d" % (y, z)))
            emitted += 2
            if xy is not None and yz is not None:
                yield "U\tmul\tu%d\tu%d" % (xy, z)
                yield "U\tmul\tu%d\tu%d" % (x, yz)
                emitted += 2
        elif law == "inv":
            xi = uref((yield "U\tpow\tu%d\t-1" % x))
            emitted += 1
            if xi is not None:
                yield "U\tmul\tu%d\tu%d" % (x, xi)
                yield "U\tdiv\tu%d\tu%d" % (x, x)
                emitted += 2
        elif law == "div":
            yi = uref((yield "U\tpow\tu%d\t-1" % y))
            emitted += 1
            if yi is not None:
                yield "U\tdiv\tu%d\tu%d" % (x, y)
                yield "U\tmul\tu%d\tu%d" % (x, yi)
                emitted += 2
        elif law == "powadd":
            xa = uref((yield "U\tpow\tu%d\t%d" % (x, a)))
            xb = uref((yield "U\tpow\tu%d\t%d" % (x, b)))
            emitted += 2
            if xa is not None and xb is not None:
                yield "U\tmul\tu%d\tu%d" % (xa, xb)
                yield "U\tpow\tu%d\t%d" % (x, a + b)
                emitted += 2
        elif law == "powmul":
            xa = uref((yield "U\tpow\tu%d\t%d" % (x, a)))
            emitted += 1
            if xa is not None:
                yield "U\tpow\tu%d\t%d" % (xa, b)
                yield "U\tpow\tu%d\t%d" % (x, a * b)
                emitted += 2
        elif law == "dimless":
            # a dimensionless unit that still carries a prefix: (p*x)/x has the single factor One.
            # Powers, products and quotients of it must land on the canonical objects too.
            p = ctx.pick_prefix_for(x)
            px = uref((yield "U\tpmul\t%s\tu%d" % (ctx.pfx_tok(p), x)))
            emitted += 1
            if px is not None:
                r = uref((yield "U\tdiv\tu%d\tu%d" % (px, x)))
                emitted += 1
                if r is not None:
                    yield "U\tpow\tu%d\t%d" % (r, n)
                    yield "U\tmul\tu%d\tu%d" % (r, r)
                    yield "U\tpow\tu%d\t2" % r
                    yield "U\tdiv\tu%d\tu%d" % (ctx.one, r)
                    yield "U\tpow\tu%d\t-1" % r
                    yield "U\tpow\tu%d\t%d" % (ctx.one, n)
                    emitted += 6
        elif law == "rootpow":
            xn = uref((yield "U\tpow\tu%d\t%d" % (x, n)))
            emitted += 1
            if xn is not None:
                yield "U\troot\tu%d\t%d" % (xn, n)
                emitted += 1
    yield "STATE"
