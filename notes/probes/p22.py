import sys, importlib
first = sys.argv[1]
importlib.import_module("measured."+first)
import measured.systems
from measured import *
bad=[]
for u in set(Unit._known.values()):
    for n in u.names:
        if Unit._by_name.get(n) is not u: bad.append(("uname",n))
    for s in u.symbols:
        if Unit._by_symbol.get(s) is not u: bad.append(("usym",s))
for n,u in Unit._by_name.items():
    if n not in u.names: bad.append(("uname-rev",n))
for n,u in Unit._by_symbol.items():
    if n not in u.symbols: bad.append(("usym-rev",n))
for p in Prefix._known.values():
    if p.name and Prefix._by_name.get(p.name) is not p: bad.append(("pname",p.name))
    if p.symbol and Prefix._by_symbol.get(p.symbol) is not p: bad.append(("psym",p.symbol,p.name))
for n,p in Prefix._by_name.items():
    if p.name!=n: bad.append(("pname-rev",n))
for n,p in Prefix._by_symbol.items():
    if p.symbol!=n: bad.append(("psym-rev",n,p.name))
for n,d in Dimension._by_name.items():
    if d.name!=n: bad.append(("dname-rev",n,d.name))
from measured import si
expected = {'deci':si.Deci,'deca':si.Deca,'kilo':si.Kilo}
for n,p in expected.items():
    if p.name!=n: bad.append(("declared-name-lost", n, p.name))
print(first, bad)
