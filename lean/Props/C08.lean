/-
  C08 — conversion results depend only on declared equivalences, not on query history.

  Abstract theorem about the memoisation discipline: when every graph-changing declaration
  clears the memo tables, every query in every history returns exactly what the uncached
  computation returns on the graph built from the declarations made so far — i.e. what a
  fresh process with the same declarations would return.  Without the clearing the statement
  is false (`stale_witness`: the behaviour of the pinned code before the `fix:` commit).
-/
import Model.Memo

namespace Measured.C08
open Measured.Memo

variable {G K V D : Type} [DecidableEq K]

/-- Memo coherence: every stored answer is what the uncached computation gives now. -/
def Coh (sys : Sys G K V D) (s : MState G K V) : Prop :=
  ∀ k v, lookup k s.memo = some v → v = sys.answer s.g k

theorem coh_empty (sys : Sys G K V D) (g : G) : Coh sys { g := g, memo := [] } := by
  intro k v h; simp [lookup] at h

/-- `memo_coherent`: with clearing declarations, coherence is an invariant. -/
theorem step_coh (sys : Sys G K V D) {s : MState G K V} (h : Coh sys s) (e : Ev K D) :
    Coh sys (step sys true s e).1 := by
  cases e with
  | declare d => simp only [step]; exact coh_empty sys _
  | query k =>
    simp only [step]
    cases hl : lookup k s.memo with
    | some v => simpa [hl] using h
    | none =>
      simp only
      intro k' v' hk
      simp only [lookup] at hk
      split at hk
      · next heq => injection hk with hk; subst heq; exact hk.symm
      · exact h k' v' hk

/-- A query answers what the uncached computation answers on the current graph. -/
theorem query_correct (sys : Sys G K V D) {s : MState G K V} (h : Coh sys s) (k : K) :
    (step sys true s (.query k)).2 = some (sys.answer s.g k) := by
  simp only [step]
  cases hl : lookup k s.memo with
  | some v => simp [h k v hl]
  | none => rfl

theorem step_graph (sys : Sys G K V D) (c : Bool) (s : MState G K V) (k : K) :
    (step sys c s (.query k)).1.g = s.g := by
  simp only [step]; cases lookup k s.memo <;> rfl

/-- **Every history.**  The answers collected along any interleaving of declarations and
    queries are exactly the fresh-process answers: each query sees the declarations made so
    far and nothing else — not earlier queries, successful or failed, on any key. -/
theorem query_history_free (sys : Sys G K V D) (hist : List (Ev K D)) :
    ∀ {s : MState G K V}, Coh sys s → (run sys true s hist).2 = pureAnswers sys s.g hist := by
  induction hist with
  | nil => intro s _; rfl
  | cons e rest ih =>
    intro s h
    cases e with
    | declare d =>
      simp only [run, pureAnswers]
      have := ih (s := (step sys true s (.declare d)).1) (step_coh sys h _)
      simp only [step] at this ⊢
      exact this
    | query k =>
      simp only [run, pureAnswers]
      have hq := query_correct sys h k
      have hg := step_graph sys true s k
      have := ih (s := (step sys true s (.query k)).1) (step_coh sys h _)
      rw [hg] at this
      rw [hq, this]

/-- Repeating a query gives the identical result. -/
theorem query_repeatable (sys : Sys G K V D) {s : MState G K V} (h : Coh sys s) (k : K) :
    (step sys true (step sys true s (.query k)).1 (.query k)).2 = (step sys true s (.query k)).2 := by
  rw [query_correct sys (step_coh sys h _) k, query_correct sys h k, step_graph]

/-- A query that failed before a declaration sees the declaration afterwards. -/
theorem declared_then_visible (sys : Sys G K V D) {s : MState G K V} (h : Coh sys s) (d : D) (k : K) :
    (run sys true s [.query k, .declare d, .query k]).2 =
      [sys.answer s.g k, sys.answer (sys.declare s.g d) k] := by
  rw [query_history_free sys _ h]; rfl

/-! ### the pinned code before the fix: declarations did not clear the tables -/

/-- A two-node graph: `answer` says whether an edge has been declared. -/
def toy : Sys Bool Unit Bool Unit := { answer := fun g _ => g, declare := fun _ _ => true }

/-- Without clearing: query (fails), declare, query — still fails. -/
theorem stale_witness :
    (run toy false { g := false, memo := [] } [.query (), .declare (), .query ()]).2 = [false, false] ∧
    pureAnswers toy false [.query (), .declare (), .query ()] = [false, true] := by decide

/-- With clearing the same history answers like a fresh process (non-vacuity of the above). -/
example : (run toy true { g := false, memo := [] } [.query (), .declare (), .query ()]).2 = [false, true] := by
  decide

end Measured.C08
