/-
  Proofs/Pfx.lean — same-base prefixes form an abelian group (C02, C11).
-/
import Model.Basic

namespace Measured
namespace Pfx

/-- A prefix as the library can hold it: `Prefix(base ≠ 0, 0)` is normalised to the
    identity `(0, 0)`, and base 0 occurs only as the identity. -/
def Normal (p : Pfx) : Prop := p.base = 0 ↔ p.exp = 0

theorem normal_identity : Normal identity := by simp [Normal, identity]

theorem normal_new (b : Nat) (e : Int) (hb : b ≠ 0) : Normal (new b e) := by
  unfold new Normal
  split
  · simp [identity]
  · next h => simp only [not_and] at h; simp [hb]; exact h hb

theorem eq_identity_of_base {p : Pfx} (h : Normal p) (hb : p.base = 0) : p = identity := by
  cases p with
  | mk b e => simp only [Normal] at h; simp only at hb; subst hb; simp [identity, h.1 rfl]

theorem mul_normal {a b c : Pfx} (ha : Normal a) (hb : Normal b) (h : mul a b = .ok c) : Normal c := by
  unfold mul at h
  split at h
  · injection h with h; subst h; exact ha
  · split at h
    · injection h with h; subst h; exact hb
    · next hb0 ha0 =>
      split at h
      · injection h with h; subst h
        exact normal_new _ _ (by simpa using ha0)
      · cases h

theorem div_normal {a b c : Pfx} (ha : Normal a) (hb : Normal b) (h : div a b = .ok c) : Normal c := by
  unfold div at h
  split at h
  · injection h with h; subst h; exact ha
  · next hb0 =>
    split at h
    · injection h with h; subst h; exact normal_new _ _ (by simpa using hb0)
    · next ha0 =>
      split at h
      · injection h with h; subst h; exact normal_new _ _ (by simpa using ha0)
      · cases h

theorem pow_normal {a : Pfx} (ha : Normal a) (n : Int) : Normal (pow a n) := by
  unfold pow
  by_cases hb : a.base = 0
  · have := eq_identity_of_base ha hb
    subst this; simp [new, identity, Normal]
  · exact normal_new _ _ hb

theorem root_normal {a c : Pfx} (ha : Normal a) {n : Int} (h : root a n = .ok c) : Normal c := by
  unfold root at h
  split at h
  · injection h with h; subst h; exact normal_identity
  · split at h
    · cases h
    · injection h with h; subst h
      by_cases hb : a.base = 0
      · have := eq_identity_of_base ha hb
        subst this; simp [new, identity, Normal, Int.fdiv]
      · exact normal_new _ _ hb

/-! ### group laws -/

theorem mul_comm {a b : Pfx} (ha : Normal a) (hb : Normal b) : mul a b = mul b a := by
  unfold mul
  by_cases h1 : a.base = 0 <;> by_cases h2 : b.base = 0
  · rw [eq_identity_of_base ha h1, eq_identity_of_base hb h2]
  · simp [h1, h2]
  · simp [h1, h2]
  · simp only [beq_iff_eq, h1, h2, ↓reduceIte]
    by_cases h3 : b.base = a.base
    · simp [h3, Int.add_comm]
    · have : ¬ a.base = b.base := fun e => h3 e.symm
      simp [h3, this]

theorem mul_identity (a : Pfx) : mul a identity = .ok a := by simp [mul, identity]
theorem identity_mul {a : Pfx} (ha : Normal a) : mul identity a = .ok a := by
  rw [mul_comm normal_identity ha, mul_identity]

theorem new_base {b : Nat} {e : Int} (hb : b ≠ 0) : (new b e).base = 0 ∨ (new b e).base = b := by
  unfold new; split <;> simp [identity]

/-- Associativity, whenever the intermediate products exist (same base). -/
theorem mul_assoc {a b c ab bc : Pfx} (ha : Normal a) (hb : Normal b) (hc : Normal c)
    (h1 : mul a b = .ok ab) (h2 : mul b c = .ok bc) : mul ab c = mul a bc := by
  by_cases za : a.base = 0
  · have := eq_identity_of_base ha za; subst this
    rw [identity_mul hb] at h1; injection h1 with h1; subst h1
    rw [h2, identity_mul (mul_normal hb hc h2)]
  by_cases zb : b.base = 0
  · have := eq_identity_of_base hb zb; subst this
    rw [mul_identity] at h1; injection h1 with h1; subst h1
    rw [identity_mul hc] at h2; injection h2 with h2; subst h2; rfl
  by_cases zc : c.base = 0
  · have := eq_identity_of_base hc zc; subst this
    rw [mul_identity] at h2; injection h2 with h2; subst h2
    rw [mul_identity, h1]
  -- all three have non-zero bases
  have hab : b.base = a.base := by
    unfold mul at h1; simp only [beq_iff_eq, zb, za, ↓reduceIte] at h1
    split at h1
    · next h => exact h
    · cases h1
  have hbc : c.base = b.base := by
    unfold mul at h2; simp only [beq_iff_eq, zc, zb, ↓reduceIte] at h2
    split at h2
    · next h => exact h
    · cases h2
  have e1 : ab = new a.base (a.exp + b.exp) := by
    unfold mul at h1; simp only [beq_iff_eq, zb, za, hab, ↓reduceIte] at h1
    injection h1 with h1; exact h1.symm
  have e2 : bc = new b.base (b.exp + c.exp) := by
    unfold mul at h2; simp only [beq_iff_eq, zc, zb, hbc, ↓reduceIte] at h2
    injection h2 with h2; exact h2.symm
  subst e1; subst e2
  rw [hab]
  cases a with | mk ba ea => cases b with | mk bb eb => cases c with | mk bc ec =>
  simp only at za zb zc hab hbc
  subst hab; subst hbc
  have hea : ea ≠ 0 := fun e => za (ha.2 e)
  have hec : ec ≠ 0 := fun e => zc (hc.2 e)
  unfold mul new identity
  by_cases x : ea + eb = 0 <;> by_cases y : eb + ec = 0 <;> simp [x, y, za]
  · omega
  · have : ea + (eb + ec) = ec := by omega
    simp [this, hec]
  · have : ea + eb + ec = ea := by omega
    simp [this, hea]
  · have : ea + eb + ec = ea + (eb + ec) := by omega
    rw [this]

theorem div_eq_mul_pow {a b : Pfx} (hb : Normal b) : div a b = mul a (pow b (-1)) := by
  unfold div mul pow
  by_cases zb : b.base = 0
  · have := eq_identity_of_base hb zb; subst this
    simp [identity, new]
  · have hne : b.exp ≠ 0 := fun e => zb (hb.2 e)
    have hn : new b.base (b.exp * -1) = ⟨b.base, -b.exp⟩ := by
      unfold new; simp [zb, hne]
    rw [hn]
    simp only [beq_iff_eq, zb, ↓reduceIte]
    by_cases za : a.base = 0
    · simp [za, new, zb, hne]
    · simp only [za, ↓reduceIte]
      by_cases hab : b.base = a.base
      · simp [hab, Int.sub_eq_add_neg]
      · simp [hab]

theorem mul_pow_neg_self {a : Pfx} (ha : Normal a) : mul a (pow a (-1)) = .ok identity := by
  by_cases za : a.base = 0
  · have := eq_identity_of_base ha za; subst this; simp [mul, pow, new, identity]
  · have hne : a.exp ≠ 0 := fun e => za (ha.2 e)
    unfold mul pow new
    have : a.exp + -a.exp = 0 := by omega
    simp [za, hne, identity, this]

theorem pow_add {a : Pfx} (ha : Normal a) (m n : Int) : mul (pow a m) (pow a n) = .ok (pow a (m + n)) := by
  by_cases za : a.base = 0
  · have := eq_identity_of_base ha za; subst this; simp [mul, pow, new, identity]
  · have hne : a.exp ≠ 0 := fun e => za (ha.2 e)
    have hm : a.exp * m = 0 ↔ m = 0 := by simp [Int.mul_eq_zero, hne]
    have hn : a.exp * n = 0 ↔ n = 0 := by simp [Int.mul_eq_zero, hne]
    have hmn : a.exp * m + a.exp * n = 0 ↔ m + n = 0 := by
      rw [← Int.mul_add]; simp [Int.mul_eq_zero, hne]
    unfold mul pow new identity
    by_cases x : m = 0
    · subst x
      by_cases y : n = 0
      · subst y; simp [za]
      · simp [za, hn, y]
    · by_cases y : n = 0
      · subst y; simp [za, hm, x]
      · simp [za, hm, hn, x, y, Int.mul_add, hmn]

theorem pow_mul {a : Pfx} (ha : Normal a) (m n : Int) : pow (pow a m) n = pow a (m * n) := by
  by_cases za : a.base = 0
  · have := eq_identity_of_base ha za; subst this; simp [pow, new, identity]
  · have hne : a.exp ≠ 0 := fun e => za (ha.2 e)
    unfold pow new identity
    by_cases x : m = 0
    · subst x; simp [za]
    · have hm : a.exp * m ≠ 0 := by simp [Int.mul_eq_zero, hne, x]
      simp [za, hm, Int.mul_assoc]

theorem root_pow {a : Pfx} (ha : Normal a) {n : Int} (hn : n ≠ 0) : root (pow a n) n = .ok a := by
  have hn0 : (n == 0) = false := by simpa using hn
  by_cases za : a.base = 0
  · have := eq_identity_of_base ha za; subst this
    simp [root, pow, new, identity, hn0, Int.fdiv]
  · have hne : a.exp ≠ 0 := fun e => za (ha.2 e)
    have hm : a.exp * n ≠ 0 := by simp [Int.mul_eq_zero, hne, hn]
    have hp : pow a n = ⟨a.base, a.exp * n⟩ := by unfold pow new; simp [za, hm]
    rw [hp]
    unfold root
    simp only [hn0, Bool.false_eq_true, ↓reduceIte, Int.mul_emod_left, bne_self_eq_false]
    have : Int.fdiv (a.exp * n) n = a.exp := by
      rw [Int.fdiv_eq_ediv_of_dvd (Int.dvd_mul_left _ _), Int.mul_ediv_cancel _ hn]
    rw [this]
    unfold new; simp [za, hne]

end Pfx
end Measured
