/-
  Proofs/BaseInv.lean — every factor of every interned unit is a base unit: its own record has
  the identity prefix and the factor map `{self: 1}`.  An invariant of every history of public
  operations (needed by C13's `terms_denote`: the formatter renders factor symbols without
  prefixes).
-/
import Proofs.StepAll
import Proofs.CanonAll

namespace Measured
open St

def IsBaseRec (s : St) (f : UId) : Prop :=
  f < s.units.length ∧ (s.unit! f).pfx = Pfx.identity ∧ (s.unit! f).factors = [(f, 1)]

def BaseF (s : St) (fs : Factors) : Prop := ∀ f ∈ fs, IsBaseRec s f.1

def BaseInv (s : St) : Prop := ∀ u ∈ s.units, BaseF s u.factors

theorem Ext.isBaseRec {s s' : St} (h : Ext s s') {f : UId} (hb : IsBaseRec s f) : IsBaseRec s' f := by
  obtain ⟨hlt, hp, hf⟩ := hb
  obtain ⟨p1, p2, _⟩ := h.same f hlt
  exact ⟨Nat.lt_of_lt_of_le hlt h.len, by rw [p1]; exact hp, by rw [p2]; exact hf⟩

theorem Ext.baseF {s s' : St} (h : Ext s s') {fs : Factors} (hb : BaseF s fs) : BaseF s' fs :=
  fun f hf => h.isBaseRec (hb f hf)

/-! ### the factor helpers only ever keep or combine keys -/

theorem baseF_insertAdd {s : St} {fs : Factors} {k : Nat} {e : Int}
    (hv : BaseF s fs) (hk : IsBaseRec s k) : BaseF s (insertAdd fs k e) := by
  induction fs with
  | nil => intro f hf; simp [insertAdd] at hf; subst hf; exact hk
  | cons p rest ih =>
    have h2 : BaseF s rest := fun g hg => hv g (List.mem_cons_of_mem _ hg)
    have hp := hv p List.mem_cons_self
    unfold insertAdd
    split
    · intro f hf
      rcases List.mem_cons.1 hf with rfl | hf
      · exact hp
      · exact h2 f hf
    · intro f hf
      rcases List.mem_cons.1 hf with rfl | hf
      · exact hp
      · exact ih h2 f hf

theorem baseF_mergeAdd {s : St} {a b : Factors} (ha : BaseF s a) (hb : BaseF s b) :
    BaseF s (mergeAdd a b) := by
  unfold mergeAdd
  induction b generalizing a with
  | nil => simpa using ha
  | cons p rest ih =>
    simp only [List.foldl_cons]
    exact ih (baseF_insertAdd ha (hb p List.mem_cons_self))
      (fun g hg => hb g (List.mem_cons_of_mem _ hg))

theorem baseF_map {s : St} {fs : Factors} (g : Int → Int) (hv : BaseF s fs) :
    BaseF s (fs.map (fun p => (p.1, g p.2))) := by
  intro f hf
  rcases List.mem_map.1 hf with ⟨p, hp, rfl⟩
  exact hv p hp

theorem baseF_negate {s : St} {fs : Factors} (hv : BaseF s fs) : BaseF s (negate fs) :=
  baseF_map (fun e => -e) hv

theorem baseF_filter {s : St} {fs : Factors} (p : UId × Int → Bool) (hv : BaseF s fs) :
    BaseF s (fs.filter p) := fun f hf => hv f (List.mem_filter.1 hf).1

/-- `One` is a base record (part of `Canon`). -/
theorem one_isBaseRec {s : St} (hc : Canon s) : IsBaseRec s s.one := hc.oneRec

theorem baseF_one {s : St} (hc : Canon s) : BaseF s [(s.one, (1 : Int))] := by
  intro f hf; simp at hf; subst hf; exact one_isBaseRec hc

theorem baseF_simplify {s : St} {fs : Factors} (hc : Canon s) (hv : BaseF s fs) :
    BaseF s (simplify s.one fs) := by
  unfold simplify
  simp only
  split
  · exact baseF_one hc
  · exact baseF_filter _ hv

/-! ### interning -/

theorem newUnit_baseInv {s : St} (h : BaseInv s) (p : Pfx) {fs : Factors} (d : Dim) (hv : BaseF s fs) :
    BaseInv (s.newUnit p fs d).1 := by
  have hext := newUnit_ext s p fs d
  unfold newUnit at hext ⊢
  split
  · exact h
  · next hnone =>
    simp only [hnone] at hext
    intro u hu
    rcases List.mem_append.1 hu with hu | hu
    · exact hext.baseF (h u hu)
    · simp at hu; subst hu; exact hext.baseF hv

variable {s : St}

theorem unit_baseF (h : BaseInv s) {a : Nat} (ha : a < s.units.length) : BaseF s (s.unit! a).factors :=
  h _ (St.unit!_mem ha)

theorem mulUnit_baseInv (h : BaseInv s) (hc : Canon s) {a b : Nat} (ha : a < s.units.length) (hb : b < s.units.length) :
    BaseInv (s.mulUnit a b).1 := by
  unfold mulUnit
  simp only
  split
  · exact h
  · exact newUnit_baseInv h _ _ (baseF_simplify hc (baseF_mergeAdd (unit_baseF h ha) (unit_baseF h hb)))

theorem divUnit_baseInv (h : BaseInv s) (hc : Canon s) {a b : Nat} (ha : a < s.units.length) (hb : b < s.units.length) :
    BaseInv (s.divUnit a b).1 := by
  unfold divUnit
  simp only
  split
  · exact h
  · exact newUnit_baseInv h _ _ (baseF_simplify hc (baseF_mergeAdd (unit_baseF h ha) (baseF_negate (unit_baseF h hb))))

theorem powUnit_baseInv (h : BaseInv s) (hc : Canon s) {a : Nat} (ha : a < s.units.length) (n : Int) :
    BaseInv (s.powUnit a n).1 := by
  unfold powUnit
  exact newUnit_baseInv h _ _ (baseF_simplify hc (baseF_map (· * n) (unit_baseF h ha)))

theorem rootUnit_baseInv (h : BaseInv s) (hc : Canon s) {a : Nat} (ha : a < s.units.length) (n : Int) :
    BaseInv (s.rootUnit a n).1 := by
  unfold rootUnit
  split
  · exact h
  · simp only
    split
    · exact h
    · split
      · exact h
      · split
        · exact h
        · exact newUnit_baseInv h _ _ (baseF_simplify hc (baseF_map (fun e => Int.fdiv e n) (unit_baseF h ha)))

theorem two_newUnits_baseInv (h : BaseInv s) (p q : Pfx) {num den : Factors} (d1 : Dim) (d2 : St → Dim)
    (hnum : BaseF s num) (hden : BaseF s den) :
    BaseInv ((s.newUnit p num d1).1.newUnit q den (d2 (s.newUnit p num d1).1)).1 :=
  newUnit_baseInv (newUnit_baseInv h p d1 hnum) q _ ((newUnit_ext s p num d1).baseF hden)

theorem asRatio_baseInv (h : BaseInv s) (hc : Canon s) {a : Nat} (ha : a < s.units.length) :
    BaseInv (s.asRatio a).1 := by
  unfold asRatio
  simp only
  have hu := unit_baseF h ha
  have hnum : BaseF s (if ((s.unit! a).factors.filter (fun f => f.2 ≥ 0)).isEmpty then [(s.one, (1 : Int))]
      else (s.unit! a).factors.filter (fun f => f.2 ≥ 0)) := by
    split
    · exact baseF_one hc
    · exact baseF_filter _ hu
  have hden : BaseF s (if (((s.unit! a).factors.filter (fun f => f.2 < 0)).map (fun f => (f.1, -f.2))).isEmpty
      then [(s.one, (1 : Int))] else ((s.unit! a).factors.filter (fun f => f.2 < 0)).map (fun f => (f.1, -f.2))) := by
    split
    · exact baseF_one hc
    · exact baseF_map (fun e => -e) (baseF_filter _ hu)
  exact two_newUnits_baseInv h _ _ _ (fun s1 => s1.dimOf _) hnum hden

theorem unprefixedUnit_baseInv (h : BaseInv s) {a : Nat} (ha : a < s.units.length) :
    BaseInv (s.unprefixedUnit a).1 := by
  unfold unprefixedUnit
  exact newUnit_baseInv h _ _ (unit_baseF h ha)

theorem pmulUnit_baseInv (h : BaseInv s) (p : Pfx) {a : Nat} (ha : a < s.units.length) :
    BaseInv (s.pmulUnit p a).1 := by
  unfold pmulUnit
  simp only
  split
  · exact h
  · exact newUnit_baseInv h _ _ (unit_baseF h ha)

theorem sameUnits_baseInv {s s' : St} (h : BaseInv s) (hu : s'.units = s.units) : BaseInv s' := by
  intro u hu'
  rw [hu] at hu'
  intro f hf
  obtain ⟨a, b, c⟩ := h u hu' f hf
  exact ⟨by rw [hu]; exact a, by unfold St.unit! at b ⊢; rw [hu]; exact b, by unfold St.unit! at c ⊢; rw [hu]; exact c⟩

theorem aliasUnit_baseInv (h : BaseInv s) (a : UId) (name sym : Option String) : BaseInv (s.aliasUnit a name sym).1 :=
  sameUnits_baseInv h (aliasUnit_units s a name sym).1

theorem appendBase_baseInv (h : BaseInv s) (d : Dim) : BaseInv (s.appendBase d) := by
  have hx := appendBase_ext s d
  intro u hu
  have hu' : u ∈ s.units ++ [({ pfx := Pfx.identity, factors := [(s.units.length, 1)], dim := d } : UnitRec)] := hu
  rcases List.mem_append.1 hu' with hu' | hu'
  · exact hx.baseF (h u hu')
  · simp at hu'; subst hu'
    intro f hf
    simp at hf; subst hf
    refine ⟨by unfold appendBase; simp, ?_, ?_⟩
    · unfold appendBase St.unit!; simp
    · unfold appendBase St.unit!; simp

theorem defineUnit_baseInv (h : BaseInv s) (d : Dim) (name sym : String) : BaseInv (s.defineUnit d name sym).1 := by
  unfold defineUnit
  split
  · exact h
  · split
    · exact h
    · split
      · exact h
      · simp only
        exact aliasUnit_baseInv (appendBase_baseInv h d) _ _ _

theorem deriveUnit_baseInv (h : BaseInv s) (a : UId) (name sym : String) : BaseInv (s.deriveUnit a name sym).1 := by
  unfold deriveUnit
  have := aliasUnit_baseInv h a (some name) (some sym)
  split <;> simp_all

theorem resolveSymbol_baseInv (h : BaseInv s) (hr : Reg s) (t : String) : BaseInv (s.resolveSymbol t).1 := by
  unfold resolveSymbol
  split
  · exact h
  · simp only
    split
    · next p u hgo =>
      obtain ⟨⟨k, hk⟩, _⟩ := go_some hgo
      exact pmulUnit_baseInv h p (hr.1 _ (lookup_mem hk))
    · split <;> exact h

theorem step_baseInv (hg : GInv s) (hc : Canon s) (h : BaseInv s) (o : Op) (hok : o.ok s = true) :
    BaseInv (step s o).1 := by
  unfold Op.ok at hok
  simp only [Bool.and_eq_true, List.all_eq_true, decide_eq_true_eq] at hok
  obtain ⟨href, _⟩ := hok
  cases o with
  | mul a b => exact mulUnit_baseInv h hc (href a (by simp [Op.refs])) (href b (by simp [Op.refs]))
  | div a b => exact divUnit_baseInv h hc (href a (by simp [Op.refs])) (href b (by simp [Op.refs]))
  | pow a n => exact powUnit_baseInv h hc (href a (by simp [Op.refs])) n
  | root a n => exact rootUnit_baseInv h hc (href a (by simp [Op.refs])) n
  | ratio a => exact asRatio_baseInv h hc (href a (by simp [Op.refs]))
  | unprefixed a => exact unprefixedUnit_baseInv h (href a (by simp [Op.refs]))
  | pmul p a => exact pmulUnit_baseInv h p (href a (by simp [Op.refs]))
  | define d name sym => exact defineUnit_baseInv h d name sym
  | derive a name sym => exact deriveUnit_baseInv h a name sym
  | «alias» a name sym =>
    have h1 := aliasUnit_baseInv h a name sym
    simp only [step]
    split <;> simp_all
  | resolve t => exact resolveSymbol_baseInv h hg.2 t
  | named n =>
    simp only [step]
    split <;> exact h

theorem stepC_baseInv (hg : GInv s) (hc : Canon s) (h : BaseInv s) (o : Op) : BaseInv (stepC s o).1 := by
  unfold stepC
  split
  · next hok => exact step_baseInv hg hc h o hok
  · exact h

/-- **Every history keeps every factor a base unit.** -/
theorem run_baseInv (hg : GInv s) (hc : Canon s) (h : BaseInv s) (ops : List Op) : BaseInv (run s ops) := by
  unfold run
  induction ops generalizing s with
  | nil => exact h
  | cons o rest ih => exact ih (stepC_ginv hg o) (stepC_canon hg hc o) (stepC_baseInv hg hc h o)

end Measured
