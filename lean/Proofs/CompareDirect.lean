/-
  Proofs/CompareDirect.lean — `Quantity.__eq__` / `__lt__` decide by SI value whenever the conversion
  they need is settled directly (or no conversion is needed): the model of the real comparison code
  (`eqCore`, `ltCore`: strip both prefixes, convert the left operand into the right operand's unit,
  compare magnitudes) in a graph that agrees with a size assignment.
-/
import Proofs.GraphHist
import Props.C06

namespace Measured
open St

variable {σ : UId → Rat}

/-- SI value of a quantity after `unprefixed()` is the SI value before. -/
theorem si_unprefixed (s : St) (q : Qty Rat) :
    (Pfx.val (s.unit! q.unit).pfx * q.mag.val) * unitSz σ (s.unprefixedUnit q.unit).1 (s.unprefixedUnit q.unit).2 =
      q.mag.val * unitSz σ s q.unit := by
  rw [← unprefixedUnit_size (σ := σ) s q.unit]; ring

theorem sizeOf_pos (hσ : ∀ k, 0 < σ k) (fs : Factors) : 0 < sizeOf σ fs := by
  induction fs with
  | nil => simp
  | cons f rest ih => simp only [sizeOf_cons]; exact mul_pos (zpow_pos (hσ _) _) ih

theorem unitSz_pos (hσ : ∀ k, 0 < σ k) {s : St} (hc : Canon s) {u : UId} (hu : u < s.units.length) :
    0 < unitSz σ s u := by
  unfold unitSz
  exact mul_pos (Pfx.val_pos (canon_pfx hc hu)) (sizeOf_pos hσ _)

/-- The common body of `__eq__` / `__lt__` with the magnitude comparison `cmp` abstracted. -/
def cmpCore (cmp : Mag Rat → Mag Rat → Bool) (a b : Qty Rat) : CM Rat (Option Bool) := do
  let s ← getSt
  if s.dimOfUnit a.unit != s.dimOfUnit b.unit then return none
  let this ← unprefixedQty a
  let other ← unprefixedQty b
  if this.unit == other.unit then return some (cmp this.mag other.mag)
  tryCatch (do
      let c ← convert this other.unit
      let c' ← unprefixedQty c
      let o' ← unprefixedQty other
      pure (some (cmp c'.mag o'.mag)))
    (fun e => if e == .notFound then pure none else throw e)

theorem eqCore_eq_cmpCore (a b : Qty Rat) : Qty.eqCore a b = cmpCore Mag.beq a b := rfl
theorem ltCore_eq_cmpCore (a b : Qty Rat) : Qty.ltCore a b = cmpCore Mag.lt a b := rfl

/-- What a comparison that answers (does not return NotImplemented) has compared: magnitudes `x`, `y`
    with `x · size = si a`, `y · size = si b` for one common non-zero size — provided the conversion it
    needed (if any) was settled directly. -/
theorem cmpCore_direct (hσp : ∀ k, 0 < σ k) (cmp : Mag Rat → Mag Rat → Bool) {c c' : Conv Rat} {a b : Qty Rat} {r : Bool}
    (hg : GraphOK σ c) (hoff : c.offsets = [])
    (ha : a.unit < c.st.units.length) (hb : b.unit < c.st.units.length)
    (h : CM.exec (cmpCore cmp a b) c = (.ok (some r), c')) :
    ∃ (A B : UId) (cS : Conv Rat),
      (A = B ∨ ∃ (direct : List (Hop Rat)) (c2 : Conv Rat),
          CM.exec (findPath A B) cS = (.ok direct, c2) ∧
          (direct = [] ∨
            ∃ (x y : Mag Rat) (z : Rat), r = cmp x y ∧ 0 < z ∧ x.val * z = a.mag.val * unitSz σ c.st a.unit ∧
              y.val * z = b.mag.val * unitSz σ c.st b.unit)) ∧
      (A = B → ∃ (x y : Mag Rat) (z : Rat), r = cmp x y ∧ 0 < z ∧ x.val * z = a.mag.val * unitSz σ c.st a.unit ∧
              y.val * z = b.mag.val * unitSz σ c.st b.unit) := by
  have hσ : ∀ k, σ k ≠ 0 := fun k => ne_of_gt (hσp k)
  unfold cmpCore at h
  obtain ⟨s0, c0, h0, h⟩ := exec_bind_ok h
  rw [exec_getSt] at h0
  simp only [Prod.mk.injEq, Except.ok.injEq] at h0
  obtain ⟨rfl, rfl⟩ := h0
  by_cases hdim : (c.st.dimOfUnit a.unit != c.st.dimOfUnit b.unit) = true
  · simp only [hdim, ↓reduceIte, exec_pure, Prod.mk.injEq, Except.ok.injEq] at h
    exact absurd h.1 (by simp)
  · simp only [hdim, Bool.false_eq_true, ↓reduceIte] at h
    obtain ⟨this, c1, h1, h⟩ := exec_bind_ok h
    rw [exec_unprefixedQty] at h1
    simp only [Prod.mk.injEq, Except.ok.injEq] at h1
    obtain ⟨hthis, hc1⟩ := h1
    obtain ⟨g1, f1⟩ := unprefixStep hg ha
    rw [hc1] at g1 f1
    obtain ⟨other, c2, h2, h⟩ := exec_bind_ok h
    rw [exec_unprefixedQty] at h2
    simp only [Prod.mk.injEq, Except.ok.injEq] at h2
    obtain ⟨hother, hc2⟩ := h2
    have hb1 : b.unit < c1.st.units.length := f1.lt hb
    obtain ⟨g2, f2⟩ := unprefixStep g1 hb1
    rw [hc2] at g2 f2
    have f12 := f1.trans f2
    -- the two unprefixed operands
    have hAu : this.unit = (c.st.unprefixedUnit a.unit).2 := by rw [← hthis]
    have hBu : other.unit = (c1.st.unprefixedUnit b.unit).2 := by rw [← hother]
    have hA1 : this.unit < c1.st.units.length := by rw [hAu, ← hc1]; exact unprefixedUnit_lt _ _
    have hA2 : this.unit < c2.st.units.length := f2.lt hA1
    have hB2 : other.unit < c2.st.units.length := by rw [hBu, ← hc2]; exact unprefixedUnit_lt _ _
    have hBp : (c2.st.unit! other.unit).pfx = Pfx.identity := by
      rw [hBu, ← hc2]; exact unprefixedUnit_pfx _ _
    have hsiA : this.mag.val * unitSz σ c2.st this.unit = a.mag.val * unitSz σ c.st a.unit := by
      rw [f2.sz hA1, hAu, ← hc1, ← hthis]
      simp only [val_mul, Pfx.value_val]
      exact si_unprefixed c.st a
    have hsiB : other.mag.val * unitSz σ c2.st other.unit = b.mag.val * unitSz σ c.st b.unit := by
      rw [hBu, ← hc2, ← hother]
      simp only [val_mul, Pfx.value_val]
      rw [← f1.sz hb]
      exact si_unprefixed c1.st b
    have hzB := unitSz_pos hσp g2.canon hB2
    refine ⟨this.unit, other.unit, { c2 with st := ((c2.st.unprefixedUnit this.unit).1.unprefixedUnit other.unit).1 }, ?_, ?_⟩
    · by_cases hsame : (this.unit == other.unit) = true
      · left; simpa using hsame
      · right
        simp only [hsame, Bool.false_eq_true, ↓reduceIte] at h
        rw [exec_tryCatch] at h
        cases hbody : CM.exec (do
            let cq ← convert this other.unit
            let c' ← unprefixedQty cq
            let o' ← unprefixedQty other
            pure (some (cmp c'.mag o'.mag)) : CM Rat (Option Bool)) c2 with
        | mk res c3 =>
          rw [hbody] at h
          cases res with
          | error e =>
            simp only at h
            by_cases hnf : (e == Exc.notFound) = true
            · simp only [hnf, ↓reduceIte, exec_pure, Prod.mk.injEq, Except.ok.injEq] at h
              exact absurd h.1 (by simp)
            · simp only [hnf, Bool.false_eq_true, ↓reduceIte, exec_throw] at h
              simp at h
          | ok val =>
            simp only [Prod.mk.injEq, Except.ok.injEq] at h
            obtain ⟨hval, _⟩ := h
            subst hval
            obtain ⟨cq, c4, h4, hbody⟩ := exec_bind_ok hbody
            obtain ⟨hcu, d, c5, hfp, hd⟩ := convert_direct_exact hσ g2 hA2 hB2 (by rw [f12.offsets]; exact hoff) h4
            refine ⟨d, c5, hfp, ?_⟩
            by_cases hne : d = []
            · exact Or.inl hne
            · right
              obtain ⟨hexact, g4, f4⟩ := hd hne
              obtain ⟨cq', c6, h6, hbody⟩ := exec_bind_ok hbody
              rw [exec_unprefixedQty] at h6
              simp only [Prod.mk.injEq, Except.ok.injEq] at h6
              obtain ⟨hcq', hc6⟩ := h6
              obtain ⟨o', c7, h7, hbody⟩ := exec_bind_ok hbody
              rw [exec_unprefixedQty] at h7
              simp only [Prod.mk.injEq, Except.ok.injEq] at h7
              obtain ⟨ho', _⟩ := h7
              rw [exec_pure] at hbody
              simp only [Prod.mk.injEq, Except.ok.injEq, Option.some.injEq] at hbody
              obtain ⟨hr, _⟩ := hbody
              -- both final `unprefixed()` calls multiply by the value of the identity prefix
              have hB4 : other.unit < c4.st.units.length := f4.lt hB2
              have hp4 : (c4.st.unit! cq.unit).pfx = Pfx.identity := by rw [hcu, f4.pfx hB2]; exact hBp
              obtain ⟨_, f6⟩ := unprefixStep g4 (by rw [hcu]; exact hB4 : cq.unit < c4.st.units.length)
              rw [hc6] at f6
              have hp6 : (c6.st.unit! other.unit).pfx = Pfx.identity := by rw [f6.pfx hB4, f4.pfx hB2]; exact hBp
              have hx : cq'.mag.val = cq.mag.val := by
                rw [← hcq']; simp only [val_mul, Pfx.value_val, hp4, Pfx.val_identity, one_mul]
              have hy : o'.mag.val = other.mag.val := by
                rw [← ho']; simp only [val_mul, Pfx.value_val, hp6, Pfx.val_identity, one_mul]
              refine ⟨cq'.mag, o'.mag, unitSz σ c2.st other.unit, hr.symm, hzB, ?_, ?_⟩
              · rw [hx, hexact]; exact hsiA
              · rw [hy]; exact hsiB
    · intro hAB
      have hsame : (this.unit == other.unit) = true := by simpa using hAB
      simp only [hsame, ↓reduceIte, exec_pure, Prod.mk.injEq, Except.ok.injEq, Option.some.injEq] at h
      obtain ⟨hr, _⟩ := h
      refine ⟨this.mag, other.mag, unitSz σ c2.st other.unit, hr.symm, hzB, ?_, hsiB⟩
      rw [← hAB]; exact hsiA

/-- **`==` decides by SI value** (no conversion needed, or the needed conversion settled directly). -/
theorem eqCore_direct_iff (hσp : ∀ k, 0 < σ k) {c c' : Conv Rat} {a b : Qty Rat} {r : Bool}
    (hg : GraphOK σ c) (hoff : c.offsets = [])
    (ha : a.unit < c.st.units.length) (hb : b.unit < c.st.units.length)
    (h : CM.exec (Qty.eqCore a b) c = (.ok (some r), c')) :
    ∃ (A B : UId) (cS : Conv Rat),
      (A = B ∨ ∃ (direct : List (Hop Rat)) (c2 : Conv Rat),
          CM.exec (findPath A B) cS = (.ok direct, c2) ∧
          (direct = [] ∨ (r = true ↔ C06.si σ c.st a = C06.si σ c.st b))) ∧
      (A = B → (r = true ↔ C06.si σ c.st a = C06.si σ c.st b)) := by
  rw [eqCore_eq_cmpCore] at h
  obtain ⟨A, B, cS, h1, h2⟩ := cmpCore_direct hσp Mag.beq hg hoff ha hb h
  have key : ∀ (x y : Mag Rat) (z : Rat), r = Mag.beq x y → 0 < z → x.val * z = a.mag.val * unitSz σ c.st a.unit →
      y.val * z = b.mag.val * unitSz σ c.st b.unit → (r = true ↔ C06.si σ c.st a = C06.si σ c.st b) := by
    intro x y z hr hz hx hy
    unfold C06.si
    rw [hr, C06.beq_iff, ← hx, ← hy]
    constructor
    · intro h; rw [h]
    · intro h; exact mul_right_cancel₀ (ne_of_gt hz) h
  refine ⟨A, B, cS, ?_, ?_⟩
  · rcases h1 with h1 | ⟨d, c2, hfp, hd⟩
    · exact Or.inl h1
    · refine Or.inr ⟨d, c2, hfp, ?_⟩
      rcases hd with hd | ⟨x, y, z, hr, hz, hx, hy⟩
      · exact Or.inl hd
      · exact Or.inr (key x y z hr hz hx hy)
  · intro hAB
    obtain ⟨x, y, z, hr, hz, hx, hy⟩ := h2 hAB
    exact key x y z hr hz hx hy

/-- **`<` decides by SI value** (same conditions). -/
theorem ltCore_direct_iff (hσp : ∀ k, 0 < σ k) {c c' : Conv Rat} {a b : Qty Rat} {r : Bool}
    (hg : GraphOK σ c) (hoff : c.offsets = [])
    (ha : a.unit < c.st.units.length) (hb : b.unit < c.st.units.length)
    (h : CM.exec (Qty.ltCore a b) c = (.ok (some r), c')) :
    ∃ (A B : UId) (cS : Conv Rat),
      (A = B ∨ ∃ (direct : List (Hop Rat)) (c2 : Conv Rat),
          CM.exec (findPath A B) cS = (.ok direct, c2) ∧
          (direct = [] ∨ (r = true ↔ C06.si σ c.st a < C06.si σ c.st b))) ∧
      (A = B → (r = true ↔ C06.si σ c.st a < C06.si σ c.st b)) := by
  rw [ltCore_eq_cmpCore] at h
  obtain ⟨A, B, cS, h1, h2⟩ := cmpCore_direct hσp Mag.lt hg hoff ha hb h
  have key : ∀ (x y : Mag Rat) (z : Rat), r = Mag.lt x y → 0 < z → x.val * z = a.mag.val * unitSz σ c.st a.unit →
      y.val * z = b.mag.val * unitSz σ c.st b.unit → (r = true ↔ C06.si σ c.st a < C06.si σ c.st b) := by
    intro x y z hr hz hx hy
    unfold C06.si
    rw [hr, C06.lt_iff, ← hx, ← hy]
    constructor
    · intro h; exact mul_lt_mul_of_pos_right h hz
    · intro h; exact lt_of_mul_lt_mul_right h hz.le
  refine ⟨A, B, cS, ?_, ?_⟩
  · rcases h1 with h1 | ⟨d, c2, hfp, hd⟩
    · exact Or.inl h1
    · refine Or.inr ⟨d, c2, hfp, ?_⟩
      rcases hd with hd | ⟨x, y, z, hr, hz, hx, hy⟩
      · exact Or.inl hd
      · exact Or.inr (key x y z hr hz hx hy)
  · intro hAB
    obtain ⟨x, y, z, hr, hz, hx, hy⟩ := h2 hAB
    exact key x y z hr hz hx hy

/-- a conversion that is known to be exact, and to keep the invariant -/
def ExactAt (σ : UId → Rat) (c : Conv Rat) (a : Qty Rat) (t : UId) : Prop :=
  ∀ r c', CM.exec (convert a t) c = (.ok r, c') →
    r.unit = t ∧ r.mag.val * unitSz σ c.st t = a.mag.val * unitSz σ c.st a.unit ∧ GraphOK σ c' ∧ CFrame c c'

/-- The same for ANY conversion known to be exact (`ExactAt`), e.g. one between simple units through the
    factor planner: the comparison compares `x`, `y` with `x·z = si a`, `y·z = si b`. -/
theorem cmpCore_exact (hσp : ∀ k, 0 < σ k) (cmp : Mag Rat → Mag Rat → Bool) {c c' : Conv Rat} {a b : Qty Rat} {r : Bool}
    (hg : GraphOK σ c)
    (ha : a.unit < c.st.units.length) (hb : b.unit < c.st.units.length)
    (h : CM.exec (cmpCore cmp a b) c = (.ok (some r), c'))
    (hex : ExactAt σ { c with st := ((c.st.unprefixedUnit a.unit).1.unprefixedUnit b.unit).1 }
      ⟨Mag.mul (Pfx.value (c.st.unit! a.unit).pfx) a.mag, (c.st.unprefixedUnit a.unit).2⟩
      ((c.st.unprefixedUnit a.unit).1.unprefixedUnit b.unit).2) :
    ∃ (x y : Mag Rat) (z : Rat), r = cmp x y ∧ 0 < z ∧ x.val * z = a.mag.val * unitSz σ c.st a.unit ∧
      y.val * z = b.mag.val * unitSz σ c.st b.unit := by
  have hσ : ∀ k, σ k ≠ 0 := fun k => ne_of_gt (hσp k)
  unfold cmpCore at h
  obtain ⟨s0, c0, h0, h⟩ := exec_bind_ok h
  rw [exec_getSt] at h0
  simp only [Prod.mk.injEq, Except.ok.injEq] at h0
  obtain ⟨rfl, rfl⟩ := h0
  by_cases hdim : (c.st.dimOfUnit a.unit != c.st.dimOfUnit b.unit) = true
  · simp only [hdim, ↓reduceIte, exec_pure, Prod.mk.injEq, Except.ok.injEq] at h
    exact absurd h.1 (by simp)
  · simp only [hdim, Bool.false_eq_true, ↓reduceIte] at h
    obtain ⟨this, c1, h1, h⟩ := exec_bind_ok h
    rw [exec_unprefixedQty] at h1
    simp only [Prod.mk.injEq, Except.ok.injEq] at h1
    obtain ⟨hthis, hc1⟩ := h1
    obtain ⟨g1, f1⟩ := unprefixStep hg ha
    rw [hc1] at g1 f1
    obtain ⟨other, c2, h2, h⟩ := exec_bind_ok h
    rw [exec_unprefixedQty] at h2
    simp only [Prod.mk.injEq, Except.ok.injEq] at h2
    obtain ⟨hother, hc2⟩ := h2
    have hb1 : b.unit < c1.st.units.length := f1.lt hb
    obtain ⟨g2, f2⟩ := unprefixStep g1 hb1
    rw [hc2] at g2 f2
    have f12 := f1.trans f2
    -- the two unprefixed operands
    have hAu : this.unit = (c.st.unprefixedUnit a.unit).2 := by rw [← hthis]
    have hBu : other.unit = (c1.st.unprefixedUnit b.unit).2 := by rw [← hother]
    have hA1 : this.unit < c1.st.units.length := by rw [hAu, ← hc1]; exact unprefixedUnit_lt _ _
    have hA2 : this.unit < c2.st.units.length := f2.lt hA1
    have hB2 : other.unit < c2.st.units.length := by rw [hBu, ← hc2]; exact unprefixedUnit_lt _ _
    have hBp : (c2.st.unit! other.unit).pfx = Pfx.identity := by
      rw [hBu, ← hc2]; exact unprefixedUnit_pfx _ _
    have hsiA : this.mag.val * unitSz σ c2.st this.unit = a.mag.val * unitSz σ c.st a.unit := by
      rw [f2.sz hA1, hAu, ← hc1, ← hthis]
      simp only [val_mul, Pfx.value_val]
      exact si_unprefixed c.st a
    have hsiB : other.mag.val * unitSz σ c2.st other.unit = b.mag.val * unitSz σ c.st b.unit := by
      rw [hBu, ← hc2, ← hother]
      simp only [val_mul, Pfx.value_val]
      rw [← f1.sz hb]
      exact si_unprefixed c1.st b
    have hzB := unitSz_pos hσp g2.canon hB2
    by_cases hsame : (this.unit == other.unit) = true
    · have hAB : this.unit = other.unit := by simpa using hsame
      simp only [hsame, ↓reduceIte, exec_pure, Prod.mk.injEq, Except.ok.injEq, Option.some.injEq] at h
      obtain ⟨hr, _⟩ := h
      refine ⟨this.mag, other.mag, unitSz σ c2.st other.unit, hr.symm, hzB, ?_, hsiB⟩
      rw [← hAB]; exact hsiA
    · simp only [hsame, Bool.false_eq_true, ↓reduceIte] at h
      rw [exec_tryCatch] at h
      cases hbody : CM.exec (do
          let cq ← convert this other.unit
          let c' ← unprefixedQty cq
          let o' ← unprefixedQty other
          pure (some (cmp c'.mag o'.mag)) : CM Rat (Option Bool)) c2 with
      | mk res c3 =>
        rw [hbody] at h
        cases res with
        | error e =>
          simp only at h
          by_cases hnf : (e == Exc.notFound) = true
          · simp only [hnf, ↓reduceIte, exec_pure, Prod.mk.injEq, Except.ok.injEq] at h
            exact absurd h.1 (by simp)
          · simp only [hnf, Bool.false_eq_true, ↓reduceIte, exec_throw] at h
            simp at h
        | ok val =>
          simp only [Prod.mk.injEq, Except.ok.injEq] at h
          obtain ⟨hval, _⟩ := h
          subst hval
          obtain ⟨cq, c4, h4, hbody⟩ := exec_bind_ok hbody
          have hex' : ExactAt σ c2 this other.unit := by
            subst hthis; subst hc1; subst hother; subst hc2; exact hex
          obtain ⟨hcu, hexact, g4, f4⟩ := hex' cq c4 h4
          obtain ⟨cq', c6, h6, hbody⟩ := exec_bind_ok hbody
          rw [exec_unprefixedQty] at h6
          simp only [Prod.mk.injEq, Except.ok.injEq] at h6
          obtain ⟨hcq', hc6⟩ := h6
          obtain ⟨o', c7, h7, hbody⟩ := exec_bind_ok hbody
          rw [exec_unprefixedQty] at h7
          simp only [Prod.mk.injEq, Except.ok.injEq] at h7
          obtain ⟨ho', _⟩ := h7
          rw [exec_pure] at hbody
          simp only [Prod.mk.injEq, Except.ok.injEq, Option.some.injEq] at hbody
          obtain ⟨hr, _⟩ := hbody
          have hB4 : other.unit < c4.st.units.length := f4.lt hB2
          have hp4 : (c4.st.unit! cq.unit).pfx = Pfx.identity := by rw [hcu, f4.pfx hB2]; exact hBp
          obtain ⟨_, f6⟩ := unprefixStep g4 (by rw [hcu]; exact hB4 : cq.unit < c4.st.units.length)
          rw [hc6] at f6
          have hp6 : (c6.st.unit! other.unit).pfx = Pfx.identity := by rw [f6.pfx hB4, f4.pfx hB2]; exact hBp
          have hx : cq'.mag.val = cq.mag.val := by
            rw [← hcq']; simp only [val_mul, Pfx.value_val, hp4, Pfx.val_identity, one_mul]
          have hy : o'.mag.val = other.mag.val := by
            rw [← ho']; simp only [val_mul, Pfx.value_val, hp6, Pfx.val_identity, one_mul]
          refine ⟨cq'.mag, o'.mag, unitSz σ c2.st other.unit, hr.symm, hzB, ?_, ?_⟩
          · rw [hx, hexact]; exact hsiA
          · rw [hy]; exact hsiB

/-- `==` decides by SI value whenever the conversion it needs is exact (`ExactAt`). -/
theorem eqCore_exact_iff (hσp : ∀ k, 0 < σ k) {c c' : Conv Rat} {a b : Qty Rat} {r : Bool}
    (hg : GraphOK σ c) (ha : a.unit < c.st.units.length) (hb : b.unit < c.st.units.length)
    (h : CM.exec (Qty.eqCore a b) c = (.ok (some r), c'))
    (hex : ExactAt σ { c with st := ((c.st.unprefixedUnit a.unit).1.unprefixedUnit b.unit).1 }
      ⟨Mag.mul (Pfx.value (c.st.unit! a.unit).pfx) a.mag, (c.st.unprefixedUnit a.unit).2⟩
      ((c.st.unprefixedUnit a.unit).1.unprefixedUnit b.unit).2) :
    (r = true ↔ C06.si σ c.st a = C06.si σ c.st b) := by
  rw [eqCore_eq_cmpCore] at h
  obtain ⟨x, y, z, hr, hz, hx, hy⟩ := cmpCore_exact hσp Mag.beq hg ha hb h hex
  unfold C06.si
  rw [hr, C06.beq_iff, ← hx, ← hy]
  constructor
  · intro h; rw [h]
  · intro h; exact mul_right_cancel₀ (ne_of_gt hz) h

/-- `<` decides by SI value whenever the conversion it needs is exact. -/
theorem ltCore_exact_iff (hσp : ∀ k, 0 < σ k) {c c' : Conv Rat} {a b : Qty Rat} {r : Bool}
    (hg : GraphOK σ c) (ha : a.unit < c.st.units.length) (hb : b.unit < c.st.units.length)
    (h : CM.exec (Qty.ltCore a b) c = (.ok (some r), c'))
    (hex : ExactAt σ { c with st := ((c.st.unprefixedUnit a.unit).1.unprefixedUnit b.unit).1 }
      ⟨Mag.mul (Pfx.value (c.st.unit! a.unit).pfx) a.mag, (c.st.unprefixedUnit a.unit).2⟩
      ((c.st.unprefixedUnit a.unit).1.unprefixedUnit b.unit).2) :
    (r = true ↔ C06.si σ c.st a < C06.si σ c.st b) := by
  rw [ltCore_eq_cmpCore] at h
  obtain ⟨x, y, z, hr, hz, hx, hy⟩ := cmpCore_exact hσp Mag.lt hg ha hb h hex
  unfold C06.si
  rw [hr, C06.lt_iff, ← hx, ← hy]
  constructor
  · intro h; exact mul_lt_mul_of_pos_right h hz
  · intro h; exact lt_of_mul_lt_mul_right h hz.le

end Measured
