/-
  Model/Threads.lean — the interning constructors under concurrency (C20).

  One key of one intern registry; distinct keys do not interact (a dict get/set of one key is atomic
  under the GIL).  Each thread runs the program of `Cls(key, …)`, i.e. `type.__call__`:

      __new__ :  look the key up in the registry  —hit→ return the registered object
                                                  —miss→ allocate a new object [and register it]
      __init__:  initialise the object [and register it]

  Where the object is registered depends on the class and the kind of object (`regAtInit`):
  * `false` — `Dimension`, `Prefix`, `Logarithm`, non-base `Unit`: the registry consulted is
    `cls._known`, written by `__new__` right after the allocation;
  * `true`  — a base `Unit` is found through `Unit._by_name[name]`, which is written by
    `__init__` (→ `alias`): lookup and registration are in DIFFERENT methods.

  `lock`: `.none` — no protection (the pinned code before the `fix:` commit);
          `.newOnly` — a lock around `__new__` only;
          `.call` — the metaclass `_Interned.__call__` holds `_interning` around `__new__` AND
                    `__init__` (the code after the `fix:` commit).
  A schedule is a list of thread ids; each entry lets that thread take one step.
-/
namespace Measured
namespace Threads

inductive PC | acquire | check | alloc | releaseNew | init | release | done
  deriving DecidableEq, Repr

inductive Lock | none | newOnly | call
  deriving DecidableEq, Repr

structure TS where
  pc  : PC := .acquire
  obj : Option Nat := none      -- the object this thread holds (allocated or found)
  ret : Option Nat := none      -- object returned
  fresh : Bool := false         -- did this thread allocate `obj` itself?
  deriving Repr

structure Sh where
  lock  : Option Nat := none    -- holder of `_interning`
  reg   : Option Nat := none    -- the registry entry of the key under test
  next  : Nat := 0              -- allocator: number of objects ever created for the key
  thr   : Nat → TS := fun _ => {}

def upd (f : Nat → TS) (t : Nat) (v : TS) : Nat → TS := fun i => if i = t then v else f i

def step (lk : Lock) (regAtInit : Bool) (s : Sh) (t : Nat) : Sh :=
  let me := s.thr t
  match me.pc with
  | .acquire =>
      if lk = .none then { s with thr := upd s.thr t { me with pc := .check } }
      else match s.lock with
        | none => { s with lock := some t, thr := upd s.thr t { me with pc := .check } }
        | some _ => s                                   -- blocked: no-op
  | .check => match s.reg with
      | some o => { s with thr := upd s.thr t { me with pc := .releaseNew, obj := some o } }
      | none   => { s with thr := upd s.thr t { me with pc := .alloc } }
  | .alloc =>
      { s with next := s.next + 1,
               reg := if regAtInit then s.reg else some s.next,
               thr := upd s.thr t { me with pc := .releaseNew, obj := some s.next, fresh := true } }
  | .releaseNew =>
      -- end of `__new__`: a lock around `__new__` only is released here
      if lk = .newOnly then { s with lock := none, thr := upd s.thr t { me with pc := .init } }
      else { s with thr := upd s.thr t { me with pc := .init } }
  | .init =>
      -- `__init__`: returns at once for an initialised object; otherwise initialises and (base
      -- units) registers the name
      { s with reg := if regAtInit && me.fresh then me.obj else s.reg,
               thr := upd s.thr t { me with pc := .release } }
  | .release =>
      if lk = .call then { s with lock := none, thr := upd s.thr t { me with pc := .done, ret := me.obj } }
      else { s with thr := upd s.thr t { me with pc := .done, ret := me.obj } }
  | .done => s

def run (lk : Lock) (regAtInit : Bool) (s : Sh) (sched : List Nat) : Sh := sched.foldl (step lk regAtInit) s

end Threads
end Measured
