"""C03 — quantity operations obey dimensional analysis; incommensurables are rejected.

Generator: quantities with int / float / Decimal magnitudes over arbitrary (compound,
prefixed) units; every binary operator (+ - * / == != < <= > >=) with operand kinds
quantity, number (3 kinds), unit in both orders; ** and root with exponents in [-4, 4];
unary - + abs.  About 40% of the additive / comparison cases are deliberately
incommensurable.
Oracle (implementation only): dimension of the result by exponent-vector arithmetic on the
operands, Decimal contagion, left operand's unit for + and -, exception class for
incommensurable operands, `== False`, and "never a bare number".
"""
from decimal import Decimal

from measured import Number, Quantity, Unit, conversions

from .common import BaseContext

LEVEL_TEXT = ("Theorems over the Lean model of Quantity and its operator dispatch, for an arbitrary float carrier: "
              "the dimension of q1*q2, q1/q2, q*unit, q/unit, q**n, q.root(n) is the product/quotient/power/exact root of the "
              "operand dimensions in every state satisfying the C01 invariant (mul_dim, div_dim, pow_dim, root_dim); + and - "
              "return the left operand's unit; a result magnitude is a Decimal exactly when an operand is (add/sub/mul/div/"
              "powInt_isDec); converting, adding or subtracting across dimensions raises ConversionNotFound and changes nothing, "
              "== is False, != True and < raises TypeError through the modelled dunder/reflected-dunder dispatch. "
              "Tied to the code by differential execution over the full operator x operand-kind x magnitude-kind matrix "
              "and a direct oracle on the real library. Known finding: number / quantity keeps the unit (pinned by the suite).")
LEVEL_NOTE = ("Trusted: Lean kernel, harness. Modelled not verified: CPython's binary-operator dispatch and "
              "functools.total_ordering (transliterated); Decimal arithmetic is exact rationals in the model (28-digit context "
              "not modelled; compared at 1e-12). Negative base under root (complex result in Python) is declined by the model.")
TECHNIQUE = "Lean 4 theorems over the operator-dispatch model (generic float carrier) + differential correspondence + oracle"

THEOREMS = [
    "Measured.C03.mul_dim", "Measured.C03.div_dim", "Measured.C03.mulUnit_dim'", "Measured.C03.divUnit_dim'",
    "Measured.C03.divNum_unit", "Measured.C03.pow_dim", "Measured.C03.root_dim",
    "Measured.C03.add_isDec", "Measured.C03.sub_isDec", "Measured.C03.mul_isDec", "Measured.C03.div_isDec",
    "Measured.C03.powInt_isDec", "Measured.C03.add_unit_left", "Measured.C03.sub_unit_left",
    "Measured.C03.convert_incommensurable", "Measured.C03.add_incommensurable", "Measured.C03.sub_incommensurable",
    "Measured.C03.eq_incommensurable", "Measured.C03.lt_incommensurable", "Measured.C03.rtruediv_keeps_unit",
]
LEAN_TARGETS = ["Props.C03", "Obligations.C01"]
QUICK = {"chunks": 4, "ops": 900}
THOROUGH = {"chunks": 16, "ops": 6000}
RULE = ("operator applications over quantities (int/float/Decimal magnitudes, compound and prefixed units), numbers and "
        "units in both orders; non-trivial = at least one operand is a quantity over a compound or prefixed unit or "
        "the operands are incommensurable; distinct by (operator, operand kinds, magnitude kinds, unit ordinals)")


class Context(BaseContext):
    def __init__(self, sess, rng):
        super().__init__(sess, rng)
        self.nq = 0


def kind(x):
    if isinstance(x, Quantity):
        return "q"
    if isinstance(x, Unit):
        return "u"
    if isinstance(x, (int, float, Decimal)) and not isinstance(x, bool):
        return "n"
    return "?"


def dim_of(x):
    if isinstance(x, Quantity):
        return x.unit.dimension
    if isinstance(x, Unit):
        return x.dimension
    return Number


def is_dec(x):
    m = x.magnitude if isinstance(x, Quantity) else x
    return isinstance(m, Decimal)


def result_obj(ctx, res):
    if res.startswith("ok\tq"):
        return ctx.sess.qs[-1]
    return None


def oracle(ctx, line, res):
    f = line.split("\t")
    if f[0] != "X":
        return []
    op = f[1]
    fails = []
    try:
        args = [ctx.sess.arg(t) for t in f[2:]]
    except Exception:  # noqa: BLE001
        return []
    ctx.oracle_checks += 1
    r = result_obj(ctx, res)
    if res.startswith("ok\tm\t"):
        fails.append({"kind": "bare-number-result", "opname": op})
    if op in ("mul", "div") and len(args) == 2 and all(kind(a) in "qun" for a in args) and "q" in map(kind, args):
        a, b = args
        want = dim_of(a) * dim_of(b) if op == "mul" else dim_of(a) / dim_of(b)
        if r is not None:
            if r.unit.dimension is not want:
                k = "rtruediv-keeps-unit" if (op == "div" and kind(a) == "n" and kind(b) == "q"
                                              and r.unit is b.unit) else "wrong-dimension"
                fails.append({"kind": k, "opname": op, "kinds": kind(a) + kind(b),
                              "got": str(r.unit.dimension), "want": str(want)})
            if kind(a) != "u" and kind(b) != "u":
                if isinstance(r.magnitude, Decimal) != (is_dec(a) or is_dec(b)):
                    fails.append({"kind": "decimal-contagion", "opname": op,
                                  "got": type(r.magnitude).__name__})
        elif res.startswith("ERR") and res not in ("ERR\tZeroDivision", "ERR\tTypeError", "ERR\tOverflow"):
            fails.append({"kind": "unexpected-exception", "opname": op, "got": res})
        elif res == "ERR\tTypeError" and not ((kind(a), kind(b)) in (("u", "q"),) and op == "div"):
            fails.append({"kind": "unexpected-typeerror", "opname": op, "kinds": kind(a) + kind(b)})
    elif op in ("add", "sub") and len(args) == 2 and kind(args[0]) == "q" and kind(args[1]) == "q":
        a, b = args
        same = a.unit.dimension is b.unit.dimension
        if not same:
            if res not in ("ERR\tTypeError", "ERR\tConversionNotFound"):
                fails.append({"kind": "incommensurable-accepted", "opname": op, "got": res})
        elif r is not None:
            if r.unit is not a.unit:
                fails.append({"kind": "not-left-unit", "opname": op})
            # Decimal contagion: the converted right operand stays Decimal iff b is
            if isinstance(r.magnitude, Decimal) != (is_dec(a) or is_dec(b)):
                fails.append({"kind": "decimal-contagion", "opname": op, "got": type(r.magnitude).__name__})
    elif op in ("eq", "ne", "lt", "le", "gt", "ge") and len(args) == 2 and kind(args[0]) == "q" and kind(args[1]) == "q":
        a, b = args
        if a.unit.dimension is not b.unit.dimension:
            want = {"eq": "ok\tb\tfalse", "ne": "ok\tb\ttrue"}.get(op, "ERR\tTypeError")
            if res != want:
                fails.append({"kind": "incommensurable-comparison", "opname": op, "got": res, "want": want})
    elif op == "conv" and len(args) == 2:
        q, u = args
        if q.unit.dimension is not u.dimension:
            if res not in ("ERR\tTypeError", "ERR\tConversionNotFound"):
                fails.append({"kind": "incommensurable-converted", "got": res})
        elif r is not None and r.unit is not u:
            fails.append({"kind": "conversion-wrong-unit"})
    elif op == "pow" and kind(args[0]) == "q":
        q, n = args
        if r is not None:
            if r.unit.dimension is not q.unit.dimension ** n:
                fails.append({"kind": "wrong-dimension", "opname": "pow", "n": n})
            if isinstance(r.magnitude, Decimal) != is_dec(q):
                fails.append({"kind": "decimal-contagion", "opname": "pow"})
    elif op == "root" and kind(args[0]) == "q":
        q, n = args
        if r is not None and n != 0:
            try:
                want = q.unit.dimension.root(n)
            except Exception:  # noqa: BLE001
                want = None
            if want is None or r.unit.dimension is not want:
                fails.append({"kind": "wrong-dimension", "opname": "root", "n": n})
            if isinstance(r.magnitude, Decimal) != is_dec(q):
                fails.append({"kind": "decimal-contagion", "opname": "root"})
    return fails


def nontrivial(ctx, line, res):
    f = line.split("\t")
    if f[0] != "X" or f[1] in ("qnew",):
        return None
    try:
        args = [ctx.sess.arg(t) for t in f[2:]]
    except Exception:  # noqa: BLE001
        return None
    qs = [a for a in args if isinstance(a, Quantity)]
    if not qs:
        return None
    interesting = any(len(q.unit.factors) > 1 or q.unit.prefix.exponent != 0 for q in qs) or \
        (len(qs) == 2 and qs[0].unit.dimension is not qs[1].unit.dimension)
    if not interesting:
        return None
    return (f[1], tuple((kind(a), type(getattr(a, "magnitude", a)).__name__,
                         ctx.sess.uid(a.unit) if isinstance(a, Quantity) else None) for a in args))


def mag_tok(rng):
    k = rng.random()
    if k < 0.4:
        return "i:%d" % rng.choice([0, 1, -1, 2, 3, -7, 12, 1000, rng.randint(-50, 50)])
    if k < 0.75:
        import struct
        x = rng.choice([0.0, 0.5, -2.25, 1e-3, 3.75, rng.uniform(-100, 100), rng.uniform(0, 1e6)])
        return "f:%016x" % struct.unpack("<Q", struct.pack("<d", x))[0]
    n = rng.randint(-5000, 5000)
    d = rng.choice([1, 2, 4, 5, 10, 100, 1000])
    return "d:%d/%d" % (n, d)


def generate(ctx, n_ops):
    rng = ctx.rng
    emitted = 0

    def new_q(unit=None):
        nonlocal emitted
        u = ctx.pick_unit() if unit is None else unit
        res = yield "X\tqnew\t%s\tu%d" % (mag_tok(rng), u)
        emitted += 1
        if res.startswith("ok\tq"):
            ctx.nq += 1
            return ctx.nq - 1
        return None

    while emitted < n_ops:
        a = yield from new_q()
        if a is None:
            continue
        ua = ctx.sess.uid(ctx.sess.qs[a].unit)
        r = rng.random()
        if r < 0.30:
            # multiplicative, all operand kinds, both orders
            other = rng.choice(["q", "n", "u"])
            op = rng.choice(["mul", "div"])
            if other == "q":
                for _ in range(10):
                    ub = ctx.pick_unit()
                    if ctx.compatible(ua, ub):
                        break
                b = yield from new_q(ub)
                if b is None:
                    continue
                y = "q%d" % b
            elif other == "n":
                y = mag_tok(rng)
            else:
                for _ in range(10):
                    ub = ctx.pick_unit()
                    if ctx.compatible(ua, ub):
                        break
                y = "u%d" % ub
            x = "q%d" % a
            if rng.random() < 0.5:
                x, y = y, x
            line = "X\t%s\t%s\t%s" % (op, x, y)
        elif r < 0.70:
            # additive / comparison: 60% commensurable
            if rng.random() < 0.6:
                same = ctx.same_dimension_units(ua, 12)
                ub = rng.choice(same) if same else ua
            else:
                ub = ctx.pick_unit()
            b = yield from new_q(ub)
            if b is None:
                continue
            op = rng.choice(["add", "sub", "eq", "ne", "lt", "le", "gt", "ge", "conv"])
            if op == "conv":
                line = "X\tconv\tq%d\tu%d" % (a, ub)
            else:
                line = "X\t%s\tq%d\tq%d" % (op, a, b)
        elif r < 0.82:
            line = "X\tpow\tq%d\tn:%d" % (a, ctx.small_int())
        elif r < 0.90:
            # a negative base under a fractional power is a complex number in Python (outside
            # the model and the property): take roots of non-negative magnitudes only
            if ctx.sess.qs[a].magnitude < 0:
                line = "X\tabs\tq%d" % a
            elif rng.random() < 0.6:
                # a root that exists: q**n first, then the n-th root of that (every magnitude kind,
                # every degree - a root of a random unit almost always raises)
                n = rng.choice([2, 2, 3, -2, 4, -1, 1])
                res = yield "X\tpow\tq%d\tn:%d" % (a, n)
                emitted += 1
                if not res.startswith("ok\tq"):
                    continue
                ctx.nq += 1
                line = "X\troot\tq%d\tn:%d" % (ctx.nq - 1, n)
            else:
                line = "X\troot\tq%d\tn:%d" % (a, ctx.small_int(-3, 3))
        elif r < 0.93:
            line = "X\t%s\tq%d" % (rng.choice(["neg", "pos", "abs"]), a)
        elif r < 0.96:
            # rendering as a ratio interns the numerator / denominator units: later arithmetic
            # that denotes the same units must still obey dimensional analysis (history)
            for _ in range(10):
                ub = ctx.pick_unit()
                if ctx.compatible(ua, ub):
                    break
            res = yield "U\t%s\tu%d\tu%d" % (rng.choice(["div", "mul"]), ua, ub)
            emitted += 1
            if res.startswith("ok\tu"):
                line = "X\tufmt\t%s" % res.split("\t")[1]
            else:
                line = "X\tufmt\tu%d" % ua
        else:
            # quantity vs number comparisons / additions (TypeError or False)
            line = "X\t%s\tq%d\t%s" % (rng.choice(["add", "sub", "eq", "lt"]), a, mag_tok(rng))
        res = yield line
        emitted += 1
        if res.startswith("ok\tq"):
            ctx.nq += 1
    yield "STATE"
