/-
  Proofs/PathMode.lean — the path search does not depend on the interpreter mode.

  `asserts` (False under `python -O`) is read by `cassert` only.  `withAsserts x c` is `c` with the
  flag set to `x`.  An action is OBLIVIOUS when running it from `withAsserts x c` gives the same
  outcome and the same final state up to the flag; everything the search is made of is oblivious
  except the one `assert` of `_reduce_dimension`, which holds whenever the two units have one
  dimension.
-/
import Proofs.PathTotal

namespace Measured
open St

variable {σ : UId → Rat}

def withAsserts (x : Bool) (c : Conv Rat) : Conv Rat := { c with asserts := x }

@[simp] theorem withAsserts_st (x : Bool) (c : Conv Rat) : (withAsserts x c).st = c.st := rfl
@[simp] theorem withAsserts_ratios (x : Bool) (c : Conv Rat) : (withAsserts x c).ratios = c.ratios := rfl
@[simp] theorem withAsserts_offsets (x : Bool) (c : Conv Rat) : (withAsserts x c).offsets = c.offsets := rfl

/-- Same outcome, same final state up to the flag. -/
def Obliv {β} (m : CM Rat β) : Prop :=
  ∀ (c : Conv Rat) (x : Bool), CM.exec m (withAsserts x c) = ((CM.exec m c).1, withAsserts x (CM.exec m c).2)

theorem obliv_pure {β} (a : β) : Obliv (pure a : CM Rat β) := fun _ _ => rfl
theorem obliv_throw {β} (e : Exc) : Obliv (throw e : CM Rat β) := fun _ _ => rfl
theorem obliv_liftSt {β} (f : St → St × β) : Obliv (liftSt f : CM Rat β) := fun _ _ => rfl
theorem obliv_liftE {β} (r : Except Exc β) : Obliv (liftE r : CM Rat β) := by
  intro c x; rw [exec_liftE, exec_liftE]

theorem obliv_liftStE {β} (f : St → St × Except Exc β) : Obliv (liftStE f : CM Rat β) := by
  intro c x; rw [exec_liftStE, exec_liftStE]; rfl

theorem obliv_bind {β γ} {m : CM Rat β} {f : β → CM Rat γ} (hm : Obliv m) (hf : ∀ a, Obliv (f a)) :
    Obliv (m >>= f) := by
  intro c x
  rw [exec_bind, exec_bind, hm c x]
  cases h : CM.exec m c with
  | mk r c' =>
    cases r with
    | ok a => simp only; exact hf a c' x
    | error e => rfl

theorem obliv_tryCatch {β} {m : CM Rat β} {h : Exc → CM Rat β} (hm : Obliv m) (hh : ∀ e, Obliv (h e)) :
    Obliv (tryCatch m h) := by
  intro c x
  rw [exec_tryCatch, exec_tryCatch, hm c x]
  cases hx : CM.exec m c with
  | mk r c' =>
    cases r with
    | ok a => rfl
    | error e => simp only; exact hh e c' x

theorem obliv_powHop (h : Hop Rat) (e : Int) : Obliv (powHop h e) := by
  unfold powHop
  exact obliv_bind (obliv_liftE _) (fun _ => obliv_bind (obliv_liftE _) (fun _ =>
    obliv_bind (obliv_liftSt _) (fun _ => obliv_pure _)))

theorem obliv_mapM_powHop (e : Int) : ∀ hs : List (Hop Rat), Obliv (hs.mapM (fun h => powHop h e)) := by
  intro hs
  induction hs with
  | nil => exact obliv_pure _
  | cons h t ih =>
    simp only [List.mapM_cons]
    exact obliv_bind (obliv_powHop h e) (fun _ => obliv_bind ih (fun _ => obliv_pure _))

/-- using an oblivious action's outcome on the flagged state -/
theorem Obliv.run {β} {m : CM Rat β} (hm : Obliv m) {c c' : Conv Rat} {r : Except Exc β}
    (h : CM.exec m c = (r, c')) (x : Bool) : CM.exec m (withAsserts x c) = (r, withAsserts x c') := by
  rw [hm c x, h]

/-- `_reduce_dimension` on units of one dimension: its only `assert` holds, the rest is oblivious. -/
theorem reduceDimension_mode {c c' : Conv Rat} {start stop : UId} {r : Except Exc (Int × UId × UId)}
    (hd : c.st.dimOfUnit start = c.st.dimOfUnit stop)
    (h : CM.exec (reduceDimension start stop) c = (r, c')) (x : Bool) :
    CM.exec (reduceDimension start stop) (withAsserts x c) = (r, withAsserts x c') := by
  have hbeq : (c.st.dimOfUnit start == c.st.dimOfUnit stop) = true := by rw [hd]; simp
  unfold reduceDimension at h ⊢
  rw [exec_bind, exec_getSt] at h ⊢
  simp only [withAsserts_st] at h ⊢
  rw [exec_bind, hbeq, cassert_true] at h ⊢
  simp only at h ⊢
  have hob : Obliv (if (c.st.dimOfUnit start).isNumber = true then (pure (1, start, stop) : CM Rat (Int × UId × UId))
      else tryCatch
        (do
          let (a, b) ← (do
            let a ← liftStE (fun s => s.rootUnit start ((c.st.dimOfUnit start).gcdAll : Int))
            let b ← liftStE (fun s => s.rootUnit stop ((c.st.dimOfUnit start).gcdAll : Int))
            pure (a, b) : CM Rat (UId × UId))
          pure (((c.st.dimOfUnit start).gcdAll : Int), a, b))
        (fun e => if e == .fractional then pure (1, start, stop) else throw e)) := by
    split
    · exact obliv_pure _
    · refine obliv_tryCatch ?_ ?_
      · exact obliv_bind (obliv_bind (obliv_liftStE _) (fun _ => obliv_bind (obliv_liftStE _) (fun _ => obliv_pure _)))
          (fun _ => obliv_pure _)
      · intro e; split
        · exact obliv_pure _
        · exact obliv_throw _
  exact hob.run h x

/-! ### the search -/

def RecurMode (σ : UId → Rat) (recur : UId → UId → List UId → CM Rat (List (Hop Rat) × List UId)) : Prop :=
  ∀ (a b : UId) (v : List UId) (c c' : Conv Rat) (r : List (Hop Rat) × List UId) (x : Bool),
    GraphOK σ c → GraphWF c → a < c.st.units.length → b < c.st.units.length →
    c.st.dimOfUnit a = c.st.dimOfUnit b →
    CM.exec (recur a b v) c = (.ok r, c') →
    CM.exec (recur a b v) (withAsserts x c) = (.ok r, withAsserts x c')

theorem pathLoop_mode {recur : UId → UId → List UId → CM Rat (List (Hop Rat) × List UId)}
    (hrec : RecurSpec σ recur) (hrecM : RecurMode σ recur) (start' stop' : UId) (e : Int) (x : Bool) :
    ∀ (items : List (UId × Mag Rat)) (best : List (Hop Rat)) (visited : List UId) (c c' : Conv Rat)
      (r : List (Hop Rat) × List UId),
      GraphOK σ c → GraphWF c → start' < c.st.units.length → stop' < c.st.units.length →
      c.st.dimOfUnit start' = c.st.dimOfUnit stop' →
      (∀ it ∈ items, it ∈ c.ratios.row start') →
      CM.exec (pathLoop recur start' stop' e items best visited) c = (.ok r, c') →
      CM.exec (pathLoop recur start' stop' e items best visited) (withAsserts x c) = (.ok r, withAsserts x c') := by
  intro items
  induction items with
  | nil =>
    intro best visited c c' r _ _ _ _ _ _ hx
    unfold pathLoop at hx ⊢
    rw [exec_pure] at hx ⊢
    simp only [Prod.mk.injEq] at hx
    obtain ⟨h1, h2⟩ := hx
    rw [← h1, ← h2]
  | cons it rest ih =>
    intro best visited c c' r hg hw hs ht hd hit hx
    obtain ⟨mid, scale⟩ := it
    obtain ⟨hms, hmm, _⟩ := hg.edges start' mid scale (hit _ List.mem_cons_self)
    have hdm := hw.dims start' mid scale (hit _ List.mem_cons_self)
    have hrest : ∀ it ∈ rest, it ∈ c.ratios.row start' := fun y hy => hit y (List.mem_cons_of_mem _ hy)
    unfold pathLoop at hx ⊢
    obtain ⟨c0, c0', h0, hx⟩ := exec_bind_ok hx
    rw [exec_getThe'] at h0
    simp only [Prod.mk.injEq, Except.ok.injEq] at h0
    obtain ⟨rfl, rfl⟩ := h0
    rw [exec_bind, exec_getThe']
    simp only [withAsserts_offsets]
    by_cases hms' : (mid == stop') = true
    · simp only [hms', ↓reduceIte] at hx ⊢
      obtain ⟨h, c1, h1, hx⟩ := exec_bind_ok hx
      rw [exec_pure] at hx
      simp only [Prod.mk.injEq, Except.ok.injEq] at hx
      obtain ⟨rfl, rfl⟩ := hx
      rw [exec_bind, (obliv_powHop _ e).run h1 x]
      simp only [exec_pure]
    · simp only [hms', Bool.false_eq_true, ↓reduceIte] at hx ⊢
      obtain ⟨⟨path, vis1⟩, c1, h1, hx⟩ := exec_bind_ok hx
      obtain ⟨g1, f1, pu1, _⟩ := hrec mid stop' visited c c1 path vis1 hg hmm ht h1
      have w1 := hw.frame hg f1
      have h1' := hrecM mid stop' visited c c1 (path, vis1) x hg hw hmm ht (by rw [← hdm]; exact hd) h1
      rw [exec_bind, h1']
      simp only at hx ⊢
      have hrest1 : ∀ it ∈ rest, it ∈ c1.ratios.row start' := by rw [f1.ratios]; exact hrest
      have hd1 : c1.st.dimOfUnit start' = c1.st.dimOfUnit stop' := by
        rw [f1.ext.dimOfUnit hs, f1.ext.dimOfUnit ht]; exact hd
      by_cases hpe : path.isEmpty = true
      · simp only [hpe, ↓reduceIte] at hx ⊢
        exact ih best vis1 c1 c' r g1 w1 (f1.lt hs) (f1.lt ht) hd1 hrest1 hx
      · simp only [hpe, Bool.false_eq_true, ↓reduceIte] at hx ⊢
        obtain ⟨path2, c2, h2, hx⟩ := exec_bind_ok hx
        have hunits : ∀ h ∈ ({ scale := scale, offset := ((c.offsets.get? start' mid).getD (.int 0)), unit := mid } : Hop Rat) :: path,
            h.unit < c1.st.units.length := by
          intro h hh
          rcases List.mem_cons.1 hh with rfl | hh
          · exact f1.lt hmm
          · exact pu1 h hh
        obtain ⟨g2, f2, _⟩ := mapM_powHop_ok e _ c1 c2 path2 g1 hunits h2
        have f12 := f1.trans f2
        have w2 := w1.frame g1 f2
        rw [exec_bind, (obliv_mapM_powHop e _).run h2 x]
        simp only at hx ⊢
        have hrest2 : ∀ it ∈ rest, it ∈ c2.ratios.row start' := by rw [f2.ratios]; exact hrest1
        have hd2 : c2.st.dimOfUnit start' = c2.st.dimOfUnit stop' := by
          rw [f12.ext.dimOfUnit hs, f12.ext.dimOfUnit ht]; exact hd
        by_cases hbetter : (best.isEmpty || decide (path2.length < best.length)) = true
        · simp only [hbetter, ↓reduceIte] at hx ⊢
          exact ih path2 vis1 c2 c' r g2 w2 (f12.lt hs) (f12.lt ht) hd2 hrest2 hx
        · simp only [hbetter, Bool.false_eq_true, ↓reduceIte] at hx ⊢
          exact ih best vis1 c2 c' r g2 w2 (f12.lt hs) (f12.lt ht) hd2 hrest2 hx

/-- `_find_path_recursive` under `-O`: same outcome, same interning. -/
theorem findPathRec_mode : ∀ fuel, RecurMode σ (findPathRec (α := Rat) fuel) := by
  intro fuel
  induction fuel with
  | zero =>
    intro a b v c c' r x _ _ _ _ _ hx
    unfold findPathRec at hx
    rw [exec_throw] at hx; simp at hx
  | succ fuel ih =>
    intro start stop visited c c' r x hg hw hs ht hd hx
    unfold findPathRec at hx ⊢
    by_cases hse : (start == stop) = true
    · simp only [hse, ↓reduceIte, exec_pure, Prod.mk.injEq] at hx ⊢
      obtain ⟨h1, h2⟩ := hx
      exact ⟨h1, by rw [← h2]⟩
    · simp only [hse, Bool.false_eq_true, ↓reduceIte] at hx ⊢
      by_cases hvis : visited.contains start = true
      · simp only [hvis, ↓reduceIte, exec_pure, Prod.mk.injEq] at hx ⊢
        obtain ⟨h1, h2⟩ := hx
        exact ⟨h1, by rw [← h2]⟩
      · simp only [hvis, Bool.false_eq_true, ↓reduceIte] at hx ⊢
        obtain ⟨c0, c0', h0, hx⟩ := exec_bind_ok hx
        rw [exec_getThe'] at h0
        simp only [Prod.mk.injEq, Except.ok.injEq] at h0
        obtain ⟨rfl, rfl⟩ := h0
        rw [exec_bind, exec_getThe']
        have hde : directEdge (withAsserts x c) start stop = directEdge c start stop := rfl
        simp only [hde]
        by_cases hdir : (directEdge c start stop).isSome = true
        · simp only [hdir, ↓reduceIte, exec_pure, Prod.mk.injEq] at hx ⊢
          obtain ⟨h1, h2⟩ := hx
          exact ⟨h1, by rw [← h2]⟩
        · simp only [hdir, Bool.false_eq_true, ↓reduceIte] at hx ⊢
          obtain ⟨⟨e, start', stop'⟩, c1, h1, hx⟩ := exec_bind_ok hx
          obtain ⟨g1, f1, hs', ht', _⟩ := reduceDimension_ok hg hs ht h1
          obtain ⟨e', a', b', c1', h1t, _, hd1⟩ := reduceDimension_total hg hs ht hd
          rw [h1] at h1t
          simp only [Prod.mk.injEq, Except.ok.injEq] at h1t
          obtain ⟨⟨rfl, rfl, rfl⟩, rfl⟩ := h1t
          have w1 := hw.frame hg f1
          rw [exec_bind, reduceDimension_mode hd h1 x]
          simp only at hx ⊢
          obtain ⟨c1a, c1b, h2, hx⟩ := exec_bind_ok hx
          rw [exec_getThe'] at h2
          simp only [Prod.mk.injEq, Except.ok.injEq] at h2
          obtain ⟨rfl, rfl⟩ := h2
          rw [exec_bind, exec_getThe']
          simp only [withAsserts_ratios]
          exact pathLoop_mode (findPathRec_sound fuel) ih start' stop' e x (c1.ratios.row start') []
            (visited ++ [start]) c1 c' r g1 w1 hs' ht' hd1 (fun _ h => h) hx

/-- **C07, second sentence, for the path search.**  With assertions disabled (`python -O`) the search
    between two units of one dimension returns the very same path and interns the very same units. -/
theorem findPath_mode {c c' : Conv Rat} {start stop : UId} {p : List (Hop Rat)} (hg : GraphOK σ c) (hw : GraphWF c)
    (hs : start < c.st.units.length) (ht : stop < c.st.units.length)
    (hd : c.st.dimOfUnit start = c.st.dimOfUnit stop)
    (hx : CM.exec (findPath start stop) c = (.ok p, c')) (x : Bool) :
    CM.exec (findPath start stop) (withAsserts x c) = (.ok p, withAsserts x c') := by
  unfold findPath at hx ⊢
  obtain ⟨c0, c0', h0, hx⟩ := exec_bind_ok hx
  rw [exec_getThe'] at h0
  simp only [Prod.mk.injEq, Except.ok.injEq] at h0
  obtain ⟨rfl, rfl⟩ := h0
  obtain ⟨⟨p', v⟩, c1, h1, hx⟩ := exec_bind_ok hx
  rw [exec_pure] at hx
  simp only [Prod.mk.injEq, Except.ok.injEq] at hx
  obtain ⟨rfl, rfl⟩ := hx
  rw [exec_bind, exec_getThe']
  simp only [withAsserts_ratios]
  rw [exec_bind, findPathRec_mode _ start stop [] c c1 (p', v) x hg hw hs ht hd h1]
  simp only [exec_pure]

end Measured
