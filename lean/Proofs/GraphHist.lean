/-
  Proofs/GraphHist.lean — the invariant `GraphOK σ` of Proofs/PathSound.lean over histories:
  it survives every public unit operation (they only intern) and every declaration
  `equate(a, b)` whose two sides have the same σ-size; so it holds in every state reached by
  interleaving unit operations and consistent declarations in any order.
-/
import Proofs.PathTotal
import Proofs.CanonAll

namespace Measured
open St

variable {σ : UId → Rat}

/-! ### `t[a][b] = v` on the two-level table -/

namespace Table
variable {β : Type}

theorem find_map_keys (t : Table β) (f : UId × List (UId × β) → UId × List (UId × β))
    (hk : ∀ r, (f r).1 = r.1) (a : UId) :
    (t.map f).find? (fun r => r.1 == a) = (t.find? (fun r => r.1 == a)).map f := by
  induction t with
  | nil => rfl
  | cons r rest ih =>
    simp only [List.map_cons, List.find?_cons, hk r]
    split
    · rfl
    · exact ih

/-- What a row contains after `set`: the old entries, or the entry just written. -/
theorem mem_row_set {t : Table β} {a b a' x : UId} {v m : β}
    (h : (x, m) ∈ (t.set a b v).row a') : (x, m) ∈ t.row a' ∨ (a' = a ∧ x = b ∧ m = v) := by
  unfold Table.set at h
  simp only at h
  have hsetRow : ∀ (r : List (UId × β)),
      (x, m) ∈ (if r.any (fun c => c.1 == b) then r.map (fun c => if c.1 == b then (b, v) else c) else r ++ [(b, v)]) →
      (x, m) ∈ r ∨ (x = b ∧ m = v) := by
    intro r hr
    split at hr
    · rcases List.mem_map.1 hr with ⟨c, hc, hcx⟩
      split at hcx
      · right; cases hcx; exact ⟨rfl, rfl⟩
      · left; rw [← hcx]; exact hc
    · rcases List.mem_append.1 hr with hr | hr
      · exact Or.inl hr
      · right; simp only [List.mem_singleton, Prod.mk.injEq] at hr; exact hr
  split at h
  · -- the row of `a` exists
    unfold Table.row at h ⊢
    rw [find_map_keys t _ (by intro r; by_cases h : (r.1 == a) = true <;> simp_all) a'] at h
    cases hf : t.find? (fun r => r.1 == a') with
    | none => rw [hf] at h; simp at h
    | some r =>
      rw [hf] at h
      simp only [Option.map_some] at h
      by_cases hra : (r.1 == a) = true
      · simp only [hra, ↓reduceIte] at h
        have hr1 : r.1 = a' := by
          have := List.find?_some hf; simpa using this
        have hra' : r.1 = a := by simpa using hra
        rcases hsetRow r.2 h with h | h
        · exact Or.inl h
        · exact Or.inr ⟨hr1 ▸ hra', h⟩
      · simp only [hra, Bool.false_eq_true, ↓reduceIte] at h
        exact Or.inl h
  · next hany =>
    unfold Table.row at h ⊢
    rw [List.find?_append] at h
    cases hf : t.find? (fun r => r.1 == a') with
    | some r => rw [hf] at h; simp only [Option.some_or] at h; exact Or.inl h
    | none =>
      rw [hf] at h
      simp only [Option.none_or, List.find?_cons, List.find?_nil] at h
      by_cases haa : (a == a') = true
      · simp only [haa] at h
        have : a = a' := by simpa using haa
        rcases hsetRow [] h with h | h
        · simp at h
        · exact Or.inr ⟨this.symm, h⟩
      · simp only [haa] at h
        simp at h

theorem mem_keys_set_self (t : Table β) (a b : UId) (v : β) : a ∈ (t.set a b v).map (·.1) := by
  unfold Table.set
  simp only
  split
  · next h =>
    simp only [List.any_eq_true, beq_iff_eq] at h
    obtain ⟨r, hr, hra⟩ := h
    simp only [List.map_map, List.mem_map, Function.comp]
    exact ⟨r, hr, by simp [hra]⟩
  · simp

theorem mem_keys_set_of_mem {t : Table β} {x : UId} (a b : UId) (v : β) (h : x ∈ t.map (·.1)) :
    x ∈ (t.set a b v).map (·.1) := by
  unfold Table.set
  simp only
  split
  · simp only [List.map_map, List.mem_map, Function.comp] at h ⊢
    obtain ⟨r, hr, hrx⟩ := h
    refine ⟨r, hr, ?_⟩
    by_cases hra : (r.1 == a) = true
    · simp only [hra, ↓reduceIte]; rw [← hrx]; exact (by simpa using hra : r.1 = a).symm
    · simp only [hra, Bool.false_eq_true, ↓reduceIte]; exact hrx
  · simp only [List.map_append, List.mem_append]; exact Or.inl h

end Table

/-! ### `equate` -/

theorem unprefixedUnit_lt (s : St) (a : UId) : (s.unprefixedUnit a).2 < (s.unprefixedUnit a).1.units.length := by
  unfold unprefixedUnit; exact newUnit_lt _ _ _ _

theorem unprefixedUnit_pfx (s : St) (a : UId) :
    ((s.unprefixedUnit a).1.unit! (s.unprefixedUnit a).2).pfx = Pfx.identity := by
  unfold unprefixedUnit; exact (newUnit_key _ _ _ _).1

theorem unprefixedUnit_size (s : St) (a : UId) :
    Pfx.val (s.unit! a).pfx * unitSz σ (s.unprefixedUnit a).1 (s.unprefixedUnit a).2 = unitSz σ s a := by
  unfold unprefixedUnit
  obtain ⟨k1, k2⟩ := newUnit_key s Pfx.identity (s.unit! a).factors (s.unit! a).dim
  unfold unitSz
  rw [k1, sizeOf_perm k2, Pfx.val_identity, one_mul]

theorem exec_modify_ratios (c : Conv Rat) (f : Table (Mag Rat) → Table (Mag Rat)) :
    CM.exec (modifyThe (Conv Rat) (fun c => { c with ratios := f c.ratios }) : CM Rat Unit) c =
      (.ok (), { c with ratios := f c.ratios }) := rfl

/-- A declaration `equate(a, b)` whose sides have the same σ-size keeps the graph in agreement
    with σ (both stored ratios are right, both nodes are unprefixed). -/
theorem equate_graphOK {c c' : Conv Rat} {a b : Qty Rat} (hg : GraphOK σ c)
    (ha : a.unit < c.st.units.length) (hb : b.unit < c.st.units.length)
    (hcons : a.mag.val * unitSz σ c.st a.unit = b.mag.val * unitSz σ c.st b.unit)
    (hx : CM.exec (equate a b) c = (.ok (), c')) :
    GraphOK σ c' ∧ Ext c.st c'.st ∧ c'.offsets = c.offsets ∧
      (GraphWF c → c.st.dimOfUnit a.unit = c.st.dimOfUnit b.unit → GraphWF c') ∧
      (∃ (A B : UId) (r1 r2 : Mag Rat),
        A = (c.st.unprefixedUnit a.unit).2 ∧
        B = ((c.st.unprefixedUnit a.unit).1.unprefixedUnit b.unit).2 ∧
        A < c'.st.units.length ∧ B < c'.st.units.length ∧
        c'.ratios = (c.ratios.set A B r1).set B A r2 ∧
        r1.val = (Pfx.val (c.st.unit! b.unit).pfx * b.mag.val) / (Pfx.val (c.st.unit! a.unit).pfx * a.mag.val) ∧
        r2.val = (Pfx.val (c.st.unit! a.unit).pfx * a.mag.val) / (Pfx.val (c.st.unit! b.unit).pfx * b.mag.val)) := by
  unfold equate at hx
  obtain ⟨s0, c0, h0, hx⟩ := exec_bind_ok hx
  rw [exec_getSt] at h0
  simp only [Prod.mk.injEq, Except.ok.injEq] at h0
  obtain ⟨rfl, rfl⟩ := h0
  simp only at hx
  by_cases hcond : (a.unit == b.unit && a.unit != c.st.one) = true
  · simp only [hcond, ↓reduceIte] at hx
    rw [exec_bind, exec_throw] at hx; simp at hx
  · simp only [hcond, Bool.false_eq_true, ↓reduceIte] at hx
    obtain ⟨a', c1, h1, hx⟩ := exec_bind_ok hx
    rw [exec_unprefixedQty] at h1
    simp only [Prod.mk.injEq, Except.ok.injEq] at h1
    obtain ⟨ha', hc1⟩ := h1
    obtain ⟨g1, f1⟩ := unprefixStep hg ha
    rw [hc1] at g1 f1
    obtain ⟨b', c2, h2, hx⟩ := exec_bind_ok hx
    rw [exec_unprefixedQty] at h2
    simp only [Prod.mk.injEq, Except.ok.injEq] at h2
    obtain ⟨hb', hc2⟩ := h2
    have hb1 : b.unit < c1.st.units.length := f1.lt hb
    obtain ⟨g2, f2⟩ := unprefixStep g1 hb1
    rw [hc2] at g2 f2
    have f12 := f1.trans f2
    obtain ⟨r1, c3, h3, hx⟩ := exec_bind_ok hx
    rw [exec_liftE] at h3
    simp only [Prod.mk.injEq] at h3
    obtain ⟨h3, hc3⟩ := h3
    subst hc3
    obtain ⟨u1, c4, h4, hx⟩ := exec_bind_ok hx
    rw [exec_modify_ratios c2 (fun t => t.set a'.unit b'.unit r1)] at h4
    simp only [Prod.mk.injEq] at h4
    obtain ⟨_, hc4⟩ := h4
    obtain ⟨r2, c5, h5, hx⟩ := exec_bind_ok hx
    rw [exec_liftE] at h5
    simp only [Prod.mk.injEq] at h5
    obtain ⟨h5, hc5⟩ := h5
    subst hc5
    rw [exec_modify_ratios c4 (fun t => t.set b'.unit a'.unit r2)] at hx
    simp only [Prod.mk.injEq] at hx
    obtain ⟨_, hc'⟩ := hx
    -- facts about the two nodes
    have hAu : a'.unit = (c.st.unprefixedUnit a.unit).2 := by rw [← ha']
    have hBu : b'.unit = (c1.st.unprefixedUnit b.unit).2 := by rw [← hb']
    have hAm : a'.mag.val = Pfx.val (c.st.unit! a.unit).pfx * a.mag.val := by
      rw [← ha']; simp only [val_mul, Pfx.value_val]
    have hBm : b'.mag.val = Pfx.val (c.st.unit! b.unit).pfx * b.mag.val := by
      rw [← hb']; simp only [val_mul, Pfx.value_val]; rw [f1.pfx hb]
    have hA1 : a'.unit < c1.st.units.length := by
      rw [hAu, ← hc1]; exact unprefixedUnit_lt _ _
    have hA2 : a'.unit < c2.st.units.length := f2.lt hA1
    have hB2 : b'.unit < c2.st.units.length := by
      rw [hBu, ← hc2]; exact unprefixedUnit_lt _ _
    have hAp : (c2.st.unit! a'.unit).pfx = Pfx.identity := by
      rw [f2.pfx hA1, hAu, ← hc1]; exact unprefixedUnit_pfx _ _
    have hBp : (c2.st.unit! b'.unit).pfx = Pfx.identity := by
      rw [hBu, ← hc2]; exact unprefixedUnit_pfx _ _
    have hAs : Pfx.val (c.st.unit! a.unit).pfx * unitSz σ c2.st a'.unit = unitSz σ c.st a.unit := by
      rw [f2.sz hA1, hAu, ← hc1]; exact unprefixedUnit_size _ _
    have hBs : Pfx.val (c.st.unit! b.unit).pfx * unitSz σ c2.st b'.unit = unitSz σ c.st b.unit := by
      rw [hBu, ← hc2, ← f1.pfx hb, ← f1.sz hb]; exact unprefixedUnit_size _ _
    obtain ⟨v1, n1⟩ := val_div h3
    obtain ⟨v2, n2⟩ := val_div h5
    have hkey : a'.mag.val * unitSz σ c2.st a'.unit = b'.mag.val * unitSz σ c2.st b'.unit := by
      rw [hAm, hBm]
      calc Pfx.val (c.st.unit! a.unit).pfx * a.mag.val * unitSz σ c2.st a'.unit
          = a.mag.val * (Pfx.val (c.st.unit! a.unit).pfx * unitSz σ c2.st a'.unit) := by ring
        _ = b.mag.val * (Pfx.val (c.st.unit! b.unit).pfx * unitSz σ c2.st b'.unit) := by rw [hAs, hBs, hcons]
        _ = _ := by ring
    have e1 : r1.val * unitSz σ c2.st b'.unit = unitSz σ c2.st a'.unit := by
      rw [v1]; field_simp; rw [← hkey]
    have e2 : r2.val * unitSz σ c2.st a'.unit = unitSz σ c2.st b'.unit := by
      rw [v2]; field_simp; rw [hkey]
    have hst : c'.st = c2.st := by rw [← hc', ← hc4]
    have hrat : c'.ratios = (c2.ratios.set a'.unit b'.unit r1).set b'.unit a'.unit r2 := by rw [← hc', ← hc4]
    have hoffs : c'.offsets = c2.offsets := by rw [← hc', ← hc4]
    refine ⟨⟨by rw [hst]; exact g2.canon, by rw [hst]; exact g2.inv, by rw [hst]; exact g2.reg, by rw [hst]; exact g2.one, ?_, ?_⟩,
      by rw [hst]; exact f12.ext, by rw [hoffs]; exact f12.offsets, ?_, ?_⟩
    · intro x y m hm
      rw [hrat] at hm
      rw [hst]
      rcases Table.mem_row_set hm with hm | ⟨rfl, rfl, rfl⟩
      · rcases Table.mem_row_set hm with hm | ⟨rfl, rfl, rfl⟩
        · exact g2.edges x y m hm
        · exact ⟨hA2, hB2, e1⟩
      · exact ⟨hB2, hA2, e2⟩
    · intro x y m hm
      rw [hrat] at hm
      rw [hst]
      rcases Table.mem_row_set hm with hm | ⟨rfl, rfl, rfl⟩
      · rcases Table.mem_row_set hm with hm | ⟨rfl, rfl, rfl⟩
        · exact g2.nodes x y m hm
        · exact ⟨hAp, hBp⟩
      · exact ⟨hBp, hAp⟩
    · intro hw hdab
      have w2 : GraphWF c2 := hw.frame hg f12
      have hdA : c2.st.dimOfUnit a'.unit = c.st.dimOfUnit a.unit := by
        rw [f2.ext.dimOfUnit hA1, hAu, ← hc1]; exact unprefixedUnit_dim hg.inv ha
      have hdB : c2.st.dimOfUnit b'.unit = c.st.dimOfUnit b.unit := by
        rw [hBu, ← hc2, ← f1.ext.dimOfUnit hb]; exact unprefixedUnit_dim g1.inv hb1
      refine ⟨?_, ?_⟩
      · intro x y m hm
        rw [hrat] at hm
        rw [hst]
        rcases Table.mem_row_set hm with hm | ⟨rfl, rfl, rfl⟩
        · rcases Table.mem_row_set hm with hm | ⟨rfl, rfl, rfl⟩
          · exact w2.dims x y m hm
          · rw [hdA, hdB]; exact hdab
        · rw [hdA, hdB]; exact hdab.symm
      · intro x y m hm
        rw [hrat] at hm ⊢
        rcases Table.mem_row_set hm with hm | ⟨rfl, rfl, rfl⟩
        · rcases Table.mem_row_set hm with hm | ⟨rfl, rfl, rfl⟩
          · exact Table.mem_keys_set_of_mem _ _ _ (Table.mem_keys_set_of_mem _ _ _ (w2.closed x y m hm))
          · exact Table.mem_keys_set_self _ _ _ _
        · exact Table.mem_keys_set_of_mem _ _ _ (Table.mem_keys_set_self _ _ _ _)
    · refine ⟨a'.unit, b'.unit, r1, r2, hAu, ?_, by rw [hst]; exact hA2, by rw [hst]; exact hB2, ?_, ?_, ?_⟩
      · rw [hBu, ← hc1]
      · rw [hrat, f12.ratios]
      · rw [v1, hAm, hBm]
      · rw [v2, hAm, hBm]

/-! ### histories -/

/-- Unit operations (any public operation of the unit algebra, in any number) keep the invariant. -/
theorem units_graphOK {c : Conv Rat} (hg : GraphOK σ c) (ops : List Op) :
    GraphOK σ { c with st := run c.st ops } ∧ CFrame c { c with st := run c.st ops } := by
  have hf : CFrame c { c with st := run c.st ops } := frame_setSt c (run_ext _ _)
  have hgi : GInv c.st := ⟨hg.inv, hg.reg⟩
  have h2 := run_ginv hgi ops
  exact ⟨hg.frame hf (run_canon hgi hg.canon ops) h2.1 h2.2, hf⟩

/-- States reached from a state whose graph agrees with σ (for instance one with no declarations at
    all) by: any public unit operations; declarations `equate(a, b)` whose sides have the same
    σ-size; conversions that the path search settles directly.  (Conversions that go through the
    factor-matching planner are not in this fragment.) -/
inductive Reach (σ : UId → Rat) : Conv Rat → Prop
  | init {c : Conv Rat} : GraphOK σ c → GraphWF c → c.offsets = [] → Reach σ c
  | units {c : Conv Rat} (ops : List Op) : Reach σ c → Reach σ { c with st := run c.st ops }
  | equate {c c' : Conv Rat} {a b : Qty Rat} : Reach σ c →
      a.unit < c.st.units.length → b.unit < c.st.units.length →
      a.mag.val * unitSz σ c.st a.unit = b.mag.val * unitSz σ c.st b.unit →
      c.st.dimOfUnit a.unit = c.st.dimOfUnit b.unit →
      CM.exec (Measured.equate a b) c = (.ok (), c') → Reach σ c'
  | direct {c c' c2 : Conv Rat} {q r : Qty Rat} {t : UId} {p : List (Hop Rat)} : Reach σ c →
      q.unit < c.st.units.length → t < c.st.units.length →
      CM.exec (convert q t) c = (.ok r, c') →
      CM.exec (findPath q.unit t) { c with st := ((c.st.unprefixedUnit q.unit).1.unprefixedUnit t).1 } = (.ok p, c2) →
      p ≠ [] → Reach σ c'

theorem reach_graphOK (hσ : ∀ k, σ k ≠ 0) {c : Conv Rat} (h : Reach σ c) :
    GraphOK σ c ∧ c.offsets = [] ∧ GraphWF c := by
  induction h with
  | init hg hw ho => exact ⟨hg, ho, hw⟩
  | units ops _ ih =>
    obtain ⟨g, f⟩ := units_graphOK ih.1 ops
    exact ⟨g, ih.2.1, ih.2.2.frame ih.1 f⟩
  | equate _ ha hb hc hdim hx ih =>
    obtain ⟨g, _, ho, hw, _⟩ := equate_graphOK ih.1 ha hb hc hx
    exact ⟨g, by rw [ho]; exact ih.2.1, hw ih.2.2 hdim⟩
  | direct _ hq ht hx hp hne ih =>
    obtain ⟨_, d, c2', hfp, hd⟩ := convert_direct_exact hσ ih.1 hq ht ih.2.1 hx
    rw [hp] at hfp
    simp only [Prod.mk.injEq, Except.ok.injEq] at hfp
    obtain ⟨rfl, rfl⟩ := hfp
    obtain ⟨_, g, f⟩ := hd hne
    exact ⟨g, by rw [f.offsets]; exact ih.2.1, ih.2.2.frame ih.1 f⟩

/-- **Every history.**  After any interleaving of unit operations, σ-consistent declarations and
    directly settled conversions, a conversion that the path search connects directly is exact. -/
theorem reach_convert_exact (hσ : ∀ k, σ k ≠ 0) {c c' : Conv Rat} (hr : Reach σ c) {q r : Qty Rat} {t : UId}
    (hq : q.unit < c.st.units.length) (ht : t < c.st.units.length)
    (h : CM.exec (convert q t) c = (.ok r, c')) :
    r.unit = t ∧
    ∃ (direct : List (Hop Rat)) (c2 : Conv Rat),
      CM.exec (findPath q.unit t)
        { c with st := ((c.st.unprefixedUnit q.unit).1.unprefixedUnit t).1 } = (.ok direct, c2) ∧
      (direct ≠ [] → r.mag.val * unitSz σ c.st t = q.mag.val * unitSz σ c.st q.unit) := by
  obtain ⟨hg, ho, _⟩ := reach_graphOK hσ hr
  obtain ⟨hu, d, c2, hfp, hd⟩ := convert_direct_exact hσ hg hq ht ho h
  exact ⟨hu, d, c2, hfp, fun hne => (hd hne).1⟩

/-- **Every history, C07 for the path search.**  In every reachable state the path search between two
    units of one dimension returns (a path or nothing) and raises no exception of any kind. -/
theorem reach_findPath_total (hσ : ∀ k, σ k ≠ 0) {c : Conv Rat} (hr : Reach σ c) {start stop : UId}
    (hs : start < c.st.units.length) (ht : stop < c.st.units.length)
    (hd : c.st.dimOfUnit start = c.st.dimOfUnit stop) :
    ∃ p c', CM.exec (findPath start stop) c = (.ok p, c') := by
  obtain ⟨hg, _, hw⟩ := reach_graphOK hσ hr
  exact findPath_total hg hw hs ht hd

end Measured
