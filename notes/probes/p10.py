import lark, json
from lark import Lark
from measured import _parser
g = open('/repo/src/measured/measured.lark').read()
fresh = Lark(g, parser='lalr', start=['unit','quantity'])
data, memo = fresh.memo_serialize([lark.lexer.TerminalDef, lark.grammar.Rule])
print(sorted(data.keys()))
print(sorted(_parser.DATA.keys()))
sp = _parser.DATA['parser']; fp = data['parser']
print(sp.keys(), fp.keys())
print(sp['parser'].keys(), fp['parser'].keys())
print("lexer_conf", {k:(v if k!='terminals' else len(v)) for k,v in sp['lexer_conf'].items()})
print("lexer_conf", {k:(v if k!='terminals' else len(v)) for k,v in fp['lexer_conf'].items()})
print("tokens", sp['parser']['tokens'])
print("tokens", fp['parser']['tokens'])
print("states", len(sp['parser']['states']), len(fp['parser']['states']))
print("start", sp['parser']['start_states'], sp['parser']['end_states'])
print("start", fp['parser']['start_states'], fp['parser']['end_states'])
print(list(sp['parser']['states'].items())[:2])
print(len(_parser.MEMO), len(memo))
def terms(memo):
    return sorted([ (v['name'], json.dumps(v['pattern'], sort_keys=True, default=str), v['priority']) for v in memo.values() if v.get('__type__')=='TerminalDef'])
a = terms(_parser.MEMO); b = terms(memo)
print(a==b)
for x,y in zip(a,b):
    if x!=y: print(x,'\n  ',y)
def rules(memo):
    return sorted([ (v['origin']['name'], tuple((s['name'], s.get('filter_out')) for s in v['expansion']), v['order'], v['alias'], json.dumps(v['options'],sort_keys=True, default=str)) for v in memo.values() if v.get('__type__')=='Rule'])
print(rules(_parser.MEMO)==rules(memo))
for x,y in zip(rules(_parser.MEMO), rules(memo)):
    if x!=y: print(x,'\n  ',y)
print(_parser.DATA['options'])
