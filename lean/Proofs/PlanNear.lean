/-
  Proofs/PlanNear.lean — conversions between simple units on an APPROXIMATELY consistent graph (the
  shipped definitions), through the factor planner: the result is right up to the accumulated edge
  errors of the paths `_inline_paths` finds, `W ≤ total number of hops` (the paired base units have
  fundamental dimensions, whose gcd is 1).  Bounds are symmetric: `lb · ub = 1`.
-/
import Proofs.PathNear
import Proofs.PlanSimple

namespace Measured
open St

variable {σ : UId → Rat} {lb ub : Rat}

/-! ### more arithmetic of `Near` -/

theorem near_pos_left (hb : Bnd lb ub) {W : Nat} {x y : Rat} (hy : 0 < y) (h : Near lb ub W x y) : 0 < x :=
  lt_of_lt_of_le (mul_pos (pow_pos hb.pos _) hy) h.1

theorem near_mul (hb : Bnd lb ub) {W1 W2 : Nat} {x1 y1 x2 y2 : Rat} (hy1 : 0 < y1) (hy2 : 0 < y2)
    (h1 : Near lb ub W1 x1 y1) (h2 : Near lb ub W2 x2 y2) : Near lb ub (W1 + W2) (x1 * x2) (y1 * y2) := by
  have hx1 := near_pos_left hb hy1 h1
  have hx2 := near_pos_left hb hy2 h2
  obtain ⟨a1, a2⟩ := h1
  obtain ⟨b1, b2⟩ := h2
  constructor
  · calc lb ^ (W1 + W2) * (y1 * y2) = (lb ^ W1 * y1) * (lb ^ W2 * y2) := by rw [pow_add]; ring
      _ ≤ x1 * x2 := mul_le_mul a1 b1 (le_of_lt (mul_pos (pow_pos hb.pos _) hy2)) (le_of_lt hx1)
  · calc x1 * x2 ≤ (ub ^ W1 * y1) * (ub ^ W2 * y2) :=
          mul_le_mul a2 b2 (le_of_lt hx2) (le_of_lt (mul_pos (pow_pos (lt_of_lt_of_le zero_lt_one hb.ge1) _) hy1))
      _ = ub ^ (W1 + W2) * (y1 * y2) := by rw [pow_add]; ring

theorem near_inv (hb : Bnd lb ub) (hsym : lb * ub = 1) {W : Nat} {x y : Rat} (hy : 0 < y) (h : Near lb ub W x y) :
    Near lb ub W x⁻¹ y⁻¹ := by
  have hx := near_pos_left hb hy h
  obtain ⟨h1, h2⟩ := h
  have hub : 0 < ub := lt_of_lt_of_le zero_lt_one hb.ge1
  have hlbi : lb⁻¹ = ub := inv_eq_of_mul_eq_one_right hsym
  have hubi : ub⁻¹ = lb := by rw [← hlbi, inv_inv]
  constructor
  · -- lb^W * y⁻¹ = (ub^W * y)⁻¹ ≤ x⁻¹
    have : lb ^ W * y⁻¹ = (ub ^ W * y)⁻¹ := by rw [mul_inv, ← inv_pow, hubi]
    rw [this]
    exact inv_anti₀ hx h2
  · have : ub ^ W * y⁻¹ = (lb ^ W * y)⁻¹ := by rw [mul_inv, ← inv_pow, hlbi]
    rw [this]
    exact inv_anti₀ (mul_pos (pow_pos hb.pos _) hy) h1

theorem near_zpow_unit (hb : Bnd lb ub) (hsym : lb * ub = 1) {W : Nat} {x y : Rat} (hy : 0 < y) (h : Near lb ub W x y)
    {e : Int} (he : e = 1 ∨ e = -1) : Near lb ub W (x ^ e) (y ^ e) := by
  rcases he with rfl | rfl
  · simpa using h
  · simp only [zpow_neg, zpow_one]; exact near_inv hb hsym hy h

theorem near_div_right {W : Nat} {x y k : Rat} (hk : 0 < k) (h : Near lb ub W (x * k) y) : Near lb ub W x (y / k) := by
  obtain ⟨h1, h2⟩ := h
  constructor
  · rw [← mul_div_assoc, div_le_iff₀ hk]; exact h1
  · rw [← mul_div_assoc, le_div_iff₀ hk]; exact h2

/-! ### fundamental dimensions have gcd ≤ 1 -/

theorem weight_foldl_ge (l : List Int) (a : Nat) : a ≤ l.foldl (fun acc e => acc + e.natAbs) a ∧
    ∀ e ∈ l, e.natAbs ≤ l.foldl (fun acc e => acc + e.natAbs) a := by
  induction l generalizing a with
  | nil => exact ⟨Nat.le_refl _, by simp⟩
  | cons x rest ih =>
    simp only [List.foldl_cons]
    obtain ⟨h1, h2⟩ := ih (a + x.natAbs)
    refine ⟨by omega, ?_⟩
    intro e he
    rcases List.mem_cons.1 he with rfl | he
    · omega
    · exact h2 e he

theorem gcd_foldl_all_zero (l : List Int) (h : ∀ e ∈ l, e = 0) : l.foldl (fun g e => Nat.gcd g e.natAbs) 0 = 0 := by
  induction l with
  | nil => rfl
  | cons x rest ih =>
    simp only [List.foldl_cons]
    have hx : x = 0 := h x List.mem_cons_self
    subst hx
    simp only [Int.natAbs_zero, Nat.gcd_zero_left]
    exact ih (fun e he => h e (List.mem_cons_of_mem _ he))

theorem gcdAll_le_one {d : Dim} (h : d.weight ≤ 1) : d.gcdAll ≤ 1 := by
  by_cases hz : ∀ e ∈ d, e = 0
  · unfold Dim.gcdAll; rw [gcd_foldl_all_zero d hz]; exact Nat.zero_le _
  · push Not at hz
    obtain ⟨e, he, hne⟩ := hz
    have hdvd := (gcd_foldl_dvd d 0).2 e he
    have hle : d.gcdAll ≤ e.natAbs := Nat.le_of_dvd (Int.natAbs_pos.2 hne) hdvd
    have hw := (weight_foldl_ge d 0).2 e he
    unfold Dim.weight at h
    omega

theorem Gd_of_weight {s : St} {u : UId} (h : (s.dimOfUnit u).weight ≤ 1) : Gd s u = 1 := by
  unfold Gd
  have := gcdAll_le_one h
  omega

theorem weight_pow_neg (d : Dim) : (d.pow (-1)).weight = d.weight := by
  unfold Dim.pow Dim.weight
  have key : ∀ (l : List Int) (a : Nat),
      (l.map (· * (-1))).foldl (fun acc e => acc + e.natAbs) a = l.foldl (fun acc e => acc + e.natAbs) a := by
    intro l
    induction l with
    | nil => intro a; rfl
    | cons x rest ih =>
      intro a
      simp only [List.map_cons, List.foldl_cons]
      rw [ih]
      congr 2
      simp
  exact key d 0

/-! ### weakening the bounds -/

theorem Near.weaken {lb' ub' : Rat} (hlb' : 0 ≤ lb') (h1 : lb' ≤ lb) (hub : 0 ≤ ub) (h2 : ub ≤ ub')
    {W : Nat} {x y : Rat} (hy : 0 ≤ y) (h : Near lb ub W x y) : Near lb' ub' W x y := by
  obtain ⟨a1, a2⟩ := h
  constructor
  · exact le_trans (mul_le_mul_of_nonneg_right (pow_le_pow_left₀ hlb' h1 W) hy) a1
  · exact le_trans a2 (mul_le_mul_of_nonneg_right (pow_le_pow_left₀ hub h2 W) hy)

theorem GraphNear.weaken {lb' ub' : Rat} (hσp : ∀ k, 0 < σ k) (hlb' : 0 ≤ lb') (h1 : lb' ≤ lb) (hub : 0 ≤ ub) (h2 : ub ≤ ub')
    {c : Conv Rat} (hg : GraphNear lb ub σ c) : GraphNear lb' ub' σ c := by
  refine ⟨hg.canon, hg.inv, hg.reg, hg.one, ?_, hg.nodes⟩
  intro a b m hm
  obtain ⟨ha, hb, hp, hn⟩ := hg.edges a b m hm
  exact ⟨ha, hb, hp, hn.weaken hlb' h1 hub h2 (le_of_lt (unitSz_pos hσp hg.canon ha))⟩

/-! ### `_inline_paths` on an approximately consistent graph -/

/-- an inlined step realises its rough step up to the errors of its path -/
def StepNear (lb ub : Rat) (σ : UId → Rat) (s : St) (r : Rough Rat) (p : PlanStep Rat) : Prop :=
  p.ratio = r.ratio ∧ p.exp = r.exp ∧ 0 < pathScale p.path ∧
    (∃ W : Nat, W ≤ Gd s r.start * p.path.length ∧
      Near lb ub W (pathScale p.path * unitSz σ s r.stop) (unitSz σ s r.start)) ∧
    (∀ h ∈ p.path, h.offset.val = 0)

theorem stepNear_transfer {c c0 : Conv Rat} (f0 : CFrame c c0) :
    ∀ {plan : List (Rough Rat)} {P : Plan Rat}, List.Forall₂ (StepNear lb ub σ c0.st) plan P →
    (∀ x ∈ plan, x.start < c.st.units.length ∧ x.stop < c.st.units.length) →
    List.Forall₂ (StepNear lb ub σ c.st) plan P := by
  intro plan P h
  induction h with
  | nil => intro _; exact List.Forall₂.nil
  | @cons a b l1 l2 hab _ ih =>
    intro hv
    obtain ⟨q1, q2, q3, ⟨W, hW, hn⟩, q5⟩ := hab
    obtain ⟨ha1, ha2⟩ := hv a List.mem_cons_self
    refine List.Forall₂.cons ⟨q1, q2, q3, ⟨W, ?_, ?_⟩, q5⟩ (ih (fun x hx => hv x (List.mem_cons_of_mem _ hx)))
    · rw [← Gd_ext f0.ext ha1]; exact hW
    · rw [← f0.sz ha1, ← f0.sz ha2]; exact hn

theorem inlinePaths_near {s₀ : St} {Z : Dim → Prop} (hZ : RootClosed Z) (hb : Bnd lb ub) (hσp : ∀ k, 0 < σ k) :
    ∀ (plan : List (Rough Rat)) (c c' : Conv Rat) (P : Plan Rat),
    GraphNear lb ub σ c → GraphWF c → Ext s₀ c.st → OffRef s₀ Z c.offsets →
    (∀ r ∈ plan, r.start < c.st.units.length ∧ r.stop < c.st.units.length ∧ Z (c.st.dimOfUnit r.start)) →
    CM.exec (inlinePaths plan) c = (.ok P, c') →
    GraphNear lb ub σ c' ∧ GraphWF c' ∧ CFrame c c' ∧ List.Forall₂ (StepNear lb ub σ c.st) plan P := by
  intro plan
  induction plan with
  | nil =>
    intro c c' P hg hw _ _ _ hx
    unfold inlinePaths at hx
    simp only [List.mapM_nil, exec_pure, Prod.mk.injEq, Except.ok.injEq] at hx
    obtain ⟨rfl, rfl⟩ := hx
    exact ⟨hg, hw, CFrame.refl _, List.Forall₂.nil⟩
  | cons r rest ih =>
    intro c c' P hg hw he0 hoff hv hx
    unfold inlinePaths at hx
    simp only [List.mapM_cons] at hx
    obtain ⟨p, c1, h1, hx⟩ := exec_bind_ok hx
    obtain ⟨path, c0, h0, h1⟩ := exec_bind_ok h1
    obtain ⟨hrs, hrt, hrz⟩ := hv r List.mem_cons_self
    obtain ⟨g0, w0, f0, hps, hpo, _⟩ := findPath_near hZ hb hσp hg hw he0 hrs hrt h0
    by_cases hpe : path.isEmpty = true
    · simp only [hpe, ↓reduceIte] at h1
      rw [exec_bind, exec_throw] at h1; simp at h1
    · simp only [hpe, Bool.false_eq_true, ↓reduceIte, exec_pure, Prod.mk.injEq, Except.ok.injEq] at h1
      obtain ⟨rfl, rfl⟩ := h1
      have hne : path ≠ [] := by intro h; rw [h] at hpe; simp at hpe
      obtain ⟨Ps, c2, h2, hx⟩ := exec_bind_ok hx
      rw [exec_pure] at hx
      simp only [Prod.mk.injEq, Except.ok.injEq] at hx
      obtain ⟨rfl, rfl⟩ := hx
      have h2' : CM.exec (inlinePaths rest) c0 = (.ok Ps, c2) := by unfold inlinePaths; exact h2
      obtain ⟨g2, w2, f2, hall⟩ := ih c0 c2 Ps g0 w0 (he0.trans f0.ext) (by rw [f0.offsets]; exact hoff)
        (fun x hx => by
          obtain ⟨a1, a2, a3⟩ := hv x (List.mem_cons_of_mem _ hx)
          exact ⟨f0.lt a1, f0.lt a2, by rw [f0.ext.dimOfUnit a1]; exact a3⟩) h2'
      obtain ⟨hpos, hW⟩ := hps hne
      refine ⟨g2, w2, f0.trans f2, List.Forall₂.cons ⟨rfl, rfl, hpos, hW, hpo hoff hrz⟩ ?_⟩
      exact stepNear_transfer f0 hall (fun x hx => ⟨(hv x (List.mem_cons_of_mem _ hx)).1, (hv x (List.mem_cons_of_mem _ hx)).2.1⟩)

/-- number of graph edges a plan walks -/
def planHops (P : Plan Rat) : Nat := (P.map (fun p => p.path.length)).sum

/-- the value of an inlined plan, approximately -/
theorem planValue_near (hb : Bnd lb ub) (hsym : lb * ub = 1) (hσp : ∀ k, 0 < σ k) {s : St} (hc : Canon s) :
    ∀ {plan : List (Rough Rat)} {P : Plan Rat}, List.Forall₂ (StepNear lb ub σ s) plan P →
    (∀ r ∈ plan, r.start < s.units.length ∧ r.stop < s.units.length ∧ Gd s r.start = 1 ∧ 0 < r.ratio.val ∧
      (r.exp = 1 ∨ r.exp = -1)) →
    (∃ W : Nat, W ≤ planHops P ∧ Near lb ub W (planValue P)
      (plan.map (fun r => r.ratio.val * (unitSz σ s r.start / unitSz σ s r.stop) ^ r.exp)).prod) ∧
      0 < (plan.map (fun r => r.ratio.val * (unitSz σ s r.start / unitSz σ s r.stop) ^ r.exp)).prod ∧
      (∀ p ∈ P, ∀ h ∈ p.path, h.offset.val = 0) := by
  intro plan P h
  induction h with
  | nil => intro _; exact ⟨⟨0, Nat.le_refl _, by simp [planValue, Near]⟩, by simp, by simp⟩
  | @cons r p l1 l2 hab _ ih =>
    intro hv
    obtain ⟨q1, q2, q3, ⟨W1, hW1, hn1⟩, q5⟩ := hab
    obtain ⟨⟨W2, hW2, hn2⟩, hpos2, i2⟩ := ih (fun x hx => hv x (List.mem_cons_of_mem _ hx))
    obtain ⟨v1, v2, hG, hrp, hre⟩ := hv r List.mem_cons_self
    have hs1 := unitSz_pos hσp hc v1
    have hs2 := unitSz_pos hσp hc v2
    have hd : 0 < unitSz σ s r.start / unitSz σ s r.stop := div_pos hs1 hs2
    have hstep : Near lb ub W1 (pathScale p.path ^ r.exp) ((unitSz σ s r.start / unitSz σ s r.stop) ^ r.exp) :=
      near_zpow_unit hb hsym hd (near_div_right hs2 hn1) hre
    have hposstep : 0 < r.ratio.val * (unitSz σ s r.start / unitSz σ s r.stop) ^ r.exp :=
      mul_pos hrp (zpow_pos hd _)
    refine ⟨⟨W1 + W2, ?_, ?_⟩, ?_, ?_⟩
    · simp only [planHops, List.map_cons, List.sum_cons] at hW2 ⊢
      rw [hG, one_mul] at hW1
      omega
    · simp only [planValue, List.map_cons, List.prod_cons] at hn2 ⊢
      rw [q1, q2]
      refine near_mul hb hposstep hpos2 ?_ hn2
      have := near_scale (lb := lb) (ub := ub) r.ratio.val (le_of_lt hrp) hstep
      exact this
    · simp only [List.map_cons, List.prod_cons]
      exact mul_pos hposstep hpos2
    · intro x hx
      rcases List.mem_cons.1 hx with rfl | hx
      · exact q5
      · exact i2 x hx

/-- every paired step has ratio 1 and exponent ±1 -/
theorem matchSpec_steps : ∀ (L : List Dim) (sF tF : Splat) (pl : List (Rough Rat)) (s' t' : Splat) (pl' : List (Rough Rat)),
    matchSpec L sF tF pl = some (s', t', pl') →
    (∀ x ∈ pl, x.ratio.val = 1 ∧ (x.exp = 1 ∨ x.exp = -1)) → ∀ x ∈ pl', x.ratio.val = 1 ∧ (x.exp = 1 ∨ x.exp = -1) := by
  intro L
  induction L with
  | nil =>
    intro sF tF pl s' t' pl' h hpl
    simp only [matchSpec, Option.some.injEq, Prod.mk.injEq] at h
    obtain ⟨_, _, rfl⟩ := h; exact hpl
  | cons d rest ih =>
    intro sF tF pl s' t' pl' h hpl
    unfold matchSpec at h
    cases hs : sF.cleanPop d with
    | error e => rw [hs] at h; simp at h
    | ok p1 =>
      cases ht' : tF.cleanPop d with
      | error e => rw [hs, ht'] at h; simp at h
      | ok p2 =>
        rw [hs, ht'] at h
        simp only at h
        apply ih _ _ _ _ _ _ h
        intro x hx
        rcases List.mem_append.1 hx with hx | hx
        · exact hpl x hx
        · simp only [List.mem_singleton] at hx; subst hx
          refine ⟨by simp [val_int], ?_⟩
          simp only [sgn]; split
          · exact Or.inr rfl
          · exact Or.inl rfl

theorem weight_number (n : Nat) : (Dim.number n).weight = 0 := by
  unfold Dim.number Dim.weight
  have key : ∀ (n a : Nat), (List.replicate n (0 : Int)).foldl (fun acc e => acc + e.natAbs) a = a := by
    intro n
    induction n with
    | zero => intro a; rfl
    | succ k ih => intro a; simp only [List.replicate_succ, List.foldl_cons, Int.natAbs_zero, Nat.add_zero]; exact ih a
  exact key n 0

theorem factorOK_weight {K : List Dim} (hKw : ∀ d ∈ K, d.weight ≤ 1) {s : St} {f : UId × Int} (h : FactorOK K s f) :
    (s.dimOfUnit f.1).weight ≤ 1 := by
  by_cases hf : f.2 < 0
  · have := hKw _ (h.1 hf).2
    rw [weight_pow_neg] at this; exact this
  · exact hKw _ (h.2 hf).2

/-- **Simple units on an approximately consistent graph** (the shipped definitions): whatever
    `convert` returns for a pair of simple units — through the direct path or through the factor
    planner — is right up to `W` factors in `[lb, ub]`, `W ≤ max(1, gcd) · (number of graph edges the
    plan walks)`. -/
theorem convert_simple_near {Z : Dim → Prop} (hZ : RootClosed Z) (hb : Bnd lb ub) (hsym : lb * ub = 1)
    (hσp : ∀ k, 0 < σ k) {K : List Dim} (hK : KeysOK K) (hKw : ∀ d ∈ K, d.weight ≤ 1)
    {c c' : Conv Rat} {q r : Qty Rat} {t : UId} {plan : List (Rough Rat)}
    (hg : GraphNear lb ub σ c) (hwf : GraphWF c) (hoff : OffRef c.st Z c.offsets)
    (hq : q.unit < c.st.units.length) (ht : t < c.st.units.length)
    (hzq : Z (c.st.dimOfUnit q.unit)) (hz1 : Z (c.st.dimOfUnit c.st.one))
    (hfs : ∀ f ∈ (c.st.unit! q.unit).factors,
      FactorOK K c.st f ∧ f.1 < c.st.units.length ∧ unitSz σ c.st f.1 = σ f.1 ∧ Z (c.st.dimOfUnit f.1))
    (hft : ∀ f ∈ (c.st.unit! t).factors,
      FactorOK K c.st f ∧ f.1 < c.st.units.length ∧ unitSz σ c.st f.1 = σ f.1)
    (hspec : matchSpec (splat c.st t).byComplexFirst (splat c.st q.unit) (splat c.st t) [] = some ([], [], plan))
    (h : CM.exec (convert q t) c = (.ok r, c')) :
    r.unit = t ∧ ∃ (X : Rat) (W : Nat) (P : Plan Rat),
      CM.exec (planConversion q.unit t) { c with st := (c.st.unprefixedUnit q.unit).1 } = (.ok P, c') ∧
      W ≤ Gd c.st q.unit * planHops P ∧
      r.mag.val * unitSz σ c.st t = q.mag.val * X ∧ Near lb ub W X (unitSz σ c.st q.unit) := by
  have hσ : ∀ k, σ k ≠ 0 := fun k => ne_of_gt (hσp k)
  obtain ⟨hru, P, hp, hval⟩ := convert_ok h
  refine ⟨hru, ?_⟩
  obtain ⟨ga, fa⟩ := unprefixStepN hg hq
  have wa := hwf.frameN hg fa
  obtain ⟨gb, p0, c2, hfp0, hplan⟩ := planConversion_directN ga (fa.lt hq) (fa.lt ht) hp
  have fb : CFrame { c with st := (c.st.unprefixedUnit q.unit).1 }
      { c with st := ((c.st.unprefixedUnit q.unit).1.unprefixedUnit t).1 } := (unprefixStepN ga (fa.lt ht)).2
  have wb := wa.frameN ga fb
  have fab := fa.trans fb
  by_cases hp0 : p0 = []
  · subst hp0
    obtain ⟨g2, w2, f2, _, _, _⟩ := findPath_near (s₀ := c.st) hZ hb hσp gb wb fab.ext (fab.lt hq) (fab.lt ht) hfp0
    have fab2 := fab.trans f2
    have hfacq : (((c.st.unprefixedUnit q.unit).1.unprefixedUnit t).1.unit! q.unit).factors = (c.st.unit! q.unit).factors :=
      (fab.ext.same q.unit hq).2.1
    have hfact : (((c.st.unprefixedUnit q.unit).1.unprefixedUnit t).1.unit! t).factors = (c.st.unit! t).factors :=
      (fab.ext.same t ht).2.1
    have hFOK : ∀ f, f.1 < c.st.units.length → FactorOK K c.st f →
        FactorOK K ((c.st.unprefixedUnit q.unit).1.unprefixedUnit t).1 f := by
      intro f hf hok
      unfold FactorOK at hok ⊢
      rw [fab.ext.dimOfUnit hf]; exact hok
    have hfs' : ∀ f ∈ (((c.st.unprefixedUnit q.unit).1.unprefixedUnit t).1.unit! q.unit).factors,
        FactorOK K ((c.st.unprefixedUnit q.unit).1.unprefixedUnit t).1 f := by
      rw [hfacq]; intro f hf; exact hFOK f (hfs f hf).2.1 (hfs f hf).1
    have hft' : ∀ f ∈ (((c.st.unprefixedUnit q.unit).1.unprefixedUnit t).1.unit! t).factors,
        FactorOK K ((c.st.unprefixedUnit q.unit).1.unprefixedUnit t).1 f := by
      rw [hfact]; intro f hf; exact hFOK f (hft f hf).2.1 (hft f hf).1
    have hsq : splat ((c.st.unprefixedUnit q.unit).1.unprefixedUnit t).1 q.unit = splat c.st q.unit :=
      splat_ext fab.ext hq (fun f hf => (hfs f hf).2.1)
    have hst : splat ((c.st.unprefixedUnit q.unit).1.unprefixedUnit t).1 t = splat c.st t :=
      splat_ext fab.ext ht (fun f hf => (hft f hf).2.1)
    have hpt : ((c.st.unprefixedUnit q.unit).1.unit! t).pfx = (c.st.unit! t).pfx := fa.pfx ht
    have hptpos : 0 < Pfx.val (c.st.unit! t).pfx := Pfx.val_pos (canon_pfx hg.canon ht)
    have hpqpos : 0 < Pfx.val (c.st.unit! q.unit).pfx := Pfx.val_pos (canon_pfx hg.canon hq)
    obtain ⟨head, hhead⟩ := recip_ok (m := (Pfx.value ((c.st.unprefixedUnit q.unit).1.unit! t).pfx : Mag Rat))
      (by rw [Pfx.value_val, hpt]; exact ne_of_gt hptpos)
    let z : UId → Rat := fun u => if u < c.st.units.length then unitSz σ c.st u else 1
    have hz : ∀ u, z u ≠ 0 := by
      intro u; simp only [z]; split
      · next hu => exact unitSz_ne_zero hσ hg.canon hu
      · exact one_ne_zero
    have hzv : ∀ u, u < c.st.units.length → z u = unitSz σ c.st u := by
      intro u hu; simp only [z, hu, ↓reduceIte]
    obtain ⟨hpc, hphi, hphis, hphit⟩ := planConversion_simple hK hKw z hz (c := { c with st := (c.st.unprefixedUnit q.unit).1 })
      hfs' hft' hhead hfp0 (by rw [hsq, hst]; exact hspec)
    rw [hpc] at hp
    rw [hsq, hst] at hphi
    rw [hfacq] at hphis
    rw [hfact] at hphit
    rw [hsq] at hphis
    rw [hst] at hphit
    have hone2 : c.st.one < c2.st.units.length := fab2.lt hg.inv.1.oneLt
    have hone' : ((c.st.unprefixedUnit q.unit).1).one = c.st.one := fa.ext.one
    obtain ⟨hhv, _⟩ := recip_val hhead
    rw [Pfx.value_val, hpt] at hhv
    -- the units the steps mention: valid, temperature-free, fundamental
    have hsteps : ∀ x ∈ plan, ∃ f1 ∈ (c.st.unit! q.unit).factors, ∃ f2 ∈ (c.st.unit! t).factors,
        x.start = f1.1 ∧ x.stop = f2.1 := by
      intro x hx
      rcases matchSpec_units _ _ _ _ _ _ _ hspec x hx with h0 | ⟨h1, h2⟩
      · cases h0
      · obtain ⟨f1, hf1, e1⟩ := splat_units c.st q.unit _ h1
        obtain ⟨f2', hf2, e2⟩ := splat_units c.st t _ h2
        exact ⟨f1, hf1, f2', hf2, e1.symm, e2.symm⟩
    have hre := matchSpec_steps _ _ _ _ _ _ _ hspec (by simp)
    have hvalid : ∀ x ∈ plan ++ [Rough.mk head ((c.st.unprefixedUnit q.unit).1).one ((c.st.unprefixedUnit q.unit).1).one 1],
        x.start < c2.st.units.length ∧ x.stop < c2.st.units.length ∧ Z (c2.st.dimOfUnit x.start) := by
      intro x hx
      rcases List.mem_append.1 hx with hx | hx
      · obtain ⟨f1, hf1, f2', hf2, e1, e2⟩ := hsteps x hx
        rw [e1, e2]
        exact ⟨fab2.lt (hfs f1 hf1).2.1, fab2.lt (hft f2' hf2).2.1, by rw [fab2.ext.dimOfUnit (hfs f1 hf1).2.1]; exact (hfs f1 hf1).2.2.2⟩
      · simp only [List.mem_singleton] at hx
        subst hx
        simp only [hone']
        exact ⟨hone2, hone2, by rw [fab2.ext.dimOfUnit hg.inv.1.oneLt]; exact hz1⟩
    have hoff2 : OffRef c.st Z c2.offsets := by rw [fab2.offsets]; exact hoff
    obtain ⟨g3, w3, f3, hall⟩ := inlinePaths_near hZ hb hσp _ c2 c' P g2 w2 fab2.ext hoff2 hvalid hp
    have hvalid2 : ∀ x ∈ plan ++ [Rough.mk head ((c.st.unprefixedUnit q.unit).1).one ((c.st.unprefixedUnit q.unit).1).one 1],
        x.start < c2.st.units.length ∧ x.stop < c2.st.units.length ∧ Gd c2.st x.start = 1 ∧ 0 < x.ratio.val ∧
          (x.exp = 1 ∨ x.exp = -1) := by
      intro x hx
      obtain ⟨v1, v2, _⟩ := hvalid x hx
      refine ⟨v1, v2, ?_⟩
      rcases List.mem_append.1 hx with hx | hx
      · obtain ⟨f1, hf1, f2', hf2, e1, e2⟩ := hsteps x hx
        obtain ⟨r1, r2⟩ := hre x hx
        refine ⟨?_, by rw [r1]; exact zero_lt_one, r2⟩
        rw [e1, Gd_ext fab2.ext (hfs f1 hf1).2.1]
        exact Gd_of_weight (factorOK_weight hKw (hfs f1 hf1).1)
      · simp only [List.mem_singleton] at hx
        subst hx
        simp only [hone']
        refine ⟨?_, by rw [hhv]; exact div_pos zero_lt_one hptpos, by simp⟩
        rw [Gd_ext fab2.ext hg.inv.1.oneLt]
        apply Gd_of_weight
        rw [hg.inv.1.oneNum, weight_number]
        exact Nat.zero_le 1
    obtain ⟨⟨W, hW, hnear⟩, _, hPoff⟩ := planValue_near hb hsym hσp g2.canon hall hvalid2
    refine ⟨Pfx.val (c.st.unit! q.unit).pfx * planValue P * unitSz σ c.st t, W, P, ?_, ?_, ?_, ?_⟩
    · rw [hpc]; exact hp
    · exact le_trans hW (Nat.le_mul_of_pos_left _ (Gd_pos _ _))
    · rw [hval, applyPlanV_offsetFree P hPoff, Pfx.value_val]; ring
    · -- the target value in terms of sizes
      have hstep : ∀ x ∈ plan, (unitSz σ c2.st x.start / unitSz σ c2.st x.stop) = z x.start / z x.stop := by
        intro x hx
        obtain ⟨f1, hf1, f2', hf2, e1, e2⟩ := hsteps x hx
        have v1 : x.start < c.st.units.length := by rw [e1]; exact (hfs f1 hf1).2.1
        have v2 : x.stop < c.st.units.length := by rw [e2]; exact (hft f2' hf2).2.1
        rw [fab2.sz v1, fab2.sz v2, hzv _ v1, hzv _ v2]
      have hprod : (plan.map (fun r => r.ratio.val * (unitSz σ c2.st r.start / unitSz σ c2.st r.stop) ^ r.exp)).prod =
          planVal z plan := by
        unfold planVal
        congr 1
        apply List.map_congr_left
        intro x hx
        rw [(hre x hx).1, hstep x hx, one_mul]
      simp only [List.map_append, List.map_cons, List.map_nil, List.prod_append, List.prod_cons, List.prod_nil, mul_one] at hnear
      rw [hprod] at hnear
      simp only [hone'] at hnear
      have hs1 := unitSz_ne_zero hσ g2.canon hone2
      rw [div_self hs1, one_zpow, mul_one, hhv] at hnear
      have hzs : (List.map (fun f => z f.1 ^ f.2) (c.st.unit! q.unit).factors).prod = sizeOf σ (c.st.unit! q.unit).factors :=
        prod_factors_sizeOf z _ (fun f hf => by rw [hzv _ (hfs f hf).2.1]; exact (hfs f hf).2.2.1)
      have hzt : (List.map (fun f => z f.1 ^ f.2) (c.st.unit! t).factors).prod = sizeOf σ (c.st.unit! t).factors :=
        prod_factors_sizeOf z _ (fun f hf => by rw [hzv _ (hft f hf).2.1]; exact (hft f hf).2.2)
      rw [hphis, hphit, hzs, hzt] at hphi
      have hst0 : 0 < sizeOf σ (c.st.unit! t).factors := sizeOf_pos hσp _
      have hk : 0 ≤ Pfx.val (c.st.unit! q.unit).pfx * unitSz σ c.st t :=
        le_of_lt (mul_pos hpqpos (unitSz_pos hσp hg.canon ht))
      have := near_scale (lb := lb) (ub := ub) _ hk hnear
      have e1 : Pfx.val (c.st.unit! q.unit).pfx * unitSz σ c.st t * planValue P =
          Pfx.val (c.st.unit! q.unit).pfx * planValue P * unitSz σ c.st t := by ring
      have e2 : Pfx.val (c.st.unit! q.unit).pfx * unitSz σ c.st t * (planVal z plan * (1 / Pfx.val (c.st.unit! t).pfx)) =
          unitSz σ c.st q.unit := by
        have hpv : planVal z plan = sizeOf σ (c.st.unit! q.unit).factors / sizeOf σ (c.st.unit! t).factors := by
          rw [eq_div_iff (ne_of_gt hst0)]; exact hphi.symm
        rw [hpv]
        unfold unitSz
        have := ne_of_gt hptpos
        have := ne_of_gt hst0
        field_simp
      rw [e1, e2] at this
      exact this
  · obtain ⟨_, d', c2', hfp', hd'⟩ := convert_direct_near hZ hb hσp hg hwf hq ht hoff hzq h
    rw [hfp0] at hfp'
    simp only [Prod.mk.injEq, Except.ok.injEq] at hfp'
    obtain ⟨rfl, rfl⟩ := hfp'
    obtain ⟨X, W, e, hW, hn⟩ := hd' hp0
    obtain ⟨head, _, hP, _⟩ := hplan hp0
    refine ⟨X, W, P, hp, ?_, e, hn⟩
    rw [hP]
    simp only [planHops, List.map_cons, List.map_nil, List.sum_cons, List.sum_nil, List.length_cons, List.length_nil]
    exact le_trans hW (Nat.mul_le_mul_left _ (by omega))

end Measured
