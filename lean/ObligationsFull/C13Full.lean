/- Thorough tier: the kernel-evaluated str/parse round trip over the whole family (≈ 4 min). -/
import Obligations.C13
namespace Measured.Obligations
open Measured Generated
theorem family_round_trip_full : roundTripFamilyFull.all roundTripCase = true := by decide +kernel
end Measured.Obligations
