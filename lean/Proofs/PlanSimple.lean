/-
  Proofs/PlanSimple.lean — the factor planner (`_replace_factors`, `_match_factors`,
  `_cancel_factors`, `_inline_paths`) on SIMPLE units: products of powers of base units whose
  dimensions are fundamental (weight one) and pairwise independent.
-/
import Proofs.PlanSingle

namespace Measured
open St

variable {σ : UId → Rat}

/-! ### loops that skip every element -/

theorem forIn_skip {α β : Type} (P : α → Prop) (f : α → β → CM Rat (ForInStep β))
    (hf : ∀ a b, P a → f a b = pure (ForInStep.yield b)) :
    ∀ (l : List α) (acc : β), (∀ a ∈ l, P a) → forIn l acc f = (pure acc : CM Rat β) := by
  intro l
  induction l with
  | nil => intro acc _; rfl
  | cons a rest ih =>
    intro acc h
    simp only [forIn, List.forIn'_cons] at ih ⊢
    rw [hf a acc (h a List.mem_cons_self)]
    simp only [pure_bind]
    exact ih acc (fun x hx => h x (List.mem_cons_of_mem _ hx))

/-! ### `_replace_factors` does nothing when every key is a fundamental dimension -/

theorem replaceFactors_lightAll (c : Conv Rat) (factors : Splat) (h : ∀ r ∈ factors, r.1.weight ≤ 1) :
    CM.exec (replaceFactors (α := Rat) factors) c = (.ok ([], factors), c) := by
  unfold replaceFactors
  simp only
  rw [exec_bind, exec_getSt]
  simp only
  unfold replaceFactors.outer
  simp only
  rw [exec_bind, exec_getSt]
  simp only
  rw [exec_bind, exec_getThe']
  simp only
  rw [forIn_skip (fun r : Dim × List UId => r.1.weight ≤ 1) _ (by intro a b ha; simp only [ha, ↓reduceIte]) factors [] h]
  simp only [pure_bind, List.isEmpty_nil, ↓reduceIte, exec_pure]

/-! ### `_match_factors` on independent keys -/

/-- The dimensions that may occur as keys: each a factor of itself (and `d/d` is Number, `d` is not),
    no one a factor of another. -/
structure KeysOK (K : List Dim) : Prop where
  self  : ∀ d ∈ K, d.isFactor d = true ∧ (d.div d).isNumber = true ∧ d.isNumber = false
  indep : ∀ d ∈ K, ∀ d' ∈ K, d' ≠ d → d'.isFactor d = false

theorem matchCollect_hit {K : List Dim} (hK : KeysOK K) {d : Dim} (hd : d ∈ K) :
    ∀ (L : List Dim), (∀ x ∈ L, x ∈ K) → d ∈ L → matchCollect L [] d = ([d], d.div d) := by
  intro L
  induction L with
  | nil => intro _ h; cases h
  | cons x rest ih =>
    intro hL hmem
    obtain ⟨hs1, hs2, hs3⟩ := hK.self d hd
    unfold matchCollect
    by_cases hx : x = d
    · subst hx
      simp only [hs1, ↓reduceIte, List.nil_append, hs2]
    · have hxK := hL x List.mem_cons_self
      have hnf := hK.indep d hd x hxK hx
      simp only [hnf, Bool.false_eq_true, ↓reduceIte, hs3]
      have hmem' : d ∈ rest := by
        rcases List.mem_cons.1 hmem with h | h
        · exact absurd h.symm hx
        · exact h
      exact ih (fun y hy => hL y (List.mem_cons_of_mem _ hy)) hmem'

theorem mulUnits_single (c : Conv Rat) (u : UId) : CM.exec (mulUnits (α := Rat) [u]) c = (.ok u, c) := by
  unfold mulUnits
  simp only [List.foldlM_nil, exec_pure]

/-- One iteration of the outer loop pairs the first units under the key `d` on both sides. -/
theorem matchStep_pair {K : List Dim} (hK : KeysOK K) (c : Conv Rat) {d : Dim} (hd : d ∈ K)
    {sF tF sF' tF' : Splat} {plan : List (Rough Rat)} {u v : UId}
    (hL : ∀ x ∈ sF.byComplexFirst, x ∈ K) (hmem : d ∈ sF.byComplexFirst)
    (hs : sF.cleanPop d = .ok (u, sF')) (ht : tF.cleanPop d = .ok (v, tF')) :
    CM.exec (matchStep (α := Rat) (sF, tF, plan) d) c =
      (.ok (sF', tF', plan ++ [Rough.mk (.int 1) u v (if d.any (fun x => decide (x < 0)) then (-1 : Int) else 1)]), c) := by
  unfold matchStep
  simp only
  rw [matchCollect_hit hK hd _ hL hmem]
  simp only [List.foldl_nil, bne_self_eq_false, Bool.false_eq_true, ↓reduceIte, popAll, hs]
  rw [exec_bind, exec_liftE]
  simp only [List.nil_append]
  rw [exec_bind, mulUnits_single]
  simp only
  rw [exec_bind, exec_liftE, ht]
  simp only [exec_pure]

/-! ### popping, keys and the potential Φ -/

theorem mem_byComplexFirst {f : Splat} {x : Dim} :
    x ∈ f.byComplexFirst ↔ ∃ r ∈ f, r.1 = x ∧ r.2 ≠ [] := by
  unfold Splat.byComplexFirst
  simp only
  rw [(isort_perm _ _).mem_iff, List.mem_flatMap]
  constructor
  · rintro ⟨r, hr, hx⟩
    rcases List.mem_map.1 hx with ⟨u, hu, rfl⟩
    exact ⟨r, hr, rfl, by intro h; rw [h] at hu; cases hu⟩
  · rintro ⟨r, hr, rfl, hne⟩
    cases hr2 : r.2 with
    | nil => exact absurd hr2 hne
    | cons u rest => exact ⟨r, hr, by rw [hr2]; simp⟩

def sgn (d : Dim) : Int := if d.any (fun x => decide (x < 0)) then -1 else 1

/-- ∏ over all listed units of (size)^(sign of the key) -/
def phi (z : UId → Rat) (f : Splat) : Rat :=
  (f.map (fun r => (r.2.map (fun u => z u ^ sgn r.1)).prod)).prod

@[simp] theorem phi_nil (z : UId → Rat) : phi z [] = 1 := rfl
theorem phi_cons (z : UId → Rat) (r : Dim × List UId) (f : Splat) :
    phi z (r :: f) = (r.2.map (fun u => z u ^ sgn r.1)).prod * phi z f := by
  unfold phi; simp

def NodupKeysS (f : Splat) : Prop := (f.map (·.1)).Nodup

theorem cleanPop_spec {f f' : Splat} {d : Dim} {u : UId} (hn : NodupKeysS f) (h : f.cleanPop d = .ok (u, f'))
    (z : UId → Rat) :
    d ∈ f.byComplexFirst ∧ (∀ x ∈ f'.byComplexFirst, x ∈ f.byComplexFirst) ∧ NodupKeysS f' ∧
      phi z f = z u ^ sgn d * phi z f' := by
  induction f generalizing f' with
  | nil => simp [Splat.cleanPop, Splat.get?] at h
  | cons r rest ih =>
    unfold NodupKeysS at hn
    simp only [List.map_cons, List.nodup_cons] at hn
    obtain ⟨hnot, hn'⟩ := hn
    by_cases hr : (r.1 == d) = true
    · have hrd : r.1 = d := by simpa using hr
      have hrest : ∀ q ∈ rest, (q.1 == d) = false := by
        intro q hq
        have : q.1 ≠ d := by
          intro hqd
          apply hnot
          rw [hrd, ← hqd]
          exact List.mem_map.2 ⟨q, hq, rfl⟩
        simpa using this
      unfold Splat.cleanPop Splat.get? at h
      simp only [List.find?_cons, hr] at h
      cases hr2 : r.2 with
      | nil => rw [hr2] at h; simp at h
      | cons u0 us =>
        rw [hr2] at h
        simp only at h
        have hmemd : d ∈ Splat.byComplexFirst (r :: rest) :=
          mem_byComplexFirst.2 ⟨r, List.mem_cons_self, hrd, by rw [hr2]; simp⟩
        by_cases hus : us.isEmpty = true
        · simp only [hus, ↓reduceIte, Except.ok.injEq, Prod.mk.injEq] at h
          obtain ⟨rfl, rfl⟩ := h
          have hfilt : List.filter (fun q => q.1 != d) (r :: rest) = rest := by
            rw [List.filter_cons]
            have : (r.1 != d) = false := by simp [hrd]
            simp only [this, Bool.false_eq_true, ↓reduceIte]
            apply List.filter_eq_self.2
            intro q hq
            have := hrest q hq
            simp only [bne_iff_ne, ne_eq]
            intro hqd; rw [hqd] at this; simp at this
          rw [hfilt]
          have husnil : us = [] := by cases us with | nil => rfl | cons _ _ => simp at hus
          refine ⟨hmemd, ?_, hn', ?_⟩
          · intro x hx
            obtain ⟨q, hq, hq1, hq2⟩ := mem_byComplexFirst.1 hx
            exact mem_byComplexFirst.2 ⟨q, List.mem_cons_of_mem _ hq, hq1, hq2⟩
          · rw [phi_cons, hr2, husnil, hrd]; simp
        · simp only [hus, Bool.false_eq_true, ↓reduceIte, Except.ok.injEq, Prod.mk.injEq] at h
          obtain ⟨rfl, rfl⟩ := h
          have hmap : List.map (fun q => if (q.1 == d) = true then (d, us) else q) (r :: rest) = (d, us) :: rest := by
            rw [List.map_cons]
            simp only [hr, ↓reduceIte]
            congr 1
            have : ∀ q ∈ rest, (if (q.1 == d) = true then (d, us) else q) = q := by
              intro q hq
              simp only [hrest q hq, Bool.false_eq_true, ↓reduceIte]
            rw [List.map_congr_left this, List.map_id']
          rw [hmap]
          have husne : us ≠ [] := by intro hh; rw [hh] at hus; simp at hus
          refine ⟨hmemd, ?_, ?_, ?_⟩
          · intro x hx
            obtain ⟨q, hq, hq1, hq2⟩ := mem_byComplexFirst.1 hx
            rcases List.mem_cons.1 hq with rfl | hq
            · simp only at hq1; rw [← hq1]; exact hmemd
            · exact mem_byComplexFirst.2 ⟨q, List.mem_cons_of_mem _ hq, hq1, hq2⟩
          · unfold NodupKeysS
            simp only [List.map_cons, List.nodup_cons]
            exact ⟨by rw [← hrd]; exact hnot, hn'⟩
          · rw [phi_cons, phi_cons, hr2, hrd]
            simp only [List.map_cons, List.prod_cons]
            ring
    · have hr' : (r.1 == d) = false := by simpa using hr
      -- the key is further down: the head row is untouched
      have hget : Splat.get? (r :: rest) d = Splat.get? rest d := by
        unfold Splat.get?; simp only [List.find?_cons, hr']
      unfold Splat.cleanPop at h
      rw [hget] at h
      cases hg : Splat.get? rest d with
      | none => rw [hg] at h; simp at h
      | some l =>
        rw [hg] at h
        cases l with
        | nil => simp at h
        | cons u0 us =>
          simp only at h
          have hne : (r.1 != d) = true := by
            simp only [bne_iff_ne, ne_eq]; intro hh; rw [hh] at hr'; simp at hr'
          by_cases hus : us.isEmpty = true
          · simp only [hus, ↓reduceIte, Except.ok.injEq, Prod.mk.injEq] at h
            obtain ⟨rfl, rfl⟩ := h
            have hrec : Splat.cleanPop rest d = .ok (u0, rest.filter (fun q => q.1 != d)) := by
              unfold Splat.cleanPop; rw [hg]; simp [hus]
            obtain ⟨i1, i2, i3, i4⟩ := ih hn' hrec
            rw [List.filter_cons]
            simp only [hne, ↓reduceIte]
            refine ⟨?_, ?_, ?_, ?_⟩
            · obtain ⟨q, hq, hq1, hq2⟩ := mem_byComplexFirst.1 i1
              exact mem_byComplexFirst.2 ⟨q, List.mem_cons_of_mem _ hq, hq1, hq2⟩
            · intro x hx
              obtain ⟨q, hq, hq1, hq2⟩ := mem_byComplexFirst.1 hx
              rcases List.mem_cons.1 hq with rfl | hq
              · exact mem_byComplexFirst.2 ⟨q, List.mem_cons_self, hq1, hq2⟩
              · obtain ⟨q', hq', h1', h2'⟩ := mem_byComplexFirst.1 (i2 x (mem_byComplexFirst.2 ⟨q, hq, hq1, hq2⟩))
                exact mem_byComplexFirst.2 ⟨q', List.mem_cons_of_mem _ hq', h1', h2'⟩
            · unfold NodupKeysS at i3 ⊢
              simp only [List.map_cons, List.nodup_cons]
              refine ⟨?_, i3⟩
              intro hmem
              apply hnot
              rcases List.mem_map.1 hmem with ⟨q, hq, hq1⟩
              exact List.mem_map.2 ⟨q, (List.mem_filter.1 hq).1, hq1⟩
            · rw [phi_cons, phi_cons, i4]; ring
          · simp only [hus, Bool.false_eq_true, ↓reduceIte, Except.ok.injEq, Prod.mk.injEq] at h
            obtain ⟨rfl, rfl⟩ := h
            have hrec : Splat.cleanPop rest d = .ok (u0, rest.map (fun q => if q.1 == d then (d, us) else q)) := by
              unfold Splat.cleanPop; rw [hg]; simp [hus]
            obtain ⟨i1, i2, i3, i4⟩ := ih hn' hrec
            rw [List.map_cons]
            simp only [hr', Bool.false_eq_true, ↓reduceIte]
            refine ⟨?_, ?_, ?_, ?_⟩
            · obtain ⟨q, hq, hq1, hq2⟩ := mem_byComplexFirst.1 i1
              exact mem_byComplexFirst.2 ⟨q, List.mem_cons_of_mem _ hq, hq1, hq2⟩
            · intro x hx
              obtain ⟨q, hq, hq1, hq2⟩ := mem_byComplexFirst.1 hx
              rcases List.mem_cons.1 hq with rfl | hq
              · exact mem_byComplexFirst.2 ⟨q, List.mem_cons_self, hq1, hq2⟩
              · obtain ⟨q', hq', h1', h2'⟩ := mem_byComplexFirst.1 (i2 x (mem_byComplexFirst.2 ⟨q, hq, hq1, hq2⟩))
                exact mem_byComplexFirst.2 ⟨q', List.mem_cons_of_mem _ hq', h1', h2'⟩
            · unfold NodupKeysS at i3 ⊢
              simp only [List.map_cons, List.nodup_cons]
              refine ⟨?_, i3⟩
              intro hmem
              apply hnot
              rcases List.mem_map.1 hmem with ⟨q, hq, hq1⟩
              rcases List.mem_map.1 hq with ⟨q0, hq0, rfl⟩
              by_cases hq0d : (q0.1 == d) = true
              · simp only [hq0d, ↓reduceIte] at hq1
                have : q0.1 = d := by simpa using hq0d
                exact List.mem_map.2 ⟨q0, hq0, by rw [this, hq1]⟩
              · simp only [hq0d, Bool.false_eq_true, ↓reduceIte] at hq1
                exact List.mem_map.2 ⟨q0, hq0, hq1⟩
            · rw [phi_cons, phi_cons, i4]; ring

/-! ### the outer loop -/

/-- What `_match_factors` computes on independent keys: pair, key by key, the first units. -/
def matchSpec : List Dim → Splat → Splat → List (Rough Rat) → Option (Splat × Splat × List (Rough Rat))
  | [], s, t, plan => some (s, t, plan)
  | d :: rest, s, t, plan =>
    match s.cleanPop d, t.cleanPop d with
    | .ok (u, s'), .ok (v, t') => matchSpec rest s' t' (plan ++ [Rough.mk (.int 1) u v (sgn d)])
    | _, _ => none

/-- ∏ (size start / size stop)^exp over rough plan steps -/
def planVal (z : UId → Rat) (plan : List (Rough Rat)) : Rat :=
  (plan.map (fun r => (z r.start / z r.stop) ^ r.exp)).prod

theorem match_loop {K : List Dim} (hK : KeysOK K) (c : Conv Rat) (z : UId → Rat) (hz : ∀ u, z u ≠ 0) :
    ∀ (L : List Dim) (sF tF : Splat) (plan : List (Rough Rat)) (s' t' : Splat) (plan' : List (Rough Rat)),
      (∀ d ∈ L, d ∈ K) → (∀ x ∈ sF.byComplexFirst, x ∈ K) → NodupKeysS sF → NodupKeysS tF →
      matchSpec L sF tF plan = some (s', t', plan') →
      CM.exec (L.foldlM (matchStep (α := Rat)) (sF, tF, plan)) c = (.ok (s', t', plan'), c) ∧
      (∃ new, plan' = plan ++ new ∧ phi z sF * phi z t' = planVal z new * (phi z s' * phi z tF)) := by
  intro L
  induction L with
  | nil =>
    intro sF tF plan s' t' plan' _ _ _ _ h
    simp only [matchSpec, Option.some.injEq, Prod.mk.injEq] at h
    obtain ⟨rfl, rfl, rfl⟩ := h
    exact ⟨rfl, [], by simp, by simp [planVal, mul_comm]⟩
  | cons d rest ih =>
    intro sF tF plan s' t' plan' hL hsK hns hnt h
    unfold matchSpec at h
    cases hs : sF.cleanPop d with
    | error e => rw [hs] at h; simp at h
    | ok p1 =>
      obtain ⟨u, s1⟩ := p1
      cases ht : tF.cleanPop d with
      | error e => rw [hs, ht] at h; simp at h
      | ok p2 =>
        obtain ⟨v, t1⟩ := p2
        rw [hs, ht] at h
        simp only at h
        obtain ⟨a1, a2, a3, a4⟩ := cleanPop_spec hns hs z
        obtain ⟨_, _, b3, b4⟩ := cleanPop_spec hnt ht z
        have hdK := hL d List.mem_cons_self
        obtain ⟨hexec, new, hnew, hphi⟩ := ih s1 t1 _ s' t' plan' (fun x hx => hL x (List.mem_cons_of_mem _ hx))
          (fun x hx => hsK x (a2 x hx)) a3 b3 h
        refine ⟨?_, Rough.mk (.int 1) u v (sgn d) :: new, by rw [hnew]; simp, ?_⟩
        · simp only [List.foldlM_cons]
          rw [exec_bind, matchStep_pair hK c hdK hsK a1 hs ht]
          exact hexec
        · rw [a4, b4]
          simp only [planVal, List.map_cons, List.prod_cons] at hphi ⊢
          have hv := hz v
          rw [div_zpow]
          have hvz : z v ^ sgn d ≠ 0 := zpow_ne_zero _ hv
          field_simp
          calc z u ^ sgn d * phi z s1 * phi z t'
              = z u ^ sgn d * (phi z s1 * phi z t') := by ring
            _ = z u ^ sgn d * ((List.map (fun r => (z r.start / z r.stop) ^ r.exp) new).prod * (phi z s' * phi z t1)) := by
                rw [hphi]
            _ = _ := by ring

/-! ### `_inline_paths` and the value of the resulting plan -/

/-- an inlined step realises its rough step: same ratio and exponent, a path whose scales multiply to
    size(start)/size(stop), no offsets -/
def StepOK (σ : UId → Rat) (s : St) (r : Rough Rat) (p : PlanStep Rat) : Prop :=
  p.ratio = r.ratio ∧ p.exp = r.exp ∧ pathScale p.path * unitSz σ s r.stop = unitSz σ s r.start ∧
    (∀ h ∈ p.path, h.offset.val = 0)

theorem stepOK_transfer {c c0 : Conv Rat} (f0 : CFrame c c0) :
    ∀ {plan : List (Rough Rat)} {P : Plan Rat}, List.Forall₂ (StepOK σ c0.st) plan P →
    (∀ x ∈ plan, x.start < c.st.units.length ∧ x.stop < c.st.units.length) →
    List.Forall₂ (StepOK σ c.st) plan P := by
  intro plan P h
  induction h with
  | nil => intro _; exact List.Forall₂.nil
  | @cons a b l1 l2 hab _ ih =>
    intro hv
    obtain ⟨q1, q2, q3, q4⟩ := hab
    obtain ⟨ha1, ha2⟩ := hv a List.mem_cons_self
    refine List.Forall₂.cons ⟨q1, q2, ?_, q4⟩ (ih (fun x hx => hv x (List.mem_cons_of_mem _ hx)))
    rw [← f0.sz ha1, ← f0.sz ha2]; exact q3

theorem inlinePaths_sound : ∀ (plan : List (Rough Rat)) (c c' : Conv Rat) (P : Plan Rat),
    GraphOK σ c → c.offsets = [] → (∀ r ∈ plan, r.start < c.st.units.length ∧ r.stop < c.st.units.length) →
    CM.exec (inlinePaths plan) c = (.ok P, c') →
    GraphOK σ c' ∧ CFrame c c' ∧ List.Forall₂ (StepOK σ c.st) plan P := by
  intro plan
  induction plan with
  | nil =>
    intro c c' P hg _ _ hx
    unfold inlinePaths at hx
    simp only [List.mapM_nil, exec_pure, Prod.mk.injEq, Except.ok.injEq] at hx
    obtain ⟨rfl, rfl⟩ := hx
    exact ⟨hg, CFrame.refl _, List.Forall₂.nil⟩
  | cons r rest ih =>
    intro c c' P hg hoff hv hx
    unfold inlinePaths at hx
    simp only [List.mapM_cons] at hx
    obtain ⟨p, c1, h1, hx⟩ := exec_bind_ok hx
    obtain ⟨path, c0, h0, h1⟩ := exec_bind_ok h1
    obtain ⟨hrs, hrt⟩ := hv r List.mem_cons_self
    obtain ⟨g0, f0, hps, _, hpo⟩ := findPath_sound hg hrs hrt h0
    by_cases hpe : path.isEmpty = true
    · simp only [hpe, ↓reduceIte] at h1
      rw [exec_bind, exec_throw] at h1; simp at h1
    · simp only [hpe, Bool.false_eq_true, ↓reduceIte, exec_pure, Prod.mk.injEq, Except.ok.injEq] at h1
      obtain ⟨rfl, rfl⟩ := h1
      have hne : path ≠ [] := by intro h; rw [h] at hpe; simp at hpe
      obtain ⟨Ps, c2, h2, hx⟩ := exec_bind_ok hx
      rw [exec_pure] at hx
      simp only [Prod.mk.injEq, Except.ok.injEq] at hx
      obtain ⟨rfl, rfl⟩ := hx
      have h2' : CM.exec (inlinePaths rest) c0 = (.ok Ps, c2) := by unfold inlinePaths; exact h2
      obtain ⟨g2, f2, hall⟩ := ih c0 c2 Ps g0 (by rw [f0.offsets]; exact hoff)
        (fun x hx => ⟨f0.lt (hv x (List.mem_cons_of_mem _ hx)).1, f0.lt (hv x (List.mem_cons_of_mem _ hx)).2⟩) h2'
      refine ⟨g2, f0.trans f2, List.Forall₂.cons ⟨rfl, rfl, hps hne, hpo hoff⟩ ?_⟩
      exact stepOK_transfer f0 hall (fun x hx => hv x (List.mem_cons_of_mem _ hx))

theorem applyPathV_pow (e : Int) (p : List (Hop Rat)) (hz : ∀ h ∈ p, h.offset.val = 0) (m : Rat) :
    applyPathV e m (p.map Hop.toV) = m * pathScale p ^ e := by
  induction p generalizing m with
  | nil => simp [applyPathV]
  | cons h t ih =>
    simp only [List.map_cons, applyPathV, Hop.toV, pathScale_cons]
    rw [ih (fun x hx => hz x (List.mem_cons_of_mem _ hx)), hz h List.mem_cons_self, mul_zpow]
    ring

/-- ∏ ratio · (∏ scales)^exp over the steps of a plan -/
def planValue (P : Plan Rat) : Rat := (P.map (fun p => p.ratio.val * pathScale p.path ^ p.exp)).prod

theorem applyPlanV_offsetFree (P : Plan Rat) (hz : ∀ p ∈ P, ∀ h ∈ p.path, h.offset.val = 0) (m : Rat) :
    applyPlanV m (P.map PlanStep.toV) = m * planValue P := by
  induction P generalizing m with
  | nil => simp [applyPlanV, planValue]
  | cons p rest ih =>
    simp only [List.map_cons, applyPlanV, PlanStep.toV]
    rw [applyPathV_pow p.exp p.path (hz p List.mem_cons_self), ih (fun x hx => hz x (List.mem_cons_of_mem _ hx))]
    simp only [planValue, List.map_cons, List.prod_cons]
    ring

/-- the value of an inlined plan in terms of sizes -/
theorem planValue_of_steps (hσ : ∀ k, σ k ≠ 0) {s : St} (hc : Canon s) :
    ∀ {plan : List (Rough Rat)} {P : Plan Rat}, List.Forall₂ (StepOK σ s) plan P →
    (∀ r ∈ plan, r.stop < s.units.length) →
    planValue P = (plan.map (fun r => r.ratio.val * (unitSz σ s r.start / unitSz σ s r.stop) ^ r.exp)).prod ∧
      (∀ p ∈ P, ∀ h ∈ p.path, h.offset.val = 0) := by
  intro plan P h
  induction h with
  | nil => intro _; exact ⟨rfl, by simp⟩
  | @cons r p l1 l2 hab _ ih =>
    intro hv
    obtain ⟨q1, q2, q3, q4⟩ := hab
    obtain ⟨i1, i2⟩ := ih (fun x hx => hv x (List.mem_cons_of_mem _ hx))
    have hs := unitSz_ne_zero hσ hc (hv r List.mem_cons_self)
    refine ⟨?_, ?_⟩
    · simp only [planValue, List.map_cons, List.prod_cons] at i1 ⊢
      rw [i1, q1, q2]
      have : pathScale p.path = unitSz σ s r.start / unitSz σ s r.stop := by
        rw [eq_div_iff hs]; exact q3
      rw [this]
    · intro x hx
      rcases List.mem_cons.1 hx with rfl | hx
      · exact q4
      · exact i2 x hx

/-! ### `_splat` and the potential -/

theorem extend_spec {f : Splat} (hn : NodupKeysS f) (d : Dim) (us : List UId) (z : UId → Rat) :
    NodupKeysS (f.extend d us) ∧ phi z (f.extend d us) = phi z f * (us.map (fun u => z u ^ sgn d)).prod ∧
      (∀ r ∈ f.extend d us, r.1 = d ∨ ∃ r' ∈ f, r'.1 = r.1) := by
  unfold Splat.extend
  by_cases hany : (f.any (fun r => r.1 == d)) = true
  · simp only [hany, ↓reduceIte]
    refine ⟨?_, ?_, ?_⟩
    · unfold NodupKeysS at hn ⊢
      have : (f.map (fun r => if (r.1 == d) = true then (d, r.2 ++ us) else r)).map (·.1) = f.map (·.1) := by
        rw [List.map_map]
        apply List.map_congr_left
        intro r _
        by_cases h : (r.1 == d) = true
        · simp only [Function.comp, h, ↓reduceIte]; exact (by simpa using h : r.1 = d).symm
        · simp only [Function.comp, h, Bool.false_eq_true, ↓reduceIte]
      rw [this]; exact hn
    · induction f with
      | nil => simp at hany
      | cons r rest ih =>
        unfold NodupKeysS at hn
        simp only [List.map_cons, List.nodup_cons] at hn
        obtain ⟨hnot, hn'⟩ := hn
        by_cases hr : (r.1 == d) = true
        · have hrd : r.1 = d := by simpa using hr
          have hrest : ∀ q ∈ rest, (if (q.1 == d) = true then (d, q.2 ++ us) else q) = q := by
            intro q hq
            have : (q.1 == d) = false := by
              have : q.1 ≠ d := by
                intro hqd; apply hnot; rw [hrd, ← hqd]; exact List.mem_map.2 ⟨q, hq, rfl⟩
              simpa using this
            simp only [this, Bool.false_eq_true, ↓reduceIte]
          simp only [List.map_cons, hr, ↓reduceIte]
          rw [List.map_congr_left hrest, List.map_id', phi_cons, phi_cons, hrd]
          simp only [List.map_append, List.prod_append]
          ring
        · have hany' : (rest.any (fun r => r.1 == d)) = true := by
            simp only [List.any_cons, Bool.or_eq_true] at hany
            rcases hany with h | h
            · exact absurd h hr
            · exact h
          simp only [List.map_cons, hr, Bool.false_eq_true, ↓reduceIte]
          rw [phi_cons, phi_cons, ih hn' hany']
          ring
    · intro r hr
      rcases List.mem_map.1 hr with ⟨q, hq, rfl⟩
      by_cases h : (q.1 == d) = true
      · left; simp only [h, ↓reduceIte]
      · right; simp only [h, Bool.false_eq_true, ↓reduceIte]; exact ⟨q, hq, rfl⟩
  · simp only [hany, Bool.false_eq_true, ↓reduceIte]
    refine ⟨?_, ?_, ?_⟩
    · unfold NodupKeysS at hn ⊢
      simp only [List.map_append, List.map_cons, List.map_nil]
      rw [List.nodup_append]
      refine ⟨hn, by simp, ?_⟩
      intro a ha b hb
      simp only [List.mem_singleton] at hb
      subst hb
      intro hab
      subst hab
      apply hany
      rcases List.mem_map.1 ha with ⟨q, hq, hq1⟩
      exact List.any_eq_true.2 ⟨q, hq, by simp [hq1]⟩
    · unfold phi
      simp only [List.map_append, List.map_cons, List.map_nil, List.prod_append, List.prod_cons, List.prod_nil, mul_one]
    · intro r hr
      rcases List.mem_append.1 hr with h | h
      · exact Or.inr ⟨r, h, rfl⟩
      · simp only [List.mem_singleton] at h; left; rw [h]

theorem prod_replicate_pow (z : UId → Rat) (u : UId) (g : Int) (n : Nat) :
    ((List.replicate n u).map (fun u => z u ^ g)).prod = z u ^ (g * n) := by
  induction n with
  | zero => simp
  | succ k ih =>
    simp only [List.replicate_succ, List.map_cons, List.prod_cons, ih]
    by_cases hz : z u = 0
    · rw [hz]
      by_cases hg : g = 0
      · simp [hg]
      · have h1 : g * ((k + 1 : Nat) : Int) ≠ 0 := by
          apply mul_ne_zero hg; exact_mod_cast Nat.succ_ne_zero k
        rw [zero_zpow _ hg, zero_zpow _ h1]; simp
    · rw [← zpow_add₀ hz]; congr 1; push_cast; ring

/-- what the per-factor hypotheses say: the key used for the factor is in `K` and has the right sign -/
def FactorOK (K : List Dim) (s : St) (f : UId × Int) : Prop :=
  (f.2 < 0 → sgn ((s.dimOfUnit f.1).pow (-1)) = -1 ∧ (s.dimOfUnit f.1).pow (-1) ∈ K) ∧
  (¬ f.2 < 0 → sgn (s.dimOfUnit f.1) = 1 ∧ s.dimOfUnit f.1 ∈ K)

theorem splat_spec (K : List Dim) (s : St) (z : UId → Rat) :
    ∀ (fs : Factors) (acc : Splat), NodupKeysS acc → (∀ r ∈ acc, r.1 ∈ K) → (∀ f ∈ fs, FactorOK K s f) →
    NodupKeysS (fs.foldl (fun acc f =>
        if f.2 < 0 then acc.extend ((s.dimOfUnit f.1).pow (-1)) (List.replicate f.2.natAbs f.1)
        else acc.extend (s.dimOfUnit f.1) (List.replicate f.2.toNat f.1)) acc) ∧
    (∀ r ∈ (fs.foldl (fun acc f =>
        if f.2 < 0 then acc.extend ((s.dimOfUnit f.1).pow (-1)) (List.replicate f.2.natAbs f.1)
        else acc.extend (s.dimOfUnit f.1) (List.replicate f.2.toNat f.1)) acc), r.1 ∈ K) ∧
    phi z (fs.foldl (fun acc f =>
        if f.2 < 0 then acc.extend ((s.dimOfUnit f.1).pow (-1)) (List.replicate f.2.natAbs f.1)
        else acc.extend (s.dimOfUnit f.1) (List.replicate f.2.toNat f.1)) acc) =
      phi z acc * (fs.map (fun f => z f.1 ^ f.2)).prod := by
  intro fs
  induction fs with
  | nil => intro acc hn hk _; exact ⟨hn, hk, by simp⟩
  | cons f rest ih =>
    intro acc hn hk hf
    obtain ⟨hneg, hpos⟩ := hf f List.mem_cons_self
    simp only [List.foldl_cons]
    by_cases hlt : f.2 < 0
    · simp only [hlt, ↓reduceIte]
      obtain ⟨hsg, hkey⟩ := hneg hlt
      obtain ⟨e1, e2, e3⟩ := extend_spec hn ((s.dimOfUnit f.1).pow (-1)) (List.replicate f.2.natAbs f.1) z
      obtain ⟨i1, i2, i3⟩ := ih _ e1 (by
        intro r hr
        rcases e3 r hr with h | ⟨r', hr', h⟩
        · rw [h]; exact hkey
        · rw [← h]; exact hk r' hr') (fun x hx => hf x (List.mem_cons_of_mem _ hx))
      refine ⟨i1, i2, ?_⟩
      rw [i3, e2, prod_replicate_pow, hsg]
      simp only [List.map_cons, List.prod_cons]
      have : (-1 : Int) * (f.2.natAbs : Int) = f.2 := by omega
      rw [this]; ring
    · simp only [hlt, ↓reduceIte]
      obtain ⟨hsg, hkey⟩ := hpos hlt
      obtain ⟨e1, e2, e3⟩ := extend_spec hn (s.dimOfUnit f.1) (List.replicate f.2.toNat f.1) z
      obtain ⟨i1, i2, i3⟩ := ih _ e1 (by
        intro r hr
        rcases e3 r hr with h | ⟨r', hr', h⟩
        · rw [h]; exact hkey
        · rw [← h]; exact hk r' hr') (fun x hx => hf x (List.mem_cons_of_mem _ hx))
      refine ⟨i1, i2, ?_⟩
      rw [i3, e2, prod_replicate_pow, hsg]
      simp only [List.map_cons, List.prod_cons]
      have : (1 : Int) * (f.2.toNat : Int) = f.2 := by omega
      rw [this]; ring

/-! ### `_plan_conversion` and `convert` on simple units -/

theorem matchFactors_simple {K : List Dim} (hK : KeysOK K) (c : Conv Rat) (z : UId → Rat) (hz : ∀ u, z u ≠ 0)
    {sF tF : Splat} {plan : List (Rough Rat)}
    (hsK : ∀ x ∈ sF.byComplexFirst, x ∈ K) (htK : ∀ x ∈ tF.byComplexFirst, x ∈ K)
    (hns : NodupKeysS sF) (hnt : NodupKeysS tF)
    (hspec : matchSpec tF.byComplexFirst sF tF [] = some ([], [], plan)) :
    CM.exec (matchFactors (α := Rat) sF tF) c = (.ok (plan, [], []), c) ∧ phi z sF = planVal z plan * phi z tF := by
  obtain ⟨hexec, new, hnew, hphi⟩ := match_loop hK c z hz tF.byComplexFirst sF tF [] [] [] plan htK hsK hns hnt hspec
  refine ⟨?_, ?_⟩
  · unfold matchFactors
    rw [exec_bind, hexec]
    simp only [exec_pure]
  · simp only [List.nil_append] at hnew
    subst hnew
    simp only [phi_nil, mul_one, one_mul] at hphi
    exact hphi

theorem splat_eq_foldl (s : St) (a : UId) :
    splat s a = (s.unit! a).factors.foldl (fun (acc : Splat) f =>
        if f.2 < 0 then acc.extend ((s.dimOfUnit f.1).pow (-1)) (List.replicate f.2.natAbs f.1)
        else acc.extend (s.dimOfUnit f.1) (List.replicate f.2.toNat f.1)) ([] : Splat) := rfl

/-- the factor planner reduces `_plan_conversion` to inlining the paired steps -/
theorem planConversion_simple {K : List Dim} (hK : KeysOK K) (hKw : ∀ d ∈ K, d.weight ≤ 1)
    (z : UId → Rat) (hz : ∀ u, z u ≠ 0) {c c2 : Conv Rat} {start stop : UId} {plan : List (Rough Rat)} {head : Mag Rat}
    (hfs : ∀ f ∈ ((c.st.unprefixedUnit stop).1.unit! start).factors, FactorOK K (c.st.unprefixedUnit stop).1 f)
    (hft : ∀ f ∈ ((c.st.unprefixedUnit stop).1.unit! stop).factors, FactorOK K (c.st.unprefixedUnit stop).1 f)
    (hhead : recip (Pfx.value (c.st.unit! stop).pfx : Mag Rat) = .ok head)
    (hfp0 : CM.exec (findPath start stop) { c with st := (c.st.unprefixedUnit stop).1 } = (.ok [], c2))
    (hspec : matchSpec (splat (c.st.unprefixedUnit stop).1 stop).byComplexFirst
      (splat (c.st.unprefixedUnit stop).1 start) (splat (c.st.unprefixedUnit stop).1 stop) [] = some ([], [], plan)) :
    CM.exec (planConversion start stop) c =
      CM.exec (inlinePaths (plan ++ [Rough.mk head c.st.one c.st.one 1])) c2 ∧
    phi z (splat (c.st.unprefixedUnit stop).1 start) = planVal z plan * phi z (splat (c.st.unprefixedUnit stop).1 stop) ∧
    phi z (splat (c.st.unprefixedUnit stop).1 start) =
      (((c.st.unprefixedUnit stop).1.unit! start).factors.map (fun f => z f.1 ^ f.2)).prod ∧
    phi z (splat (c.st.unprefixedUnit stop).1 stop) =
      (((c.st.unprefixedUnit stop).1.unit! stop).factors.map (fun f => z f.1 ^ f.2)).prod := by
  obtain ⟨sn, sk, sp⟩ := splat_spec K (c.st.unprefixedUnit stop).1 z _ [] (by unfold NodupKeysS; simp) (by simp) hfs
  obtain ⟨tn, tk, tp⟩ := splat_spec K (c.st.unprefixedUnit stop).1 z _ [] (by unfold NodupKeysS; simp) (by simp) hft
  rw [← splat_eq_foldl] at sn sk sp tn tk tp
  have hsK : ∀ x ∈ (splat (c.st.unprefixedUnit stop).1 start).byComplexFirst, x ∈ K := by
    intro x hx; obtain ⟨r, hr, hr1, _⟩ := mem_byComplexFirst.1 hx; rw [← hr1]; exact sk r hr
  have htK : ∀ x ∈ (splat (c.st.unprefixedUnit stop).1 stop).byComplexFirst, x ∈ K := by
    intro x hx; obtain ⟨r, hr, hr1, _⟩ := mem_byComplexFirst.1 hx; rw [← hr1]; exact tk r hr
  obtain ⟨hmf, hphi⟩ := matchFactors_simple hK c2 z hz hsK htK sn tn hspec
  refine ⟨?_, hphi, by rw [sp]; simp, by rw [tp]; simp⟩
  unfold planConversion
  rw [exec_bind, exec_getSt]
  simp only
  rw [exec_bind]
  unfold quantifyUnit
  rw [exec_bind, exec_getSt]
  simp only
  rw [exec_bind, exec_liftSt]
  simp only [exec_pure]
  rw [exec_bind, exec_liftE, hhead]
  simp only
  rw [exec_bind, exec_getSt]
  simp only
  rw [exec_bind, hfp0]
  simp only [List.isEmpty_nil, Bool.not_true, Bool.false_eq_true, ↓reduceIte]
  rw [exec_bind, replaceFactors_lightAll c2 _ (fun r hr => hKw _ (sk r hr))]
  simp only [List.map_nil]
  rw [exec_bind, replaceFactors_lightAll c2 _ (fun r hr => hKw _ (tk r hr))]
  simp only [List.mapM_nil]
  rw [exec_bind, exec_pure]
  simp only [List.append_nil, List.nil_append]
  rw [exec_bind, hmf]
  simp only
  rw [exec_bind, matchFactors_nil]
  simp only [List.map_nil, List.append_nil]
  rw [exec_bind, exec_liftE, cancelFactors_nil]
  simp only
  rw [exec_bind, exec_liftE, cancelFactors_nil]
  simp only [List.append_nil, List.isEmpty_nil]
  rw [exec_bind, cassert_true]
  simp only
  rw [exec_bind, cassert_true]

/-! ### which units the paired steps mention -/

def unitsOf (f : Splat) : List UId := f.flatMap (·.2)

theorem cleanPop_units {f f' : Splat} {d : Dim} {u : UId} (h : f.cleanPop d = .ok (u, f')) :
    u ∈ unitsOf f ∧ ∀ x ∈ unitsOf f', x ∈ unitsOf f := by
  unfold Splat.cleanPop at h
  cases hg : f.get? d with
  | none => rw [hg] at h; simp at h
  | some l =>
    rw [hg] at h
    cases l with
    | nil => simp at h
    | cons u0 us =>
      simp only at h
      have hrow : ∃ r ∈ f, r.2 = u0 :: us := by
        unfold Splat.get? at hg
        cases hf : f.find? (fun r => r.1 == d) with
        | none => rw [hf] at hg; simp at hg
        | some r =>
          rw [hf] at hg
          simp only [Option.some.injEq] at hg
          exact ⟨r, List.mem_of_find?_eq_some hf, hg⟩
      obtain ⟨r0, hr0, hr02⟩ := hrow
      have hu0 : u0 ∈ unitsOf f := by
        unfold unitsOf; rw [List.mem_flatMap]; exact ⟨r0, hr0, by rw [hr02]; simp⟩
      have hus : ∀ x ∈ us, x ∈ unitsOf f := by
        intro x hx; unfold unitsOf; rw [List.mem_flatMap]; exact ⟨r0, hr0, by rw [hr02]; simp [hx]⟩
      by_cases hemp : us.isEmpty = true
      · simp only [hemp, ↓reduceIte, Except.ok.injEq, Prod.mk.injEq] at h
        obtain ⟨rfl, rfl⟩ := h
        refine ⟨hu0, ?_⟩
        intro x hx
        unfold unitsOf at hx ⊢
        rw [List.mem_flatMap] at hx ⊢
        obtain ⟨r, hr, hxr⟩ := hx
        exact ⟨r, (List.mem_filter.1 hr).1, hxr⟩
      · simp only [hemp, Bool.false_eq_true, ↓reduceIte, Except.ok.injEq, Prod.mk.injEq] at h
        obtain ⟨rfl, rfl⟩ := h
        refine ⟨hu0, ?_⟩
        intro x hx
        unfold unitsOf at hx
        rw [List.mem_flatMap] at hx
        obtain ⟨r, hr, hxr⟩ := hx
        rcases List.mem_map.1 hr with ⟨q, hq, rfl⟩
        by_cases hqd : (q.1 == d) = true
        · simp only [hqd, ↓reduceIte] at hxr; exact hus x hxr
        · simp only [hqd, Bool.false_eq_true, ↓reduceIte] at hxr
          unfold unitsOf; rw [List.mem_flatMap]; exact ⟨q, hq, hxr⟩

theorem matchSpec_units : ∀ (L : List Dim) (sF tF : Splat) (plan : List (Rough Rat)) (s' t' : Splat)
    (plan' : List (Rough Rat)), matchSpec L sF tF plan = some (s', t', plan') →
    ∀ r ∈ plan', r ∈ plan ∨ (r.start ∈ unitsOf sF ∧ r.stop ∈ unitsOf tF) := by
  intro L
  induction L with
  | nil =>
    intro sF tF plan s' t' plan' h r hr
    simp only [matchSpec, Option.some.injEq, Prod.mk.injEq] at h
    obtain ⟨_, _, rfl⟩ := h
    exact Or.inl hr
  | cons d rest ih =>
    intro sF tF plan s' t' plan' h r hr
    unfold matchSpec at h
    cases hs : sF.cleanPop d with
    | error e => rw [hs] at h; simp at h
    | ok p1 =>
      obtain ⟨u, s1⟩ := p1
      cases ht : tF.cleanPop d with
      | error e => rw [hs, ht] at h; simp at h
      | ok p2 =>
        obtain ⟨v, t1⟩ := p2
        rw [hs, ht] at h
        simp only at h
        obtain ⟨hu, hsub⟩ := cleanPop_units hs
        obtain ⟨hv, htub⟩ := cleanPop_units ht
        rcases ih s1 t1 _ s' t' plan' h r hr with h1 | ⟨h1, h2⟩
        · rcases List.mem_append.1 h1 with h1 | h1
          · exact Or.inl h1
          · simp only [List.mem_singleton] at h1
            subst h1
            exact Or.inr ⟨hu, hv⟩
        · exact Or.inr ⟨hsub _ h1, htub _ h2⟩

theorem extend_units (f : Splat) (d : Dim) (us : List UId) :
    ∀ x ∈ unitsOf (f.extend d us), x ∈ unitsOf f ∨ x ∈ us := by
  intro x hx
  unfold Splat.extend at hx
  unfold unitsOf at hx ⊢
  split at hx
  · rw [List.mem_flatMap] at hx
    obtain ⟨r, hr, hxr⟩ := hx
    rcases List.mem_map.1 hr with ⟨q, hq, rfl⟩
    by_cases hqd : (q.1 == d) = true
    · simp only [hqd, ↓reduceIte] at hxr
      rcases List.mem_append.1 hxr with h | h
      · left; rw [List.mem_flatMap]; exact ⟨q, hq, h⟩
      · exact Or.inr h
    · simp only [hqd, Bool.false_eq_true, ↓reduceIte] at hxr
      left; rw [List.mem_flatMap]; exact ⟨q, hq, hxr⟩
  · rw [List.flatMap_append] at hx
    rcases List.mem_append.1 hx with h | h
    · exact Or.inl h
    · simp at h; exact Or.inr h

theorem splat_units (s : St) (a : UId) : ∀ x ∈ unitsOf (splat s a), ∃ f ∈ (s.unit! a).factors, f.1 = x := by
  rw [splat_eq_foldl]
  have key : ∀ (fs : Factors) (acc : Splat), (∀ x ∈ unitsOf acc, ∃ f ∈ (s.unit! a).factors, f.1 = x) →
      (∀ f ∈ fs, f ∈ (s.unit! a).factors) →
      ∀ x ∈ unitsOf (fs.foldl (fun (acc : Splat) f =>
        if f.2 < 0 then acc.extend ((s.dimOfUnit f.1).pow (-1)) (List.replicate f.2.natAbs f.1)
        else acc.extend (s.dimOfUnit f.1) (List.replicate f.2.toNat f.1)) acc), ∃ f ∈ (s.unit! a).factors, f.1 = x := by
    intro fs
    induction fs with
    | nil => intro acc h _; exact h
    | cons f rest ih =>
      intro acc hacc hsub
      simp only [List.foldl_cons]
      apply ih
      · intro x hx
        split at hx
        · rcases extend_units _ _ _ x hx with h | h
          · exact hacc x h
          · exact ⟨f, hsub f List.mem_cons_self, (List.eq_of_mem_replicate h).symm⟩
        · rcases extend_units _ _ _ x hx with h | h
          · exact hacc x h
          · exact ⟨f, hsub f List.mem_cons_self, (List.eq_of_mem_replicate h).symm⟩
      · exact fun g hg => hsub g (List.mem_cons_of_mem _ hg)
  exact key _ [] (by simp [unitsOf]) (fun f hf => hf)

/-! ### the final statement -/

theorem splat_ext {s s' : St} (h : Ext s s') {a : UId} (ha : a < s.units.length)
    (hv : ∀ f ∈ (s.unit! a).factors, f.1 < s.units.length) : splat s' a = splat s a := by
  rw [splat_eq_foldl, splat_eq_foldl, (h.same a ha).2.1]
  have key : ∀ (fs : Factors) (acc : Splat), (∀ f ∈ fs, f.1 < s.units.length) →
      fs.foldl (fun (acc : Splat) f =>
        if f.2 < 0 then acc.extend ((s'.dimOfUnit f.1).pow (-1)) (List.replicate f.2.natAbs f.1)
        else acc.extend (s'.dimOfUnit f.1) (List.replicate f.2.toNat f.1)) acc =
      fs.foldl (fun (acc : Splat) f =>
        if f.2 < 0 then acc.extend ((s.dimOfUnit f.1).pow (-1)) (List.replicate f.2.natAbs f.1)
        else acc.extend (s.dimOfUnit f.1) (List.replicate f.2.toNat f.1)) acc := by
    intro fs
    induction fs with
    | nil => intro acc _; rfl
    | cons f rest ih =>
      intro acc hf
      simp only [List.foldl_cons]
      rw [h.dimOfUnit (hf f List.mem_cons_self)]
      exact ih _ (fun g hg => hf g (List.mem_cons_of_mem _ hg))
  exact key _ [] hv

theorem prod_factors_sizeOf (z : UId → Rat) (fs : Factors) (h : ∀ f ∈ fs, z f.1 = σ f.1) :
    (fs.map (fun f => z f.1 ^ f.2)).prod = sizeOf σ fs := by
  induction fs with
  | nil => simp
  | cons f rest ih =>
    simp only [List.map_cons, List.prod_cons, sizeOf_cons]
    rw [h f List.mem_cons_self, ih (fun g hg => h g (List.mem_cons_of_mem _ hg))]

/-- **Simple units convert exactly through the factor planner.**  Source and target are products of
    powers of base units (any prefixes) whose dimensions are fundamental and pairwise independent
    (`KeysOK K`, weight ≤ 1), and the key-by-key pairing exhausts both sides (`matchSpec … = some
    ([], [], plan)`: the same number of base units per dimension and sign).  Then whatever `convert`
    returns — directly, or through `_replace_factors`, `_match_factors`, `_cancel_factors`,
    `_inline_paths` — satisfies `result · size(target) = magnitude · size(source)`:
    km/h → m/s, kg·m² → lb·ft², cm³ → in³, mg/mL → lb/gal, … -/
theorem convert_simple_exact (hσ : ∀ k, σ k ≠ 0) {K : List Dim} (hK : KeysOK K) (hKw : ∀ d ∈ K, d.weight ≤ 1)
    {c c' : Conv Rat} {q r : Qty Rat} {t : UId} {plan : List (Rough Rat)}
    (hg : GraphOK σ c) (hwf : GraphWF c) (hoff : c.offsets = [])
    (hq : q.unit < c.st.units.length) (ht : t < c.st.units.length)
    (hfs : ∀ f ∈ (c.st.unit! q.unit).factors,
      FactorOK K c.st f ∧ f.1 < c.st.units.length ∧ unitSz σ c.st f.1 = σ f.1)
    (hft : ∀ f ∈ (c.st.unit! t).factors,
      FactorOK K c.st f ∧ f.1 < c.st.units.length ∧ unitSz σ c.st f.1 = σ f.1)
    (hspec : matchSpec (splat c.st t).byComplexFirst (splat c.st q.unit) (splat c.st t) [] = some ([], [], plan))
    (h : CM.exec (convert q t) c = (.ok r, c')) :
    r.unit = t ∧ r.mag.val * unitSz σ c.st t = q.mag.val * unitSz σ c.st q.unit ∧ GraphOK σ c' ∧ CFrame c c' := by
  have hdqt : c.st.dimOfUnit q.unit = c.st.dimOfUnit t := by
    by_contra hne
    have hbne : (c.st.dimOfUnit q.unit != c.st.dimOfUnit t) = true := by simpa using hne
    unfold convert at h
    rw [exec_bind, exec_getSt] at h
    simp only [hbne, ↓reduceIte] at h
    rw [exec_bind, exec_throw] at h
    simp at h
  obtain ⟨hru, P, hp, hval⟩ := convert_ok h
  refine ⟨hru, ?_⟩
  obtain ⟨ga, fa⟩ := unprefixStep hg hq
  have wa := hwf.frame hg fa
  obtain ⟨gb, fb⟩ := unprefixStep ga (fa.lt ht)
  have wb := wa.frame ga fb
  have fab := fa.trans fb
  have hdb : ({ c with st := ((c.st.unprefixedUnit q.unit).1.unprefixedUnit t).1 } : Conv Rat).st.dimOfUnit q.unit =
      ({ c with st := ((c.st.unprefixedUnit q.unit).1.unprefixedUnit t).1 } : Conv Rat).st.dimOfUnit t := by
    rw [fab.ext.dimOfUnit hq, fab.ext.dimOfUnit ht]; exact hdqt
  obtain ⟨p0, c2, hfp0⟩ := findPath_total gb wb (fab.lt hq) (fab.lt ht) hdb
  by_cases hp0 : p0 = []
  · subst hp0
    obtain ⟨g2, f2, _, _, _⟩ := findPath_sound gb (fab.lt hq) (fab.lt ht) hfp0
    have fab2 := fab.trans f2
    -- everything restated in the state after the two `unprefixed` internings
    have hfacq : (((c.st.unprefixedUnit q.unit).1.unprefixedUnit t).1.unit! q.unit).factors = (c.st.unit! q.unit).factors :=
      (fab.ext.same q.unit hq).2.1
    have hfact : (((c.st.unprefixedUnit q.unit).1.unprefixedUnit t).1.unit! t).factors = (c.st.unit! t).factors :=
      (fab.ext.same t ht).2.1
    have hFOK : ∀ f, f.1 < c.st.units.length → FactorOK K c.st f →
        FactorOK K ((c.st.unprefixedUnit q.unit).1.unprefixedUnit t).1 f := by
      intro f hf hok
      unfold FactorOK at hok ⊢
      rw [fab.ext.dimOfUnit hf]; exact hok
    have hfs' : ∀ f ∈ (((c.st.unprefixedUnit q.unit).1.unprefixedUnit t).1.unit! q.unit).factors,
        FactorOK K ((c.st.unprefixedUnit q.unit).1.unprefixedUnit t).1 f := by
      rw [hfacq]; intro f hf; exact hFOK f (hfs f hf).2.1 (hfs f hf).1
    have hft' : ∀ f ∈ (((c.st.unprefixedUnit q.unit).1.unprefixedUnit t).1.unit! t).factors,
        FactorOK K ((c.st.unprefixedUnit q.unit).1.unprefixedUnit t).1 f := by
      rw [hfact]; intro f hf; exact hFOK f (hft f hf).2.1 (hft f hf).1
    have hsq : splat ((c.st.unprefixedUnit q.unit).1.unprefixedUnit t).1 q.unit = splat c.st q.unit :=
      splat_ext fab.ext hq (fun f hf => (hfs f hf).2.1)
    have hst : splat ((c.st.unprefixedUnit q.unit).1.unprefixedUnit t).1 t = splat c.st t :=
      splat_ext fab.ext ht (fun f hf => (hft f hf).2.1)
    have hpt : ((c.st.unprefixedUnit q.unit).1.unit! t).pfx = (c.st.unit! t).pfx := fa.pfx ht
    have hptpos : Pfx.val (c.st.unit! t).pfx ≠ 0 := ne_of_gt (Pfx.val_pos (canon_pfx hg.canon ht))
    obtain ⟨head, hhead⟩ := recip_ok (m := (Pfx.value ((c.st.unprefixedUnit q.unit).1.unit! t).pfx : Mag Rat))
      (by rw [Pfx.value_val, hpt]; exact hptpos)
    -- sizes as a total non-zero function
    let z : UId → Rat := fun u => if u < c.st.units.length then unitSz σ c.st u else 1
    have hz : ∀ u, z u ≠ 0 := by
      intro u; simp only [z]; split
      · next hu => exact unitSz_ne_zero hσ hg.canon hu
      · exact one_ne_zero
    have hzv : ∀ u, u < c.st.units.length → z u = unitSz σ c.st u := by
      intro u hu; simp only [z, hu, ↓reduceIte]
    obtain ⟨hpc, hphi, hphis, hphit⟩ := planConversion_simple hK hKw z hz (c := { c with st := (c.st.unprefixedUnit q.unit).1 })
      hfs' hft' hhead hfp0 (by rw [hsq, hst]; exact hspec)
    rw [hpc] at hp
    rw [hsq, hst] at hphi
    rw [hfacq] at hphis
    rw [hfact] at hphit
    rw [hsq] at hphis
    rw [hst] at hphit
    -- validity of the units the steps mention
    have hone2 : c.st.one < c2.st.units.length := fab2.lt hg.inv.1.oneLt
    have hvalid : ∀ x ∈ plan ++ [Rough.mk head ((c.st.unprefixedUnit q.unit).1).one ((c.st.unprefixedUnit q.unit).1).one 1],
        x.start < c2.st.units.length ∧ x.stop < c2.st.units.length := by
      intro x hx
      rcases List.mem_append.1 hx with hx | hx
      · rcases matchSpec_units _ _ _ _ _ _ _ hspec x hx with h0 | ⟨h1, h2⟩
        · cases h0
        · obtain ⟨f1, hf1, e1⟩ := splat_units c.st q.unit _ h1
          obtain ⟨f2', hf2, e2⟩ := splat_units c.st t _ h2
          exact ⟨by rw [← e1]; exact fab2.lt (hfs f1 hf1).2.1, by rw [← e2]; exact fab2.lt (hft f2' hf2).2.1⟩
      · simp only [List.mem_singleton] at hx
        subst hx
        have : ((c.st.unprefixedUnit q.unit).1).one = c.st.one := fa.ext.one
        simp only [this]
        exact ⟨hone2, hone2⟩
    obtain ⟨g3, f3, hall⟩ := inlinePaths_sound _ c2 c' P g2 (by rw [fab2.offsets]; exact hoff) hvalid hp
    obtain ⟨hPV, hPoff⟩ := planValue_of_steps hσ g2.canon hall (fun x hx => (hvalid x hx).2)
    refine ⟨?_, g3, fab2.trans f3⟩
    rw [hval, applyPlanV_offsetFree P hPoff, hPV]
    -- the product over the steps
    have hstep : ∀ x ∈ plan, (unitSz σ c2.st x.start / unitSz σ c2.st x.stop) = z x.start / z x.stop := by
      intro x hx
      rcases matchSpec_units _ _ _ _ _ _ _ hspec x hx with h0 | ⟨h1, h2⟩
      · cases h0
      · obtain ⟨f1, hf1, e1⟩ := splat_units c.st q.unit _ h1
        obtain ⟨f2', hf2, e2⟩ := splat_units c.st t _ h2
        have v1 : x.start < c.st.units.length := by rw [← e1]; exact (hfs f1 hf1).2.1
        have v2 : x.stop < c.st.units.length := by rw [← e2]; exact (hft f2' hf2).2.1
        rw [fab2.sz v1, fab2.sz v2, hzv _ v1, hzv _ v2]
    have hratio : ∀ x ∈ plan, x.ratio.val = 1 := by
      -- every paired step carries the ratio 1
      have key : ∀ (L : List Dim) (sF tF : Splat) (pl : List (Rough Rat)) (s' t' : Splat) (pl' : List (Rough Rat)),
          matchSpec L sF tF pl = some (s', t', pl') → (∀ x ∈ pl, x.ratio.val = 1) → ∀ x ∈ pl', x.ratio.val = 1 := by
        intro L
        induction L with
        | nil =>
          intro sF tF pl s' t' pl' h hpl
          simp only [matchSpec, Option.some.injEq, Prod.mk.injEq] at h
          obtain ⟨_, _, rfl⟩ := h; exact hpl
        | cons d rest ih =>
          intro sF tF pl s' t' pl' h hpl
          unfold matchSpec at h
          cases hs : sF.cleanPop d with
          | error e => rw [hs] at h; simp at h
          | ok p1 =>
            cases ht' : tF.cleanPop d with
            | error e => rw [hs, ht'] at h; simp at h
            | ok p2 =>
              rw [hs, ht'] at h
              simp only at h
              apply ih _ _ _ _ _ _ h
              intro x hx
              rcases List.mem_append.1 hx with hx | hx
              · exact hpl x hx
              · simp only [List.mem_singleton] at hx; subst hx; simp [val_int]
      exact key _ _ _ _ _ _ _ hspec (by simp)
    have hprod : (plan.map (fun r => r.ratio.val * (unitSz σ c2.st r.start / unitSz σ c2.st r.stop) ^ r.exp)).prod =
        planVal z plan := by
      unfold planVal
      congr 1
      apply List.map_congr_left
      intro x hx
      rw [hratio x hx, hstep x hx, one_mul]
    simp only [List.map_append, List.map_cons, List.map_nil, List.prod_append, List.prod_cons, List.prod_nil, mul_one]
    rw [hprod]
    have hone' : ((c.st.unprefixedUnit q.unit).1).one = c.st.one := fa.ext.one
    simp only [hone']
    have hs1 := unitSz_ne_zero hσ g2.canon hone2
    rw [div_self hs1, one_zpow, mul_one]
    obtain ⟨hhv, _⟩ := recip_val hhead
    rw [Pfx.value_val, hpt] at hhv
    rw [hhv, Pfx.value_val]
    -- sizes of source and target
    have hzs : (List.map (fun f => z f.1 ^ f.2) (c.st.unit! q.unit).factors).prod = sizeOf σ (c.st.unit! q.unit).factors :=
      prod_factors_sizeOf z _ (fun f hf => by rw [hzv _ (hfs f hf).2.1]; exact (hfs f hf).2.2)
    have hzt : (List.map (fun f => z f.1 ^ f.2) (c.st.unit! t).factors).prod = sizeOf σ (c.st.unit! t).factors :=
      prod_factors_sizeOf z _ (fun f hf => by rw [hzv _ (hft f hf).2.1]; exact (hft f hf).2.2)
    rw [hphis, hphit, hzs, hzt] at hphi
    unfold unitSz
    rw [hphi]
    field_simp
  · obtain ⟨_, d', c2', hfp', hd'⟩ := convert_direct_exact hσ hg hq ht hoff h
    rw [hfp0] at hfp'
    simp only [Prod.mk.injEq, Except.ok.injEq] at hfp'
    obtain ⟨rfl, rfl⟩ := hfp'
    exact hd' hp0

end Measured
