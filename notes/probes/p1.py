from measured import *
from measured import systems
from measured.si import *
from measured.us import GForce, PoundForce, Foot
# C01
u = (GForce/Meter)*GForce
print(u.factors, u.dimension)
n,d = u.as_ratio()
print("num", n.factors, n.dimension, "den", d.factors, d.dimension)
g2 = GForce**2
print("GForce**2 dim", g2.dimension, "expected", GForce.dimension**2, g2.dimension is GForce.dimension**2)
# C19 Deci
print("Deci", Deci.name, Deci.symbol, Prefix._by_symbol['d'], repr(Prefix._by_symbol['d']), Deca.name, Deca.symbol)
print(Unit.parse("dm"), (1*Unit.parse("dm")).in_unit(Meter))
print(str(Deci*Meter), str(Deca*Meter))
