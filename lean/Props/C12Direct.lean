/-
  C12 on the fragment where comparisons are settled without the factor planner (same unprefixed unit,
  or a directly found conversion path): the model of the real `Quantity.__eq__` / `__lt__` decides BY
  SI VALUE, so equality is an equivalence, `<` a strict order compatible with it, and exactly one of
  `a < b`, `a == b`, `b < a` holds — for quantities written in different units and prefixes.
-/
import Proofs.CompareDirect
import Proofs.CompareSimple

namespace Measured.C12
open Measured

variable {σ : UId → Rat}

/-- `==` answers by SI value (in every reachable state). -/
theorem eq_decides_by_value (hσp : ∀ k, 0 < σ k) {c c' : Conv Rat} (hr : Reach σ c) {a b : Qty Rat} {r : Bool}
    (ha : a.unit < c.st.units.length) (hb : b.unit < c.st.units.length)
    (h : CM.exec (Qty.eqCore a b) c = (.ok (some r), c')) :
    ∃ (A B : UId) (cS : Conv Rat),
      (A = B ∨ ∃ (direct : List (Hop Rat)) (c2 : Conv Rat),
          CM.exec (findPath A B) cS = (.ok direct, c2) ∧
          (direct = [] ∨ (r = true ↔ C06.si σ c.st a = C06.si σ c.st b))) ∧
      (A = B → (r = true ↔ C06.si σ c.st a = C06.si σ c.st b)) := by
  obtain ⟨hg, ho, _⟩ := reach_graphOK (fun k => ne_of_gt (hσp k)) hr
  exact eqCore_direct_iff hσp hg ho ha hb h

/-- `<` answers by SI value (in every reachable state). -/
theorem lt_decides_by_value (hσp : ∀ k, 0 < σ k) {c c' : Conv Rat} (hr : Reach σ c) {a b : Qty Rat} {r : Bool}
    (ha : a.unit < c.st.units.length) (hb : b.unit < c.st.units.length)
    (h : CM.exec (Qty.ltCore a b) c = (.ok (some r), c')) :
    ∃ (A B : UId) (cS : Conv Rat),
      (A = B ∨ ∃ (direct : List (Hop Rat)) (c2 : Conv Rat),
          CM.exec (findPath A B) cS = (.ok direct, c2) ∧
          (direct = [] ∨ (r = true ↔ C06.si σ c.st a < C06.si σ c.st b))) ∧
      (A = B → (r = true ↔ C06.si σ c.st a < C06.si σ c.st b)) := by
  obtain ⟨hg, ho, _⟩ := reach_graphOK (fun k => ne_of_gt (hσp k)) hr
  exact ltCore_direct_iff hσp hg ho ha hb h

/-- Answers that are decided by value are coherent: exactly one of `a < b`, `a == b`, `b < a`;
    `==` symmetric; `<` and `>` mirror each other. -/
theorem coherent_of_values {x y : Rat} {req rqe rlt rgt : Bool}
    (h1 : req = true ↔ x = y) (h2 : rqe = true ↔ y = x) (h3 : rlt = true ↔ x < y) (h4 : rgt = true ↔ y < x) :
    req = rqe ∧
    ((rlt = true ∧ req = false ∧ rgt = false) ∨ (rlt = false ∧ req = true ∧ rgt = false) ∨
      (rlt = false ∧ req = false ∧ rgt = true)) := by
  constructor
  · cases hq : req <;> cases hp : rqe
    · rfl
    · exact absurd (h1.2 (h2.1 hp).symm) (by rw [hq]; exact Bool.false_ne_true)
    · exact absurd (h2.2 (h1.1 hq).symm) (by rw [hp]; exact Bool.false_ne_true)
    · rfl
  · rcases lt_trichotomy x y with h | h | h
    · left
      refine ⟨h3.2 h, ?_, ?_⟩
      · cases hq : req; rfl; exact absurd (h1.1 hq) (ne_of_lt h)
      · cases hq : rgt; rfl; exact absurd (h4.1 hq) (not_lt.2 (le_of_lt h))
    · right; left
      refine ⟨?_, h1.2 h, ?_⟩
      · cases hq : rlt; rfl; exact absurd (h3.1 hq) (by rw [h]; exact lt_irrefl _)
      · cases hq : rgt; rfl; exact absurd (h4.1 hq) (by rw [h]; exact lt_irrefl _)
    · right; right
      refine ⟨?_, ?_, h4.2 h⟩
      · cases hq : rlt; rfl; exact absurd (h3.1 hq) (not_lt.2 (le_of_lt h))
      · cases hq : req; rfl; exact absurd (h1.1 hq) (ne_of_gt h)

/-! ### through the factor planner: quantities in simple units (prefixed, compound) -/

/-- `==` decides by SI value for quantities written in simple units — km/h against m/s, kilograms
    against pounds — in every state reached by unit operations, consistent declarations and conversions
    (direct or through the planner).  `SimplePair` is stated for the unprefixed forms the comparison
    converts between. -/
theorem eq_decides_by_value_simple (hσp : ∀ k, 0 < σ k) {K : List Dim} {plan : List (Rough Rat)} {c c' : Conv Rat}
    (hr : Reach2 σ c) {a b : Qty Rat} {r : Bool}
    (ha : a.unit < c.st.units.length) (hb : b.unit < c.st.units.length)
    (hsp : SimplePair σ K { c with st := ((c.st.unprefixedUnit a.unit).1.unprefixedUnit b.unit).1 }
      (c.st.unprefixedUnit a.unit).2 ((c.st.unprefixedUnit a.unit).1.unprefixedUnit b.unit).2 plan)
    (h : CM.exec (Qty.eqCore a b) c = (.ok (some r), c')) :
    (r = true ↔ C06.si σ c.st a = C06.si σ c.st b) :=
  eqCore_simple_iff hσp hr ha hb hsp h

theorem lt_decides_by_value_simple (hσp : ∀ k, 0 < σ k) {K : List Dim} {plan : List (Rough Rat)} {c c' : Conv Rat}
    (hr : Reach2 σ c) {a b : Qty Rat} {r : Bool}
    (ha : a.unit < c.st.units.length) (hb : b.unit < c.st.units.length)
    (hsp : SimplePair σ K { c with st := ((c.st.unprefixedUnit a.unit).1.unprefixedUnit b.unit).1 }
      (c.st.unprefixedUnit a.unit).2 ((c.st.unprefixedUnit a.unit).1.unprefixedUnit b.unit).2 plan)
    (h : CM.exec (Qty.ltCore a b) c = (.ok (some r), c')) :
    (r = true ↔ C06.si σ c.st a < C06.si σ c.st b) :=
  ltCore_simple_iff hσp hr ha hb hsp h

end Measured.C12

namespace Measured.C06
open Measured
variable {σ : UId → Rat}

/-- `a + b`, `b` in a simple unit: the SI value of the sum is the sum of the SI values. -/
theorem add_simple (hσ : ∀ k, σ k ≠ 0) {K : List Dim} {plan : List (Rough Rat)} {c c' : Conv Rat}
    (hr : Reach2 σ c) {a b q : Qty Rat}
    (ha : a.unit < c.st.units.length) (hb : b.unit < c.st.units.length)
    (hsp : SimplePair σ K c b.unit a.unit plan)
    (h : CM.exec (Qty.add a b) c = (.ok q, c')) :
    q.unit = a.unit ∧ si σ c.st q = si σ c.st a + si σ c.st b :=
  add_simple_exact hσ hr ha hb hsp h

theorem sub_simple (hσ : ∀ k, σ k ≠ 0) {K : List Dim} {plan : List (Rough Rat)} {c c' : Conv Rat}
    (hr : Reach2 σ c) {a b q : Qty Rat}
    (ha : a.unit < c.st.units.length) (hb : b.unit < c.st.units.length)
    (hsp : SimplePair σ K c b.unit a.unit plan)
    (h : CM.exec (Qty.sub a b) c = (.ok q, c')) :
    q.unit = a.unit ∧ si σ c.st q = si σ c.st a - si σ c.st b :=
  sub_simple_exact hσ hr ha hb hsp h

end Measured.C06
