/-
  Proofs/PlanTotalN.lean — C07 on an APPROXIMATELY consistent graph (the shipped definitions):
  `_inline_paths` and `convert` between simple units return or raise ConversionNotFound, nothing else.
  Proofs/PlanTotal.lean restated for `GraphNear`; non-zero scales come from the positivity of every
  path the approximate search theorem returns.
-/
import Proofs.PathTotalN
import Proofs.PlanNear
import Proofs.PlanTotal
import Proofs.ReachSimple

namespace Measured
open St

variable {σ : UId → Rat} {lb ub : Rat}

theorem trueClosed : RootClosed (fun _ => True) := fun _ _ _ _ _ => trivial

/-- every path `_inline_paths` inlines has non-zero scales (its product is positive) -/
theorem inlinePaths_pos (hb : Bnd lb ub) (hσp : ∀ k, 0 < σ k) : ∀ (plan : List (Rough Rat)) (c c' : Conv Rat) (P : Plan Rat),
    GraphNear lb ub σ c → GraphWF c → (∀ r ∈ plan, r.start < c.st.units.length ∧ r.stop < c.st.units.length) →
    CM.exec (inlinePaths plan) c = (.ok P, c') → ∀ p ∈ P, ∀ h ∈ p.path, h.scale.val ≠ 0 := by
  intro plan
  induction plan with
  | nil =>
    intro c c' P _ _ _ hx
    unfold inlinePaths at hx
    simp only [List.mapM_nil, exec_pure, Prod.mk.injEq, Except.ok.injEq] at hx
    obtain ⟨rfl, _⟩ := hx
    intro p hp; cases hp
  | cons r rest ih =>
    intro c c' P hg hw hv hx
    unfold inlinePaths at hx
    simp only [List.mapM_cons] at hx
    obtain ⟨p, c1, h1, hx⟩ := exec_bind_ok hx
    obtain ⟨path, c0, h0, h1⟩ := exec_bind_ok h1
    obtain ⟨hrs, hrt⟩ := hv r List.mem_cons_self
    obtain ⟨g0, w0, f0, hps, _, _⟩ := findPath_near (s₀ := c.st) trueClosed hb hσp hg hw (Ext.refl _) hrs hrt h0
    by_cases hpe : path.isEmpty = true
    · simp only [hpe, ↓reduceIte] at h1
      rw [exec_bind, exec_throw] at h1; simp at h1
    · simp only [hpe, Bool.false_eq_true, ↓reduceIte, exec_pure, Prod.mk.injEq, Except.ok.injEq] at h1
      obtain ⟨rfl, rfl⟩ := h1
      have hne : path ≠ [] := by intro h; rw [h] at hpe; simp at hpe
      obtain ⟨Ps, c2, h2, hx⟩ := exec_bind_ok hx
      rw [exec_pure] at hx
      simp only [Prod.mk.injEq, Except.ok.injEq] at hx
      obtain ⟨rfl, rfl⟩ := hx
      have h2' : CM.exec (inlinePaths rest) c0 = (.ok Ps, c2) := by unfold inlinePaths; exact h2
      have ih' := ih c0 c2 Ps g0 w0 (fun x hx => ⟨f0.lt (hv x (List.mem_cons_of_mem _ hx)).1, f0.lt (hv x (List.mem_cons_of_mem _ hx)).2⟩) h2'
      intro q hq
      rcases List.mem_cons.1 hq with rfl | hq
      · exact pathScale_ne_zero_all (ne_of_gt (hps hne).1)
      · exact ih' q hq

theorem inlinePaths_totalN (hb : Bnd lb ub) (hσp : ∀ k, 0 < σ k) : ∀ (plan : List (Rough Rat)) (c : Conv Rat),
    GraphNear lb ub σ c → GraphWF c → (∀ r ∈ plan, r.start < c.st.units.length ∧ r.stop < c.st.units.length ∧
      c.st.dimOfUnit r.start = c.st.dimOfUnit r.stop) →
    ∃ res c', CM.exec (inlinePaths plan) c = (res, c') ∧ ((∃ P, res = .ok P) ∨ res = .error .notFound) := by
  intro plan
  induction plan with
  | nil => intro c _ _ _; exact ⟨.ok [], c, rfl, Or.inl ⟨[], rfl⟩⟩
  | cons r rest ih =>
    intro c hg hw hv
    obtain ⟨hrs, hrt, hrd⟩ := hv r List.mem_cons_self
    obtain ⟨path, c0, h0⟩ := findPath_totalN trueClosed hb hσp hg hw hrs hrt hrd
    obtain ⟨g0, w0, f0, _⟩ := findPath_near (s₀ := c.st) trueClosed hb hσp hg hw (Ext.refl _) hrs hrt h0
    unfold inlinePaths
    simp only [List.mapM_cons]
    rw [exec_bind, exec_bind, h0]
    simp only
    by_cases hpe : path.isEmpty = true
    · simp only [hpe, ↓reduceIte]
      rw [exec_bind, exec_throw]
      exact ⟨_, _, rfl, Or.inr rfl⟩
    · simp only [hpe, Bool.false_eq_true, ↓reduceIte, exec_pure]
      obtain ⟨res, c', hx, hres⟩ := ih c0 g0 w0 (fun x hx => by
        obtain ⟨a1, a2, a3⟩ := hv x (List.mem_cons_of_mem _ hx)
        exact ⟨f0.lt a1, f0.lt a2, by rw [f0.ext.dimOfUnit a1, f0.ext.dimOfUnit a2]; exact a3⟩)
      have hx' : CM.exec (List.mapM (fun r => do
          let path ← findPath r.start r.stop
          if path.isEmpty = true then throw Exc.notFound
          pure ({ ratio := r.ratio, path := path, exp := r.exp } : PlanStep Rat)) rest) c0 = (res, c') := by
        unfold inlinePaths at hx; exact hx
      rw [exec_bind, hx']
      rcases hres with ⟨P, rfl⟩ | rfl
      · simp only [exec_pure]; exact ⟨_, _, rfl, Or.inl ⟨_, rfl⟩⟩
      · exact ⟨_, _, rfl, Or.inr rfl⟩


theorem convert_simple_totalN (hb : Bnd lb ub) (hσp : ∀ k, 0 < σ k) {K : List Dim} {plan : List (Rough Rat)} {c : Conv Rat} {q : Qty Rat} {t : UId}
    (hg : GraphNear lb ub σ c) (hwf : GraphWF c)
    (hq : q.unit < c.st.units.length) (ht : t < c.st.units.length)
    (hsp : SimplePair σ K c q.unit t plan)
    (hdims : ∀ r ∈ plan, c.st.dimOfUnit r.start = c.st.dimOfUnit r.stop) :
    ∃ res c', CM.exec (convert q t) c = (res, c') ∧ ((∃ r, res = .ok r) ∨ res = .error .notFound) := by
  by_cases hdim : (c.st.dimOfUnit q.unit != c.st.dimOfUnit t) = true
  · refine ⟨.error .notFound, c, ?_, Or.inr rfl⟩
    unfold convert
    rw [exec_bind, exec_getSt]
    simp only [hdim, ↓reduceIte]
    rw [exec_bind, exec_throw]
  · have hdqt : c.st.dimOfUnit q.unit = c.st.dimOfUnit t := by simpa using hdim
    have hσ : ∀ k, σ k ≠ 0 := fun k => ne_of_gt (hσp k)
    obtain ⟨ga, fa⟩ := unprefixStepN hg hq
    have wa := hwf.frameN hg fa
    obtain ⟨gb, fb⟩ := unprefixStepN ga (fa.lt ht)
    have wb := wa.frameN ga fb
    have fab := fa.trans fb
    have hdb : ({ c with st := ((c.st.unprefixedUnit q.unit).1.unprefixedUnit t).1 } : Conv Rat).st.dimOfUnit q.unit =
        ({ c with st := ((c.st.unprefixedUnit q.unit).1.unprefixedUnit t).1 } : Conv Rat).st.dimOfUnit t := by
      rw [fab.ext.dimOfUnit hq, fab.ext.dimOfUnit ht]; exact hdqt
    obtain ⟨p0, c2, hfp0⟩ := findPath_totalN trueClosed hb hσp gb wb (fab.lt hq) (fab.lt ht) hdb
    obtain ⟨g2, w2, f2, hps0, _, _⟩ := findPath_near (s₀ := c.st) trueClosed hb hσp gb wb fab.ext (fab.lt hq) (fab.lt ht) hfp0
    have fab2 := fab.trans f2
    have hpt : ((c.st.unprefixedUnit q.unit).1.unit! t).pfx = (c.st.unit! t).pfx := fa.pfx ht
    have hptpos : Pfx.val (c.st.unit! t).pfx ≠ 0 := ne_of_gt (Pfx.val_pos (canon_pfx hg.canon ht))
    obtain ⟨head, hhead⟩ := recip_ok (m := (Pfx.value ((c.st.unprefixedUnit q.unit).1.unit! t).pfx : Mag Rat))
      (by rw [Pfx.value_val, hpt]; exact hptpos)
    -- the common frame: `convert` up to the plan
    have hconv : ∀ (P : Plan Rat) (c3 : Conv Rat) (res : Except Exc (Plan Rat)),
        CM.exec (planConversion q.unit t) { c with st := (c.st.unprefixedUnit q.unit).1 } = (res, c3) →
        (res = .ok P → ∀ p ∈ P, ∀ h ∈ p.path, h.scale.val ≠ 0) →
        (res = .ok P ∨ res = .error .notFound) →
        ∃ res' c', CM.exec (convert q t) c = (res', c') ∧ ((∃ r, res' = .ok r) ∨ res' = .error .notFound) := by
      intro P c3 res hpc hnz hres
      unfold convert
      rw [exec_bind, exec_getSt]
      simp only [hdim, Bool.false_eq_true, ↓reduceIte]
      rw [exec_bind, exec_unprefixedQty]
      simp only
      rw [exec_bind, hpc]
      rcases hres with rfl | rfl
      · simp only
        obtain ⟨m, hm⟩ := applyPlan_ok P (Mag.mul (Pfx.value (c.st.unit! q.unit).pfx) q.mag) (hnz rfl)
        rw [exec_bind, exec_liftE, hm]
        simp only [exec_pure]
        exact ⟨_, _, rfl, Or.inl ⟨_, rfl⟩⟩
      · exact ⟨_, _, rfl, Or.inr rfl⟩
    by_cases hp0 : p0 = []
    · subst hp0
      -- through the factor planner
      have hfacq : (((c.st.unprefixedUnit q.unit).1.unprefixedUnit t).1.unit! q.unit).factors = (c.st.unit! q.unit).factors :=
        (fab.ext.same q.unit hq).2.1
      have hfact : (((c.st.unprefixedUnit q.unit).1.unprefixedUnit t).1.unit! t).factors = (c.st.unit! t).factors :=
        (fab.ext.same t ht).2.1
      have hFOK : ∀ f, f.1 < c.st.units.length → FactorOK K c.st f →
          FactorOK K ((c.st.unprefixedUnit q.unit).1.unprefixedUnit t).1 f := by
        intro f hf hok
        unfold FactorOK at hok ⊢
        rw [fab.ext.dimOfUnit hf]; exact hok
      have hfs' : ∀ f ∈ (((c.st.unprefixedUnit q.unit).1.unprefixedUnit t).1.unit! q.unit).factors,
          FactorOK K ((c.st.unprefixedUnit q.unit).1.unprefixedUnit t).1 f := by
        rw [hfacq]; intro f hf; exact hFOK f (hsp.srcOK f hf).2.1 (hsp.srcOK f hf).1
      have hft' : ∀ f ∈ (((c.st.unprefixedUnit q.unit).1.unprefixedUnit t).1.unit! t).factors,
          FactorOK K ((c.st.unprefixedUnit q.unit).1.unprefixedUnit t).1 f := by
        rw [hfact]; intro f hf; exact hFOK f (hsp.dstOK f hf).2.1 (hsp.dstOK f hf).1
      have hsq : splat ((c.st.unprefixedUnit q.unit).1.unprefixedUnit t).1 q.unit = splat c.st q.unit :=
        splat_ext fab.ext hq (fun f hf => (hsp.srcOK f hf).2.1)
      have hst : splat ((c.st.unprefixedUnit q.unit).1.unprefixedUnit t).1 t = splat c.st t :=
        splat_ext fab.ext ht (fun f hf => (hsp.dstOK f hf).2.1)
      obtain ⟨hpc, _, _, _⟩ := planConversion_simple hsp.keys hsp.light (fun _ => (1 : Rat)) (fun _ => one_ne_zero)
        (c := { c with st := (c.st.unprefixedUnit q.unit).1 }) hfs' hft' hhead hfp0 (by rw [hsq, hst]; exact hsp.paired)
      have hone2 : c.st.one < c2.st.units.length := fab2.lt hg.inv.1.oneLt
      have hone' : ((c.st.unprefixedUnit q.unit).1).one = c.st.one := fa.ext.one
      have hvalid : ∀ x ∈ plan ++ [Rough.mk head ((c.st.unprefixedUnit q.unit).1).one ((c.st.unprefixedUnit q.unit).1).one 1],
          x.start < c2.st.units.length ∧ x.stop < c2.st.units.length ∧ c2.st.dimOfUnit x.start = c2.st.dimOfUnit x.stop := by
        intro x hx
        rcases List.mem_append.1 hx with hx | hx
        · rcases matchSpec_units _ _ _ _ _ _ _ hsp.paired x hx with h0 | ⟨h1, h2⟩
          · cases h0
          · obtain ⟨f1, hf1, e1⟩ := splat_units c.st q.unit _ h1
            obtain ⟨f2', hf2, e2⟩ := splat_units c.st t _ h2
            have v1 : x.start < c.st.units.length := by rw [← e1]; exact (hsp.srcOK f1 hf1).2.1
            have v2 : x.stop < c.st.units.length := by rw [← e2]; exact (hsp.dstOK f2' hf2).2.1
            exact ⟨fab2.lt v1, fab2.lt v2, by rw [fab2.ext.dimOfUnit v1, fab2.ext.dimOfUnit v2]; exact hdims x hx⟩
        · simp only [List.mem_singleton] at hx
          subst hx
          simp only [hone']
          exact ⟨hone2, hone2, trivial⟩
      obtain ⟨res, c3, hx, hres⟩ := inlinePaths_totalN hb hσp _ c2 g2 w2 hvalid
      rw [← hpc] at hx
      rcases hres with ⟨P, rfl⟩ | rfl
      · rw [hpc] at hx
        have hnz := inlinePaths_pos hb hσp _ c2 c3 P g2 w2 (fun x hx => ⟨(hvalid x hx).1, (hvalid x hx).2.1⟩) hx
        rw [← hpc] at hx
        exact hconv P c3 _ hx (fun _ => hnz) (Or.inl rfl)
      · exact hconv [] c3 _ hx (by intro h; cases h) (Or.inr rfl)
    · -- the directly found path
      have hpl := planConversion_direct_fwd (c := { c with st := (c.st.unprefixedUnit q.unit).1 }) hhead hfp0 hp0
      refine hconv _ c2 _ hpl ?_ (Or.inl rfl)
      intro _ p hp h hh
      simp only [List.mem_cons, List.mem_nil_iff, or_false] at hp
      rcases hp with rfl | rfl
      · simp only at hh
        exact pathScale_ne_zero_all (ne_of_gt (hps0 hp0).1) h hh
      · simp only [List.mem_singleton] at hh
        subst hh
        simp [val_int]


end Measured
