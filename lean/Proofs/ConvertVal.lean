/-
  Proofs/ConvertVal.lean — the value computed by the model's `convert` is the plan applied
  to the unprefixed magnitude; the result carries exactly the requested unit (C04 first
  sentence).
-/
import Proofs.Affine
import Proofs.Monad
import Model.Sizes

namespace Measured

theorem pfxValue_val (p : Pfx) : (Pfx.value p : Mag Rat).val = ((p.base : Nat) : Rat) ^ p.exp := by
  unfold Pfx.value
  split
  · next h =>
    simp only [val_int]
    conv => rhs; rw [← Int.toNat_of_nonneg h]
    rw [zpow_natCast]; push_cast; rfl
  · simp only [val_flt]; rfl

/-- Unfolding of `convert` on a successful run. -/
theorem convert_ok {c c' : Conv Rat} {q r : Qty Rat} {t : UId}
    (h : CM.exec (convert q t) c = (.ok r, c')) :
    r.unit = t ∧
    ∃ (plan : Plan Rat),
      CM.exec (planConversion q.unit t) { c with st := (c.st.unprefixedUnit q.unit).1 } = (.ok plan, c') ∧
      r.mag.val = applyPlanV ((Pfx.value (c.st.unit! q.unit).pfx : Mag Rat).val * q.mag.val)
        (plan.map PlanStep.toV) := by
  unfold convert at h
  rw [exec_bind, exec_getSt] at h
  simp only at h
  split at h
  · simp at h
  · rw [exec_bind] at h
    -- unprefixedQty
    unfold unprefixedQty at h
    rw [exec_bind] at h
    unfold quantifyUnit at h
    rw [exec_bind, exec_getSt] at h
    simp only at h
    rw [exec_bind, exec_liftSt] at h
    simp only [exec_pure] at h
    rw [exec_bind] at h
    cases hp : CM.exec (planConversion q.unit t)
        { c with st := (c.st.unprefixedUnit q.unit).1 } with
    | mk res c2 =>
      rw [hp] at h
      cases res with
      | error e => simp at h
      | ok plan =>
        simp only at h
        rw [exec_bind, exec_liftE] at h
        cases ha : applyPlan (Mag.mul (Pfx.value (c.st.unit! q.unit).pfx) q.mag) plan with
        | error e => simp [ha] at h
        | ok m =>
          simp only [ha, exec_pure, Prod.mk.injEq, Except.ok.injEq] at h
          obtain ⟨hr, hc⟩ := h
          subst hr; subst hc
          refine ⟨rfl, plan, rfl, ?_⟩
          rw [applyPlan_val plan ha, val_mul]

/-- **C04, first sentence**: a conversion that returns, returns the requested unit. -/
theorem convert_result_unit {c c' : Conv Rat} {q r : Qty Rat} {t : UId}
    (h : CM.exec (convert q t) c = (.ok r, c')) : r.unit = t := (convert_ok h).1

end Measured

namespace Measured

/-- The conversion state over exact arithmetic, from the generated tables. -/
def convOfTables (s : St) (ratios offsets : Table Raw) (asserts : Bool := true) : Conv Rat :=
  { st := s,
    ratios := ratios.map (fun r => (r.1, r.2.map (fun c => (c.1, c.2.toMag)))),
    offsets := offsets.map (fun r => (r.1, r.2.map (fun c => (c.1, c.2.toMag)))),
    asserts := asserts }

/-- Coefficients `(A, B)` such that the model converts `m (p•a)` into `(A·m + B) (q•b)`:
    the plan the model builds for the prefixed units, composed with the source prefix. -/
def convertCoeffs (c : Conv Rat) (p : Pfx) (a : UId) (q : Pfx) (b : UId) : Except Exc (Rat × Rat) :=
  let prog : CM Rat (Rat × Rat) := do
    let ua ← liftStE (fun s => s.pmulUnit p a)
    let ub ← liftStE (fun s => s.pmulUnit q b)
    let s ← getSt
    let plan ← planConversion ua ub
    let ab := affineOf (plan.map PlanStep.toV)
    let pv : Rat := (Pfx.value (s.unit! ua).pfx : Mag Rat).val
    pure (ab.1 * pv, ab.2)
  (CM.exec prog c).1

/-- `|x - y| ≤ tol·(|y| + slack)` -/
def closeTo (x y tol slack : Rat) : Bool := decide (absRat (x - y) ≤ tol * (absRat y + slack))

end Measured
