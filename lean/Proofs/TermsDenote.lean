/-
  Proofs/TermsDenote.lean — the terms `unit_str` renders denote the unit (C13's push-down).

  `unitTermList u` pushes the unit's prefix into the first factor as its `e0`-th root.  The
  expression the parser rebuilds from those terms (`termsExpr`: resolve each prefixed symbol,
  raise to the exponent, multiply left to right, divide by One) has the same denotation in
  (prefix group) × (free abelian group over the base units) as the unit itself.  With C02's
  `eval_canonical` this means: evaluating it, after any history, returns the very same object.
-/
import Proofs.GroupLaws
import Model.Text

namespace Measured
open St UExpr

/-- The factors of a unit are base units: identity prefix, factor list `{self: 1}`. -/
def BaseFactors (s : St) (u : UnitRec) : Prop :=
  ∀ f ∈ u.factors, (s.unit! f.1).pfx = Pfx.identity ∧ (s.unit! f.1).factors = [(f.1, 1)]

theorem pow_root_self {a p : Pfx} (ha : a.Normal) {n : Int} (hn : n ≠ 0) (h : a.root n = .ok p) :
    p.pow n = a := by
  unfold Pfx.root at h
  have hn0 : (n == 0) = false := by simpa using hn
  simp only [hn0, Bool.false_eq_true, if_false] at h
  split at h
  · cases h
  · rename_i hd
    injection h with h
    subst h
    have hmod : a.exp % n = 0 := by simpa using hd
    have hmul : Int.fdiv a.exp n * n = a.exp := by
      have := Int.fdiv_eq_ediv_of_dvd (Int.dvd_of_emod_eq_zero hmod)
      rw [this]
      exact Int.ediv_mul_cancel (Int.dvd_of_emod_eq_zero hmod)
    by_cases za : a.base = 0
    · have := Pfx.eq_identity_of_base ha za; subst this
      simp [Pfx.pow, Pfx.new, Pfx.identity, Int.fdiv]
    · have hne : a.exp ≠ 0 := fun e => za (ha.2 e)
      have hq : Int.fdiv a.exp n ≠ 0 := by
        intro hz; rw [hz] at hmul; simp at hmul; exact hne hmul.symm
      have h1 : Pfx.new a.base (Int.fdiv a.exp n) = ⟨a.base, Int.fdiv a.exp n⟩ := by
        unfold Pfx.new; simp [hq]
      rw [h1]
      unfold Pfx.pow Pfx.new
      simp only [hmul]
      simp [hne]

theorem identity_pow (n : Int) : Pfx.identity.pow n = Pfx.identity := by
  simp [Pfx.pow, Pfx.new, Pfx.identity]

/-- prefix denoted by one rendered term -/
theorem pfxDenote_termExpr {s : St} {t : Pfx × UId × Int} (hp : t.1.Normal)
    (hb : (s.unit! t.2.1).pfx = Pfx.identity) :
    (termExpr t).pfxDenote s = .ok (t.1.pow t.2.2) := by
  unfold termExpr
  by_cases hz : t.1.base = 0
  · have hi := Pfx.eq_identity_of_base hp hz
    have : (t.1.base == 0) = true := by simp [hz]
    simp only [this, if_true, pfxDenote, hb]
    rw [hi]; rfl
  · have : (t.1.base == 0) = false := by simp [hz]
    simp only [this, Bool.false_eq_true, if_false, pfxDenote, hb]
    rw [show (do let x ← (Except.ok Pfx.identity : Except Exc Pfx); Pfx.mul x t.1) = Pfx.mul Pfx.identity t.1 from rfl]
    rw [Pfx.identity_mul hp]
    rfl

theorem expDenote_termExpr {s : St} {t : Pfx × UId × Int} (hb : (s.unit! t.2.1).factors = [(t.2.1, 1)]) (k : UId) :
    (termExpr t).expDenote s k = (if t.2.1 = k then t.2.2 else 0) := by
  unfold termExpr
  have hr : (UExpr.ref t.2.1).expDenote s k = (if t.2.1 = k then 1 else 0) := by
    simp [expDenote, hb]
  by_cases hz : (t.1.base == 0) = true
  · simp only [hz, if_true, expDenote] at hr ⊢
    rw [hb]; simp only [List.foldr]; split <;> simp
  · simp only [hz, Bool.false_eq_true, if_false, expDenote]
    rw [hb]; simp only [List.foldr]; split <;> simp

/-- folding the remaining (identity-prefixed) terms keeps the prefix and adds the exponents -/
theorem foldl_terms {s : St} (rest : List (UId × Int))
    (hb : ∀ f ∈ rest, (s.unit! f.1).pfx = Pfx.identity ∧ (s.unit! f.1).factors = [(f.1, 1)]) :
    ∀ (acc : UExpr) (p : Pfx), acc.pfxDenote s = .ok p →
      ((rest.map (fun fe => (Pfx.identity, fe.1, fe.2))).foldl (fun a x => UExpr.mul a (termExpr x)) acc).pfxDenote s = .ok p ∧
      ∀ k, ((rest.map (fun fe => (Pfx.identity, fe.1, fe.2))).foldl (fun a x => UExpr.mul a (termExpr x)) acc).expDenote s k =
        acc.expDenote s k + expOf rest k := by
  induction rest with
  | nil => intro acc p h; exact ⟨h, fun k => by simp [expOf]⟩
  | cons f rest ih =>
    intro acc p h
    simp only [List.map_cons, List.foldl_cons]
    have hf := hb f List.mem_cons_self
    have hstep : (UExpr.mul acc (termExpr (Pfx.identity, f.1, f.2))).pfxDenote s = .ok p := by
      simp only [pfxDenote, h]
      rw [pfxDenote_termExpr (s := s) (t := (Pfx.identity, f.1, f.2)) Pfx.normal_identity hf.1]
      show Pfx.mul p (Pfx.identity.pow f.2) = .ok p
      rw [identity_pow]; exact Pfx.mul_identity p
    obtain ⟨h1, h2⟩ := ih (fun g hg => hb g (List.mem_cons_of_mem _ hg)) _ p hstep
    refine ⟨h1, fun k => ?_⟩
    rw [h2 k]
    simp only [expDenote]
    rw [expDenote_termExpr (s := s) (t := (Pfx.identity, f.1, f.2)) hf.2 k]
    simp only [expOf, List.foldr]
    omega

/-- **The rendered terms denote the unit.** -/
theorem terms_denote {s : St} (hc : Canon s) {i : UId} (hi : i < s.units.length)
    (hbf : BaseFactors s (s.unit! i)) {ts : List (Pfx × UId × Int)}
    (ht : unitTermList (s.unit! i) = .ok ts) :
    SameDen s (termsExpr s.one ts) (.ref i) := by
  unfold unitTermList at ht
  cases hfs : (s.unit! i).factors with
  | nil => rw [hfs] at ht; cases ht
  | cons f0 rest =>
    rw [hfs] at ht
    simp only at ht
    cases hroot : (s.unit! i).pfx.root f0.2 with
    | error e => rw [hroot] at ht; cases ht
    | ok p0 =>
      rw [hroot] at ht
      injection ht with ht
      subst ht
      have hmem := St.unit!_mem hi
      have hnorm := hc.norm _ hmem
      have hpn := hc.pfxNormal _ hmem
      have he0 : f0.2 ≠ 0 := by
        rcases hnorm with h | ⟨hs, _, _⟩
        · rw [hfs] at h; injection h with h1 _; rw [h1]; simp
        · exact hs.nonzero f0 (by rw [hfs]; exact List.mem_cons_self)
      have hp0n : p0.Normal := Pfx.root_normal hpn hroot
      have hb0 := hbf f0 (by rw [hfs]; exact List.mem_cons_self)
      have hbr : ∀ f ∈ rest, (s.unit! f.1).pfx = Pfx.identity ∧ (s.unit! f.1).factors = [(f.1, 1)] :=
        fun f hf => hbf f (by rw [hfs]; exact List.mem_cons_of_mem _ hf)
      have hfirst : (termExpr (p0, f0.1, f0.2)).pfxDenote s = .ok (s.unit! i).pfx := by
        rw [pfxDenote_termExpr (s := s) (t := (p0, f0.1, f0.2)) hp0n hb0.1]
        show Except.ok (p0.pow f0.2) = _
        rw [pow_root_self hpn he0 hroot]
      obtain ⟨h1, h2⟩ := foldl_terms rest hbr _ _ hfirst
      obtain ⟨_, hop, hof⟩ := hc.oneRec
      constructor
      · intro p₁ p₂ e1 e2
        simp only [termsExpr, pfxDenote, h1, hop] at e1
        have : Pfx.div (s.unit! i).pfx Pfx.identity = .ok (s.unit! i).pfx := by simp [Pfx.div, Pfx.identity]
        rw [show (do let x ← (Except.ok (s.unit! i).pfx : Except Exc Pfx); let y ← (Except.ok Pfx.identity : Except Exc Pfx); Pfx.div x y)
              = Pfx.div (s.unit! i).pfx Pfx.identity from rfl, this] at e1
        simp only [pfxDenote] at e2
        injection e1 with e1; injection e2 with e2
        rw [← e1, ← e2]
      · intro k hk
        simp only [termsExpr, expDenote]
        rw [h2 k, expDenote_termExpr (s := s) (t := (p0, f0.1, f0.2)) hb0.2 k, hof, hfs]
        have hk' : ¬ s.one = k := fun h => hk h.symm
        simp only [List.foldr, hk', if_false]
        simp only [expOf, List.foldr]
        omega

end Measured

namespace Measured
open St UExpr

/-- the rebuilt expression only mentions existing units and normalised prefixes -/
theorem foldl_refs (rest : List (Pfx × UId × Int)) :
    ∀ (acc : UExpr), ((rest.foldl (fun a x => UExpr.mul a (termExpr x)) acc).refs = acc.refs ++ rest.flatMap (fun x => (termExpr x).refs)) ∧
      ((rest.foldl (fun a x => UExpr.mul a (termExpr x)) acc).pfxs = acc.pfxs ++ rest.flatMap (fun x => (termExpr x).pfxs)) := by
  induction rest with
  | nil => intro acc; simp
  | cons x rest ih =>
    intro acc
    simp only [List.foldl_cons, List.flatMap_cons]
    obtain ⟨h1, h2⟩ := ih (UExpr.mul acc (termExpr x))
    exact ⟨by rw [h1]; simp [UExpr.refs, List.append_assoc], by rw [h2]; simp [UExpr.pfxs, List.append_assoc]⟩

theorem termExpr_refs (t : Pfx × UId × Int) : (termExpr t).refs = [t.2.1] := by
  unfold termExpr; split <;> simp [UExpr.refs]

theorem termExpr_pfxs (t : Pfx × UId × Int) : ∀ p ∈ (termExpr t).pfxs, p = t.1 := by
  unfold termExpr; split <;> simp [UExpr.pfxs]

theorem termsExpr_ok {s : St} (hw : WF s) (hc : Canon s) {i : UId} (hi : i < s.units.length)
    {ts : List (Pfx × UId × Int)} (ht : unitTermList (s.unit! i) = .ok ts) : ExprOK s (termsExpr s.one ts) := by
  unfold unitTermList at ht
  cases hfs : (s.unit! i).factors with
  | nil => rw [hfs] at ht; cases ht
  | cons f0 rest =>
    rw [hfs] at ht
    simp only at ht
    cases hroot : (s.unit! i).pfx.root f0.2 with
    | error e => rw [hroot] at ht; cases ht
    | ok p0 =>
      rw [hroot] at ht
      injection ht with ht
      subst ht
      have hmem := St.unit!_mem hi
      have hval := hw.facValid _ hmem
      have hp0 : p0.Normal := Pfx.root_normal (hc.pfxNormal _ hmem) hroot
      obtain ⟨r1, r2⟩ := foldl_refs (rest.map (fun fe => (Pfx.identity, fe.1, fe.2))) (termExpr (p0, f0.1, f0.2))
      constructor
      · intro r hr
        simp only [termsExpr, UExpr.refs, List.mem_append, List.mem_singleton] at hr
        rcases hr with hr | hr
        · rw [r1] at hr
          rcases List.mem_append.mp hr with hr | hr
          · rw [termExpr_refs] at hr; simp at hr; subst hr
            exact hval f0 (by rw [hfs]; exact List.mem_cons_self)
          · obtain ⟨x, hx, hrx⟩ := List.mem_flatMap.mp hr
            rw [termExpr_refs] at hrx; simp at hrx; subst hrx
            obtain ⟨fe, hfe, rfl⟩ := List.mem_map.mp hx
            exact hval fe (by rw [hfs]; exact List.mem_cons_of_mem _ hfe)
        · subst hr; exact hw.oneLt
      · intro p hp
        simp only [termsExpr, UExpr.pfxs, List.append_nil] at hp
        rw [r2] at hp
        rcases List.mem_append.mp hp with hp | hp
        · rw [termExpr_pfxs _ p hp]; exact hp0
        · obtain ⟨x, hx, hpx⟩ := List.mem_flatMap.mp hp
          obtain ⟨fe, _, rfl⟩ := List.mem_map.mp hx
          rw [termExpr_pfxs _ p hpx]; exact Pfx.normal_identity

end Measured
