/-
  Model/Memo.lean — the memoisation discipline of conversions.py, abstractly:
  an uncached `answer : G → K → V`, graph-changing declarations, and an `lru_cache`-style
  memo table in front of `answer`.  `clears` says whether a declaration empties the table
  (what the `fix:` commit added to `equate`/`translate`).
-/
namespace Measured.Memo

structure Sys (G K V D : Type) where
  answer  : G → K → V
  declare : G → D → G

inductive Ev (K D : Type) where
  | declare (d : D)
  | query (k : K)

structure MState (G K V : Type) where
  g    : G
  memo : List (K × V)

variable {G K V D : Type} [DecidableEq K]

def lookup (k : K) : List (K × V) → Option V
  | [] => none
  | (k', v) :: rest => if k' = k then some v else lookup k rest

/-- One event; a query returns its (possibly memoised) answer. -/
def step (sys : Sys G K V D) (clears : Bool) (s : MState G K V) : Ev K D → MState G K V × Option V
  | .declare d => ({ g := sys.declare s.g d, memo := if clears then [] else s.memo }, none)
  | .query k =>
    match lookup k s.memo with
    | some v => (s, some v)
    | none => let v := sys.answer s.g k; ({ s with memo := (k, v) :: s.memo }, some v)

/-- Run a history, collecting the answers of its queries in order. -/
def run (sys : Sys G K V D) (clears : Bool) (s : MState G K V) : List (Ev K D) → MState G K V × List V
  | [] => (s, [])
  | e :: rest =>
    let (s', o) := step sys clears s e
    let (s'', os) := run sys clears s' rest
    (s'', match o with | some v => v :: os | none => os)

/-- The graph after the declarations of a history (queries do not touch it). -/
def graphAfter (sys : Sys G K V D) (g : G) : List (Ev K D) → G
  | [] => g
  | .declare d :: rest => graphAfter sys (sys.declare g d) rest
  | .query _ :: rest => graphAfter sys g rest

/-- What a fresh process would answer: the declarations so far, then the query. -/
def pureAnswers (sys : Sys G K V D) (g : G) : List (Ev K D) → List V
  | [] => []
  | .declare d :: rest => pureAnswers sys (sys.declare g d) rest
  | .query k :: rest => sys.answer g k :: pureAnswers sys g rest

end Measured.Memo
