/-
  Model/Threads.lean — the interning constructors under concurrency (C20).

  One key of one intern table (`Dimension._known`, `Prefix._known`, `Unit._known`, …; distinct keys
  do not interact: a dict get/set of one key is atomic under the GIL).  Each thread runs the program
  of `Cls(key)`:

      [acquire]  look the key up  —hit→ return it
                                  —miss→ allocate a new object, insert it, (initialise,) return it
      [release]

  `locked = true` is the program after the `fix:` commit (metaclass `_Interned.__call__` holds
  `_interning` around lookup + creation + initialisation); `locked = false` is the check-then-insert
  program without it.  A schedule is a list of thread ids; each entry lets that thread take one step.
-/
namespace Measured
namespace Threads

inductive PC | acquire | check | allocInsert | release | done
  deriving DecidableEq, Repr

structure TS where
  pc  : PC := .acquire
  ret : Option Nat := none      -- object returned (= allocation index)
  deriving Repr

structure Sh where
  lock  : Option Nat := none    -- holder of `_interning`
  known : Option Nat := none    -- the intern-table entry of the key under test
  next  : Nat := 0              -- allocator: number of objects ever created for the key
  thr   : Nat → TS := fun _ => {}

def upd (f : Nat → TS) (t : Nat) (v : TS) : Nat → TS := fun i => if i = t then v else f i

def step (locked : Bool) (s : Sh) (t : Nat) : Sh :=
  let me := s.thr t
  match me.pc with
  | .acquire =>
      if locked then
        match s.lock with
        | none => { s with lock := some t, thr := upd s.thr t { me with pc := .check } }
        | some _ => s                                   -- blocked: no-op
      else { s with thr := upd s.thr t { me with pc := .check } }
  | .check => match s.known with
      | some o => { s with thr := upd s.thr t { pc := .release, ret := some o } }
      | none   => { s with thr := upd s.thr t { me with pc := .allocInsert } }
  | .allocInsert =>
      { s with known := some s.next, next := s.next + 1,
               thr := upd s.thr t { pc := .release, ret := some s.next } }
  | .release =>
      if locked then { s with lock := none, thr := upd s.thr t { me with pc := .done } }
      else { s with thr := upd s.thr t { me with pc := .done } }
  | .done => s

def run (locked : Bool) (s : Sh) (sched : List Nat) : Sh := sched.foldl (step locked) s

end Threads
end Measured
