/-
  Proofs/Check.lean — executable checkers for the invariants, with soundness proofs, so
  that the per-run obligations about `Generated.init` are closed by `decide +kernel`.
-/
import Proofs.StepAll
import Proofs.CanonStep

namespace Measured
open St

def checkValidF (s : St) (fs : Factors) : Bool := fs.all (fun f => decide (f.1 < s.units.length))

def checkGInv (s : St) : Bool :=
  s.units.all (fun u => u.dim.length == s.ndim) &&
  s.units.all (fun u => checkValidF s u.factors) &&
  decide (s.one < s.units.length) &&
  (s.dimOfUnit s.one == Dim.number s.ndim) &&
  s.units.all (fun u => u.dim == s.dimOf u.factors) &&
  s.unitBySym.all (fun e => decide (e.2 < s.units.length)) &&
  s.unitByName.all (fun e => decide (e.2 < s.units.length)) &&
  s.pfxBySym.all (fun e => decide (e.2.base = 0 ↔ e.2.exp = 0))

theorem checkGInv_sound {s : St} (h : checkGInv s = true) : GInv s := by
  unfold checkGInv at h
  simp only [Bool.and_eq_true, List.all_eq_true, beq_iff_eq, decide_eq_true_eq] at h
  obtain ⟨⟨⟨⟨⟨⟨⟨h1, h2⟩, h3⟩, h4⟩, h5⟩, h6⟩, h7⟩, h8⟩ := h
  refine ⟨⟨⟨h1, ?_, h3, h4⟩, h5⟩, ⟨h6, h7, h8⟩⟩
  intro u hu f hf
  have := h2 u hu
  unfold checkValidF at this
  simp only [List.all_eq_true, decide_eq_true_eq] at this
  exact this f hf

end Measured

namespace Measured
open St

def nodupB : List Nat → Bool
  | [] => true
  | x :: xs => !xs.contains x && nodupB xs

theorem nodupB_sound {l : List Nat} (h : nodupB l = true) : l.Nodup := by
  induction l with
  | nil => exact List.nodup_nil
  | cons x xs ih =>
    simp only [nodupB, Bool.and_eq_true, Bool.not_eq_true', List.contains_eq_mem, decide_eq_false_iff_not] at h
    exact List.nodup_cons.2 ⟨h.1, ih h.2⟩

def checkNorm (one : UId) (fs : Factors) : Bool :=
  fs == [(one, 1)] ||
    (nodupB (fs.map (·.1)) && fs.all (fun f => f.2 != 0) && !(fs.map (·.1)).contains one && !fs.isEmpty)

theorem checkNorm_sound {one : UId} {fs : Factors} (h : checkNorm one fs = true) : Norm one fs := by
  unfold checkNorm at h
  simp only [Bool.or_eq_true, beq_iff_eq, Bool.and_eq_true, List.all_eq_true, bne_iff_ne, ne_eq,
    Bool.not_eq_true', List.contains_eq_mem, decide_eq_false_iff_not, List.isEmpty_eq_false_iff] at h
  rcases h with h | ⟨⟨⟨h1, h2⟩, h3⟩, h4⟩
  · exact Or.inl h
  · exact Or.inr ⟨⟨nodupB_sound h1, h2⟩, h3, h4⟩

/-- Executable check of the canonical-table invariant: looking a record's own key up finds
    the record itself (no two records share a key), every factor mapping is in normal
    form, every prefix is normalised, and `One` is the identity-prefixed base unit. -/
def checkCanon (s : St) : Bool :=
  (List.range s.units.length).all (fun i =>
    findUnit s.units (s.unit! i).pfx (s.unit! i).factors == some i) &&
  s.units.all (fun u => checkNorm s.one u.factors) &&
  s.units.all (fun u => decide (u.pfx.base = 0 ↔ u.pfx.exp = 0)) &&
  decide (s.one < s.units.length) && ((s.unit! s.one).pfx == Pfx.identity) &&
  ((s.unit! s.one).factors == [(s.one, 1)])

theorem findUnit_congr {us : List UnitRec} {p q : Pfx} {f g : Factors} (hp : p = q)
    (hk : sortKey f = sortKey g) : findUnit us p f = findUnit us q g := by
  unfold findUnit; rw [hp, hk]

theorem checkCanon_sound {s : St} (h : checkCanon s = true) : Canon s := by
  unfold checkCanon at h
  simp only [Bool.and_eq_true, List.all_eq_true, beq_iff_eq, decide_eq_true_eq, List.mem_range] at h
  obtain ⟨⟨⟨⟨⟨h1, h2⟩, h3⟩, h4⟩, h5⟩, h6⟩ := h
  refine ⟨?_, fun u hu => checkNorm_sound (h2 u hu), fun u hu => h3 u hu, ⟨h4, h5, h6⟩⟩
  intro i j hi hj hp hk
  have a := h1 i hi
  have b := h1 j hj
  rw [unit!_eq hi] at a
  rw [unit!_eq hj] at b
  rw [findUnit_congr hp hk, b] at a
  injection a with a; exact a.symm

end Measured
