/-
  Proofs/Affine.lean — a conversion plan is an affine map `m ↦ A·m + B`; its coefficients
  are computed by `affineOf`.  Consequences used by C10: absolute zero, differences,
  ordering, round trips.
-/
import Proofs.PlanVal

namespace Measured

/-- compose `m ↦ m*s^e + o` after `(A, B)` -/
def affinePath (e : Int) : Rat × Rat → List HopV → Rat × Rat
  | ab, [] => ab
  | (a, b), h :: rest => affinePath e (a * h.scale ^ e, b * h.scale ^ e + h.offset) rest

def affinePlan : Rat × Rat → List StepV → Rat × Rat
  | ab, [] => ab
  | (a, b), st :: rest => affinePlan (affinePath st.exp (a * st.ratio, b * st.ratio) st.path) rest

/-- Coefficients `(A, B)` of the affine map a plan computes. -/
def affineOf (plan : List StepV) : Rat × Rat := affinePlan (1, 0) plan

theorem applyPathV_affine (e : Int) (path : List HopV) (a b m : Rat) :
    applyPathV e (a * m + b) path = (affinePath e (a, b) path).1 * m + (affinePath e (a, b) path).2 := by
  induction path generalizing a b with
  | nil => rfl
  | cons h rest ih =>
    simp only [applyPathV, affinePath]
    rw [← ih]
    congr 1; ring

theorem applyPlanV_affine' (plan : List StepV) (a b m : Rat) :
    applyPlanV (a * m + b) plan = (affinePlan (a, b) plan).1 * m + (affinePlan (a, b) plan).2 := by
  induction plan generalizing a b with
  | nil => rfl
  | cons st rest ih =>
    simp only [applyPlanV, affinePlan]
    rw [← ih, ← applyPathV_affine]
    congr 2; ring

/-- **Every magnitude**: applying a plan is `A·m + B`. -/
theorem applyPlanV_affine (plan : List StepV) (m : Rat) :
    applyPlanV m plan = (affineOf plan).1 * m + (affineOf plan).2 := by
  have := applyPlanV_affine' plan 1 0 m
  simpa [affineOf] using this

/-- Differences scale by the degree ratio: the offsets cancel. -/
theorem affine_difference (plan : List StepV) (m₁ m₂ : Rat) :
    applyPlanV m₁ plan - applyPlanV m₂ plan = (affineOf plan).1 * (m₁ - m₂) := by
  rw [applyPlanV_affine, applyPlanV_affine]; ring

/-- With a positive degree ratio the conversion preserves order and equality. -/
theorem affine_mono {plan : List StepV} (hA : 0 < (affineOf plan).1) (m₁ m₂ : Rat) :
    (m₁ < m₂ ↔ applyPlanV m₁ plan < applyPlanV m₂ plan) ∧
    (m₁ = m₂ ↔ applyPlanV m₁ plan = applyPlanV m₂ plan) := by
  rw [applyPlanV_affine, applyPlanV_affine]
  constructor
  · constructor
    · intro h; nlinarith
    · intro h; by_contra hc; push_neg at hc; nlinarith
  · constructor
    · intro h; rw [h]
    · intro h
      have : (affineOf plan).1 * (m₁ - m₂) = 0 := by linarith
      rcases mul_eq_zero.1 this with h0 | h0
      · exact absurd h0 (ne_of_gt hA)
      · linarith

/-- Round trip: if the two plans' coefficients compose to the identity within `ε` (checked
    on the generated data), converting there and back moves `m` by at most `ε·(|m| + 1)`. -/
theorem affine_round_trip {p q : List StepV} {ε : Rat}
    (hA : |(affineOf q).1 * (affineOf p).1 - 1| ≤ ε)
    (hB : |(affineOf q).1 * (affineOf p).2 + (affineOf q).2| ≤ ε) (m : Rat) :
    |applyPlanV (applyPlanV m p) q - m| ≤ ε * (|m| + 1) := by
  rw [applyPlanV_affine q, applyPlanV_affine p]
  have e : (affineOf q).1 * ((affineOf p).1 * m + (affineOf p).2) + (affineOf q).2 - m
      = ((affineOf q).1 * (affineOf p).1 - 1) * m + ((affineOf q).1 * (affineOf p).2 + (affineOf q).2) := by ring
  rw [e]
  calc |((affineOf q).1 * (affineOf p).1 - 1) * m + ((affineOf q).1 * (affineOf p).2 + (affineOf q).2)|
      ≤ |((affineOf q).1 * (affineOf p).1 - 1) * m| + |(affineOf q).1 * (affineOf p).2 + (affineOf q).2| :=
        abs_add_le _ _
    _ = |(affineOf q).1 * (affineOf p).1 - 1| * |m| + |(affineOf q).1 * (affineOf p).2 + (affineOf q).2| := by
        rw [abs_mul]
    _ ≤ ε * |m| + ε := by
        have : 0 ≤ |m| := abs_nonneg m
        nlinarith
    _ = ε * (|m| + 1) := by ring

end Measured
