"""C05 — conversion is an invertible linear scaling, independent of the route taken.

Generator: triples of equal-dimension units from the C04 space; magnitudes of all three kinds
(both signs, zero) and scale factors k; for each triple: q -> B, (k*q) -> B, q -> q.unit,
q -> B -> A (round trip), q -> B -> C versus q -> C (route).
Oracle (implementation only): linearity k*conv(q) == conv(k*q) (1e-12), zero, sign,
self-conversion (1e-12), round trip and route independence (1e-5 per degree on shipped
definitions).  Failures in the catalogued planner classes are known findings.
"""
from fractions import Fraction as F

from measured import Quantity, Unit

from sizes import degree
from .convcommon import ConvContext, classify, ftok

LEVEL_TEXT = ("Lean, for every offset-free plan the model can produce - sound or not - and every magnitude: converting k*q gives k "
              "times the conversion of q, zero converts to zero, the sign is preserved when the plan's constants are positive "
              "(convert_linear/zero/sign: a plan is a product of constants); the model's convert returns q.mag * kappa with kappa "
              "depending only on the plan (convert_proportional); converting a quantity to its own unit returns the same magnitude "
              "exactly, proved for the planner itself (convert_self: the plan is the identity hop followed by 1/prefix); round trip "
              "and route independence are proved at full strength under the hypothesis that each leg's coefficient is its size ratio "
              "(round_trip, route_independent). Per run the kernel evaluates the planner on the family: plans are offset-free with "
              "positive constants and there-and-back coefficients multiply to 1 (family_round_trip). For the DIRECT FRAGMENT the "
              "planner itself is proved (Proofs/PathSound, GraphHist): in every state reached by unit operations, declarations "
              "consistent with a size assignment and directly settled conversions, in any order, whatever non-empty path "
              "_find_path_recursive/_reduce_dimension return multiplies to size(start)/size(stop) (findPath_sound, through every "
              "recursion, gcd-root reduction and re-raising), so a directly settled conversion is exact, there-and-back is the "
              "identity and a route via an intermediate unit agrees with the direct one (direct_conversion_exact, "
              "direct_round_trip, direct_route_independent); hypotheses shown inhabited on the regenerated registries "
              "(direct_fragment_inhabited). THROUGH THE FACTOR PLANNER (Proofs/PlanSingle, PlanSimple): for products of powers "
              "of base units with any prefixes whose dimensions are fundamental and pairwise independent and whose key-by-key "
              "pairing exhausts both sides - km/h -> m/s, kg*m^2 -> lb*ft^2, cm^3 -> in^3, kilometre -> mile - whatever convert "
              "returns is exact (convert_simple_exact / simple_conversion_exact; convert_single_exact for one factor with the "
              "pairing discharged): _replace_factors is a no-op there, _match_factors is the functional matchSpec, a potential "
              "over the factor dicts ties the paired steps to the sizes, _inline_paths is sound step by step; inhabited on the "
              "regenerated registries (single_factor_inhabited, simple_inhabited). Tied to the code by differential execution and the oracle on triples of units.")
LEVEL_NOTE = ("Round trip / route independence for arbitrary units inherit C04's partiality (same known findings). Float self-"
              "conversion of a prefixed unit multiplies by p and then by 1/p (one ulp); the oracle uses 1e-12.")
TECHNIQUE = "Lean 4 proofs (linearity of plans; self-conversion of the planner; path search proved sound, direct conversions exact over all histories; conditional round-trip/route elsewhere) + kernel-evaluated family + differential correspondence + oracle"

THEOREMS = [
    "Measured.C05.convert_linear", "Measured.C05.convert_zero", "Measured.C05.convert_sign",
    "Measured.C05.convert_proportional", "Measured.C05.convert_self", "Measured.C05.round_trip",
    "Measured.C05.route_independent", "Measured.Obligations.family_round_trip", "Measured.Obligations.planShapeOk_sound",
    "Measured.findPath_sound", "Measured.findPath_total", "Measured.equate_graphOK", "Measured.reach_graphOK",
    "Measured.C05.direct_conversion_exact", "Measured.C05.direct_round_trip", "Measured.C05.direct_route_independent",
    "Measured.Obligations.Direct.c0_graphOK", "Measured.Obligations.Direct.direct_fragment_inhabited",
    "Measured.convert_single_exact", "Measured.convert_simple_exact", "Measured.match_loop", "Measured.inlinePaths_sound",
    "Measured.C05.single_factor_conversion_exact", "Measured.C05.simple_conversion_exact",
    "Measured.Obligations.Direct.shipped_fundamental_dimensions", "Measured.Obligations.Direct.single_factor_inhabited",
    "Measured.Obligations.Direct.simple_inhabited",
    "Measured.matchFactors_refactor", "Measured.reach2_graphOK",
    "Measured.convert_simple_near", "Measured.Obligations.NearShipped.shipped_simple_conversions_near",
    "Measured.Obligations.NearShipped.shipped_simple_inhabited",
    "Measured.C05.flat_conversion_closed_form", "Measured.C04.simple_conversion_near", "Measured.C04.direct_conversion_near",
]
LEAN_TARGETS = ["Props.C05", "Proofs.MatchRefactor", "Proofs.ReachSimple", "Obligations.C05", "Obligations.C05Direct", "Obligations.C05Near", "Props.Planner"]
QUICK = {"chunks": 4, "ops": 1500}
THOROUGH = {"chunks": 16, "ops": 9000}
RTOL = 1e-11
RULE = ("(unit A, unit B, unit C, magnitude, k) with units from the C04 space; non-trivial = A, B differ; "
        "distinct by (A, B, C, kind of check)")


class Context(ConvContext):
    def __init__(self, sess, rng):
        super().__init__(sess, rng)
        self.expect = {}     # line -> (kind, data)


def close(a, b, tol):
    a, b = F(a), F(b)
    if a == b:
        return True
    return abs(a - b) <= tol * max(abs(a), abs(b))


def oracle(ctx, line, res):
    exp = ctx.expect.pop(line, None)
    if exp is None:
        return []
    kind, data = exp
    ctx.oracle_checks += 1
    cls = data.get("class")
    if res.startswith("ERR"):
        err = res[4:]
        if err == "ConversionNotFound":
            return []
        return [{"kind": "conversion-raises", "error": err, "class": cls, "check": kind,
                 "from": data.get("from"), "to": data.get("to")}]
    if not res.startswith("ok\tq"):
        return []
    r = ctx.sess.qs[-1]
    got = F(r.magnitude)
    fails = []

    def bad(detail):
        fails.append(dict({"kind": "conversion-wrong", "class": cls, "check": kind,
                           "from": data.get("from"), "to": data.get("to")}, **detail))

    if kind == "self":
        if not close(got, F(data["m"]), F(1, 10**12)):
            bad({"got": float(got), "want": float(F(data["m"]))})
    elif kind == "linear":
        base = data["base"]()
        if base is not None and not close(got, F(data["k"]) * F(base), F(1, 10**11)):
            bad({"got": float(got), "want": float(F(data["k"]) * F(base)), "k": str(data["k"])})
    elif kind == "zero":
        if got != 0:
            bad({"got": float(got), "want": 0.0})
    elif kind == "sign":
        m = F(data["m"])
        if (got > 0) != (m > 0) or (got < 0) != (m < 0):
            bad({"got": float(got), "sign_of": float(m)})
    elif kind == "roundtrip":
        tol = F(1, 10**5) * data["deg"]
        if not close(got, F(data["m"]), tol):
            bad({"got": float(got), "want": float(F(data["m"]))})
    elif kind == "route":
        direct = data["direct"]()
        tol = F(1, 10**5) * data["deg"]
        if direct is not None and not close(got, F(direct), tol):
            bad({"got": float(got), "want": float(F(direct))})
    return fails


def nontrivial(ctx, line, res):
    f = line.split("\t")
    if f[0] == "X" and f[1] == "conv":
        q, t = ctx.sess.arg(f[2]), ctx.sess.arg(f[3])
        return (ctx.sess.uid(q.unit), ctx.sess.uid(t), res[:6])
    return None


def drive(gen):
    """helper: run a sub-generator to completion inside another generator"""
    return (yield from gen)


def generate(ctx, n_ops):
    rng = ctx.rng
    emitted = 0

    def build(fs, p):
        nonlocal emitted
        g = ctx.build(fs, p)
        try:
            line = next(g)
            while True:
                res = yield line
                emitted += 1
                line = g.send(res)
        except StopIteration as stop:
            return stop.value

    def qnew(m, u):
        nonlocal emitted
        res = yield "X\tqnew\t%s\tu%d" % (m, u)
        emitted += 1
        if res.startswith("ok\tq"):
            ctx.nq += 1
            return ctx.nq - 1
        return None

    def conv(qi, u, expect=None):
        nonlocal emitted
        line = "X\tconv\tq%d\tu%d" % (qi, u)
        if expect:
            ctx.expect[line] = expect
        res = yield line
        emitted += 1
        if res.startswith("ok\tq"):
            ctx.nq += 1
            return ctx.nq - 1
        return None

    # a synthetic system with redundant definitions, including declarations whose left-hand side
    # is prefixed / has a magnitude other than 1 (forward and reverse stored ratios must be inverses)
    from .c04 import synthetic_system
    g = synthetic_system(ctx, "c5syn%d" % rng.randrange(10**6))
    try:
        line = next(g)
        while True:
            res = yield line
            emitted += 1
            line = g.send(res)
    except StopIteration:
        pass
    ctx.resolve_sizes()
    while emitted < n_ops:
        src, dst = ctx.gen_units()
        if rng.random() < 0.2:
            syn = [u for u in ctx.named if (u.name or "").startswith("c5syn")]
            if syn:
                e = rng.choice([1, 1, 2, -1])
                src = [(rng.choice(syn), e)]
                dst = [(rng.choice(syn + [Unit._by_name["meter"]]), e)]
        # a third unit of the same dimension: replace again
        third = [(rng.choice(ctx.bydim[u.dimension]), e) for u, e in src]
        pa = ctx.si_prefix() if rng.random() < 0.3 else None
        pb = ctx.si_prefix() if rng.random() < 0.3 else None
        a = yield from build(src, pa)
        b = yield from build(dst, pb)
        c3 = yield from build(third, None)
        if a is None or b is None or c3 is None:
            continue
        ua, ub, uc = ctx.unit(a), ctx.unit(b), ctx.unit(c3)
        cls = classify(ua, ub)
        info = {"class": cls, "from": str(ua), "to": str(ub)}
        deg = degree(ua) + degree(ub)
        m = ctx.magnitude()
        from impl import parse_mag
        mval = parse_mag(m)
        qa = yield from qnew(m, a)
        if qa is None:
            continue
        # self conversion
        yield from conv(qa, a, ("self", dict(info, m=mval, to=str(ua), **{"class": classify(ua, ua)})))
        # base conversion
        qb = yield from conv(qa, b, ("sign", dict(info, m=mval)) if mval != 0 else ("zero", info))
        if qb is None:
            continue
        base_mag = ctx.sess.qs[qb].magnitude
        # linearity
        k = rng.choice([2, -3, 0.5, 10, 7])
        if not isinstance(mval, float) and not isinstance(k, float):
            km = "i:%d" % (int(mval) * k) if isinstance(mval, int) else None
        else:
            km = None
        if km is None:
            km = ftok(float(mval) * float(k))
        qk = yield from qnew(km, a)
        if qk is not None:
            yield from conv(qk, b, ("linear", dict(info, k=F(parse_mag(km)) / F(mval) if mval else 0,
                                                   base=(lambda bm=base_mag: bm))) if mval else ("zero", info))
        # round trip
        yield from conv(qb, a, ("roundtrip", dict(info, m=mval, deg=2 * deg, to=str(ua), **{"from": str(ub)})))
        # route: a -> b -> c versus a -> c
        qc_direct = yield from conv(qa, c3, None)
        if qc_direct is not None:
            dm = ctx.sess.qs[qc_direct].magnitude
            cls2 = classify(ua, uc) or classify(ub, uc) or cls
            yield from conv(qb, c3, ("route", dict(info, deg=2 * deg + degree(uc), direct=(lambda d=dm: d),
                                                   to=str(uc), **{"from": str(ub), "class": cls2})))
    yield "STATE"
