/-
  Per-run obligations that put the SHIPPED conversion graph (regenerated from /repo on this run) under
  the approximate path-search theorem (Proofs/PathNear.lean): with the sizes of the C09 certificate,
  every stored ratio is right up to a factor in [1 − 10⁻³, 1 + 10⁻³] (2·10⁻⁵ for all but one known pair); graph nodes are unprefixed; both
  ends of every edge have one dimension and a row of their own; offsets sit only on units with a
  temperature exponent.  Consequence (`shipped_direct_conversions_near`): for EVERY pair of interned
  units without temperature in the source — not a sampled family — whatever `convert` returns
  through a directly found path is right up to (1 ± 10⁻³)^W, W ≤ max(1, gcd of the exponents) · hops.
-/
import Proofs.PathNear
import Obligations.C04
import Obligations.C02

namespace Measured.Obligations.NearShipped
open Measured Measured.Obligations Generated St

/-- the slack is dictated by ONE shipped pair: the ton of refrigeration is declared both as 12000 BTU/h and as
    3.51685 kW, which differ by 6.7·10⁻⁴ (known finding C09-TR); every other edge is within 2·10⁻⁵ (`rows_tight`) -/
def lbS : Rat := 1 - 1 / 1000
def ubS : Rat := 1 + 1 / 1000

theorem bnd : Bnd lbS ubS := ⟨by norm_num [lbS], by norm_num [lbS], by norm_num [ubS]⟩

/-- base sizes of the C09 certificate (1 where it is silent) -/
def σS (k : UId) : Rat := (sizeCert.get k).getD 1

def certPositive : Bool := sizeCert.all (fun e => decide (0 < e.2.1) && decide (0 < e.2.2))
theorem cert_positive : certPositive = true := by decide +kernel

theorem σS_pos (k : UId) : 0 < σS k := by
  unfold σS SizeCert.get
  cases hf : sizeCert.find? (fun e => e.1 == k) with
  | none => simp
  | some e =>
    simp only
    split
    · simp
    · next hne =>
      simp only [Bool.or_eq_true, beq_iff_eq, not_or] at hne
      simp only [Option.getD_some]
      have h1 : 0 < e.2.1 := Nat.pos_of_ne_zero hne.2
      have h2 : 0 < e.2.2 := Nat.pos_of_ne_zero hne.1
      exact div_pos (by exact_mod_cast h1) (by exact_mod_cast h2)

def shipped : Conv Rat := famConv

/-- every row of the shipped ratio table: valid unprefixed key, every entry a valid unprefixed unit of the
    key's dimension that has a row itself, a positive ratio within the bounds -/
def rowsOk : Bool :=
  shipped.ratios.all (fun r => r.2.isEmpty ||
    decide (r.1 < init.units.length) && ((init.unit! r.1).pfx == Pfx.identity) &&
    r.2.all (fun e =>
      decide (e.1 < init.units.length) && ((init.unit! e.1).pfx == Pfx.identity) &&
      (init.dimOfUnit r.1 == init.dimOfUnit e.1) && shipped.ratios.any (fun q => q.1 == e.1) &&
      decide (0 < e.2.val) &&
      decide (lbS ^ 1 * unitSz σS init r.1 ≤ e.2.val * unitSz σS init e.1) &&
      decide (e.2.val * unitSz σS init e.1 ≤ ubS ^ 1 * unitSz σS init r.1)))

theorem rows_ok : rowsOk = true := by decide +kernel

/-- all edges but the known pair are within 2·10⁻⁵ -/
def rowsTight : Bool :=
  shipped.ratios.all (fun r => r.2.all (fun e =>
    excludedPairs.contains (r.1, e.1) ||
    (decide ((1 - 2 / 100000) * unitSz σS init r.1 ≤ e.2.val * unitSz σS init e.1) &&
     decide (e.2.val * unitSz σS init e.1 ≤ (1 + 2 / 100000) * unitSz σS init r.1))))

theorem rows_tight : rowsTight = true := by decide +kernel

/-! ### from the checks to the invariants -/

theorem row_mem {β : Type} {t : Table β} {a b : UId} {m : β} (h : (b, m) ∈ t.row a) :
    ∃ r ∈ t, r.1 = a ∧ (b, m) ∈ r.2 := by
  unfold Table.row at h
  cases hf : t.find? (fun r => r.1 == a) with
  | none => rw [hf] at h; cases h
  | some r =>
    rw [hf] at h
    exact ⟨r, List.mem_of_find?_eq_some hf, by have := List.find?_some hf; simpa using this, h⟩

theorem shipped_graphNear : GraphNear lbS ubS σS shipped := by
  have hr := rows_ok
  unfold rowsOk at hr
  simp only [List.all_eq_true, Bool.or_eq_true, Bool.and_eq_true, decide_eq_true_eq, beq_iff_eq, List.any_eq_true,
    List.isEmpty_iff] at hr
  have hone : σS init.one = 1 := by decide +kernel
  refine ⟨init_canon, init_ginv.1, init_ginv.2, hone, ?_, ?_⟩
  · intro a b m hm
    obtain ⟨r, hr1, rfl, hmem⟩ := row_mem hm
    rcases hr r hr1 with hemp | h
    · rw [hemp] at hmem; cases hmem
    · obtain ⟨⟨hk, _⟩, hall⟩ := h
      obtain ⟨⟨⟨⟨⟨⟨hb, _⟩, _⟩, _⟩, hpos⟩, hlo⟩, hhi⟩ := hall (b, m) hmem
      exact ⟨hk, hb, hpos, hlo, hhi⟩
  · intro a b m hm
    obtain ⟨r, hr1, rfl, hmem⟩ := row_mem hm
    rcases hr r hr1 with hemp | h
    · rw [hemp] at hmem; cases hmem
    · obtain ⟨⟨_, hp⟩, hall⟩ := h
      obtain ⟨⟨⟨⟨⟨⟨_, hpb⟩, _⟩, _⟩, _⟩, _⟩, _⟩ := hall (b, m) hmem
      exact ⟨hp, hpb⟩

theorem shipped_graphWF : GraphWF shipped := by
  have hr := rows_ok
  unfold rowsOk at hr
  simp only [List.all_eq_true, Bool.or_eq_true, Bool.and_eq_true, decide_eq_true_eq, beq_iff_eq, List.any_eq_true,
    List.isEmpty_iff] at hr
  refine ⟨?_, ?_⟩
  · intro a b m hm
    obtain ⟨r, hr1, rfl, hmem⟩ := row_mem hm
    rcases hr r hr1 with hemp | h
    · rw [hemp] at hmem; cases hmem
    · obtain ⟨_, hall⟩ := h
      obtain ⟨⟨⟨⟨⟨⟨_, _⟩, hd⟩, _⟩, _⟩, _⟩, _⟩ := hall (b, m) hmem
      exact hd
  · intro a b m hm
    obtain ⟨r, hr1, rfl, hmem⟩ := row_mem hm
    rcases hr r hr1 with hemp | h
    · rw [hemp] at hmem; cases hmem
    · obtain ⟨_, hall⟩ := h
      obtain ⟨⟨⟨⟨⟨⟨_, _⟩, _⟩, ⟨q, hq, hq1⟩⟩, _⟩, _⟩, _⟩ := hall (b, m) hmem
      exact List.mem_map.2 ⟨q, hq, hq1⟩

/-! ### offsets only on temperature scales -/

def kIdx : UId := (lookup "kelvin" init.unitByName).getD 0
/-- position of the temperature exponent in the dimension vectors -/
def tIdx : Nat := (init.dimOfUnit kIdx).findIdx (· != 0)
/-- dimensions without temperature -/
def Zt (d : Dim) : Prop := d.getD tIdx 0 = 0

theorem rootClosed_Zt : RootClosed Zt := by
  intro d g d' hz hr
  unfold Dim.root at hr
  unfold Zt at hz ⊢
  split at hr
  · injection hr with hr; subst hr
    unfold Dim.number
    simp [List.getD_eq_getElem?_getD, List.getElem?_replicate]
    split <;> rfl
  · split at hr
    · cases hr
    · injection hr with hr; subst hr
      rw [List.getD_eq_getElem?_getD, List.getElem?_map]
      rw [List.getD_eq_getElem?_getD] at hz
      cases hd : d[tIdx]? with
      | none => rfl
      | some x =>
        rw [hd] at hz
        simp only [Option.getD_some] at hz
        subst hz
        simp [Int.fdiv]

def offsetsOk : Bool :=
  shipped.offsets.all (fun r => r.2.isEmpty ||
    (decide (r.1 < init.units.length) && decide ((init.dimOfUnit r.1).getD tIdx 0 ≠ 0)))

theorem offsets_ok : offsetsOk = true := by decide +kernel

theorem shipped_offRef : OffRef shipped.st Zt shipped.offsets := by
  show OffRef init Zt shipped.offsets
  have ho := offsets_ok
  unfold offsetsOk at ho
  simp only [List.all_eq_true, Bool.or_eq_true, Bool.and_eq_true, decide_eq_true_eq, List.isEmpty_iff] at ho
  intro a b m hg
  have hmem := Table.get?_some_mem hg
  obtain ⟨r, hr1, rfl, hm⟩ := row_mem hmem
  rcases ho r hr1 with hemp | ⟨h1, h2⟩
  · rw [hemp] at hm; cases hm
  · exact ⟨h1, h2⟩

/-- **Every directly settled conversion on the shipped definitions** (all interned units, any magnitude;
    sources without a temperature exponent): `result · size(target) = magnitude · X` with
    `(1 − 10⁻³)^W · size(source) ≤ X ≤ (1 + 10⁻³)^W · size(source)`, `W ≤ max(1, gcd) · hops`. -/
theorem shipped_direct_conversions_near {c' : Conv Rat} {q r : Qty Rat} {t : UId}
    (hq : q.unit < shipped.st.units.length) (ht : t < shipped.st.units.length) (hz : Zt (shipped.st.dimOfUnit q.unit))
    (h : CM.exec (convert q t) shipped = (.ok r, c')) :
    r.unit = t ∧
    ∃ (direct : List (Hop Rat)) (c2 : Conv Rat),
      CM.exec (findPath q.unit t)
        { shipped with st := ((shipped.st.unprefixedUnit q.unit).1.unprefixedUnit t).1 } = (.ok direct, c2) ∧
      (direct ≠ [] → ∃ (X : Rat) (W : Nat), r.mag.val * unitSz σS shipped.st t = q.mag.val * X ∧
        W ≤ Gd shipped.st q.unit * direct.length ∧ Near lbS ubS W X (unitSz σS shipped.st q.unit)) :=
  convert_direct_near rootClosed_Zt bnd σS_pos shipped_graphNear shipped_graphWF hq ht shipped_offRef hz h

/-- The same after ANY public unit operations on the shipped registries (powers, products, prefixes, new
    names, …): every directly settled conversion between whatever units exist then (`c₁` is that state). -/
theorem shipped_direct_conversions_near_after (ops : List Op) {c₁ c' : Conv Rat}
    (hc₁ : c₁ = { shipped with st := run shipped.st ops }) {q r : Qty Rat} {t : UId}
    (hq : q.unit < c₁.st.units.length) (ht : t < c₁.st.units.length)
    (hz : Zt (c₁.st.dimOfUnit q.unit))
    (h : CM.exec (convert q t) c₁ = (.ok r, c')) :
    r.unit = t ∧
    ∃ (direct : List (Hop Rat)) (c2 : Conv Rat),
      CM.exec (findPath q.unit t)
        { c₁ with st := ((c₁.st.unprefixedUnit q.unit).1.unprefixedUnit t).1 } = (.ok direct, c2) ∧
      (direct ≠ [] → ∃ (X : Rat) (W : Nat), r.mag.val * unitSz σS c₁.st t = q.mag.val * X ∧
        W ≤ Gd c₁.st q.unit * direct.length ∧ Near lbS ubS W X (unitSz σS c₁.st q.unit)) :=
  convert_direct_near_after rootClosed_Zt bnd σS_pos ops hc₁ shipped_graphNear shipped_graphWF shipped_offRef hq ht hz h

end Measured.Obligations.NearShipped
