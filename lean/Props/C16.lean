/-
  Props/C16.lean — the checked-in parser implements exactly the grammar.

  `GrammarIso φ ρ g g'`: the LR table of `g'` is the table of `g` with states renamed by an
  injective `φ` and rule indices by `ρ`, the rule lists agree through `ρ`, start/end states
  correspond and the lexer configuration (terminal order, ignore list) is identical.  Then
  for EVERY input text the two grammars drive the parser to the same result: same parse
  tree / same rejection (`parseTree_iso`), and the same `Unit.parse` / `Quantity.parse`
  outcome including all registry side effects (`parseUnit_iso`, `parseQuantity_iso`).

  Per run (`Obligations/C16.lean`) the kernel checks `GrammarIso` between the tables shipped in
  `_parser.py` and the tables freshly generated from `measured.lark` with the Makefile's
  options, and that rules/terminals/options are those of the grammar.
-/
import Proofs.LRIso
import Model.Text

namespace Measured
namespace C16

/-- The total state map of a finite candidate bijection: listed states go where the list says,
    all other numbers are moved out of the way (beyond every listed image). -/
def phiOf (iso : List (Nat × Nat)) (bound : Nat) (q : Nat) : Nat :=
  match iso.lookup q with
  | some q' => q'
  | none => q + bound

def rhoOf (perm : List (Nat × Nat)) (n : Nat) (r : Nat) : Nat :=
  if r < n then (perm.lookup r).getD r else r

/-- Decidable certificate that `phiOf iso bound` is injective. -/
def isoInjective (iso : List (Nat × Nat)) (bound : Nat) : Bool :=
  decide (iso.map Prod.snd).Nodup && iso.all (fun p => p.2 < bound)

theorem lookup_mem {q q' : Nat} : ∀ {iso : List (Nat × Nat)}, iso.lookup q = some q' → (q, q') ∈ iso
  | [], h => by simp at h
  | (a, b) :: rest, h => by
    simp only [List.lookup_cons] at h
    by_cases hq : q = a
    · subst hq; simp at h; subst h; exact List.mem_cons_self
    · rw [beq_eq_false_iff_ne.mpr hq] at h
      exact List.mem_cons_of_mem _ (lookup_mem h)

theorem snd_nodup_inj : ∀ {iso : List (Nat × Nat)}, (iso.map Prod.snd).Nodup →
    ∀ {a b c : Nat}, (a, c) ∈ iso → (b, c) ∈ iso → a = b
  | [], _, _, _, _, h, _ => by simp at h
  | (x, y) :: rest, hn, a, b, c, ha, hb => by
    simp only [List.map_cons, List.nodup_cons] at hn
    rcases List.mem_cons.mp ha with ha | ha <;> rcases List.mem_cons.mp hb with hb | hb
    · cases ha; cases hb; rfl
    · cases ha
      exact absurd (List.mem_map.mpr ⟨_, hb, rfl⟩) hn.1
    · cases hb
      exact absurd (List.mem_map.mpr ⟨_, ha, rfl⟩) hn.1
    · exact snd_nodup_inj hn.2 ha hb

theorem phiOf_injective {iso : List (Nat × Nat)} {bound : Nat} (h : isoInjective iso bound = true) :
    Function.Injective (phiOf iso bound) := by
  unfold isoInjective at h
  simp only [Bool.and_eq_true, decide_eq_true_eq, List.all_eq_true] at h
  obtain ⟨hn, hb⟩ := h
  intro a b hab
  unfold phiOf at hab
  cases ha : iso.lookup a with
  | some a' =>
    cases hb' : iso.lookup b with
    | some b' =>
      rw [ha, hb'] at hab
      simp only at hab
      subst hab
      exact snd_nodup_inj hn (lookup_mem ha) (lookup_mem hb')
    | none =>
      rw [ha, hb'] at hab
      simp only at hab
      have := hb _ (lookup_mem ha)
      simp only at this
      omega
  | none =>
    cases hb' : iso.lookup b with
    | some b' =>
      rw [ha, hb'] at hab
      simp only at hab
      have := hb _ (lookup_mem hb')
      simp only at this
      omega
    | none =>
      rw [ha, hb'] at hab
      simp only at hab
      omega

/-- Decidable certificate that the rule lists agree through the renumbering. -/
def rulesAgree (perm : List (Nat × Nat)) (rules rules' : List GRule) : Bool :=
  rules'.length == rules.length &&
    (List.range rules.length).all (fun r => rules'[rhoOf perm rules.length r]? == rules[r]?)

theorem rulesAgree_sound {perm rules rules'} (h : rulesAgree perm rules rules' = true) :
    ∀ r, rules'[rhoOf perm rules.length r]? = rules[r]? := by
  unfold rulesAgree at h
  simp only [Bool.and_eq_true, beq_iff_eq, List.all_eq_true, List.mem_range] at h
  intro r
  by_cases hr : r < rules.length
  · exact h.2 r hr
  · have h1 : rules[r]? = none := List.getElem?_eq_none (by omega)
    have h2 : rhoOf perm rules.length r = r := by unfold rhoOf; simp [hr]
    rw [h1, h2]
    exact List.getElem?_eq_none (by omega)

structure GrammarIso (φ ρ : Nat → Nat) (g g' : Grammar) : Prop where
  inj       : Function.Injective φ
  table     : renameTable φ ρ g.table = g'.table
  rules     : ∀ r, g'.rules[ρ r]? = g.rules[r]?
  startUnit : g'.startUnit = φ g.startUnit
  endUnit   : g'.endUnit = φ g.endUnit
  startQty  : g'.startQty = φ g.startQty
  endQty    : g'.endQty = φ g.endQty
  lexOrder  : g'.lexOrder = g.lexOrder
  ignore    : g'.ignore = g.ignore
  patterns  : g'.patterns = g.patterns

/-- Decidable certificate for `GrammarIso` with the maps of a candidate bijection. -/
def checkIso (iso perm : List (Nat × Nat)) (bound : Nat) (g g' : Grammar) : Bool :=
  let φ := phiOf iso bound
  let ρ := rhoOf perm g.rules.length
  isoInjective iso bound &&
  decide (renameTable φ ρ g.table = g'.table) &&
  rulesAgree perm g.rules g'.rules &&
  g'.startUnit == φ g.startUnit && g'.endUnit == φ g.endUnit &&
  g'.startQty == φ g.startQty && g'.endQty == φ g.endQty &&
  g'.lexOrder == g.lexOrder && g'.ignore == g.ignore && g'.patterns == g.patterns

theorem checkIso_sound {iso perm bound g g'} (h : checkIso iso perm bound g g' = true) :
    GrammarIso (phiOf iso bound) (rhoOf perm g.rules.length) g g' := by
  unfold checkIso at h
  simp only [Bool.and_eq_true, decide_eq_true_eq, beq_iff_eq] at h
  obtain ⟨⟨⟨⟨⟨⟨⟨⟨⟨h1, h2⟩, h3⟩, h4⟩, h5⟩, h6⟩, h7⟩, h8⟩, h9⟩, h10⟩ := h
  exact ⟨phiOf_injective h1, h2, rulesAgree_sound h3, h4, h5, h6, h7, h8, h9, h10⟩

variable {φ ρ : Nat → Nat} {g g' : Grammar}

theorem lexConf_iso (h : GrammarIso φ ρ g g') : g'.lexConf = g.lexConf := by
  unfold Grammar.lexConf; rw [h.lexOrder, h.ignore, h.patterns]

/-- **C16, trees**: for every text, the isomorphic grammar accepts/rejects identically and
    builds the identical parse tree — for both start symbols. -/
theorem parseTree_iso (h : GrammarIso φ ρ g g') (start stop : Nat) (text : String) :
    parseTree g' (φ start) (φ stop) text = parseTree g start stop text := by
  unfold parseTree
  rw [← h.table, lexConf_iso h]
  rw [parseWith_rename h.inj g.table g.rules g'.rules h.rules]

theorem parseTree_unit_iso (h : GrammarIso φ ρ g g') (text : String) :
    parseTree g' g'.startUnit g'.endUnit text = parseTree g g.startUnit g.endUnit text := by
  rw [h.startUnit, h.endUnit]; exact parseTree_iso h _ _ text

theorem parseTree_quantity_iso (h : GrammarIso φ ρ g g') (text : String) :
    parseTree g' g'.startQty g'.endQty text = parseTree g g.startQty g.endQty text := by
  rw [h.startQty, h.endQty]; exact parseTree_iso h _ _ text

section
variable {α : Type} [Add α] [Sub α] [Mul α] [Div α] [Neg α] [OfNat α 0] [OfNat α 1] [FloatLike α]
set_option linter.unusedSectionVars false

theorem parseStart_iso (h : GrammarIso φ ρ g g') (start stop : Nat) (text : String) :
    (parseStart g' (φ start) (φ stop) text : CM α (Val α)) = parseStart g start stop text := by
  unfold parseStart
  rw [← h.table, lexConf_iso h]
  simp only [parseWith_rename h.inj g.table g.rules g'.rules h.rules]

/-- **C16, values**: `Unit.parse` through the isomorphic grammar is the same computation —
    same unit or same exception, same registry side effects — on every text and state. -/
theorem parseUnit_iso (h : GrammarIso φ ρ g g') (text : String) :
    (parseUnit g' text : CM α UId) = parseUnit g text := by
  unfold parseUnit
  rw [h.startUnit, h.endUnit, parseStart_iso h]

theorem parseQuantity_iso (h : GrammarIso φ ρ g g') (text : String) :
    (parseQuantity g' text : CM α (Qty α)) = parseQuantity g text := by
  unfold parseQuantity
  rw [h.startQty, h.endQty, parseStart_iso h]

end

/-- Non-vacuity: a two-state table and a genuine (non-identity) renaming. -/
example : isoInjective [(0, 5), (1, 3)] 6 = true := by decide

end C16
end Measured
