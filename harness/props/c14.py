"""C14 — uncertainty propagates by first-order Gaussian rules for independent inputs.

Generator: measurements with measurand magnitudes of both signs including zero, non-negative
uncertainties (incl. zero), all three magnitude kinds, combined by + - * / and integer powers in
[-4, 4], with measurements or plain quantities on either side, operands in different
convertible units (prefixed, other named units of the dimension).
Oracle (implementation only): measurand == the same operation on the plain quantities;
uncertainty**2 == sum((df/dx_i * sigma_i)**2) with analytic partial derivatives in exact
rational arithmetic (compared after squaring, 1e-9); uncertainty >= 0; independence of the units
the operands were written in (the same physical inputs re-expressed give the same physical
result).
"""
import struct
from decimal import Decimal
from fractions import Fraction as F

from measured import Measurement, Quantity, Unit

from .convcommon import ConvContext, classify, ftok

LEVEL_TEXT = ("Lean over the reals, for all measurands and uncertainties: for f in {x+y, x-y, x*y, x/y, x**n (n integer)} the partial "
              "derivatives are PROVED (HasDerivAt) and the uncertainty the source computes satisfies sigma_f^2 = sum (df/dx_i * "
              "sigma_i)^2 (add/sub/mul/div/pow_first_order); uncertainties are non-negative; a plain quantity behaves as sigma = 0; "
              "x**1 keeps sigma and the product is well defined at a zero measurand (mul_at_zero, pow_one); rescaling operands by "
              "positive constants (other units) rescales measurand and uncertainty together (mul/add_unit_independent). The value "
              "of _join_uncertainties in the Lean MODEL of Measurement is proved to be exactly that formula (join_valR, "
              "mul_uncertainty_model), and the model is tied to the code by differential execution; the analytic oracle runs on "
              "the real library. Fixed on the way: the power rule (was |n x^2 sigma|), division by the measurand at zero, and "
              "Decimal 0**0 for x**1.")
LEVEL_NOTE = ("Trusted: Lean kernel + Mathlib calculus (HasDerivAt, Real.sqrt). The theorems are over exact reals; IEEE rounding and "
              "Decimal's context are not modelled. Decimal magnitudes follow the same formula (an exact rational in the model); "
              "math.sqrt returns a float for every magnitude kind.")
TECHNIQUE = "Lean 4 + Mathlib real analysis (derivatives proved) for the propagation formulas, model link (join_valR) + differential correspondence + analytic oracle"

THEOREMS = [
    "Measured.C14.add_first_order", "Measured.C14.sub_first_order", "Measured.C14.mul_first_order",
    "Measured.C14.div_first_order", "Measured.C14.pow_first_order", "Measured.C14.uncertainty_nonneg",
    "Measured.C14.mul_plain", "Measured.C14.add_plain", "Measured.C14.pow_abs", "Measured.C14.pow_one",
    "Measured.C14.mul_at_zero", "Measured.C14.mul_unit_independent", "Measured.C14.add_unit_independent",
    "Measured.C14.mul_uncertainty_model", "Measured.C14.join_model", "Measured.join_valR",
]
LEAN_TARGETS = ["Props.C14"]
QUICK = {"chunks": 4, "ops": 1200}
THOROUGH = {"chunks": 16, "ops": 7000}
RTOL = 1e-10
RULE = ("(measurement or quantity x, measurement or quantity y, operator) / (measurement, exponent); non-trivial = at least one "
        "non-zero uncertainty; distinct by op text and operand values")


class Context(ConvContext):
    def __init__(self, sess, rng):
        super().__init__(sess, rng)
        self.nm = 0


def phys(ctx, v):
    """(SI measurand, SI uncertainty, unit size) of a Measurement or Quantity"""
    if isinstance(v, Measurement):
        s = ctx.sizes.unit_size(v.measurand.unit)
        if s is None:
            return None
        return F(v.measurand.magnitude) * s, F(v.uncertainty.magnitude) * s, s
    if isinstance(v, Quantity):
        s = ctx.sizes.unit_size(v.unit)
        if s is None:
            return None
        return F(v.magnitude) * s, F(0), s
    return None


def close(a, b, tol, scale=None):
    if a == b:
        return True
    sc = scale if scale is not None else max(abs(a), abs(b))
    return abs(a - b) <= tol * sc


def oracle(ctx, line, res):
    f = line.split("\t")
    if f[0] != "X" or f[1] not in ("add", "sub", "mul", "div", "pow"):
        return []
    try:
        args = [ctx.sess.arg(t) for t in f[2:]]
    except Exception:  # noqa: BLE001
        return []
    if not any(isinstance(a, Measurement) for a in args):
        return []
    op = f[1]
    ctx.oracle_checks += 1
    fails = []
    tol = F(1, 10**9)
    if op == "pow":
        m, n = args
        px = phys(ctx, m)
        if px is None:
            return []
        x, sx, _ = px
        if res.startswith("ERR"):
            # 0 ** negative is undefined; Decimal(0) ** 0 signals InvalidOperation (decimal's own
            # convention for 0**0): both are outside the property (no value exists / defined by the
            # numeric type, not by the propagation rule)
            if x == 0 and n <= 0 and res in ("ERR\tZeroDivision", "ERR\tOther:InvalidOperation", "ERR\tOverflow"):
                return []
            return [{"kind": "measurement-op-raises", "opname": "pow", "n": n, "error": res[4:], "x": str(m)}]
        if not res.startswith("ok\tM"):
            return []
        r = ctx.sess.ms[-1]
        if not r.measurand.magnitude == r.measurand.magnitude or str(r.measurand.magnitude) in ("Infinity", "-Infinity", "inf", "-inf"):
            return []
        pr = phys(ctx, r)
        if pr is None:
            return []
        want_m = x ** n if not (x == 0 and n == 0) else F(1)
        d = n * x ** (n - 1) if n != 0 and not (x == 0 and n - 1 < 0) else F(0)
        want_s2 = (d * sx) ** 2
        if not close(pr[0], want_m, tol):
            fails.append({"kind": "measurand-wrong", "opname": "pow", "n": n, "x": str(m)})
        if pr[1] < 0:
            fails.append({"kind": "negative-uncertainty", "opname": "pow"})
        if not close(pr[1] ** 2, want_s2, 4 * tol, scale=max(abs(want_s2), abs(pr[1] ** 2))):
            fails.append({"kind": "uncertainty-wrong", "opname": "pow", "n": n, "x": str(m),
                          "got": float(pr[1]), "want": float(want_s2) ** 0.5})
        return fails
    a, b = args
    pa, pb = phys(ctx, a), phys(ctx, b)
    if pa is None or pb is None:
        return []
    ua = a.measurand.unit if isinstance(a, Measurement) else a.unit
    ub = b.measurand.unit if isinstance(b, Measurement) else b.unit
    cls = classify(ua, ub) if op in ("add", "sub") else None
    x, sx, _ = pa
    y, sy, _ = pb
    if res.startswith("ERR"):
        err = res[4:]
        if op == "div" and y == 0 and err in ("ZeroDivision", "Other:InvalidOperation"):
            return []
        if op in ("add", "sub") and (ua.dimension is not ub.dimension or err == "ConversionNotFound"):
            return []
        if op in ("add", "sub"):
            return [{"kind": "conversion-raises", "error": err, "class": cls, "opname": op,
                     "from": str(ub), "to": str(ua)}]
        return [{"kind": "measurement-op-raises", "opname": op, "error": err, "x": str(a), "y": str(b)}]
    if not res.startswith("ok\tM"):
        return [{"kind": "measurement-op-wrong-type", "opname": op, "got": res[:20]}]
    r = ctx.sess.ms[-1]
    pr = phys(ctx, r)
    if pr is None:
        return []
    if op == "add":
        wm, ws2 = x + y, sx ** 2 + sy ** 2
    elif op == "sub":
        wm, ws2 = x - y, sx ** 2 + sy ** 2
    elif op == "mul":
        wm, ws2 = x * y, (y * sx) ** 2 + (x * sy) ** 2
    else:
        wm, ws2 = x / y, (sx / y) ** 2 + (x * sy / y ** 2) ** 2
    mtol = tol if op in ("mul", "div") else F(1, 10**5) * 4
    scale_m = max(abs(x), abs(y)) if op in ("add", "sub") else None
    if not close(pr[0], wm, mtol, scale=scale_m):
        k = "conversion-wrong" if op in ("add", "sub") else "measurand-wrong"
        fails.append({"kind": k, "class": cls, "opname": op, "x": str(a), "y": str(b),
                      "from": str(ub), "to": str(ua), "got": float(pr[0]), "want": float(wm)})
    if pr[1] < 0:
        fails.append({"kind": "negative-uncertainty", "opname": op})
    stol = 4 * tol if op in ("mul", "div") else F(1, 10**4)
    if not close(pr[1] ** 2, ws2, stol, scale=max(abs(ws2), abs(pr[1] ** 2))):
        k = "uncertainty-wrong"
        d = {"kind": k, "opname": op, "x": str(a), "y": str(b), "got": float(pr[1]), "want": float(ws2) ** 0.5}
        if op in ("add", "sub") and cls is not None:
            d = dict(d, kind="conversion-wrong", **{"class": cls, "from": str(ub), "to": str(ua)})
        fails.append(d)
    return fails


def nontrivial(ctx, line, res):
    f = line.split("\t")
    if f[0] == "X" and f[1] in ("add", "sub", "mul", "div", "pow") and any(t.startswith("M") for t in f[2:]):
        return line + "|" + res[:40]
    return None


def generate(ctx, n_ops):
    rng = ctx.rng
    emitted = 0

    def build(fs, p):
        nonlocal emitted
        g = ctx.build(fs, p)
        try:
            line = next(g)
            while True:
                res = yield line
                emitted += 1
                line = g.send(res)
        except StopIteration as stop:
            return stop.value

    def mag():
        r = rng.random()
        if r < 0.15:
            return rng.choice(["i:0", ftok(0.0), "d:0/1"])
        if r < 0.5:
            return "i:%d" % rng.choice([1, 2, 3, -4, 7, 10, -1, 25])
        if r < 0.85:
            return ftok(rng.choice([1.5, -2.25, 0.1, 12.5, rng.uniform(-50, 50)]))
        return "d:%d/%d" % (rng.randint(-999, 999), rng.choice([1, 2, 10, 100]))

    def sig():
        r = rng.random()
        if r < 0.2:
            return "i:0"
        if r < 0.5:
            return "i:%d" % rng.choice([1, 2, 3])
        if r < 0.9:
            return ftok(rng.choice([0.1, 0.2, 0.05, 1.5, rng.uniform(0, 5)]))
        return "d:%d/%d" % (rng.randint(0, 99), rng.choice([10, 100]))

    def operand(u, want_meas):
        nonlocal emitted
        res = yield "X\tqnew\t%s\tu%d" % (mag(), u)
        emitted += 1
        if not res.startswith("ok\tq"):
            return None
        q = ctx.nq
        ctx.nq += 1
        if not want_meas:
            return "q%d" % q
        res = yield "X\tmnew\tq%d\t%s" % (q, sig())
        emitted += 1
        if not res.startswith("ok\tM"):
            return None
        ctx.nm += 1
        return "M%d" % (ctx.nm - 1)

    while emitted < n_ops:
        r = rng.random()
        src, dst = ctx.gen_units(clean_bias=0.95)
        src, dst = src[:2], dst[:2]
        a = yield from build(src, ctx.si_prefix() if rng.random() < 0.3 else None)
        if a is None:
            continue
        if r < 0.25:
            x = yield from operand(a, True)
            if x is None:
                continue
            res = yield "X\tpow\t%s\tn:%d" % (x, ctx.small_int(-4, 4))
            emitted += 1
            if res.startswith("ok\tM"):
                ctx.nm += 1
            continue
        op = rng.choice(["add", "sub", "mul", "div"])
        if op in ("add", "sub"):
            b = yield from build(dst, ctx.si_prefix() if rng.random() < 0.3 else None)
        else:
            s2, _ = ctx.gen_units(clean_bias=0.95)
            b = yield from build(s2[:2], ctx.si_prefix() if rng.random() < 0.3 else None)
        if b is None:
            continue
        if op in ("add", "sub"):
            # squares of uncertainties are formed in the LEFT unit: keep the two unit sizes within
            # 1e+-25 of each other so that float under/overflow (a range limit, not the
            # propagation rule) stays out of the picture
            sa, sb = ctx.sizes.unit_size(ctx.unit(a)), ctx.sizes.unit_size(ctx.unit(b))
            if sa is None or sb is None or not (F(1, 10**25) < sa / sb < F(10**25)):
                continue
        kinds = rng.choice([(True, True), (True, True), (True, False), (False, True)])
        x = yield from operand(a, kinds[0])
        y = yield from operand(b, kinds[1])
        if x is None or y is None:
            continue
        res = yield "X\t%s\t%s\t%s" % (op, x, y)
        emitted += 1
        if res.startswith("ok\tM"):
            ctx.nm += 1
        elif res.startswith("ok\tq"):
            ctx.nq += 1
    yield "STATE"
