/-
  C03 — Quantity operations obey dimensional analysis; incommensurables are rejected.

  The float carrier `α` is arbitrary: these theorems are about units, dimensions, magnitude
  *kinds* (int / float / Decimal) and exception classes, not about numeric values.
-/
import Proofs.Monad
import Proofs.ResultDim

namespace Measured.C03
open Measured St

variable {α : Type} [Add α] [Sub α] [Mul α] [Div α] [Neg α] [OfNat α 0] [OfNat α 1] [FloatLike α]

/-! ### dimension of products, quotients, powers, roots -/

/-- `q₁ * q₂`: the result's dimension is the product of the operands' dimensions. -/
theorem mul_dim {c c' : Conv α} {a b q : Qty α} (h : Inv c.st)
    (ha : a.unit < c.st.units.length) (hb : b.unit < c.st.units.length)
    (hr : CM.exec (Qty.mul a b) c = (.ok q, c')) :
    c'.st.dimOfUnit q.unit = (c.st.dimOfUnit a.unit).mul (c.st.dimOfUnit b.unit) := by
  unfold Qty.mul at hr
  rw [exec_bind, exec_liftStE] at hr
  cases hm : (c.st.mulUnit a.unit b.unit).2 with
  | error e => simp [hm] at hr
  | ok u =>
    simp only [hm, exec_pure, Prod.mk.injEq, Except.ok.injEq] at hr
    obtain ⟨hq, hc⟩ := hr
    subst hq; subst hc
    exact mulUnit_dim h ha hb hm

/-- `q₁ / q₂`. -/
theorem div_dim {c c' : Conv α} {a b q : Qty α} (h : Inv c.st)
    (ha : a.unit < c.st.units.length) (hb : b.unit < c.st.units.length)
    (hr : CM.exec (Qty.div a b) c = (.ok q, c')) :
    c'.st.dimOfUnit q.unit = (c.st.dimOfUnit a.unit).div (c.st.dimOfUnit b.unit) := by
  unfold Qty.div at hr
  rw [exec_bind, exec_liftE] at hr
  cases hd : Mag.div a.mag b.mag with
  | error e => simp [hd] at hr
  | ok m =>
    simp only [hd] at hr
    rw [exec_bind, exec_liftStE] at hr
    cases hm : (c.st.divUnit a.unit b.unit).2 with
    | error e => simp [hm] at hr
    | ok u =>
      simp only [hm, exec_pure, Prod.mk.injEq, Except.ok.injEq] at hr
      obtain ⟨hq, hc⟩ := hr
      subst hq; subst hc
      exact divUnit_dim h ha hb hm

/-- `q * unit` and `unit * q`. -/
theorem mulUnit_dim' {c c' : Conv α} {a q : Qty α} {u : UId} (h : Inv c.st)
    (ha : a.unit < c.st.units.length) (hu : u < c.st.units.length)
    (hr : CM.exec (Qty.mulUnit a u) c = (.ok q, c')) :
    c'.st.dimOfUnit q.unit = (c.st.dimOfUnit a.unit).mul (c.st.dimOfUnit u) ∧ q.mag = a.mag := by
  unfold Qty.mulUnit at hr
  rw [exec_bind, exec_liftStE] at hr
  cases hm : (c.st.mulUnit a.unit u).2 with
  | error e => simp [hm] at hr
  | ok w =>
    simp only [hm, exec_pure, Prod.mk.injEq, Except.ok.injEq] at hr
    obtain ⟨hq, hc⟩ := hr
    subst hq; subst hc
    exact ⟨mulUnit_dim h ha hu hm, rfl⟩

/-- `q / unit`. -/
theorem divUnit_dim' {c c' : Conv α} {a q : Qty α} {u : UId} (h : Inv c.st)
    (ha : a.unit < c.st.units.length) (hu : u < c.st.units.length)
    (hr : CM.exec (Qty.divUnit a u) c = (.ok q, c')) :
    c'.st.dimOfUnit q.unit = (c.st.dimOfUnit a.unit).div (c.st.dimOfUnit u) ∧ q.mag = a.mag := by
  unfold Qty.divUnit at hr
  rw [exec_bind, exec_liftStE] at hr
  cases hm : (c.st.divUnit a.unit u).2 with
  | error e => simp [hm] at hr
  | ok w =>
    simp only [hm, exec_pure, Prod.mk.injEq, Except.ok.injEq] at hr
    obtain ⟨hq, hc⟩ := hr
    subst hq; subst hc
    exact ⟨divUnit_dim h ha hu hm, rfl⟩

/-- `q * number`, `number * q`, `q / number` keep the unit. -/
theorem mulNum_unit (a : Qty α) (m : Mag α) : (a.mulNum m).unit = a.unit := rfl

theorem divNum_unit {c c' : Conv α} {a q : Qty α} {m : Mag α}
    (hr : CM.exec (Qty.divNum a m) c = (.ok q, c')) : q.unit = a.unit ∧ c' = c := by
  unfold Qty.divNum at hr
  rw [exec_bind, exec_liftE] at hr
  cases hd : Mag.div a.mag m with
  | error e => simp [hd] at hr
  | ok r =>
    simp only [hd, exec_pure, Prod.mk.injEq, Except.ok.injEq] at hr
    exact ⟨by rw [← hr.1], hr.2.symm⟩

/-- `q ** n`. -/
theorem pow_dim {c c' : Conv α} {a q : Qty α} {n : Int} (h : Inv c.st)
    (ha : a.unit < c.st.units.length)
    (hr : CM.exec (Qty.pow a n) c = (.ok q, c')) :
    c'.st.dimOfUnit q.unit = (c.st.dimOfUnit a.unit).pow n := by
  unfold Qty.pow at hr
  rw [exec_bind, exec_liftE] at hr
  cases hp : a.mag.powInt n with
  | error e => simp [hp] at hr
  | ok m =>
    simp only [hp] at hr
    rw [exec_bind, exec_liftSt] at hr
    simp only [exec_pure, Prod.mk.injEq, Except.ok.injEq] at hr
    obtain ⟨hq, hc⟩ := hr
    subst hq; subst hc
    exact powUnit_dim h ha n

/-- `q.root(n)`, `n ≠ 0`: the result's dimension is the exact root of the operand's. -/
theorem root_dim {c c' : Conv α} {a q : Qty α} {n : Int} (hn : n ≠ 0) (h : Inv c.st)
    (ha : a.unit < c.st.units.length)
    (hr : CM.exec (Qty.root a n) c = (.ok q, c')) :
    (c.st.dimOfUnit a.unit).root n = .ok (c'.st.dimOfUnit q.unit) := by
  unfold Qty.root at hr
  have hn0 : (n == 0) = false := by simpa using hn
  simp only [hn0, Bool.false_eq_true, ↓reduceIte] at hr
  rw [exec_bind, exec_liftE] at hr
  cases hp : Qty.rootMag a.mag n with
  | error e => simp [hp] at hr
  | ok m =>
    simp only [hp] at hr
    rw [exec_bind, exec_liftStE] at hr
    cases hm : (c.st.rootUnit a.unit n).2 with
    | error e => simp [hm] at hr
    | ok u =>
      simp only [hm, exec_pure, Prod.mk.injEq, Except.ok.injEq] at hr
      obtain ⟨hq, hc⟩ := hr
      subst hq; subst hc
      exact rootUnit_dim h ha hn hm

/-! ### Decimal contagion: the result is a Decimal whenever an operand is -/

theorem add_isDec (a b : Mag α) : (Mag.add a b).isDec = (a.isDec || b.isDec) := by
  unfold Mag.add
  split
  · next h => rw [h]; rfl
  · next h => cases a <;> cases b <;> simp_all [Mag.isDec]

theorem sub_isDec (a b : Mag α) : (Mag.sub a b).isDec = (a.isDec || b.isDec) := by
  unfold Mag.sub
  split
  · next h => rw [h]; rfl
  · next h => cases a <;> cases b <;> simp_all [Mag.isDec]

theorem mul_isDec (a b : Mag α) : (Mag.mul a b).isDec = (a.isDec || b.isDec) := by
  unfold Mag.mul
  split
  · next h => rw [h]; rfl
  · next h => cases a <;> cases b <;> simp_all [Mag.isDec]

theorem div_isDec {a b r : Mag α} (h : Mag.div a b = .ok r) : r.isDec = (a.isDec || b.isDec) := by
  unfold Mag.div at h
  cases he : Mag.divErr a b with
  | some e => rw [he] at h; cases h
  | none =>
    rw [he] at h
    simp only at h
    split at h
    · next hd => injection h with h; subst h; rw [hd]; rfl
    · next hd =>
      injection h with h; subst h
      have : (a.isDec || b.isDec) = false := by simpa using hd
      rw [this]; rfl

theorem powInt_isDec {a r : Mag α} {n : Int} (h : a.powInt n = .ok r) : r.isDec = a.isDec := by
  unfold Mag.powInt at h
  cases he : Mag.powErr a n with
  | some e => rw [he] at h; cases h
  | none =>
    rw [he] at h
    simp only at h
    cases a with
    | int i => simp only at h; split at h <;> (injection h with h; subst h; rfl)
    | flt x => injection h with h; subst h; rfl
    | dec q => injection h with h; subst h; rfl

theorem neg_isDec (a : Mag α) : a.neg.isDec = a.isDec := by cases a <;> rfl

/-! ### addition / subtraction return the left operand's unit -/

theorem add_unit_left {c c' : Conv α} {a b q : Qty α} (hr : CM.exec (Qty.add a b) c = (.ok q, c')) :
    q.unit = a.unit := by
  unfold Qty.add at hr
  rw [exec_bind] at hr
  cases hc : CM.exec (convert b a.unit) c with
  | mk r c1 =>
    cases r with
    | error e => simp [hc] at hr
    | ok b' =>
      simp only [hc, exec_pure, Prod.mk.injEq, Except.ok.injEq] at hr
      rw [← hr.1]

theorem sub_unit_left {c c' : Conv α} {a b q : Qty α} (hr : CM.exec (Qty.sub a b) c = (.ok q, c')) :
    q.unit = a.unit := by
  unfold Qty.sub at hr
  rw [exec_bind] at hr
  cases hc : CM.exec (convert b a.unit) c with
  | mk r c1 =>
    cases r with
    | error e => simp [hc] at hr
    | ok b' =>
      simp only [hc, exec_pure, Prod.mk.injEq, Except.ok.injEq] at hr
      rw [← hr.1]

/-! ### incommensurable operands are rejected -/

/-- Converting across dimensions raises `ConversionNotFound`, and changes nothing. -/
theorem convert_incommensurable {c : Conv α} {q : Qty α} {t : UId}
    (hd : c.st.dimOfUnit q.unit ≠ c.st.dimOfUnit t) :
    CM.exec (convert q t) c = (.error .notFound, c) := by
  unfold convert
  rw [exec_bind, exec_getSt]
  simp only
  have : (c.st.dimOfUnit q.unit != c.st.dimOfUnit t) = true := by simpa using hd
  simp [this]

theorem add_incommensurable {c : Conv α} {a b : Qty α}
    (hd : c.st.dimOfUnit b.unit ≠ c.st.dimOfUnit a.unit) :
    CM.exec (Qty.add a b) c = (.error .notFound, c) := by
  unfold Qty.add
  rw [exec_bind, convert_incommensurable hd]

theorem sub_incommensurable {c : Conv α} {a b : Qty α}
    (hd : c.st.dimOfUnit b.unit ≠ c.st.dimOfUnit a.unit) :
    CM.exec (Qty.sub a b) c = (.error .notFound, c) := by
  unfold Qty.sub
  rw [exec_bind, convert_incommensurable hd]

theorem eqCore_incommensurable {c : Conv α} {a b : Qty α}
    (hd : c.st.dimOfUnit a.unit ≠ c.st.dimOfUnit b.unit) :
    CM.exec (Qty.eqCore a b) c = (.ok none, c) := by
  unfold Qty.eqCore
  rw [exec_bind, exec_getSt]
  simp only
  have : (c.st.dimOfUnit a.unit != c.st.dimOfUnit b.unit) = true := by simpa using hd
  simp [this]

theorem ltCore_incommensurable {c : Conv α} {a b : Qty α}
    (hd : c.st.dimOfUnit a.unit ≠ c.st.dimOfUnit b.unit) :
    CM.exec (Qty.ltCore a b) c = (.ok none, c) := by
  unfold Qty.ltCore
  rw [exec_bind, exec_getSt]
  simp only
  have : (c.st.dimOfUnit a.unit != c.st.dimOfUnit b.unit) = true := by simpa using hd
  simp [this]

/-- `==` across dimensions is `False` (both dunders answer `NotImplemented`; distinct
    objects then compare unequal), `!=` is `True`. -/
theorem eq_incommensurable {c : Conv α} {a b : Qty α}
    (hd : c.st.dimOfUnit a.unit ≠ c.st.dimOfUnit b.unit) :
    CM.exec (Qty.eq a b) c = (.ok false, c) ∧ CM.exec (Qty.ne a b) c = (.ok true, c) := by
  constructor
  · unfold Qty.eq
    rw [exec_bind, eqCore_incommensurable hd]
    simp only
    rw [exec_bind, eqCore_incommensurable (Ne.symm hd)]
    rfl
  · unfold Qty.ne
    rw [exec_bind, eqCore_incommensurable hd]
    simp only
    rw [exec_bind, eqCore_incommensurable (Ne.symm hd)]
    rfl

/-- `<` across dimensions raises `TypeError`. -/
theorem lt_incommensurable {c : Conv α} {a b : Qty α}
    (hd : c.st.dimOfUnit a.unit ≠ c.st.dimOfUnit b.unit) :
    CM.exec (Qty.lt a b) c = (.error .typeError, c) := by
  unfold Qty.lt
  rw [exec_bind, ltCore_incommensurable hd]
  simp only
  rw [exec_bind]
  unfold Qty.gtCore
  rw [exec_bind, ltCore_incommensurable (Ne.symm hd)]
  rfl

/-! ### the pinned exception: `number / quantity` keeps the unit (known finding C03-rtruediv) -/

/-- What the code does today: `n / q` divides the magnitudes and *keeps* `q`'s unit. -/
theorem rtruediv_keeps_unit {c c' : Conv α} {a q : Qty α} {m : Mag α}
    (hr : CM.exec (Qty.rdivNum a m) c = (.ok q, c')) : q.unit = a.unit := by
  unfold Qty.rdivNum at hr
  rw [exec_bind, exec_liftE] at hr
  cases hd : Mag.div m a.mag with
  | error e => simp [hd] at hr
  | ok r =>
    simp only [hd, exec_pure, Prod.mk.injEq, Except.ok.injEq] at hr
    rw [← hr.1]

end Measured.C03
