/-
  Proofs/CompareSimple.lean — comparisons and sums of quantities written in SIMPLE units (products of
  powers of prefixed base units of fundamental, independent dimensions): decided / computed by SI value,
  through the factor planner.
-/
import Proofs.CompareDirect
import Proofs.ReachSimple

namespace Measured
open St

variable {σ : UId → Rat}

/-- a conversion between simple units is exact and keeps the invariant -/
theorem exactAt_simple (hσ : ∀ k, σ k ≠ 0) {K : List Dim} {plan : List (Rough Rat)} {c : Conv Rat} {a : Qty Rat} {t : UId}
    (hg : GraphOK σ c) (hw : GraphWF c) (ho : c.offsets = [])
    (ha : a.unit < c.st.units.length) (ht : t < c.st.units.length) (hsp : SimplePair σ K c a.unit t plan) :
    ExactAt σ c a t := by
  intro r c' h
  exact convert_simple_exact hσ hsp.keys hsp.light hg hw ho ha ht hsp.srcOK hsp.dstOK hsp.paired h

/-- `==` between quantities in simple units decides by SI value. -/
theorem eqCore_simple_iff (hσp : ∀ k, 0 < σ k) {K : List Dim} {plan : List (Rough Rat)} {c c' : Conv Rat}
    (hr : Reach2 σ c) {a b : Qty Rat} {r : Bool}
    (ha : a.unit < c.st.units.length) (hb : b.unit < c.st.units.length)
    (hsp : SimplePair σ K { c with st := ((c.st.unprefixedUnit a.unit).1.unprefixedUnit b.unit).1 }
      (c.st.unprefixedUnit a.unit).2 ((c.st.unprefixedUnit a.unit).1.unprefixedUnit b.unit).2 plan)
    (h : CM.exec (Qty.eqCore a b) c = (.ok (some r), c')) :
    (r = true ↔ C06.si σ c.st a = C06.si σ c.st b) := by
  have hσ : ∀ k, σ k ≠ 0 := fun k => ne_of_gt (hσp k)
  obtain ⟨hg, ho, hw⟩ := reach2_graphOK hσ hr
  obtain ⟨g1, f1⟩ := unprefixStep hg ha
  have w1 := hw.frame hg f1
  obtain ⟨g2, f2⟩ := unprefixStep g1 (f1.lt hb)
  have w2 := w1.frame g1 f2
  have f12 := f1.trans f2
  refine eqCore_exact_iff hσp hg ha hb h ?_
  refine exactAt_simple hσ g2 w2 (by rw [f12.offsets]; exact ho) ?_ ?_ hsp
  · exact f2.lt (unprefixedUnit_lt _ _)
  · exact unprefixedUnit_lt _ _

/-- `<` between quantities in simple units decides by SI value. -/
theorem ltCore_simple_iff (hσp : ∀ k, 0 < σ k) {K : List Dim} {plan : List (Rough Rat)} {c c' : Conv Rat}
    (hr : Reach2 σ c) {a b : Qty Rat} {r : Bool}
    (ha : a.unit < c.st.units.length) (hb : b.unit < c.st.units.length)
    (hsp : SimplePair σ K { c with st := ((c.st.unprefixedUnit a.unit).1.unprefixedUnit b.unit).1 }
      (c.st.unprefixedUnit a.unit).2 ((c.st.unprefixedUnit a.unit).1.unprefixedUnit b.unit).2 plan)
    (h : CM.exec (Qty.ltCore a b) c = (.ok (some r), c')) :
    (r = true ↔ C06.si σ c.st a < C06.si σ c.st b) := by
  have hσ : ∀ k, σ k ≠ 0 := fun k => ne_of_gt (hσp k)
  obtain ⟨hg, ho, hw⟩ := reach2_graphOK hσ hr
  obtain ⟨g1, f1⟩ := unprefixStep hg ha
  have w1 := hw.frame hg f1
  obtain ⟨g2, f2⟩ := unprefixStep g1 (f1.lt hb)
  have w2 := w1.frame g1 f2
  have f12 := f1.trans f2
  refine ltCore_exact_iff hσp hg ha hb h ?_
  refine exactAt_simple hσ g2 w2 (by rw [f12.offsets]; exact ho) ?_ ?_ hsp
  · exact f2.lt (unprefixedUnit_lt _ _)
  · exact unprefixedUnit_lt _ _

/-- `a + b` / `a - b` with `b` in a simple unit convertible to `a`'s: SI values add / subtract. -/
theorem add_simple_exact (hσ : ∀ k, σ k ≠ 0) {K : List Dim} {plan : List (Rough Rat)} {c c' : Conv Rat}
    (hr : Reach2 σ c) {a b q : Qty Rat}
    (ha : a.unit < c.st.units.length) (hb : b.unit < c.st.units.length)
    (hsp : SimplePair σ K c b.unit a.unit plan)
    (h : CM.exec (Qty.add a b) c = (.ok q, c')) :
    q.unit = a.unit ∧ C06.si σ c.st q = C06.si σ c.st a + C06.si σ c.st b := by
  obtain ⟨hg, ho, hw⟩ := reach2_graphOK hσ hr
  obtain ⟨hu, b', c1, hcv, hv⟩ := C06.add_value h
  obtain ⟨_, hex, _, _⟩ := exactAt_simple hσ hg hw ho hb ha hsp b' c1 hcv
  refine ⟨hu, ?_⟩
  unfold C06.si
  rw [hu, hv, add_mul, hex]

theorem sub_simple_exact (hσ : ∀ k, σ k ≠ 0) {K : List Dim} {plan : List (Rough Rat)} {c c' : Conv Rat}
    (hr : Reach2 σ c) {a b q : Qty Rat}
    (ha : a.unit < c.st.units.length) (hb : b.unit < c.st.units.length)
    (hsp : SimplePair σ K c b.unit a.unit plan)
    (h : CM.exec (Qty.sub a b) c = (.ok q, c')) :
    q.unit = a.unit ∧ C06.si σ c.st q = C06.si σ c.st a - C06.si σ c.st b := by
  obtain ⟨hg, ho, hw⟩ := reach2_graphOK hσ hr
  obtain ⟨hu, b', c1, hcv, hv⟩ := C06.sub_value h
  obtain ⟨_, hex, _, _⟩ := exactAt_simple hσ hg hw ho hb ha hsp b' c1 hcv
  refine ⟨hu, ?_⟩
  unfold C06.si
  rw [hu, hv, sub_mul, hex]

end Measured
