"""Deterministic line-granularity thread scheduler (C20).

`run_schedule(tasks, schedule)` runs one real thread per task.  Every thread is traced with
`sys.settrace`; at each *line* event inside the library's own source (measured/__init__.py) the
thread stops and waits for its turn.  `schedule` is a list of thread indices: each entry lets that
thread execute up to its next line event.  A thread that does not arrive within `BLOCK_TIMEOUT`
is blocked (on the library's interning lock) and the schedule moves on; it proceeds on its own as
soon as the lock is released and stops again at its next line.  When the schedule is exhausted
all threads run freely to completion.  No source hook is used.
"""
import sys
import threading

BLOCK_TIMEOUT = 0.02


class Controller:
    def __init__(self, n, target_suffix):
        self.n = n
        self.cv = threading.Condition()
        self.turn = None           # thread index allowed to run, or "all"
        self.state = ["new"] * n   # new | ready | running | done
        self.lines = [0] * n
        self.results = [None] * n
        self.errors = [None] * n
        self.suffix = target_suffix
        self.trace_log = []

    # ---- called inside the controlled threads ------------------------------------------
    def yield_point(self, i, where):
        with self.cv:
            self.lines[i] += 1
            self.state[i] = "ready"
            self.trace_log.append((i, where))
            self.cv.notify_all()
            while not (self.turn == i or self.turn == "all"):
                self.cv.wait()
            if self.turn == i:
                self.turn = None
            self.state[i] = "running"

    def tracer(self, i):
        def local(frame, event, arg):
            if event == "line":
                self.yield_point(i, frame.f_lineno)
            return local

        def glob(frame, event, arg):
            if event == "call" and frame.f_code.co_filename.endswith(self.suffix):
                return local
            return None
        return glob

    def body(self, i, task):
        sys.settrace(self.tracer(i))
        try:
            self.yield_point(i, 0)
            self.results[i] = task()
        except BaseException as e:  # noqa: BLE001
            self.errors[i] = e
        finally:
            sys.settrace(None)
            with self.cv:
                self.state[i] = "done"
                self.cv.notify_all()

    # ---- the scheduler ------------------------------------------------------------------
    def step(self, t):
        """Let thread t run to its next line event.
        Returns "done" (finished), "blocked" (did not arrive: inside the library's lock) or "ok"."""
        with self.cv:
            if self.state[t] == "done":
                return "done"
            # wait until it is parked (it may still be arriving from an earlier blocked state)
            if not self.cv.wait_for(lambda: self.state[t] in ("ready", "done"), timeout=BLOCK_TIMEOUT):
                return "blocked"
            if self.state[t] == "done":
                return "done"
            self.state[t] = "running"
            self.turn = t
            self.cv.notify_all()
            arrived = self.cv.wait_for(lambda: (self.state[t] == "ready" and self.turn is None) or self.state[t] == "done",
                                       timeout=BLOCK_TIMEOUT)
            return "ok" if arrived else "blocked"

    def finish(self):
        with self.cv:
            self.turn = "all"
            self.cv.notify_all()


def run_schedule(tasks, schedule, target_suffix="measured/__init__.py", join_timeout=20.0):
    ctl = Controller(len(tasks), target_suffix)
    threads = [threading.Thread(target=ctl.body, args=(i, t), daemon=True) for i, t in enumerate(tasks)]
    for th in threads:
        th.start()
    blocked = set()
    executed = []
    for t in schedule:
        if t in blocked:
            continue                      # still waiting for the lock: nothing to schedule
        r = ctl.step(t)
        if r == "blocked":
            blocked.add(t)
        elif r == "ok":
            executed.append(t)
            blocked.clear()               # somebody moved: a lock may have been released
    ctl.finish()
    for th in threads:
        th.join(join_timeout)
    alive = [i for i, th in enumerate(threads) if th.is_alive()]
    return {"results": ctl.results, "errors": ctl.errors, "lines": ctl.lines, "deadlock": alive, "log": ctl.trace_log,
            "executed": executed}
