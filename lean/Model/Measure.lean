/-
  Model/Measure.lean — class Measurement, `approximately`, class Level and
  `LogarithmicUnit.level` of /repo/src/measured/__init__.py (after the `fix:` commits for
  the power rule, the zero-measurand product and the symmetric `__eq__`).
-/
import Model.Quantity

namespace Measured

structure Meas (α : Type) where
  measurand   : Qty α
  uncertainty : Mag α          -- magnitude of the uncertainty quantity (same unit as the measurand)
  deriving Inhabited

/-- A `LogarithmicUnit`: logarithm base and prefix, and the (unprefixed) reference. -/
structure LogUnit (α : Type) where
  base      : Mag α
  pfx       : Pfx
  reference : Qty α          -- `reference.unprefixed()`, what the unit stores
  key       : Qty α          -- the reference as passed: `LogarithmicUnit._known` is keyed by it
  deriving Inhabited

section
variable {α : Type} [Add α] [Sub α] [Mul α] [Div α] [Neg α] [OfNat α 0] [OfNat α 1] [FloatLike α]

/-- `_pow(x, 2)`. -/
def Mag.sq (m : Mag α) : Mag α :=
  match m with
  | .int i => .int (i * i)
  | .flt x => .flt (x * x)
  | .dec r => .dec (r * r)

/-- `math.sqrt(x)`: always a float. -/
def Mag.sqrtF (m : Mag α) : Mag α := .flt (FloatLike.sqrt m.toFlt)

namespace Meas

/-- `Measurement(measurand, uncertainty)` with a numeric uncertainty. -/
def mk' (q : Qty α) (sigma : Mag α) : Meas α := { measurand := q, uncertainty := sigma.abs }

def ofQty (q : Qty α) : Meas α := mk' q (.int 0)

def sigmaQ (m : Meas α) : Qty α := { mag := m.uncertainty, unit := m.measurand.unit }

/-- `(self.uncertainty**2 + other.uncertainty**2).root(2)` and the constructor's
    `assert uncertainty.unit is measurand.unit`. -/
def quadrature (a b : Meas α) (measurand : Qty α) : CM α (Meas α) := do
  let sa ← Qty.pow a.sigmaQ 2
  let sb ← Qty.pow b.sigmaQ 2
  let sum ← Qty.add sa sb
  let u ← Qty.root sum 2
  cassert (u.unit == measurand.unit)
  pure (mk' measurand u.mag)

def add (a b : Meas α) : CM α (Meas α) := do
  let m ← Qty.add a.measurand b.measurand
  quadrature a b m

def sub (a b : Meas α) : CM α (Meas α) := do
  let m ← Qty.sub a.measurand b.measurand
  quadrature a b m

/-- `_join_uncertainties(d_self, d_other, other)`. -/
def join (dSelf dOther : Mag α) (a b : Meas α) : Mag α :=
  (Mag.add (Mag.mul dSelf a.uncertainty).sq (Mag.mul dOther b.uncertainty).sq).sqrtF

def mul (a b : Meas α) : CM α (Meas α) := do
  let m ← Qty.mul a.measurand b.measurand
  pure (mk' m (join b.measurand.mag a.measurand.mag a b))

def div (a b : Meas α) : CM α (Meas α) := do
  let m ← Qty.div a.measurand b.measurand
  let d1 ← liftE (Mag.div (.int 1) b.measurand.mag)
  let d2 ← liftE (Mag.div m.mag b.measurand.mag)
  pure (mk' m (join d1 d2 a b))

def pow (a : Meas α) (n : Int) : CM α (Meas α) := do
  let m ← Qty.pow a.measurand n
  if n == 0 then return mk' m (.int 0)
  if n == 1 then return mk' m a.uncertainty
  let xp ← liftE (a.measurand.mag.powInt (n - 1))
  let inner := Mag.mul (.int n) (Mag.mul xp a.uncertainty)
  pure (mk' m inner.sq.sqrtF)

def lower (a : Meas α) : CM α (Qty α) := Qty.sub a.measurand a.sigmaQ
def upper (a : Meas α) : CM α (Qty α) := Qty.add a.measurand a.sigmaQ

/-- `Measurement.__eq__` (other already coerced to a Measurement). -/
def eq (a b : Meas α) : CM α Bool := do
  let s ← getSt
  if s.dimOfUnit a.measurand.unit != s.dimOfUnit b.measurand.unit then return false
  let al ← a.lower
  let bl ← b.lower
  let au ← a.upper
  let bu ← b.upper
  tryCatch (do
      let c1 ← Qty.le al bu
      if !c1 then return false
      Qty.le bl au)
    (fun e => if e == .typeError then pure false else throw e)

def lt (a b : Meas α) : CM α Bool := do let x ← a.lower; let y ← b.lower; Qty.lt x y
def le (a b : Meas α) : CM α Bool := do let x ← a.lower; let y ← b.lower; Qty.le x y
def gt (a b : Meas α) : CM α Bool := do let x ← a.upper; let y ← b.upper; Qty.gt x y
def ge (a b : Meas α) : CM α Bool := do let x ← a.upper; let y ← b.upper; Qty.ge x y

end Meas

/-- `approximately(quantity, within)`: `_mul(quantity.magnitude or 1.0, within)`. -/
def approximately (q : Qty α) (within : Mag α) : Meas α :=
  let m : Mag α := if q.mag.isZero then .flt (1 : α) else q.mag
  Meas.mk' q (Mag.mul m within)

namespace LogUnit

/-- `LogarithmicUnit.power_ratio`. -/
def powerRatio (rootPower : List Dim) (s : St) (lu : LogUnit α) : Int :=
  if rootPower.contains (s.dimOfUnit lu.reference.unit) then 2 else 1

/-- `math.log(x, base)`: ValueError for a non-positive argument. -/
def logBase (x base : Mag α) : Except Exc α :=
  if !(Mag.lt (.int 0) x) then .error .valueError
  else .ok (FloatLike.log x.toFlt / FloatLike.log base.toFlt)

/-- `LogarithmicUnit.level(quantity)`: returns the level's magnitude. -/
def level (rootPower : List Dim) (lu : LogUnit α) (q : Qty α) : CM α (Mag α) := do
  let s ← getSt
  let k := lu.powerRatio rootPower s
  let conv ← convert q lu.reference.unit
  let ratio ← Qty.div conv lu.reference
  let pinv ← liftE (recip (Pfx.value lu.pfx : Mag α))
  let lg ← liftE (logBase ratio.mag lu.base)
  let inverted := Mag.mul pinv (.flt lg)
  pure (Mag.mul (.int k) inverted)

/-- `_pow(base, x)` with a float/Decimal exponent. -/
def powMag (base x : Mag α) : Mag α :=
  if base.isDec || x.isDec then
    .dec (FloatLike.toRat (FloatLike.rpow (FloatLike.ofRat base.toRat : α) (FloatLike.ofRat x.toRat)))
  else .flt (FloatLike.rpow base.toFlt x.toFlt)

/-- `Level.quantify`. -/
def quantify (rootPower : List Dim) (lu : LogUnit α) (m : Mag α) : CM α (Qty α) := do
  let s ← getSt
  let k := lu.powerRatio rootPower s
  let exponent := Mag.mul m (Pfx.value lu.pfx)
  let e ← liftE (Mag.div exponent (.int k))
  -- `exponent / power_ratio` is Python's raw `/`: an int exponent becomes a float; so does `_div`
  let magnitude := powMag lu.base e
  pure { mag := Mag.mul lu.reference.mag magnitude, unit := lu.reference.unit }

end LogUnit

end

end Measured
