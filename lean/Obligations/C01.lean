/-
  Per-run obligation for C01/C02/C19: the state the shipped modules registered at import
  (Generated.init, rewritten from /repo on every run) satisfies the invariant, so the
  for-all-histories theorems apply to every history that starts from the real library.
-/
import Props.C01
import Generated.Init

namespace Measured.Obligations
open Measured

theorem init_ginv : GInv Generated.init := checkGInv_sound (by decide +kernel)

/-- C01 instantiated at the shipped registries. -/
theorem shipped_histories_inv (ops : List Op) :
    ∀ u ∈ (run Generated.init ops).units, u.dim = (run Generated.init ops).dimOf u.factors :=
  C01.run_inv init_ginv ops

theorem shipped_keys_ok : Generated.keysOk = true := by decide

end Measured.Obligations
