/-
  Model/Step.lean — the public unit-level operations as an `Op` type and a `step` function:
  one constructor per public call site that can intern a unit.  Histories are op lists;
  `run` folds `step`.  The driver parses protocol lines into `Op`s and calls exactly this
  `step`, so the history theorems (C01, C02, C19) are about what the driver executes.
-/
import Model.Units

namespace Measured

inductive Op where
  | mul (a b : UId)
  | div (a b : UId)
  | pow (a : UId) (n : Int)
  | root (a : UId) (n : Int)
  | ratio (a : UId)                     -- Unit.as_ratio; also reached by format "/", pretty
  | unprefixed (a : UId)                -- the unit part of Unit.quantify / Quantity.unprefixed
  | pmul (p : Pfx) (a : UId)            -- Prefix * Unit
  | define (d : Dim) (name sym : String)
  | derive (a : UId) (name sym : String)
  | alias (a : UId) (name sym : Option String)
  | resolve (text : String)             -- Unit.resolve_symbol
  | named (name : String)               -- Unit.named
  deriving Repr

inductive Out where
  | unit (i : UId)
  | pair (i j : UId)
  | none
  | err (e : Exc)
  deriving Repr, DecidableEq

def Out.ofExcept : Except Exc UId → Out
  | .ok i => .unit i
  | .error e => .err e

/-- Every unit reference of an op must denote an existing unit (Python cannot even
    express a dangling reference); the driver rejects such lines before calling `step`. -/
def Op.refs : Op → List UId
  | .mul a b | .div a b => [a, b]
  | .pow a _ | .root a _ | .ratio a | .unprefixed a | .pmul _ a
  | .derive a _ _ | .alias a _ _ => [a]
  | .define .. | .resolve _ | .named _ => []

def step (s : St) : Op → St × Out
  | .mul a b => let (s', r) := s.mulUnit a b; (s', .ofExcept r)
  | .div a b => let (s', r) := s.divUnit a b; (s', .ofExcept r)
  | .pow a n => let (s', i) := s.powUnit a n; (s', .unit i)
  | .root a n => let (s', r) := s.rootUnit a n; (s', .ofExcept r)
  | .ratio a => let (s', n, d) := s.asRatio a; (s', .pair n d)
  | .unprefixed a => let (s', i) := s.unprefixedUnit a; (s', .unit i)
  | .pmul p a => let (s', r) := s.pmulUnit p a; (s', .ofExcept r)
  | .define d name sym => let (s', r) := s.defineUnit d name sym; (s', .ofExcept r)
  | .derive a name sym => let (s', r) := s.deriveUnit a name sym; (s', .ofExcept r)
  | .alias a name sym =>
      match s.aliasUnit a name sym with
      | (s', .ok ()) => (s', .none)
      | (s', .error e) => (s', .err e)
  | .resolve text => let (s', r) := s.resolveSymbol text; (s', .ofExcept r)
  | .named name =>
      match lookup name s.unitByName with
      | some i => (s, .unit i)
      | none => (s, .err .keyError)

/-- What Python cannot even express is rejected before `step`: dangling unit references,
    a `Dimension` whose exponent tuple has the wrong length. -/
def Op.ok (s : St) (o : Op) : Bool :=
  o.refs.all (fun r => decide (r < s.units.length)) &&
  (match o with
   | .define d _ _ => d.length == s.ndim
   | .pmul p _ => decide (p.base = 0 ↔ p.exp = 0)    -- a normalised `Prefix` object
   | _ => true)

/-- The checked step the driver executes. -/
def stepC (s : St) (o : Op) : St × Out :=
  if o.ok s then step s o else (s, .err .unmodelled)

def run (s : St) (ops : List Op) : St := ops.foldl (fun s o => (stepC s o).1) s

end Measured
