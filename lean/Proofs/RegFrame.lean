/-
  Proofs/RegFrame.lean — no query touches a NAME registry: every conversion, comparison and arithmetic
  operation on quantities, whatever its arguments and outcome, leaves `Unit._by_name`, `Unit._by_symbol`,
  the names and symbols the units report, the prefix and dimension registries and `Unit._base` exactly as
  they were, and the old unit table as a prefix of the new one (`Frame`, Proofs/ParseFrame.lean).  The same
  structural walk as Proofs/Frame.lean with a finer relation.  Consequence: the registries stay Faithful
  (C19) through any history of queries and declarations.
-/
import Proofs.Frame
import Proofs.Faithful

namespace Measured
open St

/-- from every state the action ends in a state with the same name registries and the old units as a prefix -/
structure RFramed {β} (m : CM Rat β) : Prop where
  frame : ∀ c : Conv Rat, Frame c.st (CM.exec m c).2.st

theorem rframed_pure {β} (a : β) : RFramed (pure a : CM Rat β) := ⟨fun c => Frame.refl c.st⟩
theorem rframed_throw {β} (e : Exc) : RFramed (throw e : CM Rat β) := ⟨fun c => Frame.refl c.st⟩
theorem rframed_getSt : RFramed (getSt : CM Rat St) := ⟨fun c => Frame.refl c.st⟩
theorem rframed_getThe : RFramed (getThe (Conv Rat) : CM Rat (Conv Rat)) := ⟨fun c => by
  rw [exec_getThe']; exact Frame.refl c.st⟩
theorem rframed_liftE {β} (r : Except Exc β) : RFramed (liftE r : CM Rat β) := ⟨fun c => by
  rw [exec_liftE]; exact Frame.refl c.st⟩

theorem rframed_liftSt {β} (f : St → St × β) (hf : ∀ s, Frame s (f s).1) : RFramed (liftSt f : CM Rat β) := ⟨fun c => by
  rw [exec_liftSt]; exact hf c.st⟩

theorem rframed_liftStE {β} (f : St → St × Except Exc β) (hf : ∀ s, Frame s (f s).1) :
    RFramed (liftStE f : CM Rat β) := ⟨fun c => by
  rw [exec_liftStE]; exact hf c.st⟩

theorem rframed_bind {β γ} {m : CM Rat β} {f : β → CM Rat γ} (hm : RFramed m) (hf : ∀ a, RFramed (f a)) :
    RFramed (m >>= f) := by
  constructor
  intro c
  rw [exec_bind]
  have h1 := hm.frame c
  cases h : CM.exec m c with
  | mk r c' =>
    rw [h] at h1
    cases r with
    | ok a => exact h1.trans ((hf a).frame c')
    | error e => exact h1

theorem rframed_tryCatch {β} {m : CM Rat β} {h : Exc → CM Rat β} (hm : RFramed m) (hh : ∀ e, RFramed (h e)) :
    RFramed (tryCatch m h) := by
  constructor
  intro c
  rw [exec_tryCatch]
  have h1 := hm.frame c
  cases hx : CM.exec m c with
  | mk r c' =>
    rw [hx] at h1
    cases r with
    | ok a => exact h1
    | error e => exact h1.trans ((hh e).frame c')

theorem rframed_cassert (b : Bool) : RFramed (cassert b : CM Rat Unit) := by
  unfold cassert
  apply rframed_bind rframed_getThe
  intro c
  split
  · exact rframed_throw _
  · exact rframed_pure _

theorem rframed_ite {β} (p : Prop) [Decidable p] {a b : CM Rat β} (ha : RFramed a) (hb : RFramed b) :
    RFramed (if p then a else b) := by
  split
  · exact ha
  · exact hb

/-- a `for` loop over a list -/
theorem rframed_forIn {β γ} (l : List γ) (f : γ → β → CM Rat (ForInStep β)) (hf : ∀ x b, RFramed (f x b)) :
    ∀ init : β, RFramed (forIn l init f) := by
  induction l with
  | nil => intro init; simp only [List.forIn_nil]; exact rframed_pure _
  | cons x rest ih =>
    intro init
    simp only [List.forIn_cons]
    apply rframed_bind (hf x init)
    intro r
    cases r with
    | done b => exact rframed_pure _
    | yield b => exact ih b

theorem rframed_foldlM {β γ} (f : β → γ → CM Rat β) (hf : ∀ b x, RFramed (f b x)) :
    ∀ (l : List γ) (init : β), RFramed (l.foldlM f init) := by
  intro l
  induction l with
  | nil => intro init; simp only [List.foldlM_nil]; exact rframed_pure _
  | cons x rest ih =>
    intro init
    simp only [List.foldlM_cons]
    exact rframed_bind (hf init x) (fun b => ih b)

theorem rframed_mapM {β γ} (f : γ → CM Rat β) (hf : ∀ x, RFramed (f x)) : ∀ l : List γ, RFramed (l.mapM f) := by
  intro l
  induction l with
  | nil => simp only [List.mapM_nil]; exact rframed_pure _
  | cons x rest ih =>
    simp only [List.mapM_cons]
    exact rframed_bind (hf x) (fun a => rframed_bind ih (fun _ => rframed_pure _))

/-! ### the pieces of the search -/

theorem rframed_powHop (h : Hop Rat) (e : Int) : RFramed (powHop h e) := by
  unfold powHop
  exact rframed_bind (rframed_liftE _) (fun _ => rframed_bind (rframed_liftE _) (fun _ =>
    rframed_bind (rframed_liftSt _ (fun s => powUnit_frame s _ _)) (fun _ => rframed_pure _)))

theorem rframed_mulUnits : ∀ l : List UId, RFramed (mulUnits (α := Rat) l) := by
  intro l
  cases l with
  | nil => exact rframed_throw _
  | cons u rest =>
    unfold mulUnits
    exact rframed_foldlM _ (fun acc v => rframed_liftStE _ (fun s => (mulUnit_frame s _ _).1)) rest u

/-- one structural step of a `RFramed` proof -/
macro "rrframed_step" : tactic => `(tactic| first
  | with_reducible exact rframed_pure _ | with_reducible exact rframed_throw _ | with_reducible exact rframed_getSt
  | with_reducible exact rframed_getThe | with_reducible exact rframed_liftE _
  | with_reducible exact rframed_cassert _ | with_reducible exact rframed_powHop _ _ | with_reducible exact rframed_mulUnits _
  | with_reducible exact rframed_liftSt _ (fun s => powUnit_frame s _ _)
  | with_reducible exact rframed_liftSt _ (fun s => unprefixedUnit_frame s _)
  | with_reducible exact rframed_liftStE _ (fun s => rootUnit_frame s _ _)
  | with_reducible exact rframed_liftStE _ (fun s => (mulUnit_frame s _ _).1)
  | with_reducible exact rframed_liftStE _ (fun s => (divUnit_frame s _ _).1)
  | assumption
  | with_reducible apply rframed_forIn
  | with_reducible apply rframed_foldlM
  | with_reducible apply rframed_mapM
  | with_reducible apply rframed_tryCatch
  | with_reducible apply rframed_bind
  | intro _
  | split
  | dsimp only)

macro "rframed" : tactic => `(tactic| repeat (any_goals rrframed_step))

/-- the same with extra facts (recursion hypotheses, earlier `RFramed` theorems) tried first -/
syntax "rframed_using" "[" term,* "]" : tactic
macro_rules
  | `(tactic| rframed_using [$ts,*]) => `(tactic| repeat (any_goals (first $[| with_reducible exact $ts]* | rrframed_step)))

theorem rframed_reduceDimension (a b : UId) : RFramed (reduceDimension (α := Rat) a b) := by
  unfold reduceDimension
  rframed

theorem rframed_pathLoop {recur : UId → UId → List UId → CM Rat (List (Hop Rat) × List UId)}
    (hrec : ∀ a b v, RFramed (recur a b v)) (start' stop' : UId) (e : Int) :
    ∀ (items : List (UId × Mag Rat)) (best : List (Hop Rat)) (visited : List UId),
      RFramed (pathLoop recur start' stop' e items best visited) := by
  intro items
  induction items with
  | nil => intro best visited; unfold pathLoop; exact rframed_pure _
  | cons it rest ih =>
    intro best visited
    obtain ⟨mid, scale⟩ := it
    unfold pathLoop
    rframed_using [hrec _ _ _, ih _ _]

theorem rframed_findPathRec : ∀ (fuel : Nat) (a b : UId) (v : List UId), RFramed (findPathRec (α := Rat) fuel a b v) := by
  intro fuel
  induction fuel with
  | zero => intro a b v; unfold findPathRec; exact rframed_throw _
  | succ fuel ih =>
    intro a b v
    unfold findPathRec
    rframed_using [rframed_reduceDimension _ _, rframed_pathLoop ih _ _ _ _ _ _]

theorem rframed_findPath (a b : UId) : RFramed (findPath (α := Rat) a b) := by
  unfold findPath
  rframed_using [rframed_findPathRec _ _ _ _]

theorem rframed_inlinePaths (plan : List (Rough Rat)) : RFramed (inlinePaths plan) := by
  unfold inlinePaths
  rframed_using [rframed_findPath _ _]

/-! ### the factor planner -/

theorem rframed_replaceFactors_outer (one : UId) : ∀ (fuel : Nat) (factors : Splat) (plan : List (Rough Rat)),
    RFramed (replaceFactors.outer (α := Rat) one fuel factors plan) := by
  intro fuel
  induction fuel with
  | zero => intro factors plan; unfold replaceFactors.outer; exact rframed_throw _
  | succ fuel ih =>
    intro factors plan
    unfold replaceFactors.outer
    rframed_using [ih _ _]

theorem rframed_replaceFactors (factors : Splat) : RFramed (replaceFactors (α := Rat) factors) := by
  unfold replaceFactors
  rframed_using [rframed_replaceFactors_outer _ _ _ _]

theorem rframed_matchStep (st : Splat × Splat × List (Rough Rat)) (d : Dim) : RFramed (matchStep st d) := by
  unfold matchStep
  rframed

theorem rframed_matchFactors (a b : Splat) : RFramed (matchFactors (α := Rat) a b) := by
  unfold matchFactors
  rframed_using [rframed_matchStep _ _]

theorem rframed_quantifyUnit (u : UId) : RFramed (quantifyUnit (α := Rat) u) := by
  unfold quantifyUnit
  rframed

theorem rframed_unprefixedQty (q : Qty Rat) : RFramed (unprefixedQty q) := by
  unfold unprefixedQty
  rframed_using [rframed_quantifyUnit _]

theorem rframed_planConversion (a b : UId) : RFramed (planConversion (α := Rat) a b) := by
  unfold planConversion
  rframed_using [rframed_quantifyUnit _, rframed_findPath _ _, rframed_inlinePaths _, rframed_replaceFactors _,
    rframed_matchFactors _ _]

/-- **Every conversion — any quantity, any target, returning or raising — leaves the graph untouched and
    only extends the unit table.** -/
theorem rframed_convert (q : Qty Rat) (t : UId) : RFramed (convert q t) := by
  unfold convert
  rframed_using [rframed_unprefixedQty _, rframed_planConversion _ _]

/-! ### arithmetic and comparisons on quantities -/

theorem rframed_add (a b : Qty Rat) : RFramed (Qty.add a b) := by
  unfold Qty.add; rframed_using [rframed_convert _ _]
theorem rframed_sub (a b : Qty Rat) : RFramed (Qty.sub a b) := by
  unfold Qty.sub; rframed_using [rframed_convert _ _]
theorem rframed_mul (a b : Qty Rat) : RFramed (Qty.mul a b) := by unfold Qty.mul; rframed
theorem rframed_mulUnit (a : Qty Rat) (u : UId) : RFramed (Qty.mulUnit a u) := by unfold Qty.mulUnit; rframed
theorem rframed_div (a b : Qty Rat) : RFramed (Qty.div a b) := by unfold Qty.div; rframed
theorem rframed_divUnit (a : Qty Rat) (u : UId) : RFramed (Qty.divUnit a u) := by unfold Qty.divUnit; rframed
theorem rframed_divNum (a : Qty Rat) (m : Mag Rat) : RFramed (Qty.divNum a m) := by unfold Qty.divNum; rframed
theorem rframed_rdivNum (a : Qty Rat) (m : Mag Rat) : RFramed (Qty.rdivNum a m) := by unfold Qty.rdivNum; rframed
theorem rframed_pow (a : Qty Rat) (n : Int) : RFramed (Qty.pow a n) := by unfold Qty.pow; rframed
theorem rframed_root (a : Qty Rat) (n : Int) : RFramed (Qty.root a n) := by unfold Qty.root; rframed

theorem rframed_eqCore (a b : Qty Rat) : RFramed (Qty.eqCore a b) := by
  unfold Qty.eqCore; rframed_using [rframed_unprefixedQty _, rframed_convert _ _]
theorem rframed_ltCore (a b : Qty Rat) : RFramed (Qty.ltCore a b) := by
  unfold Qty.ltCore; rframed_using [rframed_unprefixedQty _, rframed_convert _ _]
theorem rframed_eq (a b : Qty Rat) : RFramed (Qty.eq a b) := by
  unfold Qty.eq; rframed_using [rframed_eqCore _ _]
theorem rframed_ne (a b : Qty Rat) : RFramed (Qty.ne a b) := by
  unfold Qty.ne; rframed_using [rframed_eqCore _ _]
theorem rframed_gtCore (a b : Qty Rat) : RFramed (Qty.gtCore a b) := by
  unfold Qty.gtCore; rframed_using [rframed_ltCore _ _, rframed_ne _ _]
theorem rframed_leCore (a b : Qty Rat) : RFramed (Qty.leCore a b) := by
  unfold Qty.leCore; rframed_using [rframed_ltCore _ _, rframed_eq _ _]
theorem rframed_geCore (a b : Qty Rat) : RFramed (Qty.geCore a b) := by
  unfold Qty.geCore; rframed_using [rframed_ltCore _ _]
theorem rframed_lt (a b : Qty Rat) : RFramed (Qty.lt a b) := by
  unfold Qty.lt; rframed_using [rframed_ltCore _ _, rframed_gtCore _ _]
theorem rframed_gt (a b : Qty Rat) : RFramed (Qty.gt a b) := by
  unfold Qty.gt; rframed_using [rframed_ltCore _ _, rframed_gtCore _ _]
theorem rframed_le (a b : Qty Rat) : RFramed (Qty.le a b) := by
  unfold Qty.le; rframed_using [rframed_leCore _ _, rframed_geCore _ _]
theorem rframed_ge (a b : Qty Rat) : RFramed (Qty.ge a b) := by
  unfold Qty.ge; rframed_using [rframed_leCore _ _, rframed_geCore _ _]

/-! ### histories -/

theorem QOp.after_regframe (c : Conv Rat) (o : QOp) (h : ∀ ops, o ≠ .units ops) : Frame c.st (o.after c).st := by
  cases o with
  | convert q t => exact (rframed_convert q t).frame c
  | add a b => exact (rframed_add a b).frame c
  | sub a b => exact (rframed_sub a b).frame c
  | mul a b => exact (rframed_mul a b).frame c
  | div a b => exact (rframed_div a b).frame c
  | pow a n => exact (rframed_pow a n).frame c
  | root a n => exact (rframed_root a n).frame c
  | eq a b => exact (rframed_eq a b).frame c
  | ne a b => exact (rframed_ne a b).frame c
  | lt a b => exact (rframed_lt a b).frame c
  | le a b => exact (rframed_le a b).frame c
  | gt a b => exact (rframed_gt a b).frame c
  | ge a b => exact (rframed_ge a b).frame c
  | units ops => exact absurd rfl (h ops)

/-- **The name registries stay faithful through every history of queries and unit operations** (declarations
    included: `units` steps may define, derive and alias). -/
theorem queries_faithful : ∀ (ops : List QOp) (c : Conv Rat), Faithful c.st → Faithful (ops.foldl QOp.after c).st := by
  intro ops
  induction ops with
  | nil => intro c h; exact h
  | cons o rest ih =>
    intro c h
    apply ih
    cases o with
    | units us => exact run_faithful h us
    | convert q t => exact h.of_frame (QOp.after_regframe c _ (by intro _ hh; cases hh))
    | add a b => exact h.of_frame (QOp.after_regframe c _ (by intro _ hh; cases hh))
    | sub a b => exact h.of_frame (QOp.after_regframe c _ (by intro _ hh; cases hh))
    | mul a b => exact h.of_frame (QOp.after_regframe c _ (by intro _ hh; cases hh))
    | div a b => exact h.of_frame (QOp.after_regframe c _ (by intro _ hh; cases hh))
    | pow a n => exact h.of_frame (QOp.after_regframe c _ (by intro _ hh; cases hh))
    | root a n => exact h.of_frame (QOp.after_regframe c _ (by intro _ hh; cases hh))
    | eq a b => exact h.of_frame (QOp.after_regframe c _ (by intro _ hh; cases hh))
    | ne a b => exact h.of_frame (QOp.after_regframe c _ (by intro _ hh; cases hh))
    | lt a b => exact h.of_frame (QOp.after_regframe c _ (by intro _ hh; cases hh))
    | le a b => exact h.of_frame (QOp.after_regframe c _ (by intro _ hh; cases hh))
    | gt a b => exact h.of_frame (QOp.after_regframe c _ (by intro _ hh; cases hh))
    | ge a b => exact h.of_frame (QOp.after_regframe c _ (by intro _ hh; cases hh))

end Measured
