/-
  Model/Regex.lean — the regular expressions of the grammar's terminals, as data.

  The terminal patterns stored in the generated parser (`TerminalDef.pattern.value`, Python `re`
  syntax) are PARSED by `Re.parse` and INTERPRETED by `Re.matchLen`, so the lexer of the model is
  driven by the very pattern text that /repo ships (regenerated on every run), not by hand-written
  matchers.

  Subset (everything the shipped grammar and lark's expansion of it use): literal characters,
  `\x` escapes of punctuation, `(?:…)` groups, `|`, character classes `[…]` with single
  characters and `a-b` ranges, postfix `?`, `+`, `*`.  Anything else makes `Re.parse` return `none`.

  Semantics: Python's backtracking matcher — alternatives are tried left to right, quantifiers are
  greedy and give characters back one at a time, the first successful overall match wins
  (`re.match` at the current position).  Written in continuation-passing style, structurally
  recursive, hence evaluable by the kernel.
-/
namespace Measured

inductive Re where
  | eps
  | lit (c : Char)
  | cls (ranges : List (Char × Char))
  | seq (a b : Re)
  | alt (a b : Re)
  | opt (a : Re)
  | star (a : Re)
  | plus (a : Re)
  deriving DecidableEq, Repr, Inhabited

namespace Re

/-! ### matching -/

/-- greedy iteration of a sub-matcher `ma`, giving back one iteration at a time; an iteration must
    consume at least one character (Python stops an empty iteration too) -/
def starLoop (ma : List Char → (List Char → Option Nat) → Option Nat) :
    Nat → List Char → (List Char → Option Nat) → Option Nat
  | 0, cs, k => k cs
  | n + 1, cs, k =>
    match ma cs (fun cs' => if cs'.length < cs.length then starLoop ma n cs' k else none) with
    | some r => some r
    | none => k cs

/-- `m re cs k`: match `re` at the head of `cs`, then continue with `k` on the rest; backtrack into
    `re` when `k` fails. -/
def m : Re → List Char → (List Char → Option Nat) → Option Nat
  | .eps, cs, k => k cs
  | .lit c, cs, k => match cs with
      | d :: rest => if d == c then k rest else none
      | [] => none
  | .cls rs, cs, k => match cs with
      | d :: rest => if rs.any (fun r => r.1 ≤ d && d ≤ r.2) then k rest else none
      | [] => none
  | .seq a b, cs, k => m a cs (fun cs' => m b cs' k)
  | .alt a b, cs, k => match m a cs k with
      | some r => some r
      | none => m b cs k
  | .opt a, cs, k => match m a cs k with
      | some r => some r
      | none => k cs
  | .star a, cs, k => starLoop (m a) (cs.length + 1) cs k
  | .plus a, cs, k => m a cs (fun cs' => starLoop (m a) (cs'.length + 1) cs' k)

/-- `re.match(pattern, text, pos)`: the length of the match at the head of `cs`, if any. -/
def matchLen (re : Re) (cs : List Char) : Option Nat :=
  m re cs (fun rest => some (cs.length - rest.length))

/-! ### parsing the pattern text -/

def isSpecial (c : Char) : Bool :=
  c == '(' || c == ')' || c == '|' || c == '?' || c == '+' || c == '*' || c == '[' || c == ']' || c == '\\' ||
  c == '.' || c == '^' || c == '$' || c == '{' || c == '}'

/-- the inside of `[...]` after the opening bracket: single characters, `\x` escapes, `a-b` ranges -/
def parseClass : Nat → List Char → List (Char × Char) → Option (List (Char × Char) × List Char)
  | 0, _, _ => none
  | _ + 1, [], _ => none
  | _ + 1, ']' :: rest, acc => if acc.isEmpty then none else some (acc.reverse, rest)
  | n + 1, '\\' :: c :: '-' :: d :: rest, acc =>
      if d == ']' then parseClass n ('-' :: d :: rest) ((c, c) :: acc)
      else if d == '\\' then none else parseClass n rest ((c, d) :: acc)
  | n + 1, '\\' :: c :: rest, acc => parseClass n rest ((c, c) :: acc)
  | n + 1, c :: '-' :: d :: rest, acc =>
      if d == ']' then parseClass n ('-' :: d :: rest) ((c, c) :: acc)
      else if d == '\\' then none else parseClass n rest ((c, d) :: acc)
  | n + 1, c :: rest, acc => if c == '[' || c == '^' && acc.isEmpty then none else parseClass n rest ((c, c) :: acc)

def applyPostfix : Re → List Char → Re × List Char
  | r, '?' :: rest => applyPostfix (.opt r) rest
  | r, '+' :: rest => applyPostfix (.plus r) rest
  | r, '*' :: rest => applyPostfix (.star r) rest
  | r, rest => (r, rest)

mutual
/-- alternation: `seq ('|' seq)*` -/
def parseAlt : Nat → List Char → Option (Re × List Char)
  | 0, _ => none
  | n + 1, cs =>
    match parseSeq n cs .eps with
    | none => none
    | some (a, '|' :: rest) =>
      match parseAlt n rest with
      | some (b, rest') => some (.alt a b, rest')
      | none => none
    | some (a, rest) => some (a, rest)

/-- concatenation of postfixed atoms, up to `)`, `|` or the end -/
def parseSeq : Nat → List Char → Re → Option (Re × List Char)
  | 0, _, _ => none
  | _ + 1, [], acc => some (acc, [])
  | _ + 1, ')' :: rest, acc => some (acc, ')' :: rest)
  | _ + 1, '|' :: rest, acc => some (acc, '|' :: rest)
  | n + 1, '(' :: '?' :: ':' :: rest, acc =>
    match parseAlt n rest with
    | some (g, ')' :: rest') =>
      let (g', rest'') := applyPostfix g rest'
      parseSeq n rest'' (if acc == .eps then g' else .seq acc g')
    | _ => none
  | n + 1, '[' :: rest, acc =>
    match parseClass (rest.length + 1) rest [] with
    | some (rs, rest') =>
      let (g', rest'') := applyPostfix (.cls rs) rest'
      parseSeq n rest'' (if acc == .eps then g' else .seq acc g')
    | none => none
  | n + 1, '\\' :: c :: rest, acc =>
    if c.isAlphanum then none        -- \d \w \s \b … are not in the subset
    else
      let (g', rest'') := applyPostfix (.lit c) rest
      parseSeq n rest'' (if acc == .eps then g' else .seq acc g')
  | n + 1, c :: rest, acc =>
    if isSpecial c then none
    else
      let (g', rest'') := applyPostfix (.lit c) rest
      parseSeq n rest'' (if acc == .eps then g' else .seq acc g')
end

/-- Parse a whole pattern. -/
def parse (pattern : String) : Option Re :=
  let cs := pattern.toList
  match parseAlt (2 * cs.length + 4) cs with
  | some (r, []) => some r
  | _ => none

/-- a `PatternStr`: the literal text -/
def ofLiteral (text : String) : Re :=
  text.toList.foldr (fun c acc => if acc == .eps then .lit c else .seq (.lit c) acc) .eps

end Re
end Measured
