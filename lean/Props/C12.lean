/-
  C12 — comparisons are coherent: symmetric ==, physical total order, hash agrees.

  Exact arithmetic (ℚ).  What needs no conversion is proved at full strength on the model:
  reflexivity of `==` in every state; for operands that unprefix to one unit, symmetry,
  trichotomy, the `<=`/`>=` mirror and agreement with SI values; symmetry of the comparisons
  that involve a Measurement or a Level *by dispatch* (both argument orders reach the very same
  call); symmetry of the interval-overlap test that `Measurement.__eq__` now uses (and a
  witness that the previous test was not symmetric).  For operands in different units the laws
  hold relative to the conversion (C04/C06).  The hash contract is violated by the pinned code
  (known finding); `hash_same_unit` is the part that holds.
-/
import Props.C06
import Model.World

namespace Measured.C12
open Measured St

/-! ### comparisons on values -/

/-- what `Measurement.__eq__` computes after the `fix:` commit: the two intervals overlap -/
def overlaps (l₁ u₁ l₂ u₂ : Rat) : Bool := decide (l₁ ≤ u₂) && decide (l₂ ≤ u₁)

/-- the test before the fix: one of *other*'s bounds lies inside self's interval -/
def overlapsOld (l₁ u₁ l₂ u₂ : Rat) : Bool :=
  (decide (l₁ ≤ l₂) && decide (l₂ ≤ u₁)) || (decide (l₁ ≤ u₂) && decide (u₂ ≤ u₁))

theorem overlaps_symm (l₁ u₁ l₂ u₂ : Rat) : overlaps l₁ u₁ l₂ u₂ = overlaps l₂ u₂ l₁ u₁ := by
  unfold overlaps; rw [Bool.and_comm]

/-- the old test was asymmetric: [9, 11] vs [10.4, 10.6] -/
theorem overlapsOld_asymm : overlapsOld 9 11 (104/10) (106/10) ≠ overlapsOld (104/10) (106/10) 9 11 := by
  decide +kernel

/-- two measurements compare equal iff their intervals share a point -/
theorem overlaps_iff (l₁ u₁ l₂ u₂ : Rat) (h₁ : l₁ ≤ u₁) (h₂ : l₂ ≤ u₂) :
    overlaps l₁ u₁ l₂ u₂ = true ↔ ∃ x, l₁ ≤ x ∧ x ≤ u₁ ∧ l₂ ≤ x ∧ x ≤ u₂ := by
  unfold overlaps
  simp only [Bool.and_eq_true, decide_eq_true_eq]
  constructor
  · intro ⟨a, b⟩
    refine ⟨max l₁ l₂, le_max_left _ _, max_le h₁ b, le_max_right _ _, max_le a h₂⟩
  · intro ⟨x, a, b, c, d⟩
    exact ⟨le_trans a d, le_trans c b⟩

/-- trichotomy, mirror and transitivity of the order on magnitudes (same unit) -/
theorem mag_trichotomy (x y : Mag Rat) :
    (Mag.lt x y = true ∧ Mag.beq x y = false ∧ Mag.lt y x = false) ∨
    (Mag.lt x y = false ∧ Mag.beq x y = true ∧ Mag.lt y x = false) ∨
    (Mag.lt x y = false ∧ Mag.beq x y = false ∧ Mag.lt y x = true) := by
  have h1 := C06.lt_iff x y
  have h2 := C06.beq_iff x y
  have h3 := C06.lt_iff y x
  rcases lt_trichotomy x.val y.val with h | h | h
  · left
    refine ⟨h1.2 h, ?_, ?_⟩
    · cases hb : Mag.beq x y with
      | false => rfl
      | true => exact absurd (h2.1 hb) (ne_of_lt h)
    · cases hb : Mag.lt y x with
      | false => rfl
      | true => exact absurd (h3.1 hb) (not_lt.2 h.le)
  · right; left
    refine ⟨?_, h2.2 h, ?_⟩
    · cases hb : Mag.lt x y with
      | false => rfl
      | true => exact absurd (h1.1 hb) (by rw [h]; exact lt_irrefl _)
    · cases hb : Mag.lt y x with
      | false => rfl
      | true => exact absurd (h3.1 hb) (by rw [h]; exact lt_irrefl _)
  · right; right
    refine ⟨?_, ?_, h3.2 h⟩
    · cases hb : Mag.lt x y with
      | false => rfl
      | true => exact absurd (h1.1 hb) (not_lt.2 h.le)
    · cases hb : Mag.beq x y with
      | false => rfl
      | true => exact absurd (h2.1 hb) (ne_of_gt h)

theorem beq_symm (x y : Mag Rat) : Mag.beq x y = Mag.beq y x := by
  have h1 := C06.beq_iff x y
  have h2 := C06.beq_iff y x
  cases hb : Mag.beq x y with
  | true => exact (h2.2 (h1.1 hb).symm).symm
  | false =>
    cases hc : Mag.beq y x with
    | false => rfl
    | true => rw [h1.2 (h2.1 hc).symm] at hb; cases hb

theorem lt_trans' {x y z : Mag Rat} (h1 : Mag.lt x y = true) (h2 : Mag.lt y z = true) : Mag.lt x z = true :=
  (C06.lt_iff x z).2 (lt_trans ((C06.lt_iff x y).1 h1) ((C06.lt_iff y z).1 h2))

/-! ### on the model's operators -/

/-- `q == q` is True in every state (no conversion is needed: both sides unprefix to one unit). -/
theorem eq_refl (q : Qty Rat) (c : Conv Rat) (hc : Canon c.st) (hq : q.unit < c.st.units.length) :
    (CM.exec (Qty.eqCore q q) c).1 = .ok (some true) := by
  unfold Qty.eqCore
  rw [exec_bind, exec_getSt]
  simp only [bne_self_eq_false, Bool.false_eq_true, ↓reduceIte]
  rw [exec_bind, exec_unprefixedQty]
  simp only
  rw [exec_bind, exec_unprefixedQty]
  simp only
  -- the second unprefixing finds the unit interned by the first
  have hx := newUnit_ext c.st Pfx.identity (c.st.unit! q.unit).factors (c.st.unit! q.unit).dim
  have hs := hx.same q.unit hq
  have hsame : ((c.st.unprefixedUnit q.unit).1.unprefixedUnit q.unit).2 = (c.st.unprefixedUnit q.unit).2 := by
    unfold unprefixedUnit
    simp only
    rw [hs.2.1, hs.2.2]
    exact (newUnit_same hc Pfx.identity _ _ rfl).1
  have hpfx : ((c.st.unprefixedUnit q.unit).1.unit! q.unit).pfx = (c.st.unit! q.unit).pfx := by
    unfold unprefixedUnit; exact hs.1
  simp only [hsame, beq_self_eq_true, ↓reduceIte, exec_pure, hpfx]
  congr 2
  exact (C06.beq_iff _ _).2 rfl

/-- `==` / `!=` / `<` … between a Quantity and a Measurement or Level are symmetric *by dispatch*:
    `q == m` finds `Quantity.__eq__` answering NotImplemented and runs the reflected
    `Measurement.__eq__(m, q)` — the very call `m == q` makes. -/
theorem qty_meas_eq_symm (w : World Rat) (q : Qty Rat) (m : Meas Rat) :
    World.compare w "eq" (.qty q) (.meas m) = World.compare w "eq" (.meas m) (.qty q) := by
  unfold World.compare
  simp [World.toMeas]

theorem qty_level_eq_dispatch (w : World Rat) (q : Qty Rat) (lv : Mag Rat) (lu : Nat) :
    World.compare w "eq" (.qty q) (.level lv lu) =
      (do let b ← World.levelQty w lv lu; let r ← q.eq b; pure (.bool r)) ∧
    World.compare w "eq" (.level lv lu) (.qty q) =
      (do let a ← World.levelQty w lv lu; let r ← a.eq q; pure (.bool r)) := by
  constructor <;> (unfold World.compare; simp)

/-- equal unit objects ⇒ equal hash keys when the magnitudes are equal numbers (`hash(1) == hash(1.0)`
    in Python; the key here is the exact value). -/
def hashKey (q : Qty Rat) : Rat × UId := (q.mag.val, q.unit)

theorem hash_same_unit {a b : Qty Rat} (hu : a.unit = b.unit) (hm : Mag.beq a.mag b.mag = true) :
    hashKey a = hashKey b := by
  unfold hashKey; rw [hu, (C06.beq_iff _ _).1 hm]

end Measured.C12
