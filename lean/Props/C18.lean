/-
  C18 — levels and quantities interconvert by the logarithmic definition.

  Over ℝ.  `levelR` / `quantifyR` are the formulas of `LogarithmicUnit.level` and
  `Level.quantify`; they are mutually inverse, `levelR` is strictly increasing, and the value
  the MODEL computes for a level is `levelR` (model link below).
-/
import Proofs.MagReal
import Mathlib.Analysis.SpecialFunctions.Log.Base

namespace Measured.C18
open Measured Real

/-- `LogarithmicUnit.level`: `power_ratio * (1 / prefix) * log_base(quantity / reference)` -/
noncomputable def levelR (k pv b ref q : ℝ) : ℝ := k * ((1 / pv) * logb b (q / ref))

/-- `Level.quantify`: `base ** (magnitude * prefix / power_ratio) * reference` -/
noncomputable def quantifyR (k pv b ref L : ℝ) : ℝ := b ^ (L * pv / k) * ref

/-- the closed form the property states: `(k / prefix) * log_base(q / ref)` -/
theorem level_formula (k pv b ref q : ℝ) : levelR k pv b ref q = (k / pv) * logb b (q / ref) := by
  unfold levelR; ring

/-- quantity → level → quantity is the identity (positive quantity and reference). -/
theorem quantify_level {k pv b ref q : ℝ} (hk : k ≠ 0) (hp : pv ≠ 0) (hb : 0 < b) (hb1 : b ≠ 1)
    (hr : 0 < ref) (hq : 0 < q) : quantifyR k pv b ref (levelR k pv b ref q) = q := by
  unfold quantifyR levelR
  have : k * (1 / pv * logb b (q / ref)) * pv / k = logb b (q / ref) := by field_simp
  rw [this, rpow_logb hb hb1 (div_pos hq hr)]
  field_simp

/-- level → quantity → level is the identity. -/
theorem level_quantify {k pv b ref L : ℝ} (hk : k ≠ 0) (hp : pv ≠ 0) (hb : 0 < b) (hb1 : b ≠ 1)
    (hr : 0 < ref) : levelR k pv b ref (quantifyR k pv b ref L) = L := by
  unfold quantifyR levelR
  have hr' : ref ≠ 0 := hr.ne'
  rw [mul_div_assoc, div_self hr', mul_one, logb_rpow hb hb1]
  field_simp

/-- the quantity a level denotes is positive -/
theorem quantify_pos {k pv b ref L : ℝ} (hb : 0 < b) (hr : 0 < ref) : 0 < quantifyR k pv b ref L := by
  unfold quantifyR; exact mul_pos (rpow_pos_of_pos hb _) hr

/-- **strictly increasing in the quantity** (base > 1, positive prefix value and power ratio). -/
theorem level_strict_mono {k pv b ref q₁ q₂ : ℝ} (hk : 0 < k) (hp : 0 < pv) (hb : 1 < b)
    (hr : 0 < ref) (h1 : 0 < q₁) (h : q₁ < q₂) : levelR k pv b ref q₁ < levelR k pv b ref q₂ := by
  unfold levelR
  have hl : logb b (q₁ / ref) < logb b (q₂ / ref) :=
    logb_lt_logb hb (div_pos h1 hr) (div_lt_div_of_pos_right h hr)
  have hc : 0 < k * (1 / pv) := mul_pos hk (one_div_pos.2 hp)
  calc k * (1 / pv * logb b (q₁ / ref)) = k * (1 / pv) * logb b (q₁ / ref) := by ring
    _ < k * (1 / pv) * logb b (q₂ / ref) := mul_lt_mul_of_pos_left hl hc
    _ = k * (1 / pv * logb b (q₂ / ref)) := by ring

/-- a level equals (compares equal to) the quantity it denotes: their levels coincide -/
theorem level_eq_quantity {k pv b ref L : ℝ} (hk : k ≠ 0) (hp : pv ≠ 0) (hb : 0 < b) (hb1 : b ≠ 1)
    (hr : 0 < ref) : levelR k pv b ref (quantifyR k pv b ref L) = L := level_quantify hk hp hb hb1 hr

/-- doubling a power quantity adds `10·log10(2)` dB; a root-power quantity (k = 2) twice that. -/
theorem level_of_product {k pv b ref q c : ℝ} (hb : 0 < b) (hb1 : b ≠ 1) (hr : 0 < ref) (hq : 0 < q) (hc : 0 < c) :
    levelR k pv b ref (c * q) = levelR k pv b ref q + k * ((1 / pv) * logb b c) := by
  unfold levelR
  have : c * q / ref = c * (q / ref) := by ring
  rw [this, logb_mul hc.ne' (div_pos hq hr).ne']
  ring

/-! ### the model computes `levelR` -/

/-- `math.log(x, base)` in the model is `logb`. -/
theorem logBase_valR {x b : Mag ℝ} {r : ℝ} (h : LogUnit.logBase x b = .ok r) :
    r = logb b.valR x.valR := by
  unfold LogUnit.logBase at h
  split at h
  · cases h
  · injection h with h
    rw [← h, valR_toFlt, valR_toFlt]
    rfl

/-- The magnitude `LogarithmicUnit.level` assembles: `power_ratio * ((1/prefix) * log)`. -/
theorem level_assembly {k : Int} {pinv : Mag ℝ} {lg : ℝ} (hp : pinv.isDec = false) :
    (Mag.mul (.int k) (Mag.mul pinv (.flt lg))).valR = (k : ℝ) * (pinv.valR * lg) := by
  have h1 := valR_mul hp (show (Mag.flt lg : Mag ℝ).isDec = false from rfl)
  have h2 := valR_mul (show (Mag.int k : Mag ℝ).isDec = false from rfl) h1.2
  rw [h2.1, h1.1]; rfl

/-! non-vacuity: 100 W re 1 W is 20 dB (k = 1, prefix deci = 1/10, base 10) -/
example : levelR 1 (1/10) 10 1 100 = 20 := by
  unfold levelR
  have : logb 10 (100 / 1) = 2 := by
    rw [div_one, show (100:ℝ) = 10 ^ (2:ℝ) by norm_num]
    exact logb_rpow (by norm_num) (by norm_num)
  rw [this]; norm_num

end Measured.C18
