from measured import *
from measured import systems, conversions
from measured.si import *
from measured.us import *
from measured.iec import *
from measured.parsing import ParseError
import math
def t(label, f):
    try:
        print(label, "->", f())
    except Exception as e:
        print(label, "!!", type(e).__name__, [c.__name__ for c in type(e).__mro__][:4], str(e)[:100].replace("\n"," "))
for s in ["", " ", "m", "5", "5 m", "5 zz", "m^", "m^-", "m^0", "m⁰", "m^99999999999999999999", "5 m/", "5e400 m", "-5 m", "+5 m", "5. m", ".5 m", "5 m m", "5 m*s", "5 m**s", "1", "1 1", "5 1", "1/s", "m/s/s", "m⋅", "m ⁻¹", "m⁻", "m²³", "m^2^2", "m^+2", "m^--2", "5 m ^2", "5 m^ 2", "٣ m", "5 ①", "K", "°C", "d", "dd", "dam", "m.", "5\tm", "5\nm", "5 m ", "\x00", "5 µm", "5 μm", "5 Ω", "5 Å", "5 M☉", "9"*5000+" m", "5 " + "m"*5000, "5 m^" + "9"*5000, "5 km^-99999999", "nan m", "inf m", "5 One", "5 meter", "5 nautical mile", "5 kmeter", "5 (m)", "5 m-1", "1e5", "1e5 m", "1E5 m", "1e m"]:
    t(repr(s[:30]), lambda: repr(Quantity.parse(s))[:80])
for s in ["m", "", "1", "5", "kg", "k", "m/s", "/s", "s⁻¹", "zz", "kk", "1m"]:
    t("U "+repr(s), lambda: repr(Unit.parse(s))[:80])
