/-
  Per-run obligations for C18 over the logarithms registered in /repo: every base is > 1,
  every logarithm prefix is a positive normalised prefix, and the root-power dimension set is
  the documented one (voltage, current, pressure, field strength, speed, charge densities).
-/
import Props.C18
import Obligations.C11
import Generated.Graph

namespace Measured.Obligations
open Measured Generated

theorem logarithms_wellformed :
    logarithms.all (fun l => decide (1 < l.1.toRat) && decide (l.2.1.base = 0 ↔ l.2.1.exp = 0)) = true := by
  decide +kernel

def dimOfNamed (name : String) : Dim := init.dimOfUnit ((lookup name init.unitByName).getD 0)

theorem root_power_dims_ok :
    rootPowerDims.length = 8 ∧
    (["volt", "ampere", "pascal"].all (fun n => rootPowerDims.contains (dimOfNamed n))) = true ∧
    rootPowerDims.contains ((dimOfNamed "meter").div (dimOfNamed "second")) = true ∧
    (["watt", "joule", "meter", "hertz"].all (fun n => !rootPowerDims.contains (dimOfNamed n))) = true := by
  decide +kernel

end Measured.Obligations
