#!/bin/bash
# MANIFEST.setup_cmd: regenerate lean/Generated/* from /repo and build all Lean code
# (model, proofs, property theorems, obligations, driver).  Offline; nothing is fetched.
set -e
cd "$(dirname "$0")"
export MEASURED_REPO=${MEASURED_REPO:-/repo}
/venv/bin/python translate/gen_init.py
/venv/bin/python translate/gen_grammar.py
/venv/bin/python translate/gen_sizes.py
/venv/bin/python translate/gen_caches.py
/venv/bin/python translate/gen_family.py
/venv/bin/python translate/gen_symbols.py
/venv/bin/python translate/gen_ctor.py
cd lean
lake build Model Proofs Props Obligations driver 2>&1 | grep -v '^trace' | tail -5
