/-
  C02/C11, last sentence — prefixes of different bases: `Prefix.__mul__` re-expresses the
  second prefix in the first one's base with the (float) exponent `e₂·log b₂ / log b₁`.
  Over the reals this is exact; the implementation's 1e-9 is float rounding only.
-/
import Mathlib.Analysis.SpecialFunctions.Pow.Real

namespace Measured.C11

open Real

/-- The exponent `Prefix.__mul__` computes for bases `b₁ ≠ b₂`. -/
noncomputable def crossExp (b₁ e₁ b₂ e₂ : ℝ) : ℝ := e₁ + e₂ * (log b₂ / log b₁)
noncomputable def crossExpDiv (b₁ e₁ b₂ e₂ : ℝ) : ℝ := e₁ - e₂ * (log b₂ / log b₁)

theorem rebase {b₁ b₂ : ℝ} (h₁ : 0 < b₁) (h₁' : b₁ ≠ 1) (h₂ : 0 < b₂) (e : ℝ) :
    b₁ ^ (e * (log b₂ / log b₁)) = b₂ ^ e := by
  have hl : log b₁ ≠ 0 := by
    intro h
    rcases Real.log_eq_zero.1 h with h | h | h
    · linarith
    · exact h₁' h
    · linarith
  rw [Real.rpow_def_of_pos h₁, Real.rpow_def_of_pos h₂]
  congr 1
  field_simp

/-- value(p·q) = value p · value q across bases. -/
theorem cross_base_mul {b₁ b₂ : ℝ} (h₁ : 0 < b₁) (h₁' : b₁ ≠ 1) (h₂ : 0 < b₂) (e₁ e₂ : ℝ) :
    b₁ ^ crossExp b₁ e₁ b₂ e₂ = b₁ ^ e₁ * b₂ ^ e₂ := by
  unfold crossExp
  rw [Real.rpow_add h₁, rebase h₁ h₁' h₂]

/-- value(p/q) = value p / value q across bases. -/
theorem cross_base_div {b₁ b₂ : ℝ} (h₁ : 0 < b₁) (h₁' : b₁ ≠ 1) (h₂ : 0 < b₂) (e₁ e₂ : ℝ) :
    b₁ ^ crossExpDiv b₁ e₁ b₂ e₂ = b₁ ^ e₁ / b₂ ^ e₂ := by
  unfold crossExpDiv
  rw [Real.rpow_sub h₁, rebase h₁ h₁' h₂]

/-- value(pⁿ) = (value p)ⁿ for a real exponent (what `Prefix.__pow__` does to a float exponent). -/
theorem cross_base_pow {b : ℝ} (h : 0 < b) (e n : ℝ) : b ^ (e * n) = (b ^ e) ^ n :=
  Real.rpow_mul h.le e n

/-- x·x⁻¹ = 1 across bases. -/
theorem cross_base_mul_inv {b₁ b₂ : ℝ} (h₁ : 0 < b₁) (h₁' : b₁ ≠ 1) (h₂ : 0 < b₂) (e₁ e₂ : ℝ) :
    b₁ ^ crossExp b₁ e₁ b₂ e₂ * (b₁ ^ crossExp b₁ e₁ b₂ e₂)⁻¹ = 1 := by
  apply mul_inv_cancel₀
  exact (Real.rpow_pos_of_pos h₁ _).ne'

end Measured.C11
