/-
  Per-run obligations that lift C10 from the kernel-evaluated prefix pairs to EVERY prefix and EVERY
  state: on a flat dimension the path search is a pure function of the two graph tables
  (Proofs/Flat.lean), so a conversion between prefixed temperature units is
  `(A·(prefix(source)·m) + B) / prefix(target)` with `(A, B)` the affine map of the pure path between
  the two scale units — and those 16 maps (12 ordered pairs and the 4 identities) are checked here,
  by the kernel, against the exact definitions C = K − 273.15, F = R − 459.67, R = 9/5 K on the
  graph regenerated from /repo.
-/
import Proofs.Flat
import Proofs.Affine
import Obligations.C10
import Obligations.C04Near

namespace Measured.Obligations.FlatTemp
open Measured Measured.Obligations Measured.Obligations.NearShipped Generated St

def tempDim : Dim := init.dimOfUnit (uidOf "kelvin")

def tempDimOk : Bool :=
  decide (tempDim.weight ≤ 1) && !tempDim.isNumber && tempDim.isFactor tempDim && (tempDim.div tempDim).isNumber &&
    !tempDim.any (fun x => decide (x < 0))

def baseOk (u : UId) : Bool :=
  decide (u < init.units.length) && ((init.unit! u).pfx == Pfx.identity) && ((init.unit! u).factors == [(u, 1)]) &&
    (init.dimOfUnit u == tempDim)

/-- the affine map of the pure path between two scale units -/
def flatCoeffs (a b : UId) : Option (Rat × Rat) :=
  match flatPath shipped.ratios shipped.offsets a b with
  | .ok p => if p.isEmpty then none else some (affinePath 1 (1, 0) (p.map Hop.toV))
  | .error _ => none

def tol : Rat := 1 / 10 ^ 12

def flatTempCase (a b : String × Rat × Rat) : Bool :=
  match flatCoeffs (uidOf a.1) (uidOf b.1) with
  | none => false
  | some (A, B) => closeTo A (a.2.1 / b.2.1) tol 0 && closeTo B ((a.2.2 - b.2.2) / b.2.1) tol 1000

def flatTempAll : Bool :=
  tempDimOk && tempScales.all (fun a => baseOk (uidOf a.1) && tempScales.all (fun b => flatTempCase a b))

theorem flat_temperature_ok : flatTempAll = true := by decide +kernel

/-- **C10 for every prefix, every magnitude and every state.**  After any public unit operations on the
    shipped registries, for any two units whose single factor is one of the four temperature scales
    (kelvin, celsius, Rankine, fahrenheit — with whatever prefixes), whatever `convert` returns is
    `(A·(prefix(source)·m) + B) / prefix(target)` with `(A, B)` within 10⁻¹² of the exact affine definition of
    the pair of scales (degree ratio `α`, zero shift `β`). -/
theorem temperature_conversions_all_prefixes (ops : List Op) {c₁ c' : Conv Rat}
    (hc₁ : c₁ = { shipped with st := run shipped.st ops })
    {a b : String × Rat × Rat} (ha : a ∈ tempScales) (hb : b ∈ tempScales)
    {q r : Qty Rat} {t : UId} (hq : q.unit < c₁.st.units.length) (ht : t < c₁.st.units.length)
    (hsf : (c₁.st.unit! q.unit).factors = [(uidOf a.1, 1)]) (htf : (c₁.st.unit! t).factors = [(uidOf b.1, 1)])
    (h : CM.exec (convert q t) c₁ = (.ok r, c')) :
    r.unit = t ∧ ∃ A B : Rat,
      closeTo A (a.2.1 / b.2.1) tol 0 = true ∧ closeTo B ((a.2.2 - b.2.2) / b.2.1) tol 1000 = true ∧
      r.mag.val = (A * (Pfx.val (c₁.st.unit! q.unit).pfx * q.mag.val) + B) * (1 / Pfx.val (c₁.st.unit! t).pfx) := by
  have hall := flat_temperature_ok
  unfold flatTempAll at hall
  simp only [Bool.and_eq_true, List.all_eq_true] at hall
  obtain ⟨hdim, hall⟩ := hall
  obtain ⟨hba, hrow⟩ := hall a ha
  obtain ⟨hbb, _⟩ := hall b hb
  have hcase := hrow b hb
  unfold tempDimOk at hdim
  simp only [Bool.and_eq_true, decide_eq_true_eq, Bool.not_eq_true'] at hdim
  obtain ⟨⟨⟨⟨hw, hnn⟩, hfac⟩, hnum⟩, hneg⟩ := hdim
  unfold baseOk at hba hbb
  simp only [Bool.and_eq_true, decide_eq_true_eq, beq_iff_eq] at hba hbb
  obtain ⟨⟨⟨hu, hup⟩, huf⟩, hud⟩ := hba
  obtain ⟨⟨⟨hv, hvp⟩, hvf⟩, hvd⟩ := hbb
  -- the state after the operations
  obtain ⟨g, f⟩ := units_graphNear shipped_graphNear ops
  rw [← hc₁] at g f
  have w := shipped_graphWF.frameN shipped_graphNear f
  have hu1 : uidOf a.1 < c₁.st.units.length := Nat.lt_of_lt_of_le hu f.ext.len
  have hv1 : uidOf b.1 < c₁.st.units.length := Nat.lt_of_lt_of_le hv f.ext.len
  have su := f.ext.same (uidOf a.1) hu
  have sv := f.ext.same (uidOf b.1) hv
  obtain ⟨hru, path, hfp, hne, hval⟩ := convert_flat_single (d := tempDim) g w hq ht hu1 hv1 hsf htf
    ⟨su.1.trans hup, su.2.1.trans huf⟩ ⟨sv.1.trans hvp, sv.2.1.trans hvf⟩
    ((f.ext.dimOfUnit hu).trans hud) ((f.ext.dimOfUnit hv).trans hvd) hw hnn hfac hnum hneg h
  refine ⟨hru, ?_⟩
  have hR : c₁.ratios = shipped.ratios := f.ratios
  have hO : c₁.offsets = shipped.offsets := f.offsets
  rw [hR, hO] at hfp
  unfold flatTempCase flatCoeffs at hcase
  rw [hfp] at hcase
  have hpe : path.isEmpty = false := by
    cases path with
    | nil => exact absurd rfl hne
    | cons _ _ => rfl
  simp only [hpe, Bool.false_eq_true, ↓reduceIte, Bool.and_eq_true] at hcase
  refine ⟨_, _, hcase.1, hcase.2, ?_⟩
  rw [hval]
  have := applyPathV_affine 1 (path.map Hop.toV) 1 0 (Pfx.val (c₁.st.unit! q.unit).pfx * q.mag.val)
  rw [one_mul, add_zero] at this
  rw [this]

/-! ### inhabited: 25 kilo-celsius in milli-fahrenheit, on the regenerated registries -/

def kiloP : Pfx := ⟨10, 3⟩
def milliP : Pfx := ⟨10, -3⟩
def tOps : List Op := [Op.pmul kiloP (uidOf "celsius"), Op.pmul milliP (uidOf "fahrenheit")]
def cT : Conv Rat := { shipped with st := run shipped.st tOps }
def kC : UId := match (shipped.st.pmulUnit kiloP (uidOf "celsius")).2 with | .ok i => i | .error _ => 0
def mF : UId := match ((shipped.st.pmulUnit kiloP (uidOf "celsius")).1.pmulUnit milliP (uidOf "fahrenheit")).2 with
  | .ok i => i | .error _ => 0
def q25 : Qty Rat := ⟨.int 25, kC⟩

def tempCheck : Bool :=
  (match (CM.exec (convert q25 mF) cT).1 with
   | .ok r => decide (r.unit = mF)
   | .error _ => false) &&
  decide (kC < cT.st.units.length) && decide (mF < cT.st.units.length) &&
  ((cT.st.unit! kC).factors == [(uidOf "celsius", 1)]) && ((cT.st.unit! mF).factors == [(uidOf "fahrenheit", 1)]) &&
  ((cT.st.unit! kC).pfx == kiloP) && ((cT.st.unit! mF).pfx == milliP)

theorem temp_evaluates : tempCheck = true := by decide +kernel

set_option maxRecDepth 8000 in
/-- 25 k°C → m°F: the theorem applies (prefixes on both sides, offsets on the path °C → K → °R → °F) and
    gives `result = (A·(1000·25) + B)·1000` with `A ≈ 9/5`, `B ≈ 32` — 45 032 000 m°F. -/
theorem temperature_inhabited :
    ∃ (r : Qty Rat) (c' : Conv Rat) (A B : Rat), CM.exec (convert q25 mF) cT = (.ok r, c') ∧
      closeTo A (9 / 5) tol 0 = true ∧ closeTo B 32 tol 1000 = true ∧
      r.mag.val = (A * (1000 * 25) + B) * 1000 := by
  have hc := temp_evaluates
  unfold tempCheck at hc
  simp only [Bool.and_eq_true, decide_eq_true_eq, beq_iff_eq] at hc
  obtain ⟨⟨⟨⟨⟨⟨hconv, hq⟩, ht⟩, hsf⟩, htf⟩, hp1⟩, hp2⟩ := hc
  cases h1 : CM.exec (convert q25 mF) cT with
  | mk r1 c' =>
    cases r1 with
    | error e => rw [h1] at hconv; simp at hconv
    | ok r =>
      obtain ⟨_, A, B, hA, hB, hv⟩ := temperature_conversions_all_prefixes tOps (c₁ := cT) rfl
        (a := ("celsius", 1, 27315 / 100)) (b := ("fahrenheit", 5 / 9, 45967 / 100 * (5 / 9)))
        (by simp [tempScales]) (by simp [tempScales]) (q := q25) (t := mF) hq ht hsf htf h1
      refine ⟨r, c', A, B, rfl, ?_, ?_, ?_⟩
      · have : ((1 : Rat) / (5 / 9)) = 9 / 5 := by norm_num
        rw [← this]; exact hA
      · have : ((27315 / 100 - 45967 / 100 * (5 / 9)) / (5 / 9) : Rat) = 32 := by norm_num
        rw [← this]; exact hB
      · rw [hv]
        have e1 : Pfx.val (cT.st.unit! q25.unit).pfx = 1000 := by
          show Pfx.val (cT.st.unit! kC).pfx = 1000
          rw [hp1]; norm_num [Pfx.val, kiloP]
        have e2 : Pfx.val (cT.st.unit! mF).pfx = 1 / 1000 := by
          rw [hp2]; norm_num [Pfx.val, milliP]
        rw [e1, e2]
        show (A * (1000 * ((25 : Int) : Rat)) + B) * (1 / (1 / 1000)) = _
        norm_num

end Measured.Obligations.FlatTemp
