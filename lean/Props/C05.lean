/-
  C05 — conversion is an invertible linear scaling, independent of the route taken.

  Linearity, zero and sign hold for EVERY offset-free plan the model can produce, sound or
  not, because a plan is a product of constants.  Self-conversion is proved for the planner
  itself.  Round trip and route independence are stated at full strength and proved under the
  hypothesis that the conversions involved have the right coefficients (which C04's
  obligations establish on the evaluated family, and the oracle checks on the implementation).
-/
import Proofs.ConvertSelf

namespace Measured.C05
open Measured

/-- Converting `k·q` gives `k` times the conversion of `q` (any offset-free plan). -/
theorem convert_linear {plan : List StepV} (hf : offsetFree plan) (k m : Rat) :
    applyPlanV (k * m) plan = k * applyPlanV m plan := applyPlanV_linear hf k m

theorem convert_zero {plan : List StepV} (hf : offsetFree plan) : applyPlanV 0 plan = 0 := applyPlanV_zero hf

/-- The sign of the magnitude is preserved (ratios are positive). -/
theorem convert_sign {plan : List StepV} (hf : offsetFree plan) (hp : positivePlan plan) (m : Rat) :
    (0 < m → 0 < applyPlanV m plan) ∧ (m < 0 → applyPlanV m plan < 0) ∧ (m = 0 → applyPlanV m plan = 0) :=
  applyPlanV_sign hf hp m

/-- In the model's `convert` the returned magnitude is `q.mag · κ` with `κ` depending only on
    the plan (hence only on the two units), whenever the plan has no offsets. -/
theorem convert_proportional {c c' : Conv Rat} {q r : Qty Rat} {t : UId}
    (h : CM.exec (convert q t) c = (.ok r, c')) :
    ∃ plan : List StepV, (offsetFree plan →
      r.mag.val = q.mag.val * applyPlanV ((Pfx.value (c.st.unit! q.unit).pfx : Mag Rat).val) plan) := by
  obtain ⟨_, plan, _, hv⟩ := convert_ok h
  refine ⟨plan.map PlanStep.toV, fun hf => ?_⟩
  rw [hv, mul_comm ((Pfx.value (c.st.unit! q.unit).pfx : Mag Rat).val) q.mag.val, applyPlanV_linear hf]

/-- Converting a quantity to its own unit returns the same magnitude. -/
theorem convert_self {c c' : Conv Rat} {q r : Qty Rat} (hq : q.unit < c.st.units.length)
    (h : CM.exec (convert q q.unit) c = (.ok r, c')) : r.mag.val = q.mag.val ∧ r.unit = q.unit :=
  Measured.convert_self hq h

/-- There and back: if the two plans carry the size ratios `σa/σb` and `σb/σa`, the round trip
    is the identity — for every magnitude. -/
theorem round_trip {p q : List StepV} {σa σb : Rat} (ha : σa ≠ 0) (hb : σb ≠ 0)
    (hp : affineOf p = (σa / σb, 0)) (hq : affineOf q = (σb / σa, 0)) (m : Rat) :
    applyPlanV (applyPlanV m p) q = m := by
  rw [applyPlanV_affine q, applyPlanV_affine p, hp, hq]
  field_simp
  ring

/-- Via any intermediate unit = directly, when each leg carries its size ratio. -/
theorem route_independent {p₁ p₂ d : List StepV} {σa σb σc : Rat} (hb : σb ≠ 0) (hc : σc ≠ 0)
    (h1 : affineOf p₁ = (σa / σb, 0)) (h2 : affineOf p₂ = (σb / σc, 0)) (hd : affineOf d = (σa / σc, 0))
    (m : Rat) : applyPlanV (applyPlanV m p₁) p₂ = applyPlanV m d := by
  rw [applyPlanV_affine p₂, applyPlanV_affine p₁, applyPlanV_affine d, h1, h2, hd]
  field_simp
  ring

/-! non-vacuity: a two-step offset-free plan -/
def demoPlan : List StepV := [ { ratio := 1, path := [⟨12, 0⟩, ⟨254/100, 0⟩], exp := 2 }, { ratio := 1/100, path := [], exp := 1 } ]
example : offsetFree demoPlan ∧ positivePlan demoPlan := by
  constructor
  · intro st hst h hh; simp [demoPlan] at hst; rcases hst with rfl | rfl <;> simp at hh <;> rcases hh with rfl | rfl <;> rfl
  · intro st hst; simp [demoPlan] at hst
    rcases hst with rfl | rfl
    · refine ⟨by norm_num, ?_⟩; intro h hh; simp at hh; rcases hh with rfl | rfl <;> norm_num
    · refine ⟨by norm_num, ?_⟩; intro h hh; simp at hh

end Measured.C05
