/-
  Proofs/Sizes.lean — if every declared equivalence holds for one assignment of sizes within
  a relative tolerance, then *every chain* of declarations between two units multiplies out
  to the ratio of their sizes within the accumulated tolerance, and any two chains between
  the same units agree (C09: every cycle, not a sample of them).
-/
import Model.Sizes
import Mathlib.Algebra.Order.Field.Basic
import Mathlib.Tactic.Linarith
import Mathlib.Tactic.Positivity
import Mathlib.Tactic.GCongr
import Mathlib.Tactic.Ring

namespace Measured

/-- A directed edge `1 a = r b`. -/
structure Edge where
  a : UId
  b : UId
  r : Rat

/-- Edge `e` holds for sizes `σ` within `[lo, hi]`: `lo·σ(a) ≤ r·σ(b) ≤ hi·σ(a)`. -/
def EdgeOK (σ : UId → Rat) (lo hi : Rat) (e : Edge) : Prop :=
  0 < e.r ∧ lo * σ e.a ≤ e.r * σ e.b ∧ e.r * σ e.b ≤ hi * σ e.a

/-- `Chain E a b p k`: following `k` edges of `E` from `a` reaches `b`, the product of the
    ratios being `p` (so the chain claims `1 a = p b`). -/
inductive Chain (E : List Edge) : UId → UId → Rat → Nat → Prop
  | nil (a : UId) : Chain E a a 1 0
  | cons {e : Edge} {c : UId} {p : Rat} {k : Nat} :
      e ∈ E → Chain E e.b c p k → Chain E e.a c (e.r * p) (k + 1)

theorem chain_pos {E : List Edge} {σ : UId → Rat} {lo hi : Rat}
    (h : ∀ e ∈ E, EdgeOK σ lo hi e) {a b : UId} {p : Rat} {k : Nat} (hc : Chain E a b p k) : 0 < p := by
  induction hc with
  | nil a => norm_num
  | cons he _ ih => exact mul_pos (h _ he).1 ih

/-- **Every chain.**  The product along any chain is the ratio of the end sizes, within the
    tolerance accumulated over its length. -/
theorem chain_bound {E : List Edge} {σ : UId → Rat} {lo hi : Rat} (hlo : 0 ≤ lo) (hhi : 0 ≤ hi)
    (h : ∀ e ∈ E, EdgeOK σ lo hi e) {a b : UId} {p : Rat} {k : Nat} (hc : Chain E a b p k) :
    lo ^ k * σ a ≤ p * σ b ∧ p * σ b ≤ hi ^ k * σ a := by
  induction hc with
  | nil a => simp
  | @cons e c p k he hrest ih =>
    obtain ⟨hr, h1, h2⟩ := h e he
    obtain ⟨i1, i2⟩ := ih
    have hk1 : 0 ≤ lo ^ k := pow_nonneg hlo k
    have hk2 : 0 ≤ hi ^ k := pow_nonneg hhi k
    constructor
    · calc lo ^ (k + 1) * σ e.a = lo ^ k * (lo * σ e.a) := by ring
        _ ≤ lo ^ k * (e.r * σ e.b) := by gcongr
        _ = e.r * (lo ^ k * σ e.b) := by ring
        _ ≤ e.r * (p * σ c) := by gcongr
        _ = e.r * p * σ c := by ring
    · calc e.r * p * σ c = e.r * (p * σ c) := by ring
        _ ≤ e.r * (hi ^ k * σ e.b) := by gcongr
        _ = hi ^ k * (e.r * σ e.b) := by ring
        _ ≤ hi ^ k * (hi * σ e.a) := by gcongr
        _ = hi ^ (k + 1) * σ e.a := by ring

/-- **Any two chains between the same units agree**: `p₁ / p₂ ≤ hi^k₁ / lo^k₂`
    (cross-multiplied), whatever route each takes. -/
theorem chains_agree {E : List Edge} {σ : UId → Rat} {lo hi : Rat} (hlo : 0 < lo) (hhi : 0 ≤ hi)
    (hσ : ∀ u, 0 < σ u)
    (h : ∀ e ∈ E, EdgeOK σ lo hi e) {a b : UId} {p₁ p₂ : Rat} {k₁ k₂ : Nat}
    (c₁ : Chain E a b p₁ k₁) (c₂ : Chain E a b p₂ k₂) :
    p₁ * lo ^ k₂ ≤ p₂ * hi ^ k₁ := by
  obtain ⟨_, u1⟩ := chain_bound hlo.le hhi h c₁
  obtain ⟨l2, _⟩ := chain_bound hlo.le hhi h c₂
  have ha := hσ a
  have hb := hσ b
  have hp2 := chain_pos h c₂
  -- p₁ σb ≤ hi^k₁ σa  and  lo^k₂ σa ≤ p₂ σb
  have hl : 0 ≤ lo ^ k₂ := pow_nonneg hlo.le k₂
  have : p₁ * lo ^ k₂ * (σ a * σ b) ≤ p₂ * hi ^ k₁ * (σ a * σ b) := by
    calc p₁ * lo ^ k₂ * (σ a * σ b) = (p₁ * σ b) * (lo ^ k₂ * σ a) := by ring
      _ ≤ (hi ^ k₁ * σ a) * (lo ^ k₂ * σ a) := by
          apply mul_le_mul_of_nonneg_right u1
          exact mul_nonneg hl ha.le
      _ = (hi ^ k₁ * σ a) * (lo ^ k₂ * σ a) := rfl
      _ ≤ (hi ^ k₁ * σ a) * (p₂ * σ b) := by
          apply mul_le_mul_of_nonneg_left l2
          exact mul_nonneg (pow_nonneg hhi k₁) ha.le
      _ = p₂ * hi ^ k₁ * (σ a * σ b) := by ring
  exact le_of_mul_le_mul_right this (mul_pos ha hb)

/-- A closed chain (cycle) multiplies out to 1 within the accumulated tolerance. -/
theorem cycle_bound {E : List Edge} {σ : UId → Rat} {lo hi : Rat} (hlo : 0 ≤ lo) (hhi : 0 ≤ hi)
    (hσ : ∀ u, 0 < σ u) (h : ∀ e ∈ E, EdgeOK σ lo hi e) {a : UId} {p : Rat} {k : Nat}
    (hc : Chain E a a p k) : lo ^ k ≤ p ∧ p ≤ hi ^ k := by
  obtain ⟨h1, h2⟩ := chain_bound hlo hhi h hc
  exact ⟨le_of_mul_le_mul_right h1 (hσ a), le_of_mul_le_mul_right h2 (hσ a)⟩

end Measured

namespace Measured

/-! ### from the executable checker to `EdgeOK` -/

/-- The size function a certificate induces (1 where the certificate is silent; the checker
    rejects declarations that mention an unsized unit). -/
def sizeFn (s : St) (c : SizeCert) (u : UId) : Rat := (unitSize s c u).getD 1

def declUnits : Decl → UId × UId
  | .equate _ ua _ ub => (ua, ub)
  | .translate sc _ zu => (sc, zu)

/-- The two directed edges a declaration contributes (`1 ua = (mb/ma) ub` and back). -/
def declEdges (d : Decl) : List Edge :=
  match d with
  | .equate ma ua mb ub => [⟨ua, ub, mb.toRat / ma.toRat⟩, ⟨ub, ua, ma.toRat / mb.toRat⟩]
  | .translate sc _ zu => [⟨sc, zu, 1⟩, ⟨zu, sc, 1⟩]

theorem absRat_le {x t : Rat} (h : absRat x ≤ t) : -t ≤ x ∧ x ≤ t := by
  unfold absRat at h
  split at h <;> constructor <;> linarith

/-- One checked declaration yields two `EdgeOK` edges with `lo = 1 - tol`, `hi = 1/(1 - tol)`. -/
theorem declHolds_edges {tol ma x mb y : Rat} (ht0 : 0 ≤ tol) (ht1 : tol < 1)
    (h : declHolds tol (ma, x, mb, y) = true) :
    (0 < mb / ma ∧ (1 - tol) * x ≤ mb / ma * y ∧ mb / ma * y ≤ 1 / (1 - tol) * x) ∧
    (0 < ma / mb ∧ (1 - tol) * y ≤ ma / mb * x ∧ ma / mb * x ≤ 1 / (1 - tol) * y) := by
  unfold declHolds relClose at h
  simp only [Bool.and_eq_true, decide_eq_true_eq] at h
  obtain ⟨⟨⟨⟨hma, hx⟩, hmb⟩, hy⟩, hc⟩ := h
  have hyy : 0 < mb * y := mul_pos hmb hy
  have habs : absRat (mb * y) = mb * y := by unfold absRat; split <;> linarith
  rw [habs] at hc
  obtain ⟨c1, c2⟩ := absRat_le hc
  have h1t : 0 < 1 - tol := by linarith
  -- ma x ∈ [(1 - tol) mb y, (1 + tol) mb y]
  have e1 : mb / ma * y = (mb * y) / ma := by ring
  have e2 : ma / mb * x = (ma * x) / mb := by ring
  refine ⟨⟨div_pos hmb hma, ?_, ?_⟩, ⟨div_pos hma hmb, ?_, ?_⟩⟩
  · rw [e1, le_div_iff₀ hma]
    nlinarith
  · rw [e1, div_le_iff₀ hma]
    have : mb * y * (1 - tol) ≤ ma * x := by nlinarith
    have h3 : mb * y ≤ (ma * x) / (1 - tol) := by rw [le_div_iff₀ h1t]; exact this
    calc mb * y ≤ (ma * x) / (1 - tol) := h3
      _ = 1 / (1 - tol) * x * ma := by ring
  · rw [e2, le_div_iff₀ hmb]
    nlinarith
  · rw [e2, div_le_iff₀ hmb]
    have h4 : ma * x ≤ (1 + tol) * (mb * y) := by nlinarith
    have h5 : (1 + tol) ≤ 1 / (1 - tol) := by
      rw [le_div_iff₀ h1t]; nlinarith
    calc ma * x ≤ (1 + tol) * (mb * y) := h4
      _ ≤ 1 / (1 - tol) * (mb * y) := by gcongr
      _ = 1 / (1 - tol) * y * mb := by ring

end Measured

namespace Measured

theorem declHolds_mono {t₁ t₂ : Rat} (h : t₁ ≤ t₂) {q : Rat × Rat × Rat × Rat}
    (hq : declHolds t₁ q = true) : declHolds t₂ q = true := by
  unfold declHolds relClose at *
  simp only [Bool.and_eq_true, decide_eq_true_eq] at *
  obtain ⟨hpos, hc⟩ := hq
  refine ⟨hpos, le_trans hc ?_⟩
  have : 0 ≤ absRat (q.2.2.1 * q.2.2.2) := by unfold absRat; split <;> linarith
  exact mul_le_mul_of_nonneg_right h this

/-- The declarations that were actually checked: index not excluded. -/
def checkedDecls (excluded : List Nat) : List Decl → Nat → List Decl
  | [], _ => []
  | d :: rest, i => if excluded.contains i then checkedDecls excluded rest (i + 1)
                    else d :: checkedDecls excluded rest (i + 1)

theorem checkDecls_sound {s : St} {c : SizeCert} {tight loose : Rat} {inexact excluded : List Nat}
    (htl : tight ≤ loose) :
    ∀ (decls : List Decl) (i : Nat), checkDecls s c tight loose inexact excluded decls i = .ok →
      ∀ d ∈ checkedDecls excluded decls i, ∃ q, declParts s c d = some q ∧ declHolds loose q = true := by
  intro decls
  induction decls with
  | nil => intro i _ d hd; simp [checkedDecls] at hd
  | cons d0 rest ih =>
    intro i h d hd
    unfold checkDecls at h
    unfold checkedDecls at hd
    split at h
    · next hex => simp only [hex, ↓reduceIte] at hd; exact ih (i + 1) h d hd
    · next hex =>
      simp only [hex, Bool.false_eq_true, ↓reduceIte] at hd
      cases hq : declParts s c d0 with
      | none => simp [hq] at h
      | some q =>
        simp only [hq] at h
        by_cases hin : inexact.contains i = true
        · simp only [hin, ↓reduceIte] at h
          by_cases hh : declHolds loose q = true
          · simp only [hh, ↓reduceIte] at h
            rcases List.mem_cons.1 hd with rfl | hd
            · exact ⟨q, hq, hh⟩
            · exact ih (i + 1) h d hd
          · simp [hh] at h
        · simp only [hin, Bool.false_eq_true, ↓reduceIte] at h
          by_cases hh : declHolds tight q = true
          · simp only [hh, ↓reduceIte] at h
            rcases List.mem_cons.1 hd with rfl | hd
            · exact ⟨q, hq, declHolds_mono htl hh⟩
            · exact ih (i + 1) h d hd
          · simp [hh] at h

theorem declParts_sizes {s : St} {c : SizeCert} {d : Decl} {q : Rat × Rat × Rat × Rat}
    (h : declParts s c d = some q) :
    sizeFn s c (declUnits d).1 = q.2.1 ∧ sizeFn s c (declUnits d).2 = q.2.2.2 := by
  cases d with
  | equate ma ua mb ub =>
    simp only [declParts] at h
    split at h
    · next x y hx hy => injection h with h; subst h; simp [sizeFn, declUnits, hx, hy]
    · cases h
  | translate sc zm zu =>
    simp only [declParts] at h
    split at h
    · next x y hx hy => injection h with h; subst h; simp [sizeFn, declUnits, hx, hy]
    · cases h

/-- **Bridge.**  If the executable checker accepts the declaration list, every edge
    contributed by a checked declaration is `EdgeOK` for the certificate's size function. -/
theorem checked_edges_ok {s : St} {c : SizeCert} {tight loose : Rat} {inexact excluded : List Nat}
    {decls : List Decl} (h0 : 0 ≤ loose) (h1 : loose < 1) (htl : tight ≤ loose)
    (h : checkDecls s c tight loose inexact excluded decls 0 = .ok) :
    ∀ e ∈ (checkedDecls excluded decls 0).flatMap declEdges,
      EdgeOK (sizeFn s c) (1 - loose) (1 / (1 - loose)) e := by
  intro e he
  obtain ⟨d, hd, hed⟩ := List.mem_flatMap.1 he
  obtain ⟨q, hq, hh⟩ := checkDecls_sound htl decls 0 h d hd
  obtain ⟨ma, x, mb, y⟩ := q
  obtain ⟨sx, sy⟩ := declParts_sizes hq
  simp only at sx sy
  obtain ⟨f, b⟩ := declHolds_edges h0 h1 hh
  cases d with
  | equate ma' ua mb' ub =>
    have hma : ma'.toRat = ma ∧ mb'.toRat = mb := by
      simp only [declParts] at hq
      split at hq
      · injection hq with hq; simp only [Prod.mk.injEq] at hq; exact ⟨hq.1, hq.2.2.1⟩
      · cases hq
    simp only [declEdges, List.mem_cons, List.not_mem_nil, or_false] at hed
    simp only [declUnits] at sx sy
    rcases hed with rfl | rfl
    · simp only [EdgeOK, hma.1, hma.2, sx, sy]; exact f
    · simp only [EdgeOK, hma.1, hma.2, sx, sy]; exact b
  | translate sc zm zu =>
    have hma : (1 : Rat) = ma ∧ (1 : Rat) = mb := by
      simp only [declParts] at hq
      split at hq
      · injection hq with hq; simp only [Prod.mk.injEq] at hq; exact ⟨hq.1, hq.2.2.1⟩
      · cases hq
    simp only [declEdges, List.mem_cons, List.not_mem_nil, or_false] at hed
    simp only [declUnits] at sx sy
    obtain ⟨m1, m2⟩ := hma
    subst m1; subst m2
    rcases hed with rfl | rfl
    · simp only [EdgeOK, sx, sy]; simpa using f
    · simp only [EdgeOK, sx, sy]; simpa using b

end Measured
