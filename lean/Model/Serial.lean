/-
  Model/Serial.lean — re-entering the interning constructors from serialised arguments:
  `pickle` / `copy` / `deepcopy` (`__getnewargs_ex__` → `Unit.__new__`, then — after the `fix:`
  commit — no state is applied to an already interned object) and the JSON hooks
  (`__json__` → `__from_json__`) of /repo/src/measured/__init__.py.

  Both routes rebuild a unit from (prefix, factors, dimension) plus, for a base unit (whose factor
  map is `{self: 1}` and is serialised as empty), its first name.
-/
import Model.Units

namespace Measured
namespace St

/-- `unit.name`: the first of the unit's names. -/
def firstName (s : St) (i : UId) : Option String := (s.namesOf i).head?

def isBaseRec (s : St) (i : UId) : Bool := (s.unit! i).factors == [(i, 1)]

/-- `Unit(*args, **kwargs)` with `args, kwargs = unit.__getnewargs_ex__()` — equally
    `Unit.__from_json__(unit.__json__())`: a base unit is found through `_by_name[name]`, any other
    unit through its key in `_known`. `unmodelled` where Python would build a brand-new object
    (an anonymous base unit, or a name that is not registered). -/
def reenterUnit (s : St) (i : UId) : St × Except Exc UId :=
  if s.isBaseRec i then
    match s.firstName i with
    | some n =>
      match lookup n s.unitByName with
      | some j => (s, .ok j)
      | none => (s, .error .unmodelled)
    | none => (s, .error .unmodelled)
  else
    let u := s.unit! i
    let (s', j) := s.newUnit u.pfx u.factors u.dim
    (s', .ok j)

end St
end Measured
