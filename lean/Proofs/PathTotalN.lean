/-
  Proofs/PathTotalN.lean — the path search returns (no exception, fuel never exhausted) on an
  APPROXIMATELY consistent graph too: termination and exception freedom do not depend on the ratios
  being exact, only on the shape of the graph (valid unprefixed nodes, one dimension per edge, every
  target has a row).  This is Proofs/PathTotal.lean restated for `GraphNear` (the shipped definitions).
-/
import Proofs.PathNear

namespace Measured
open St

variable {σ : UId → Rat} {lb ub : Rat}

theorem reduceDimension_totalN {c : Conv Rat} {start stop : UId} (hg : GraphNear lb ub σ c)
    (hs : start < c.st.units.length) (ht : stop < c.st.units.length)
    (hd : c.st.dimOfUnit start = c.st.dimOfUnit stop) :
    ∃ e a b c', CM.exec (reduceDimension start stop) c = (.ok (e, a, b), c') ∧ 0 < e ∧
      c'.st.dimOfUnit a = c'.st.dimOfUnit b := by
  unfold reduceDimension
  rw [exec_bind, exec_getSt]
  simp only
  have hbeq : (c.st.dimOfUnit start == c.st.dimOfUnit stop) = true := by rw [hd]; simp
  rw [exec_bind, hbeq, cassert_true]
  simp only
  by_cases hnum : (c.st.dimOfUnit start).isNumber = true
  · simp only [hnum, ↓reduceIte, exec_pure]
    exact ⟨1, start, stop, c, rfl, by decide, hd⟩
  · have hnum' : (c.st.dimOfUnit start).isNumber = false := by simpa using hnum
    simp only [hnum', Bool.false_eq_true, ↓reduceIte]
    have hgne := gcdAll_ne_zero hnum'
    have hgpos : (0 : Int) < ((c.st.dimOfUnit start).gcdAll : Int) := by
      have : (0 : Int) ≤ ((c.st.dimOfUnit start).gcdAll : Int) := Int.natCast_nonneg _
      omega
    rw [exec_tryCatch, exec_bind, exec_bind, exec_liftStE]
    obtain ⟨g1, f1⟩ := rootStepN hg hs ((c.st.dimOfUnit start).gcdAll : Int)
    cases hr1 : (c.st.rootUnit start ((c.st.dimOfUnit start).gcdAll : Int)).2 with
    | error e1 =>
      have := rootUnit_error_fractional _ _ _ hr1
      subst this
      simp only [beq_self_eq_true, ↓reduceIte, exec_pure]
      refine ⟨1, start, stop, _, rfl, by decide, ?_⟩
      rw [f1.ext.dimOfUnit hs, f1.ext.dimOfUnit ht]; exact hd
    | ok a1 =>
      simp only
      rw [exec_bind, exec_liftStE]
      have hs1 : stop < ({ c with st := (c.st.rootUnit start ((c.st.dimOfUnit start).gcdAll : Int)).1 } : Conv Rat).st.units.length :=
        f1.lt ht
      obtain ⟨g2, f2⟩ := rootStepN g1 hs1 ((c.st.dimOfUnit start).gcdAll : Int)
      cases hr2 : (({ c with st := (c.st.rootUnit start ((c.st.dimOfUnit start).gcdAll : Int)).1 } : Conv Rat).st.rootUnit stop
          ((c.st.dimOfUnit start).gcdAll : Int)).2 with
      | error e2 =>
        have := rootUnit_error_fractional _ _ _ hr2
        subst this
        simp only [beq_self_eq_true, ↓reduceIte, exec_pure]
        have f12 := f1.trans f2
        refine ⟨1, start, stop, _, rfl, by decide, ?_⟩
        rw [f12.ext.dimOfUnit hs, f12.ext.dimOfUnit ht]; exact hd
      | ok b1 =>
        simp only [exec_pure]
        refine ⟨_, a1, b1, _, rfl, hgpos, ?_⟩
        have ha1 := rootUnit_lt hg.inv.1 start _ hr1
        have d1 := rootUnit_dim hg.inv hs hgne hr1
        have d2 := rootUnit_dim g1.inv hs1 hgne hr2
        have hstop : ({ c with st := (c.st.rootUnit start ((c.st.dimOfUnit start).gcdAll : Int)).1 } : Conv Rat).st.dimOfUnit stop =
            c.st.dimOfUnit stop := f1.ext.dimOfUnit ht
        rw [hstop, ← hd, d1] at d2
        injection d2 with d2
        show St.dimOfUnit _ a1 = St.dimOfUnit _ b1
        rw [f2.ext.dimOfUnit ha1]
        exact d2



/-- What a recursive search promises about termination: it returns, keeps `visited` well formed and
    only extends it. -/
def RecurTotalN (s₀ : St) (lb ub : Rat) (σ : UId → Rat) (top : UId) (fuel : Nat)
    (recur : UId → UId → List UId → CM Rat (List (Hop Rat) × List UId)) : Prop :=
  ∀ (a b : UId) (v : List UId) (c : Conv Rat),
    GraphNear lb ub σ c → GraphWF c → Ext s₀ c.st → a < c.st.units.length → b < c.st.units.length →
    c.st.dimOfUnit a = c.st.dimOfUnit b → VisOK c top v → (a = top ∨ a ∈ gkeys c) →
    c.ratios.length + 3 ≤ v.length + fuel →
    ∃ p v' c', CM.exec (recur a b v) c = (.ok (p, v'), c') ∧ VisOK c' top v' ∧ v.length ≤ v'.length

theorem pathLoop_totalN {s₀ : St} {Z : Dim → Prop} {recur : UId → UId → List UId → CM Rat (List (Hop Rat) × List UId)} {top : UId} {fuel : Nat}
    (hrec : RecurSpecN s₀ Z lb ub σ recur) (hrecT : RecurTotalN s₀ lb ub σ top fuel recur) (start' stop' : UId) (e : Int) (he : 0 < e) :
    ∀ (items : List (UId × Mag Rat)) (best : List (Hop Rat)) (visited : List UId) (c : Conv Rat),
      GraphNear lb ub σ c → GraphWF c → Ext s₀ c.st → start' < c.st.units.length → stop' < c.st.units.length →
      c.st.dimOfUnit start' = c.st.dimOfUnit stop' →
      (∀ it ∈ items, it ∈ c.ratios.row start') →
      VisOK c top visited → c.ratios.length + 3 ≤ visited.length + fuel →
      ∃ p v' c', CM.exec (pathLoop recur start' stop' e items best visited) c = (.ok (p, v'), c') ∧
        VisOK c' top v' ∧ visited.length ≤ v'.length := by
  intro items
  induction items with
  | nil =>
    intro best visited c _ _ _ _ _ _ _ hv _
    exact ⟨best, visited, c, by unfold pathLoop; rfl, hv, Nat.le_refl _⟩
  | cons it rest ih =>
    intro best visited c hg hw he0 hs ht hd hit hv hfuel
    obtain ⟨mid, scale⟩ := it
    obtain ⟨hms, hmm, _⟩ := hg.edges start' mid scale (hit _ List.mem_cons_self)
    have hdm := hw.dims start' mid scale (hit _ List.mem_cons_self)
    have hmk := hw.closed start' mid scale (hit _ List.mem_cons_self)
    have hrest : ∀ it ∈ rest, it ∈ c.ratios.row start' := fun x hx => hit x (List.mem_cons_of_mem _ hx)
    unfold pathLoop
    rw [exec_bind, exec_getThe']
    simp only
    by_cases hms' : (mid == stop') = true
    · simp only [hms', ↓reduceIte]
      obtain ⟨h, c1, h1⟩ := powHop_total (c := c)
        { scale := scale, offset := ((c.offsets.get? start' mid).getD (.int 0)), unit := stop' } he
      rw [exec_bind, h1]
      simp only [exec_pure]
      obtain ⟨_, f1, _⟩ := powHop_okN hg (h := { scale := scale, offset := ((c.offsets.get? start' mid).getD (.int 0)), unit := stop' }) ht h1
      exact ⟨[h], visited, c1, rfl, hv.frame f1, Nat.le_refl _⟩
    · simp only [hms', Bool.false_eq_true, ↓reduceIte]
      obtain ⟨path, vis1, c1, h1, hv1, hl1⟩ := hrecT mid stop' visited c hg hw he0 hmm ht (by rw [← hdm]; exact hd) hv
        (Or.inr hmk) hfuel
      obtain ⟨g1, w1, f1, pu1, _⟩ := hrec mid stop' visited c c1 path vis1 hg hw he0 hmm ht h1
      have he1 : Ext s₀ c1.st := he0.trans f1.ext
      rw [exec_bind, h1]
      simp only
      have hrest1 : ∀ it ∈ rest, it ∈ c1.ratios.row start' := by rw [f1.ratios]; exact hrest
      have hd1 : c1.st.dimOfUnit start' = c1.st.dimOfUnit stop' := by
        rw [f1.ext.dimOfUnit hs, f1.ext.dimOfUnit ht]; exact hd
      have hfuel1 : c1.ratios.length + 3 ≤ vis1.length + fuel := by rw [f1.ratios]; omega
      by_cases hpe : path.isEmpty = true
      · simp only [hpe, ↓reduceIte]
        obtain ⟨p, v', c', hx, hv', hl'⟩ := ih best vis1 c1 g1 w1 he1 (f1.lt hs) (f1.lt ht) hd1 hrest1 hv1 hfuel1
        exact ⟨p, v', c', hx, hv', by omega⟩
      · simp only [hpe, Bool.false_eq_true, ↓reduceIte]
        obtain ⟨path2, c2, h2⟩ := mapM_powHop_total he
          (({ scale := scale, offset := ((c.offsets.get? start' mid).getD (.int 0)), unit := mid } : Hop Rat) :: path) c1
        have hunits : ∀ h ∈ ({ scale := scale, offset := ((c.offsets.get? start' mid).getD (.int 0)), unit := mid } : Hop Rat) :: path,
            h.unit < c1.st.units.length := by
          intro h hh
          rcases List.mem_cons.1 hh with rfl | hh
          · exact f1.lt hmm
          · exact pu1 h hh
        obtain ⟨g2, f2, _⟩ := mapM_powHop_okN e _ c1 c2 path2 g1 hunits h2
        have f12 := f1.trans f2
        have w2 := w1.frameN g1 f2
        have he2 : Ext s₀ c2.st := he1.trans f2.ext
        rw [exec_bind, h2]
        simp only
        have hrest2 : ∀ it ∈ rest, it ∈ c2.ratios.row start' := by rw [f2.ratios]; exact hrest1
        have hd2 : c2.st.dimOfUnit start' = c2.st.dimOfUnit stop' := by
          rw [f12.ext.dimOfUnit hs, f12.ext.dimOfUnit ht]; exact hd
        have hfuel2 : c2.ratios.length + 3 ≤ vis1.length + fuel := by rw [f2.ratios]; exact hfuel1
        by_cases hbetter : (best.isEmpty || decide (path2.length < best.length)) = true
        · simp only [hbetter, ↓reduceIte]
          obtain ⟨p, v', c', hx, hv', hl'⟩ := ih path2 vis1 c2 g2 w2 he2 (f12.lt hs) (f12.lt ht) hd2 hrest2 (hv1.frame f2) hfuel2
          exact ⟨p, v', c', hx, hv', by omega⟩
        · simp only [hbetter, Bool.false_eq_true, ↓reduceIte]
          obtain ⟨p, v', c', hx, hv', hl'⟩ := ih best vis1 c2 g2 w2 he2 (f12.lt hs) (f12.lt ht) hd2 hrest2 (hv1.frame f2) hfuel2
          exact ⟨p, v', c', hx, hv', by omega⟩

/-- **`_find_path_recursive` returns** — no exception of any kind, and the model's fuel is never
    exhausted — for every well-formed graph, from every `visited` set the search can be in. -/
theorem findPathRec_totalN {s₀ : St} {Z : Dim → Prop} (hZ : RootClosed Z) (hb : Bnd lb ub) (hσp : ∀ k, 0 < σ k) (top : UId) :
    ∀ fuel, RecurTotalN s₀ lb ub σ top fuel (findPathRec (α := Rat) fuel) := by
  intro fuel
  induction fuel with
  | zero =>
    intro a b v c _ _ _ _ _ _ hv _ hfuel
    have := visOK_length hv
    omega
  | succ fuel ih =>
    intro start stop visited c hg hw he0 hs ht hd hv htop hfuel
    unfold findPathRec
    by_cases hse : (start == stop) = true
    · simp only [hse, ↓reduceIte, exec_pure]
      exact ⟨_, visited, c, rfl, hv, Nat.le_refl _⟩
    · simp only [hse, Bool.false_eq_true, ↓reduceIte]
      by_cases hvis : visited.contains start = true
      · simp only [hvis, ↓reduceIte, exec_pure]
        exact ⟨_, visited, c, rfl, hv, Nat.le_refl _⟩
      · simp only [hvis, Bool.false_eq_true, ↓reduceIte]
        have hnotin : start ∉ visited := by
          intro h; apply hvis; simpa using h
        have hv1 : VisOK c top (visited ++ [start]) := by
          refine ⟨?_, ?_⟩
          · rw [List.nodup_append]
            refine ⟨hv.1, by simp, ?_⟩
            intro a ha b hb
            simp only [List.mem_singleton] at hb
            subst hb
            intro h; subst h; exact hnotin ha
          · intro x hx
            rcases List.mem_append.1 hx with hx | hx
            · exact hv.2 x hx
            · simp only [List.mem_singleton] at hx; subst hx; exact htop
        rw [exec_bind, exec_getThe']
        simp only
        by_cases hdir : (directEdge c start stop).isSome = true
        · simp only [hdir, ↓reduceIte, exec_pure]
          exact ⟨_, visited ++ [start], c, rfl, hv1, by simp⟩
        simp only [hdir, Bool.false_eq_true, ↓reduceIte]
        obtain ⟨e, a, b, c1, h1, he, hd1⟩ := reduceDimension_totalN hg hs ht hd
        obtain ⟨g1, f1, ha, hb', _⟩ := reduceDimension_okN hg hs ht h1
        have w1 := hw.frameN hg f1
        rw [exec_bind, h1]
        simp only
        rw [exec_bind, exec_getThe']
        simp only
        have hfuel1 : c1.ratios.length + 3 ≤ (visited ++ [start]).length + fuel := by
          rw [f1.ratios, List.length_append]; simp only [List.length_singleton]; omega
        obtain ⟨p, v', c', hx, hv', hl'⟩ := pathLoop_totalN (findPathRec_near hZ hb hσp fuel) ih a b e he (c1.ratios.row a) []
          (visited ++ [start]) c1 g1 w1 (he0.trans f1.ext) ha hb' hd1 (fun _ h => h) (hv1.frame f1) hfuel1
        refine ⟨p, v', c', hx, hv', ?_⟩
        rw [List.length_append] at hl'
        omega

/-- **C07 for the path search, and adequacy of the model's fuel.**  On a well-formed graph, for
    start and stop of one dimension, `_find_path` returns — a path or the empty list — and raises
    nothing: no AssertionError (`asserts` on or off, i.e. with and without `-O`), no
    ZeroDivisionError, no KeyError; the fuel `rows + 3` the model starts with is never used up. -/
theorem findPath_totalN {Z : Dim → Prop} (hZ : RootClosed Z) (hb : Bnd lb ub) (hσp : ∀ k, 0 < σ k)
    {c : Conv Rat} {start stop : UId} (hg : GraphNear lb ub σ c) (hw : GraphWF c)
    (hs : start < c.st.units.length) (ht : stop < c.st.units.length)
    (hd : c.st.dimOfUnit start = c.st.dimOfUnit stop) :
    ∃ p c', CM.exec (findPath start stop) c = (.ok p, c') := by
  unfold findPath
  rw [exec_bind, exec_getThe']
  simp only
  obtain ⟨p, v', c', hx, _, _⟩ := findPathRec_totalN (s₀ := c.st) hZ hb hσp start (c.ratios.length + 3) start stop [] c hg hw (Ext.refl _) hs ht hd
    ⟨List.nodup_nil, by simp⟩ (Or.inl rfl) (by simp)
  rw [exec_bind, hx]
  simp only [exec_pure]
  exact ⟨p, c', rfl⟩

end Measured
