from measured import *
from measured import systems, conversions
from measured.si import *
from measured.us import *
from measured.iec import *
import math
def t(label, f):
    try:
        print(label, "->", f())
    except Exception as e:
        print(label, "!!", type(e).__name__, str(e)[:100].replace("\n"," "))
def snap():
    return (dict(Unit._by_name), dict(Unit._by_symbol), len(Unit._known), len(Unit._base))
s0 = snap()
t("define w/ space symbol", lambda: Length.unit("foo bar", "f b"))
s1 = snap()
print("registries unchanged:", [a==b for a,b in zip(s0,s1)])
t("redefine", lambda: Length.unit("foo bar", "fb"))
s0 = snap()
t("derive dup symbol", lambda: Unit.derive(Meter**5, "quintic", "m"))
s1 = snap()
print("registries unchanged:", [a==b for a,b in zip(s0,s1)], (Meter**5).names)
t("alias dup", lambda: (Meter**6).alias(name="hexic", symbol="s"))
print((Meter**6).names, Unit._by_name.get("hexic"))
d = Dimension.derive(Length**9, "area")
print(Area.name, Dimension.named("area") is Area, (Length**9).name)
Dimension.derive(Area, "area"); Dimension._by_name["area"]=Area; (Length**9).name=None
# duplicates across shipped
import collections
c = collections.Counter()
for p in Prefix._known.values():
    if p.symbol: c[p.symbol]+=1
print("dup prefix symbols", [s for s,n in c.items() if n>1])
for u in set(Unit._known.values()):
    for n in u.names:
        if Unit._by_name[n] is not u: print("name mismatch", n)
    for s in u.symbols:
        if Unit._by_symbol[s] is not u: print("symbol mismatch", s)
for p in Prefix._known.values():
    if p.name and Prefix._by_name[p.name] is not p: print("pname mismatch", p.name)
    if p.symbol and Prefix._by_symbol[p.symbol] is not p: print("psym mismatch", p.symbol, p.name)
# prefix+symbol collisions with unit symbols
col = []
for ps, p in Prefix._by_symbol.items():
    for us, u in Unit._by_symbol.items():
        if ps+us in Unit._by_symbol and Unit._by_symbol[ps+us] is not p*u:
            col.append((ps, us, Unit._by_symbol[ps+us].name, (p*u).symbols))
print(len(col), col)
