#!/venv/bin/python
"""Regenerates /verif/MANIFEST.json from the per-property modules in harness/props/."""
import importlib
import json
import os
import sys

VERIF = os.path.dirname(os.path.dirname(os.path.abspath(__file__)))
sys.path.insert(0, os.path.join(VERIF, "harness"))
os.environ.setdefault("MEASURED_REPO", "/repo")

ALL = ["C%02d" % i for i in range(1, 21)]
NOT_APPLICABLE = {}


def main():
    checks, na = [], []
    for pid in ALL:
        path = os.path.join(VERIF, "harness", "props", pid.lower() + ".py")
        if not os.path.exists(path):
            na.append({"property_id": pid, "reason": NOT_APPLICABLE.get(pid, "check not built yet (work in progress; see DESIGN.md §8)")})
            continue
        src = open(path, encoding="utf-8").read()
        ns = {}
        # read the metadata without importing the library
        for key in ("LEVEL_TEXT", "LEVEL_NOTE", "TECHNIQUE", "DESIGN_REF"):
            ns[key] = None
        import ast
        tree = ast.parse(src)
        for node in tree.body:
            if isinstance(node, ast.Assign) and len(node.targets) == 1 and isinstance(node.targets[0], ast.Name):
                name = node.targets[0].id
                if name in ns:
                    ns[name] = ast.literal_eval(node.value)
        checks.append({
            "property_id": pid,
            "quick_cmd": "./check %s quick" % pid,
            "thorough_cmd": "./check %s thorough" % pid,
            "evidence_file": "/verif/evidence/%s.json" % pid,
            "replay_cmd_template": "./check %s quick --replay {path}" % pid,
            "engine": "lean-model",
            "level_claimed": {
                "category": "proof",
                "text": ns["LEVEL_TEXT"] or "Lean 4 theorems about the model, tied to /repo by regenerated data and differential execution",
                "design_ref": ns["DESIGN_REF"] or "DESIGN.md §8 " + pid,
            },
            "level_note": ns["LEVEL_NOTE"] or "Lean kernel; axioms propext/Classical.choice/Quot.sound; translators; correspondence harness",
            "technique": ns["TECHNIQUE"] or "machine-checked proof in Lean 4 + model/implementation correspondence",
        })
    manifest = {
        "version": 1,
        "setup_cmd": "./setup.sh",
        "hooks": {
            "guard": "MEASURED_VERIF",
            "enable": "no source hooks are needed: the harness observes the library through public attributes, wraps equate()/translate() from outside and uses sys.settrace for scheduling; MEASURED_VERIF is reserved and unused",
            "baseline_off_cmd": "./tools/baseline.sh /repo",
            "source_commits": [],
            "add_only": True,
        },
        "engines": [{
            "name": "lean-model", "path": "/verif/lean",
            "serves_properties": [c["property_id"] for c in checks],
            "kind_free_text": "Lean 4 model (Model/), proofs (Proofs/, Props/), per-run obligations over data regenerated from /repo (Generated/, Obligations/), native line-protocol driver diffed against the real library (harness/)",
        }],
        "checks": checks,
        "not_applicable": na,
        "notes": "Every check: translate -> lake build (theorems + obligations) -> #print axioms audit -> correspondence + direct oracle -> verdict. See DESIGN.md.",
    }
    with open(os.path.join(VERIF, "MANIFEST.json"), "w", encoding="utf-8") as fh:
        json.dump(manifest, fh, indent=1, ensure_ascii=False)
    print("checks:", [c["property_id"] for c in checks], "n/a:", [x["property_id"] for x in na])


if __name__ == "__main__":
    main()
