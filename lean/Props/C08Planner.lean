/-
  Props/C08Planner.lean — a kernel-evaluated witness, in the model of the REAL planner, of the
  history dependence recorded as known finding `C08-K9-factor-order`.

  One dimension, units m, u0, u1 with `u0 = 1 u1` declared.  The conversion `3 (u1·m) → (u0·m)`
  * fails (`ConversionNotFound`; `TypeError` from a comparison) when some earlier expression built
    `m * u1` — the interned unit then lists its factors as {m, u1} and the planner pairs m with u0;
  * succeeds when the unit was first built as `u1 * m`.
  The two histories differ only in an earlier, unrelated-looking construction: the outcome of a
  later query is not a function of the declared equivalences alone.  (`C08.query_history_free` is
  about the memoisation discipline, which the `fix:` commit repaired; this is the part of C08 that
  the pinned planner still violates.)
-/
import Model.World
import Proofs.MagVal
import Proofs.Monad

namespace Measured.C08
open Measured

/-- one dimension (length); units: One, m, u0, u1 -/
def k9State : St :=
  { ndim := 2,
    units := [ { pfx := Pfx.identity, factors := [(0, 1)], dim := [0, 0] },
               { pfx := Pfx.identity, factors := [(1, 1)], dim := [0, 1] },     -- m
               { pfx := Pfx.identity, factors := [(2, 1)], dim := [0, 1] },     -- u0
               { pfx := Pfx.identity, factors := [(3, 1)], dim := [0, 1] } ],   -- u1
    unitBySym := [("1", 0), ("m", 1), ("a", 2), ("b", 3)], unitByName := [("one", 0)],
    base := [0, 1, 2, 3], one := 0 }

/-- the declared graph: `u0 = 1 u1` -/
def k9Conv : Conv Rat :=
  { st := k9State, ratios := [(2, [(3, .int 1)]), (3, [(2, .int 1)])], offsets := [], asserts := true }

/-- does `3 (u1·m) → (u0·m)` succeed in the state reached by `first`, then `u1 * m`, then `u0 * m`? -/
def k9Outcome (first : Op) : Bool :=
  let s1 := run k9State [first]
  let (s2, x) := s1.mulUnit 3 1
  let (s3, y) := s2.mulUnit 2 1
  match x, y with
  | .ok x, .ok y =>
    match (CM.exec (convert (α := Rat) { mag := .int 3, unit := x } y) { k9Conv with st := s3 }).1 with
    | .ok _ => true
    | .error _ => false
  | _, _ => false

/-- **Known finding, in the model**: the same declarations, the same query — the outcome depends on
    whether `m * u1` or `u1 * m` was evaluated first. -/
theorem factor_order_witness : k9Outcome (.mul 1 3) = false ∧ k9Outcome (.mul 3 1) = true := by
  decide +kernel

end Measured.C08
