"""Translator: a *candidate* size certificate for the shipped unit definitions
-> lean/Generated/Sizes.lean.

The certificate (one positive rational per base unit) is solved greedily from the
intercepted declarations in exact arithmetic, seeding the coherent SI base units with 1.
It is UNTRUSTED: Lean re-checks every declaration against it (Obligations/C09.lean).  Also
emitted: the indices of the declarations whose residual exceeds the tight tolerance
(`inexact`), the indices excluded because they are listed as an open known finding
(`excluded`, matched by the exact pair of unit names in /verif/known_findings.json), and
the measured worst residual.
"""
import json
import os
import sys
from fractions import Fraction as F

sys.path.insert(0, os.path.dirname(os.path.abspath(__file__)))
from common import GEN, VERIF, ensure_repo_on_path, lean_list, lean_str, write_if_changed  # noqa: E402

ensure_repo_on_path()

import gen_init  # noqa: E402  (imports the library with equate/translate intercepted)
from measured import One, Unit  # noqa: E402

TIGHT = F(1, 10**12)
LOOSE = F(1, 10**5)

SI_SEEDS = ["meter", "second", "gram", "coulomb", "kelvin", "mole", "candela", "bit"]


def measured_number():
    from measured import Number
    return Number


def main():
    units = list(Unit._known.values())
    uid = {id(u): i for i, u in enumerate(units)}
    decls = gen_init.DECLS
    size = {id(One): F(1)}
    for name in SI_SEEDS:
        if name in Unit._by_name:
            size[id(Unit._by_name[name])] = F(1)

    def pfx_val(p):
        return F(p.base) ** p.exponent if p.base else F(1)

    def unit_size(u):
        s = pfx_val(u.prefix)
        for f, e in u.factors.items():
            if f is One:
                continue
            if id(f) not in size:
                return None
            s *= size[id(f)] ** e
        return s

    def sides(d):
        kind, x, y = d
        if kind == "equate":
            return F(x.magnitude), x.unit, F(y.magnitude), y.unit
        return F(1), x, F(1), y.unit

    extra_seeds = []
    while True:
        changed = True
        while changed:
            changed = False
            for d in decls:
                ma, ua, mb, ub = sides(d)
                for (m1, u1, m2, u2) in ((ma, ua, mb, ub), (mb, ub, ma, ua)):
                    s2 = unit_size(u2)
                    if s2 is None or unit_size(u1) is not None:
                        continue
                    unknown = [f for f in u1.factors if f is not One and id(f) not in size]
                    if len(unknown) != 1 or abs(u1.factors[unknown[0]]) != 1:
                        continue
                    f = unknown[0]
                    e = u1.factors[f]
                    rest = pfx_val(u1.prefix)
                    for g, eg in u1.factors.items():
                        if g is not f and g is not One:
                            rest *= size[id(g)] ** eg
                    # m1 * size(u1) = m2 * size(u2);  size(u1) = rest * size(f)**e
                    val = m2 * s2 / (m1 * rest)
                    size[id(f)] = val if e == 1 else 1 / val
                    changed = True
        missing = [u for u in Unit._base if id(u) not in size]
        if not missing:
            break
        # a base unit no declaration reaches: give it size 1 so the file is total; the
        # connectivity obligation (not this certificate) is what reports it
        u = sorted(missing, key=lambda u: uid[id(u)])[0]
        size[id(u)] = F(1)
        extra_seeds.append(u.name)

    known = []
    kf_path = os.path.join(VERIF, "known_findings.json")
    if os.path.exists(kf_path):
        for e in json.load(open(kf_path, encoding="utf-8")).get("findings", []):
            if e.get("property") == "C09" and e.get("status") == "open" and "declared_unit" in e:
                known.append((e["id"], e["declared_unit"]))

    inexact, excluded, excluded_ids, residuals = [], [], [], []
    offenders, offender_units, excluded_units = [], {}, {}
    for i, d in enumerate(decls):
        ma, ua, mb, ub = sides(d)
        x, y = ma * unit_size(ua), mb * unit_size(ub)
        rel = abs(x - y) / abs(y) if y else F(10**9)
        residuals.append(rel)
        if rel > TIGHT:
            hit = [kid for kid, name in known if name in (ua.name, ub.name)]
            if rel > LOOSE and hit:
                excluded.append(i)
                excluded_ids.append(hit[0])
                excluded_units[str(i)] = [n for _, n in known if n in (ua.name, ub.name)][0]
            else:
                inexact.append(i)
                if rel > LOOSE:
                    offenders.append((i, str(ua), str(ub), float(rel)))
                    offender_units[str(i)] = ua.name or ub.name or str(ua)
    worst = max([r for i, r in enumerate(residuals) if i not in excluded] or [F(0)])
    # the same exclusion on the final graph `_ratios`
    from measured import conversions
    excluded_pairs = []
    graph_edges = 0
    kf_units = {name for _, name in known}
    for a, row in conversions._ratios.items():
        for b, r in row.items():
            if a in conversions._offsets and b in conversions._offsets[a]:
                continue
            sa, sb = unit_size(a), unit_size(b)
            if sa is None or sb is None:
                continue
            rel = abs(sa - F(r) * sb) / abs(F(r) * sb)
            graph_edges += 1
            touches = any(f.name in kf_units for f in list(a.factors) + list(b.factors))
            if rel > LOOSE and touches:
                excluded_pairs.append((uid[id(a)], uid[id(b)]))
            elif rel > LOOSE:
                offenders.append((-1, str(a), str(b), float(rel)))
                offender_units["-1"] = a.name or b.name or str(a)

    L = []
    L.append("-- GENERATED by /verif/translate/gen_sizes.py: a candidate size certificate for the shipped")
    L.append("-- declarations (untrusted; re-checked by Obligations/C09.lean). Do not edit.")
    L.append("import Model.Sizes")
    L.append("namespace Measured.Generated")
    L.append("open Measured")
    L.append("")
    L.append("def sizeCert : SizeCert := [")
    L.append(",\n".join("  (%d, %d, %d)" % (uid[id(u)], size[id(u)].numerator, size[id(u)].denominator)
                        for u in sorted(Unit._base, key=lambda u: uid[id(u)])))
    L.append("]")
    L.append("def tightTol : Rat := (1 : Rat) / %d" % TIGHT.denominator)
    L.append("def looseTol : Rat := (1 : Rat) / %d" % LOOSE.denominator)
    L.append("/-- declarations whose residual against the certificate exceeds `tightTol` -/")
    L.append("def inexactDecls : List Nat := %s" % lean_list([str(i) for i in inexact]))
    L.append("/-- declarations listed as open known findings (exact unit pair), not checked -/")
    L.append("def excludedDecls : List Nat := %s" % lean_list([str(i) for i in excluded]))
    L.append("/-- the SI coherent base units (and `one`) the sizes are measured in -/")
    L.append("def siSeeds : List UId := %s" % lean_list(
        [str(uid[id(One)])] + [str(uid[id(Unit._by_name[n])]) for n in SI_SEEDS if n in Unit._by_name]))
    L.append("/-- base units no declaration connects to the seeds (must all be dimensionless) -/")
    L.append("def unreachedBase : List UId := %s" % lean_list([str(uid[id(Unit._by_name[n])]) for n in extra_seeds]))
    L.append("/-- final-graph edges excluded from the graph check (listed known findings) -/")
    L.append("def excludedPairs : List (UId × UId) := %s" % lean_list(["(%d, %d)" % p for p in excluded_pairs]))
    L.append("/-- the worst residual the translator measured (numerator, denominator), informational -/")
    L.append("def measuredWorst : Nat × Nat := (%d, %d)" % (worst.numerator, worst.denominator))
    L.append("")
    L.append("end Measured.Generated")
    changed = write_if_changed(os.path.join(GEN, "Sizes.lean"), "\n".join(L) + "\n")
    print(json.dumps({
        "base_units": len(Unit._base), "decls": len(decls), "inexact": len(inexact),
        "excluded": excluded, "excluded_ids": excluded_ids, "unreached": extra_seeds,
        "offenders": offenders, "offender_units": offender_units, "excluded_units": excluded_units,
        "graph_edges": graph_edges,
        "unreached_physical": [n for n in extra_seeds if Unit._by_name[n].dimension is not measured_number()],
        "worst_residual": float(worst), "changed": changed,
        "inexact_decls": [(i, str(sides(decls[i])[1]), str(sides(decls[i])[3]), float(residuals[i])) for i in inexact][:40],
    }, ensure_ascii=False))


if __name__ == "__main__":
    main()
