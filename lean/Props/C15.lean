/-
  Props/C15.lean — pickle, copy and JSON re-enter the interning constructors and get the identical
  object back, with no change of state.

  * `reenter_identity`        in every canonical, faithful state (hence in every state reachable
                              from the imported library): rebuilding a unit from its serialised
                              constructor arguments returns that very unit and leaves the whole
                              state — intern table, names, symbols, registries — untouched;
  * `reenter_after_history`   the arguments may be serialised now and used after ANY later history
                              (an old pickle loaded later): still the same object;
  * `reenter_single_name`     Prefix / Dimension: `Cls(key)` on an existing key returns the existing
                              object and changes nothing.
  Quantity JSON / SQL composite store the unit as `str(unit)`: that route is C13's
  (`C13.rendered_terms_are_the_unit` and its catalogued findings).
-/
import Model.Serial
import Proofs.CanonStep
import Proofs.Faithful
import Proofs.NamesFaithful
import Proofs.StepAll
import Proofs.CanonAll

namespace Measured
namespace C15
open St

theorem unit!_eq_getElem {s : St} {i : Nat} (hi : i < s.units.length) : s.unit! i = s.units[i] := by
  unfold St.unit!; exact getD_eq_getElem' _ _ hi

/-- **Re-entering the constructor is the identity, on the object and on the state.** -/
theorem reenter_identity {s : St} (hc : Canon s) (hf : Faithful s) {i : UId} (hi : i < s.units.length)
    (hnamed : s.isBaseRec i = true → ∃ n, s.firstName i = some n) :
    s.reenterUnit i = (s, .ok i) := by
  unfold reenterUnit
  by_cases hb : s.isBaseRec i = true
  · obtain ⟨n, hn⟩ := hnamed hb
    simp only [hb, if_true, hn]
    -- the first name is one of the unit's names: (i, n) ∈ nameLog, so it looks up to i
    have hmem : (i, n) ∈ s.nameLog := by
      unfold firstName namesOf at hn
      have : n ∈ (s.nameLog.filter (fun e => e.1 == i)).map (·.2) := List.mem_of_mem_head? hn
      obtain ⟨e, he, hen⟩ := List.mem_map.mp this
      obtain ⟨hel, hei⟩ := List.mem_filter.mp he
      have : e = (i, n) := by
        have h1 : e.1 = i := by simpa using hei
        cases e; simp only at h1 hen; rw [h1, hen]
      rw [← this]; exact hel
    have := hf.nameLog _ hmem
    simp only at this
    rw [this]
  · simp only [hb, Bool.false_eq_true, if_false]
    unfold newUnit
    have hfind : findUnit s.units (s.unit! i).pfx (s.unit! i).factors = some i :=
      findUnit_of_key hc hi (by rw [unit!_eq_getElem hi]) (by rw [unit!_eq_getElem hi])
    rw [hfind]

/-- **An old pickle loaded after any history** still yields the same object and changes nothing
    (`base` canonical and faithful with every base unit named; `ops` arbitrary). -/
theorem reenter_after_history {base : St} (h : GInv base) (hc : Canon base) (hf : Faithful base)
    (ops : List Op) {i : UId} (hi : i < base.units.length)
    (hnamed : base.isBaseRec i = true → ∃ n, base.firstName i = some n) :
    (run base ops).reenterUnit i = (run base ops, .ok i) := by
  have hx := run_ext base ops
  refine reenter_identity (run_canon h hc ops) (run_faithful hf ops) (Nat.lt_of_lt_of_le hi hx.len) ?_
  intro hb
  have hsame : (run base ops).isBaseRec i = base.isBaseRec i := by
    unfold isBaseRec; rw [(hx.same i hi).2.1]
  rw [hsame] at hb
  obtain ⟨n, hn⟩ := hnamed hb
  exact ⟨n, firstName_stable base ops i n hn⟩

section
variable {κ : Type} [DecidableEq κ]

/-- **`Prefix(base, exponent)` / `Dimension(exponents)` on an existing key**: the existing object,
    nothing changed. -/
theorem reenter_single_name (t : NTab κ) (key : κ) (i : Nat) (h : t.find key = some i) :
    t.construct key none none = (t, .ok i) := by
  unfold NTab.construct
  have herr : t.constructErr key (NTab.given none) (NTab.given none) = false := by
    unfold NTab.constructErr NTab.given NTab.takenByOther
    simp only [h, NTab.ownClash, Bool.and_false, Bool.or_self]
  simp only [herr, Bool.false_eq_true, if_false, h]
  have : t.adopt i (NTab.given none) (NTab.given none) = t := by
    unfold NTab.adopt NTab.adoptName NTab.adoptSym NTab.given
    simp
  rw [this]

end
end C15
end Measured
