/-
  Model/Num.lean — magnitudes tagged like Python's (`int`, `float`, `Decimal`) and the
  helpers `_add/_sub/_mul/_div/_pow` of /repo/src/measured/__init__.py.

  The float carrier `α` is a parameter.  Pure field arithmetic in the model is written
  against the standard classes (`Add`, `Mul`, `Div`, …) so the very same definitions are
  executed with `Float` by the driver and reasoned about over `Rat` / `ℝ` (any `Field`).
  The extra operations a Python float has (exact value, `sqrt`, `log`, `**`) are the
  small class `FloatLike`.

  Not modelled: IEEE-754 rounding (the proof instances are exact) and `Decimal`'s 28-digit
  context (a `Decimal` is an exact `Rat` here).  Both gaps are checked numerically, with a
  tolerance, by the correspondence harness.
-/
import Model.Basic

namespace Measured

/-- What a Python `float` can do beyond field arithmetic. -/
class FloatLike (α : Type) where
  ofInt  : Int → α
  /-- value of an IEEE-754 binary64 bit pattern (how floats travel in the op-line protocol) -/
  ofBits : Nat → α
  /-- `Decimal(x)` / `Fraction(x)`: the exact value -/
  toRat  : α → Rat
  /-- `float(Decimal)` -/
  ofRat  : Rat → α
  sqrt   : α → α
  /-- natural logarithm -/
  log    : α → α
  /-- `x ** y` for float `y` -/
  rpow   : α → α → α
  /-- `x ** n` for a Python `int` n, as the platform computes it (C `pow(x, (double)n)`) -/
  powInt : α → Int → α
  isZero : α → Bool
  lt     : α → α → Bool
  beq    : α → α → Bool

/-- `x ** n` for an integer `n`, from multiplication and division only. -/
def npow {α} [Mul α] [OfNat α 1] (x : α) : Nat → α
  | 0 => 1
  | n + 1 => npow x n * x

def ipow {α} [Mul α] [Div α] [OfNat α 1] (x : α) (n : Int) : α :=
  if n ≥ 0 then npow x n.toNat else 1 / npow x (-n).toNat

/-- Exact value of a binary64 bit pattern as a rational (finite patterns only; the
    non-finite patterns map to 0 and are never produced by the translators). -/
def ratOfBits (b : Nat) : Rat :=
  let neg : Bool := b / 2^63 % 2 == 1
  let e : Nat := b / 2^52 % 2048
  let m : Nat := b % 2^52
  let mant : Nat := if e == 0 then m else 2^52 + m
  let e' : Nat := if e == 0 then 1 else e
  -- value = mant * 2^(e' - 1075)
  let q : Rat :=
    if e' ≥ 1075 then ((mant * 2^(e' - 1075) : Nat) : Rat)
    else ((mant : Nat) : Rat) / ((2^(1075 - e') : Nat) : Rat)
  if neg then -q else q

inductive Mag (α : Type) where
  | int (i : Int)
  | flt (x : α)
  | dec (r : Rat)
  deriving Repr, Inhabited

namespace Mag
variable {α : Type} [Add α] [Sub α] [Mul α] [Div α] [Neg α] [OfNat α 0] [OfNat α 1] [FloatLike α]

def isDec : Mag α → Bool | .dec _ => true | _ => false
def isInt : Mag α → Bool | .int _ => true | _ => false

/-- `Decimal(x)`: exact for ints and floats. -/
def toRat : Mag α → Rat
  | .int i => (i : Rat)
  | .flt x => FloatLike.toRat x
  | .dec r => r

/-- `float(x)`. -/
def toFlt : Mag α → α
  | .int i => FloatLike.ofInt i
  | .flt x => x
  | .dec r => FloatLike.ofRat r

def isZero : Mag α → Bool
  | .int i => i == 0
  | .flt x => FloatLike.isZero x
  | .dec r => r == 0

/-- `_add` -/
def add (a b : Mag α) : Mag α :=
  if a.isDec || b.isDec then .dec (a.toRat + b.toRat) else
  match a, b with
  | .int i, .int j => .int (i + j)
  | _, _ => .flt (a.toFlt + b.toFlt)

/-- `_sub` -/
def sub (a b : Mag α) : Mag α :=
  if a.isDec || b.isDec then .dec (a.toRat - b.toRat) else
  match a, b with
  | .int i, .int j => .int (i - j)
  | _, _ => .flt (a.toFlt - b.toFlt)

/-- `_mul` -/
def mul (a b : Mag α) : Mag α :=
  if a.isDec || b.isDec then .dec (a.toRat * b.toRat) else
  match a, b with
  | .int i, .int j => .int (i * j)
  | _, _ => .flt (a.toFlt * b.toFlt)

/-- the exception `_div` raises for a zero divisor: Decimal 0/0 signals InvalidOperation,
    everything else is a ZeroDivisionError (float/int, or decimal.DivisionByZero) -/
def divErr (a b : Mag α) : Option Exc :=
  if b.isZero then
    (if (a.isDec || b.isDec) && a.isZero then some .invalidOperation else some .zeroDivision)
  else none

/-- `_div`: true division; `int / int` is a float; a zero divisor raises. -/
def div (a b : Mag α) : Except Exc (Mag α) :=
  match divErr a b with
  | some e => .error e
  | none =>
    if a.isDec || b.isDec then .ok (.dec (a.toRat / b.toRat)) else
    .ok (.flt (a.toFlt / b.toFlt))

def neg : Mag α → Mag α
  | .int i => .int (-i)
  | .flt x => .flt (-x)
  | .dec r => .dec (-r)

/-- the exception `x ** n` raises at zero: `0 ** negative` is a ZeroDivisionError for int/float;
    `Decimal(0) ** 0` signals InvalidOperation; `Decimal(0) ** negative` is `Infinity`
    (non-finite Decimals are outside the model). -/
def powErr (a : Mag α) (n : Int) : Option Exc :=
  if a.isZero then
    (if a.isDec then (if n == 0 then some .invalidOperation else if n < 0 then some .unmodelled else none)
     else if n < 0 then some .zeroDivision else none)
  else none

/-- `x ** n` for a Python `int` n (`Quantity.__pow__`, `scale**exponent`):
    `int ** negative` is a float. -/
def powInt (a : Mag α) (n : Int) : Except Exc (Mag α) :=
  match powErr a n with
  | some e => .error e
  | none =>
    match a with
    | .int i => if n ≥ 0 then .ok (.int (i ^ n.toNat)) else .ok (.flt (FloatLike.powInt (FloatLike.ofInt i : α) n))
    | .flt x => .ok (.flt (FloatLike.powInt x n))
    | .dec r => .ok (.dec (ipow r n))

def lt (a b : Mag α) : Bool :=
  match a, b with
  | .int i, .int j => i < j
  | .flt x, .flt y => FloatLike.lt x y
  | _, _ => a.toRat < b.toRat       -- Python compares int/float/Decimal exactly

def beq (a b : Mag α) : Bool :=
  match a, b with
  | .int i, .int j => i == j
  | .flt x, .flt y => FloatLike.beq x y
  | _, _ => a.toRat == b.toRat

def abs (a : Mag α) : Mag α := if a.lt (.int 0) then a.neg else a

end Mag

end Measured
