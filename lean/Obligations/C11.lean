/-
  Per-run obligations for C11: every registered prefix is a normalised `(base, exponent)`
  pair whose dict key equals its attributes, and for all registered prefixes of one base the
  value laws' side conditions hold (so the general theorems apply to each of them).
-/
import Props.C11
import Obligations.C02

namespace Measured.Obligations
open Measured Generated

/-- `Prefix._known`: key = attributes, all normal. -/
theorem prefixes_wellformed :
    prefixes.all (fun e => e.1 == e.2.1 && decide (e.1.base = 0 ↔ e.1.exp = 0)) = true := by
  decide +kernel

/-- All pairs of registered same-base prefixes multiply and divide inside the model (no
    `unmodelled`), i.e. the same-base algebra is total on the shipped prefixes. -/
theorem prefixes_closed :
    prefixes.all (fun a => prefixes.all (fun b =>
      a.1.base != b.1.base && a.1.base != 0 && b.1.base != 0 ||
      ((Pfx.mul a.1 b.1).toOption.isSome && (Pfx.div a.1 b.1).toOption.isSome))) = true := by
  decide +kernel

/-- `(p•u)ⁿ = pⁿ•uⁿ` at the shipped registries. -/
theorem shipped_unit_pow_prefix {x : UExpr} (hx : ExprOK init x) {p : Pfx} (hp : p.Normal) (n : Int)
    (ops₁ ops₂ : List Op) (i j : UId)
    (r₁ : ((UExpr.pow (.pfx p x) n).eval (run init ops₁)).2 = .ok i)
    (r₂ : ((UExpr.pfx (p.pow n) (.pow x n)).eval
            (run ((UExpr.pow (.pfx p x) n).eval (run init ops₁)).1 ops₂)).2 = .ok j) : i = j :=
  C11.unit_pow_prefix init_ginv init_canon hx hp n ops₁ ops₂ i j r₁ r₂

end Measured.Obligations
