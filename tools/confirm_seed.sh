#!/bin/bash
# usage: confirm_seed.sh <dir-with-patch-and-demo> [patch-name] [demo-name]
# Confirms a seeded defect in a fresh scratch worktree of /repo (outside /repo and /verif):
#   demo exits 0 on the unmodified tree, baseline suite passes with the patch, demo exits !=0 with it.
D=$1; P=${2:-patch.diff}; M=${3:-demo.py}
W=$(mktemp -d /tmp/confirm.XXXXXX); rmdir "$W"
git -C /repo worktree add -q --detach "$W" HEAD || exit 2
( cd "$W"
  PYTHONPATH=$W/src /venv/bin/python "$D/$M" >/tmp/confirm_demo0.out 2>&1; r0=$?
  git apply "$D/$P" || { echo "patch does not apply"; exit 3; }
  /verif/tools/baseline.sh "$W" > /tmp/confirm_base.out 2>&1; rb=$?
  if [ $rb -ne 0 ] && grep -q "test_each_unit_roundtrips" /tmp/confirm_base.out && [ "$(grep -c '^   ' /tmp/confirm_base.out)" = "1" ]; then
     /verif/tools/baseline.sh "$W" > /tmp/confirm_base.out 2>&1; rb=$?; fi
  PYTHONPATH=$W/src /venv/bin/python "$D/$M" >/tmp/confirm_demo1.out 2>&1; r1=$?
  echo "demo(unmodified)=$r0 baseline(with patch)=$rb demo(with patch)=$r1"
  tail -1 /tmp/confirm_base.out; tail -2 /tmp/confirm_demo1.out
)
git -C /repo worktree remove --force "$W"
