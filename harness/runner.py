"""Generates op lines for one property, executes them on the REAL library in-process and
runs the property's direct oracle after every op.

usage: runner.py <prop> <seed> <n_ops> <outdir> [--replay <opsfile>] [--corpus <dir>]

Writes <outdir>/ops.txt, <outdir>/impl.txt (one answer per op) and <outdir>/report.json
(oracle failures, histograms).  Every random choice derives from random.Random(seed).
"""
import importlib
import json
import os
import random
import sys
import time

HERE = os.path.dirname(os.path.abspath(__file__))
sys.path.insert(0, HERE)

import impl  # noqa: E402  (imports the real library from MEASURED_REPO)


def main():
    prop, seed, n_ops, outdir = sys.argv[1], int(sys.argv[2]), int(sys.argv[3]), sys.argv[4]
    replay = None
    if "--replay" in sys.argv:
        replay = sys.argv[sys.argv.index("--replay") + 1]
    os.makedirs(outdir, exist_ok=True)
    mod = importlib.import_module("props." + prop.lower())
    rng = random.Random(seed)
    sess = impl.Session()
    ctx = mod.Context(sess, rng) if hasattr(mod, "Context") else None
    if ctx is not None:
        ctx.seed = seed

    ops, outs, failures = [], [], []
    hist, errs = {}, {}
    nontrivial = set()
    skip = []
    t0 = time.time()

    def run_line(line):
        res = sess.execute(line)
        ops.append(line)
        outs.append(res)
        f = line.split("\t")
        key = " ".join(f[:2])
        hist[key] = hist.get(key, 0) + 1
        if res.startswith("ERR"):
            errs[res[4:]] = errs.get(res[4:], 0) + 1
        if hasattr(mod, "oracle"):
            for fail in mod.oracle(ctx, line, res) or []:
                fail["op_index"] = len(ops) - 1
                fail["op"] = line
                failures.append(fail)
        if hasattr(mod, "skip_compare") and mod.skip_compare(ctx, line, res):
            skip.append(len(ops) - 1)
        if hasattr(mod, "nontrivial"):
            k = mod.nontrivial(ctx, line, res)
            if k is not None:
                nontrivial.add(k)
        return res

    if replay:
        for line in open(replay, encoding="utf-8"):
            line = line.rstrip("\n")
            if line:
                run_line(line)
    else:
        gen = mod.generate(ctx, n_ops)
        res = None
        try:
            line = next(gen)
            while True:
                res = run_line(line)
                if len(ops) >= n_ops * 10:
                    break
                line = gen.send(res)
        except StopIteration:
            pass
    if hasattr(mod, "final_oracle"):
        for fail in mod.final_oracle(ctx) or []:
            fail.setdefault("op_index", len(ops) - 1)
            failures.append(fail)

    with open(os.path.join(outdir, "ops.txt"), "w", encoding="utf-8") as fh:
        fh.write("\n".join(ops) + ("\n" if ops else ""))
    with open(os.path.join(outdir, "impl.txt"), "w", encoding="utf-8") as fh:
        fh.write("\n".join(outs) + ("\n" if outs else ""))
    report = {
        "prop": prop, "seed": seed, "ops": len(ops), "failures": failures[:200],
        "n_failures": len(failures), "op_histogram": hist, "error_kinds": errs,
        "distinct_nontrivial": len(nontrivial), "skip_compare": skip,
        "samples": ops[:3] + ops[len(ops) // 2: len(ops) // 2 + 2],
        "oracle_checks": getattr(ctx, "oracle_checks", 0) if ctx else 0,
        "extra": getattr(ctx, "extra", {}) if ctx else {},
        "wall_s": round(time.time() - t0, 3),
    }
    with open(os.path.join(outdir, "report.json"), "w", encoding="utf-8") as fh:
        json.dump(report, fh, ensure_ascii=False)


if __name__ == "__main__":
    main()
