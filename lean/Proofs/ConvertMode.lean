/-
  Proofs/ConvertMode.lean — `convert` through the direct branch under `python -O`: the same result,
  the same interning.  (C07: "running Python with assertions disabled changes neither which
  conversions succeed nor any returned value", for directly settled conversions.)
-/
import Proofs.PathMode
import Proofs.GraphHist

namespace Measured
open St

variable {σ : UId → Rat}

theorem exec_findPath_self' (c : Conv Rat) (u : UId) :
    CM.exec (findPath u u) c = (.ok [{ scale := .int 1, offset := .int 0, unit := u }], c) :=
  exec_findPath_self c u

theorem planConversion_direct_mode {c c' c2 : Conv Rat} {start stop : UId} {plan : Plan Rat} {direct : List (Hop Rat)}
    (hg : GraphOK σ c) (hw : GraphWF c) (hs : start < c.st.units.length) (ht : stop < c.st.units.length)
    (hd : c.st.dimOfUnit start = c.st.dimOfUnit stop)
    (hx : CM.exec (planConversion start stop) c = (.ok plan, c'))
    (hfp : CM.exec (findPath start stop) { c with st := (c.st.unprefixedUnit stop).1 } = (.ok direct, c2))
    (hne : direct ≠ []) (x : Bool) :
    CM.exec (planConversion start stop) (withAsserts x c) = (.ok plan, withAsserts x c') := by
  obtain ⟨g1, f1⟩ := unprefixStep hg ht
  have w1 := hw.frame hg f1
  have hd1 : ({ c with st := (c.st.unprefixedUnit stop).1 } : Conv Rat).st.dimOfUnit start =
      ({ c with st := (c.st.unprefixedUnit stop).1 } : Conv Rat).st.dimOfUnit stop := by
    rw [f1.ext.dimOfUnit hs, f1.ext.dimOfUnit ht]; exact hd
  have hfp' := findPath_mode g1 w1 (f1.lt hs) (f1.lt ht) hd1 hfp x
  unfold planConversion at hx ⊢
  obtain ⟨s0, c0, h0, hx⟩ := exec_bind_ok hx
  rw [exec_getSt] at h0
  simp only [Prod.mk.injEq, Except.ok.injEq] at h0
  obtain ⟨rfl, rfl⟩ := h0
  rw [exec_bind, exec_getSt]
  simp only [withAsserts_st]
  obtain ⟨unp, c1, h1, hx⟩ := exec_bind_ok hx
  unfold quantifyUnit at h1 ⊢
  rw [exec_bind, exec_getSt] at h1
  simp only at h1
  rw [exec_bind, exec_liftSt] at h1
  simp only [exec_pure, Prod.mk.injEq, Except.ok.injEq] at h1
  obtain ⟨rfl, rfl⟩ := h1
  rw [exec_bind, exec_bind, exec_getSt]
  simp only [withAsserts_st]
  rw [exec_bind, exec_liftSt]
  simp only [exec_pure, withAsserts_st]
  obtain ⟨head, c2', h2, hx⟩ := exec_bind_ok hx
  rw [exec_liftE] at h2
  simp only [Prod.mk.injEq] at h2
  obtain ⟨h2, rfl⟩ := h2
  rw [exec_bind, exec_liftE, h2]
  simp only
  obtain ⟨s1, c3, h3, hx⟩ := exec_bind_ok hx
  rw [exec_getSt] at h3
  simp only [Prod.mk.injEq, Except.ok.injEq] at h3
  obtain ⟨rfl, rfl⟩ := h3
  rw [exec_bind, exec_getSt]
  simp only
  obtain ⟨direct', c4, h4, hx⟩ := exec_bind_ok hx
  rw [hfp] at h4
  simp only [Prod.mk.injEq, Except.ok.injEq] at h4
  obtain ⟨rfl, rfl⟩ := h4
  have hfp'' : CM.exec (findPath start stop)
      ({ withAsserts x c with st := (c.st.unprefixedUnit stop).1 } : Conv Rat) = (.ok direct, withAsserts x c2) := hfp'
  rw [exec_bind, hfp'']
  simp only
  have hne' : direct.isEmpty = false := by
    cases direct with
    | nil => exact absurd rfl hne
    | cons _ _ => rfl
  simp only [hne', Bool.not_false, ↓reduceIte] at hx ⊢
  obtain ⟨tail, c5, h5, hx⟩ := exec_bind_ok hx
  rw [exec_pure] at hx
  simp only [Prod.mk.injEq, Except.ok.injEq] at hx
  obtain ⟨rfl, rfl⟩ := hx
  unfold inlinePaths at h5 ⊢
  simp only [List.mapM_cons, List.mapM_nil] at h5 ⊢
  rw [exec_bind, exec_bind, exec_findPath_self'] at h5
  simp only [List.isEmpty_cons, Bool.false_eq_true, ↓reduceIte, exec_pure, exec_bind, Prod.mk.injEq,
    Except.ok.injEq] at h5
  obtain ⟨rfl, rfl⟩ := h5
  rw [exec_bind, exec_bind, exec_bind, exec_findPath_self']
  simp only [List.isEmpty_cons, Bool.false_eq_true, ↓reduceIte, exec_pure, exec_bind]

/-- **C07 under `-O`, directly settled conversions**: the conversion succeeds in the other mode too,
    with the same result and the same interning. -/
theorem convert_direct_mode {c c' c2 : Conv Rat} {q r : Qty Rat} {t : UId} {p : List (Hop Rat)}
    (hg : GraphOK σ c) (hw : GraphWF c) (hq : q.unit < c.st.units.length) (ht : t < c.st.units.length)
    (hx : CM.exec (convert q t) c = (.ok r, c'))
    (hfp : CM.exec (findPath q.unit t)
      { c with st := ((c.st.unprefixedUnit q.unit).1.unprefixedUnit t).1 } = (.ok p, c2))
    (hne : p ≠ []) (x : Bool) :
    CM.exec (convert q t) (withAsserts x c) = (.ok r, withAsserts x c') := by
  unfold convert at hx ⊢
  obtain ⟨s0, c0, h0, hx⟩ := exec_bind_ok hx
  rw [exec_getSt] at h0
  simp only [Prod.mk.injEq, Except.ok.injEq] at h0
  obtain ⟨rfl, rfl⟩ := h0
  rw [exec_bind, exec_getSt]
  simp only [withAsserts_st]
  by_cases hdim : (c.st.dimOfUnit q.unit != c.st.dimOfUnit t) = true
  · simp only [hdim, ↓reduceIte] at hx
    rw [exec_bind, exec_throw] at hx; simp at hx
  · simp only [hdim, Bool.false_eq_true, ↓reduceIte] at hx ⊢
    have hd : c.st.dimOfUnit q.unit = c.st.dimOfUnit t := by simpa using hdim
    obtain ⟨this, c1, h1, hx⟩ := exec_bind_ok hx
    rw [exec_unprefixedQty] at h1
    simp only [Prod.mk.injEq, Except.ok.injEq] at h1
    obtain ⟨rfl, rfl⟩ := h1
    rw [exec_bind, exec_unprefixedQty]
    simp only [withAsserts_st]
    obtain ⟨plan, c3, h2, hx⟩ := exec_bind_ok hx
    obtain ⟨g1, f1⟩ := unprefixStep hg hq
    have w1 := hw.frame hg f1
    have hd1 : ({ c with st := (c.st.unprefixedUnit q.unit).1 } : Conv Rat).st.dimOfUnit q.unit =
        ({ c with st := (c.st.unprefixedUnit q.unit).1 } : Conv Rat).st.dimOfUnit t := by
      rw [f1.ext.dimOfUnit hq, f1.ext.dimOfUnit ht]; exact hd
    have h2' := planConversion_direct_mode g1 w1 (f1.lt hq) (f1.lt ht) hd1 h2 hfp hne x
    have h2'' : CM.exec (planConversion q.unit t)
        ({ withAsserts x c with st := (c.st.unprefixedUnit q.unit).1 } : Conv Rat) = (.ok plan, withAsserts x c3) := h2'
    rw [exec_bind, h2'']
    simp only at hx ⊢
    obtain ⟨m, c4, h3, hx⟩ := exec_bind_ok hx
    rw [exec_liftE] at h3
    simp only [Prod.mk.injEq] at h3
    obtain ⟨h3, rfl⟩ := h3
    rw [exec_pure] at hx
    simp only [Prod.mk.injEq, Except.ok.injEq] at hx
    obtain ⟨rfl, rfl⟩ := hx
    rw [exec_bind, exec_liftE, h3]
    simp only [exec_pure]

end Measured
