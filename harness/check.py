"""./check <Cxx> quick|thorough [--replay <file>]

One run of one property's check (DESIGN.md §5):
  1. translate   regenerate lean/Generated/*.lean from the repository's working tree
  2. prove       lake build the property's theorems and the per-run obligations over the
                 generated data; audit the axioms of every theorem listed for the property
  3. correspond  run generated op histories through the real library and through the Lean
                 driver, diff the canonical answers; run the property's direct oracle on
                 the implementation after every op
  4. decide      exit 0 / exit 1 + VIOLATION line; write evidence/<id>.json

Exit 2 = the check itself could not run (tool missing, timeout): never a verdict.
"""
import fcntl
import importlib
import json
import os
import re
import shutil
import subprocess
import sys
import time
from concurrent.futures import ThreadPoolExecutor

HERE = os.path.dirname(os.path.abspath(__file__))
VERIF = os.path.dirname(HERE)
LEAN = os.path.join(VERIF, "lean")
PY = "/venv/bin/python"
REPO = os.environ.get("MEASURED_REPO", "/repo")
sys.path.insert(0, HERE)

from diff import compare_streams  # noqa: E402

ALLOWED_AXIOMS = {"propext", "Classical.choice", "Quot.sound"}
FORBIDDEN = re.compile(r"\bsorry\b|\badmit\b|^axiom |native_decide|bv_decide|implemented_by|\bunsafe |maxHeartbeats 0")
TRUSTED_BASE = [
    "Lean 4.33.0 kernel",
    "axioms propext, Classical.choice, Quot.sound only (audited with #print axioms on every run)",
    "no native_decide / bv_decide / implemented_by / unsafe / sorry (grep on every run)",
    "translators /verif/translate/*.py (serialise the live registries and parser tables)",
    "correspondence harness /verif/harness (differential execution model vs /repo, in-process)",
    "modelled, not verified: CPython operator dispatch, dict order, IEEE-754/Decimal rounding, re, lark runtime, GIL atomicity",
]


def log(msg):
    sys.stderr.write("[check] %s\n" % msg)
    sys.stderr.flush()


def sh(cmd, cwd=None, timeout=None, env=None):
    e = dict(os.environ)
    e["MEASURED_REPO"] = REPO
    if env:
        e.update(env)
    p = subprocess.run(cmd, cwd=cwd, stdout=subprocess.PIPE, stderr=subprocess.STDOUT,
                       timeout=timeout, env=e, text=True, errors="replace")
    return p.returncode, p.stdout


class Lock:
    def __init__(self, path):
        self.path = path

    def __enter__(self):
        self.fh = open(self.path, "w")
        fcntl.flock(self.fh, fcntl.LOCK_EX)

    def __exit__(self, *a):
        fcntl.flock(self.fh, fcntl.LOCK_UN)
        self.fh.close()


def translate():
    out = {}
    for script in ("gen_init.py", "gen_grammar.py", "gen_sizes.py", "gen_caches.py", "gen_family.py", "gen_symbols.py", "gen_ctor.py"):
        path = os.path.join(VERIF, "translate", script)
        if not os.path.exists(path):
            continue
        rc, text = sh([PY, path], timeout=300)
        out[script] = {"rc": rc, "out": text.strip()[-2000:]}
    return out


def lake_build(targets, timeout=3000):
    rc, text = sh(["lake", "build"] + targets, cwd=LEAN, timeout=timeout)
    errors = [ln for ln in text.splitlines() if ln.startswith("error:") or "error:" in ln[:60]]
    return rc, text, errors


def audit(prop, theorems, imports):
    """#print axioms for every theorem that constitutes the claim."""
    path = os.path.join(LEAN, "Audit_%s.lean" % prop)
    with open(path, "w", encoding="utf-8") as fh:
        for m in imports:
            fh.write("import %s\n" % m)
        for t in theorems:
            fh.write("#print axioms %s\n" % t)
    rc, text = sh(["lake", "env", "lean", path], cwd=LEAN, timeout=1200)
    os.remove(path)
    result = {}
    # join wrapped lines
    flat = re.sub(r"\n\s+", " ", text)
    for t in theorems:
        m = re.search(r"'%s' depends on axioms: \[([^\]]*)\]" % re.escape(t), flat)
        if m:
            result[t] = sorted(a.strip() for a in m.group(1).split(",") if a.strip())
        elif re.search(r"'%s' does not depend on any axioms" % re.escape(t), flat):
            result[t] = []
        else:
            result[t] = None
    return rc, text, result


def grep_forbidden():
    hits = []
    roots = ["Model", "Proofs", "Props", "Obligations", "Generated"]
    files = [os.path.join(LEAN, "Driver.lean")]
    for r in roots:
        for dp, _, fs in os.walk(os.path.join(LEAN, r)):
            files += [os.path.join(dp, f) for f in fs if f.endswith(".lean")]
    for f in files:
        in_block = 0
        for n, line in enumerate(open(f, encoding="utf-8"), 1):
            s = line
            # strip block comments (good enough: /- … -/ possibly nested on separate lines)
            if in_block:
                if "-/" in s:
                    in_block -= s.count("-/")
                    in_block += s.count("/-")
                    in_block = max(in_block, 0)
                continue
            if s.lstrip().startswith("/-"):
                in_block += s.count("/-") - s.count("-/")
                in_block = max(in_block, 0)
                continue
            code = s.split("--", 1)[0]
            code = re.sub(r'"(?:[^"\\]|\\.)*"', '""', code)
            if FORBIDDEN.search(code):
                hits.append("%s:%d: %s" % (os.path.relpath(f, LEAN), n, line.strip()))
    return hits


def run_chunk(prop, seed, n_ops, workdir, replay=None, driver_args=(), rtol=1e-12, py_flags=()):
    os.makedirs(workdir, exist_ok=True)
    cmd = [PY] + list(py_flags) + [os.path.join(HERE, "runner.py"), prop, str(seed), str(n_ops), workdir]
    if replay:
        cmd += ["--replay", replay]
    rc, out = sh(cmd, timeout=3000)
    res = {"seed": seed, "runner_rc": rc, "runner_out": out[-1500:], "workdir": workdir}
    if rc != 0:
        return res
    ops_path = os.path.join(workdir, "ops.txt")
    with open(ops_path, encoding="utf-8") as fh:
        ops = fh.read().split("\n")[:-1]
    with open(os.path.join(workdir, "impl.txt"), encoding="utf-8") as fh:
        impl = fh.read().split("\n")[:-1]
    driver = os.path.join(LEAN, ".lake", "build", "bin", "driver")
    with open(ops_path, "rb") as fin:
        p = subprocess.run([driver] + list(driver_args), stdin=fin, stdout=subprocess.PIPE,
                           stderr=subprocess.PIPE, timeout=3000)
    model = p.stdout.decode("utf-8", "replace").split("\n")[:-1]
    with open(os.path.join(workdir, "model.txt"), "w", encoding="utf-8") as fh:
        fh.write("\n".join(model) + "\n")
    res["driver_rc"] = p.returncode
    res["report"] = json.load(open(os.path.join(workdir, "report.json"), encoding="utf-8"))
    compared, unmodelled, dis, stopped = compare_streams(ops, impl, model, rtol, set(res["report"].get("skip_compare", [])))
    res.update({"compared": compared, "unmodelled": unmodelled, "disagreement": dis,
                "stopped_at": stopped, "n_ops": len(ops)})
    if dis and not replay and os.environ.get("VERIF_FOCUS_OP") is None:
        # failing-input search at the point where model and implementation part: the same deterministic
        # generation is repeated with the property's own oracle forced onto that op (modules that know
        # how look at VERIF_FOCUS_OP); what it finds is added to the chunk's oracle failures
        env = dict(os.environ, VERIF_FOCUS_OP=str(dis[0]))
        fdir = workdir + "-focus"
        os.makedirs(fdir, exist_ok=True)
        cmd2 = [PY] + list(py_flags) + [os.path.join(HERE, "runner.py"), prop, str(seed), str(n_ops), fdir]
        try:
            p2 = subprocess.run(cmd2, env=env, stdout=subprocess.PIPE, stderr=subprocess.STDOUT, timeout=3000)
            if p2.returncode == 0:
                rep2 = json.load(open(os.path.join(fdir, "report.json"), encoding="utf-8"))
                seen = {json.dumps(f, sort_keys=True, default=str) for f in res["report"]["failures"]}
                for f in rep2["failures"]:
                    if f.get("focus") and json.dumps(f, sort_keys=True, default=str) not in seen:
                        res["report"]["failures"].append(f)
        except Exception:  # noqa: BLE001
            pass
    return res


def load_known(prop):
    path = os.path.join(VERIF, "known_findings.json")
    if not os.path.exists(path):
        return []
    data = json.load(open(path, encoding="utf-8"))
    return [e for e in data.get("findings", []) if e.get("property") == prop]


def match_known(failure, known):
    for e in known:
        if e.get("status") != "open":
            continue
        m = e.get("match", {})
        if m and all(failure.get(k) == v for k, v in m.items()):
            return e
    return None


def write_replay(prop, seed, payload):
    d = os.path.join(VERIF, "replays")
    os.makedirs(d, exist_ok=True)
    path = os.path.join(d, "%s-%s-%d.json" % (prop, seed, int(time.time() * 1000) % 10**9))
    with open(path, "w", encoding="utf-8") as fh:
        json.dump(payload, fh, ensure_ascii=False, indent=1)
    return path


def shrink_ops(prop, ops, upto, predicate, budget=40):
    """Greedy delta-debugging on an op history (ops[:upto+1]); predicate(list)->bool says
    whether the failure is still present.  Only deletes whole ops; bounded effort."""
    cur = ops[: upto + 1]
    chunk = max(1, len(cur) // 2)
    tries = 0
    while chunk >= 1 and tries < budget:
        i = 0
        changed = False
        while i < len(cur) - 1 and tries < budget:
            cand = cur[:i] + cur[i + chunk:]
            if not cand or cand[-1] != cur[-1]:
                cand = cand + [cur[-1]] if cur[-1] not in cand[-1:] else cand
            tries += 1
            if predicate(cand):
                cur = cand
                changed = True
            else:
                i += chunk
        if not changed:
            chunk //= 2
    return cur


def main():
    if len(sys.argv) < 3:
        print(__doc__)
        return 2
    prop, tier = sys.argv[1].upper(), sys.argv[2]
    replay = sys.argv[sys.argv.index("--replay") + 1] if "--replay" in sys.argv else None
    replay_schedule = None
    if replay and replay.endswith(".json"):
        # a replay file written by an earlier VIOLATION line: take the recorded op list (or, for the
        # thread property, the recorded schedule)
        payload = json.load(open(replay, encoding="utf-8"))
        fail = payload.get("failure", {})
        if "ops" in payload:
            os.makedirs(os.path.join(VERIF, "work"), exist_ok=True)
            replay = os.path.join(VERIF, "work", "replay-%s-%d.ops" % (prop, os.getpid()))
            with open(replay, "w", encoding="utf-8") as fh:
                fh.write("\n".join(payload["ops"]) + "\n")
        elif fail.get("schedule") and fail.get("target"):
            replay_schedule = fail
            replay = None
        else:
            replay = None
    seed = int(os.environ.get("VERIF_SEED", "0") or 0)
    t0 = time.time()
    mod = importlib.import_module("props." + prop.lower())
    cfg = dict(getattr(mod, "QUICK", {"chunks": 4, "ops": 600}))
    if tier == "thorough":
        cfg = dict(getattr(mod, "THOROUGH", {"chunks": 16, "ops": 4000}))
    theorems = list(getattr(mod, "THEOREMS", []))
    targets = list(getattr(mod, "LEAN_TARGETS", ["Props." + prop, "Obligations." + prop]))
    if tier == "thorough":
        targets += list(getattr(mod, "THOROUGH_TARGETS", []))
    evidence_path = os.path.join(VERIF, "evidence", "%s.json" % prop)
    os.makedirs(os.path.dirname(evidence_path), exist_ok=True)
    workroot = os.path.join(VERIF, "work", "%s-%d" % (prop, os.getpid()))
    known = load_known(prop)

    problems = []   # (kind, detail) : broken proof obligations / correspondence
    violations = []  # concrete failing inputs on the real code (not known findings)
    known_hits = {}

    # ---- 1+2: translate, build, audit (serialised across concurrent checks) -----------
    with Lock(os.path.join(LEAN, ".check.lock")):
        tr = translate()
        for k, v in tr.items():
            if v["rc"] != 0:
                problems.append(("translate", "%s failed: %s" % (k, v["out"][-600:])))
        rc, text, errors = lake_build(targets + ["driver"])
        build_ok = rc == 0
        if not build_ok:
            problems.append(("build", "\n".join(errors[:12]) or text[-1500:]))
        axioms = {}
        if build_ok and theorems:
            arc, atext, axioms = audit(prop, theorems, targets)
            for t, ax in axioms.items():
                if ax is None:
                    problems.append(("audit", "theorem %s not found / not checked: %s" % (t, atext[-400:])))
                elif not set(ax) <= ALLOWED_AXIOMS:
                    problems.append(("audit", "theorem %s depends on %s" % (t, ax)))
        hits = grep_forbidden()
        if hits:
            problems.append(("forbidden-token", "; ".join(hits[:5])))
        if tier == "thorough" and build_ok and getattr(mod, "LEANCHECKER", True):
            mods = [t for t in targets]
            rc2, out2 = sh(["lake", "env", "leanchecker"] + mods, cwd=LEAN, timeout=3000)
            if rc2 != 0:
                problems.append(("leanchecker", out2[-800:]))
        driver_ok = os.path.exists(os.path.join(LEAN, ".lake", "build", "bin", "driver"))

    # ---- property-specific static checks on generated data (may report counter-examples) --
    extra = {}
    if replay_schedule is not None and hasattr(mod, "replay_schedule"):
        extra = mod.replay_schedule(replay_schedule) or {}
        for f in extra.get("failures", []):
            k = match_known(f, known)
            if k:
                known_hits.setdefault(k["id"], []).append(f)
            else:
                violations.append(f)
    elif hasattr(mod, "extra_checks"):
        try:
            extra = mod.extra_checks(tier, seed, build_ok) or {}
        except Exception as e:  # noqa: BLE001
            problems.append(("extra-check-crash", repr(e)))
        for f in extra.get("failures", []):
            k = match_known(f, known)
            if k:
                known_hits.setdefault(k["id"], []).append(f)
            else:
                violations.append(f)
        for pr in extra.get("problems", []):
            problems.append(tuple(pr))

    # ---- 3: correspondence + oracle -----------------------------------------------------
    chunks = []
    driver_args = tuple(getattr(mod, "DRIVER_ARGS", ()))
    if hasattr(mod, "generate") and driver_ok:
        jobs = []
        if replay:
            jobs.append((seed, 0, os.path.join(workroot, "replay"), replay))
        else:
            corpus = os.path.join(VERIF, "corpus", prop)
            if os.path.isdir(corpus):
                for i, f in enumerate(sorted(os.listdir(corpus))):
                    if f.endswith(".ops"):
                        jobs.append((seed, 0, os.path.join(workroot, "corpus%d" % i), os.path.join(corpus, f)))
            mult = 10 if problems else 1   # failing-input search: widen when something is broken
            for c in range(cfg["chunks"]):
                jobs.append((seed * 1000 + c, cfg["ops"] * (mult if c < 4 else 1),
                             os.path.join(workroot, "chunk%d" % c), None))
        modes = list(getattr(mod, "MODES", [{"py": [], "drv": []}]))
        with ThreadPoolExecutor(max_workers=min(16, len(jobs) * len(modes) or 1)) as ex:
            rtol = float(getattr(mod, "RTOL", 1e-12))
            futs = []
            for mi, mode in enumerate(modes):
                for s, n, wd, rp in jobs:
                    futs.append(ex.submit(run_chunk, prop, s, n, wd + ("-m%d" % mi if mi else ""), rp,
                                          tuple(driver_args) + tuple(mode["drv"]), rtol, tuple(mode["py"])))
            chunks = [f.result() for f in futs]
    elif hasattr(mod, "generate") and not driver_ok:
        problems.append(("driver", "model driver could not be built"))

    evaluations = 0
    nontrivial = 0
    compared = 0
    unmodelled = 0
    oracle_checks = 0
    hist, errs = {}, {}
    samples = []
    for ch in chunks:
        if ch.get("runner_rc", 1) != 0:
            problems.append(("runner", ch.get("runner_out", "")[-800:]))
            continue
        rep = ch["report"]
        evaluations += rep["ops"]
        nontrivial += rep["distinct_nontrivial"]
        oracle_checks += rep.get("oracle_checks", 0)
        compared += ch["compared"]
        unmodelled += ch["unmodelled"]
        for k, v in rep["op_histogram"].items():
            hist[k] = hist.get(k, 0) + v
        for k, v in rep["error_kinds"].items():
            errs[k] = errs.get(k, 0) + v
        if len(samples) < 6:
            samples += rep["samples"][:2]
        dis_idx = ch["disagreement"][0] if ch["disagreement"] else None
        for f in rep["failures"]:
            f["seed"] = ch["seed"]
            f["ops_file"] = os.path.join(ch["workdir"], "ops.txt")
            k = match_known(f, known)
            if k and dis_idx is not None and f.get("op_index") == dis_idx:
                # a recorded finding is behaviour the model reproduces; where the implementation ALSO parts from
                # the model at this very op, the record does not explain what happened here
                f["note"] = "matches the class of known finding %s but the model of the recorded behaviour answers `%s`" % (
                    k["id"], ch["disagreement"][3])
                k = None
            if k:
                known_hits.setdefault(k["id"], []).append(f)
            else:
                violations.append(f)
        if ch["disagreement"]:
            i, op, a, b = ch["disagreement"]
            problems.append(("correspondence",
                             "seed %s op #%d `%s`: implementation `%s` vs model `%s` (ops: %s)"
                             % (ch["seed"], i, op, a, b, os.path.join(ch["workdir"], "ops.txt"))))
        if ch.get("driver_rc", 0) != 0:
            problems.append(("driver-crash", "seed %s rc=%s" % (ch["seed"], ch.get("driver_rc"))))

    # ---- 4: decide -----------------------------------------------------------------------
    for kid, fs in known_hits.items():
        e = [k for k in known if k["id"] == kid][0]
        print("KNOWN-FINDING: property=%s %s — %s (%d matching case(s) this run)"
              % (prop, kid, e["what"], len(fs)))
    for e in known:
        if e.get("status") == "open" and e["id"] not in known_hits and e.get("always_report", True):
            print("KNOWN-FINDING: property=%s %s — %s (listed; not sampled this run)" % (prop, e["id"], e["what"]))

    exit_code = 0
    replay_path = None
    if violations:
        v = violations[0]
        payload = {"property": prop, "kind": "failing-input", "failure": v, "tier": tier, "seed": seed,
                   "other_failures": violations[1:10], "broken": problems[:5]}
        ops_file = v.get("ops_file")
        if ops_file and os.path.exists(ops_file):
            ops = open(ops_file, encoding="utf-8").read().split("\n")[:-1]
            payload["ops"] = ops[: v.get("op_index", len(ops) - 1) + 1]
        replay_path = write_replay(prop, seed, payload)
        print("VIOLATION property=%s replay=%s" % (prop, replay_path))
        exit_code = 1
    elif problems:
        payload = {"property": prop, "kind": "no-failing-input-found", "tier": tier, "seed": seed,
                   "not_shown": [{"what": k, "detail": d} for k, d in problems[:10]],
                   "theorems": theorems, "searched": {"evaluations": evaluations, "oracle_checks": oracle_checks}}
        for k, d in problems:
            if k == "correspondence":
                m = re.search(r"\(ops: (.*)\)$", d)
                if m and os.path.exists(m.group(1)):
                    payload["ops"] = open(m.group(1), encoding="utf-8").read().split("\n")[:-1]
                break
        replay_path = write_replay(prop, seed, payload)
        print("VIOLATION property=%s replay=%s no-failing-input-found" % (prop, replay_path))
        exit_code = 1

    n_thm = len(theorems) + int(extra.get("obligations", 0))
    discharged = sum(1 for t in theorems if axioms.get(t) is not None and set(axioms[t]) <= ALLOWED_AXIOMS) \
        + int(extra.get("discharged", 0)) if build_ok else 0
    evidence = {
        "property_id": prop, "tier": tier, "seed": seed, "level": "proof",
        "coverage": {
            "obligations": max(n_thm, 1), "discharged": discharged,
            "checker_cmd": "cd /verif/lean && lake build %s && lake env lean Audit_%s.lean  (#print axioms)"
                           % (" ".join(targets), prop),
            "trusted_base": TRUSTED_BASE + list(getattr(mod, "TRUSTED_EXTRA", [])),
            "theorems": {t: axioms.get(t) for t in theorems},
            "evaluations": evaluations + int(extra.get("evaluations", 0)),
            "distinct_nontrivial": nontrivial + int(extra.get("distinct_nontrivial", 0)),
            "rule": getattr(mod, "RULE", mod.__doc__ or ""),
            "samples": (samples + list(extra.get("samples", [])))[:8] or ["(no generated cases: static obligations only)"],
            "traces_validated_against_impl": compared,
            "model_declined": unmodelled,
            "oracle_checks_on_impl": oracle_checks + int(extra.get("oracle_checks", 0)),
            "op_histogram": hist, "error_kinds": errs,
            "exhaustive": bool(extra.get("exhaustive", False)),
            "extra": extra.get("info", {}),
            "known_findings_matched": {k: len(v) for k, v in known_hits.items()},
            "broken": [{"what": k, "detail": d[:600]} for k, d in problems[:10]],
        },
        "assumptions": list(getattr(mod, "ASSUMPTIONS", [])),
        "wall_s": round(time.time() - t0, 2),
        "violations": len(violations) + (1 if (problems and not violations) else 0),
    }
    with open(evidence_path, "w", encoding="utf-8") as fh:
        json.dump(evidence, fh, ensure_ascii=False, indent=1)
    if exit_code == 0:
        shutil.rmtree(workroot, ignore_errors=True)
    log("%s %s: exit %d in %.1fs (theorems %d/%d, ops %d, compared %d, oracle checks %d, problems %d)"
        % (prop, tier, exit_code, time.time() - t0, discharged, n_thm, evaluations, compared,
           oracle_checks, len(problems)))
    return exit_code


if __name__ == "__main__":
    try:
        sys.exit(main())
    except subprocess.TimeoutExpired as e:
        log("timeout: %r" % (e,))
        sys.exit(2)
