/-
  Per-run obligations for C10: the model's planner, evaluated by the kernel on the graph
  regenerated from /repo, converts between every ordered pair of the four temperature scales
  — with prefixes on either side — by the exact affine definitions
  C = K − 273.15, F = R − 459.67, R = 9/5 K, within 1e-12.
-/
import Props.C10
import Generated.Init
import Generated.Graph

namespace Measured.Obligations
open Measured Generated

def tempConv : Conv Rat := convOfTables init ratios offsets

def uidOf (name : String) : UId := (lookup name init.unitByName).getD 0

/-- scale ↦ (degree size in kelvin, kelvin value of its zero) — the exact definitions -/
def tempScales : List (String × Rat × Rat) :=
  [ ("kelvin", 1, 0), ("celsius", 1, 27315 / 100), ("Rankine", 5 / 9, 0),
    ("fahrenheit", 5 / 9, 45967 / 100 * (5 / 9)) ]

def tempPrefixes : List Pfx := [Pfx.identity, ⟨10, 3⟩, ⟨10, -3⟩, ⟨10, 6⟩, ⟨10, -2⟩]

def pfxRat (p : Pfx) : Rat := ipow ((p.base : Nat) : Rat) p.exp

/-- one (source scale, source prefix, target scale, target prefix) case -/
def tempCase (a : String × Rat × Rat) (p : Pfx) (b : String × Rat × Rat) (q : Pfx) : Bool :=
  match convertCoeffs tempConv p (uidOf a.1) q (uidOf b.1) with
  | .error _ => false
  | .ok (A, B) =>
    let α := a.2.1 / b.2.1
    let β := (a.2.2 - b.2.2) / b.2.1
    closeTo A (α * pfxRat p / pfxRat q) (1 / 10^12) 0 &&
    closeTo B (β / pfxRat q) (1 / 10^12) (1000 / pfxRat q)

def tempAllWith (ps : List (Pfx × Pfx)) : Bool :=
  tempScales.all (fun a => tempScales.all (fun b =>
    a.1 == b.1 || ps.all (fun pq => tempCase a pq.1 b pq.2)))

/-- 12 ordered pairs, unprefixed and with a prefix on each side (quick tier; the full
    5 × 5 prefix grid is Obligations/C10Full.lean, built by the thorough tier). -/
theorem temperature_plans_exact :
    tempAllWith [(Pfx.identity, Pfx.identity), (⟨10, 3⟩, ⟨10, -3⟩)] = true := by decide +kernel

theorem temperature_units_found :
    (tempScales.map (fun s => (lookup s.1 init.unitByName).isSome)).all id = true := by decide +kernel

end Measured.Obligations
