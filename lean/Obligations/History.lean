/-
  Obligations/History.lean — the theorems about the SHIPPED definitions, in EVERY state reached by any
  history of queries and unit operations.  Two general theorems meet here: no query changes the graph
  tables (`queries_frame`, Proofs/Frame.lean) and every query leaves the unit table canonical and
  consistent (`queries_good`, Proofs/Kept.lean).  Together: after any valid history — conversions,
  comparisons, arithmetic, whatever they returned or raised — the state is again a `ShippedState`, the
  hypothesis under which all the theorems about the regenerated graph were proved.  The `…_in` versions
  below restate them for an arbitrary `ShippedState`; `shippedState_after` supplies one for every history.
-/
import Proofs.Kept
import Obligations.C10Flat
import Obligations.C09Flat
import Obligations.C07Near
import Obligations.C13

namespace Measured.Obligations.History
open Measured Measured.Obligations Measured.Obligations.NearShipped Measured.Obligations.FlatTemp
open Measured.Obligations.Direct Generated St

theorem shipped_good : Good shipped.st := ⟨init_canon, init_ginv, init_baseInv⟩

/-- **Every valid history of queries and unit operations on the shipped registries ends in a state of the shipped
    graph**: same ratio and offset tables, unit table extended, canonical and consistent. -/
theorem shippedState_after (ops : List QOp) (hv : ValidHistory shipped ops) :
    ShippedState (ops.foldl QOp.after shipped) := by
  have hf := queries_frame shipped ops
  have hg := queries_good ops shipped shipped_good hv
  exact ⟨shipped_graphNear.frame hf hg.1 hg.2.1.1 hg.2.1.2, shipped_graphWF.frameN shipped_graphNear hf, hf⟩

/-- and histories compose: from any state of the shipped graph, a further valid history ends in one -/
theorem shippedState_after_from {c : Conv Rat} (hs : ShippedState c) (hb : BaseInv c.st) (ops : List QOp) (hv : ValidHistory c ops) :
    ShippedState (ops.foldl QOp.after c) := by
  have hf := queries_frame c ops
  have hg := queries_good ops c ⟨hs.near.canon, ⟨hs.near.inv, hs.near.reg⟩, hb⟩ hv
  exact ⟨hs.near.frame hf hg.1 hg.2.1.1 hg.2.1.2, hs.wf.frameN hs.near hf, hs.frame.trans hf⟩

theorem shippedState_offRef {c : Conv Rat} (hs : ShippedState c) : OffRef c.st Zt c.offsets := by
  have := shipped_offRef.ext hs.frame.ext
  rw [hs.frame.offsets]; exact this

/-! ### the theorems about the shipped graph, for any of its states -/

theorem direct_conversions_near_in {c₁ c' : Conv Rat} (hs : ShippedState c₁) {q r : Qty Rat} {t : UId}
    (hq : q.unit < c₁.st.units.length) (ht : t < c₁.st.units.length) (hz : Zt (c₁.st.dimOfUnit q.unit))
    (h : CM.exec (convert q t) c₁ = (.ok r, c')) :
    r.unit = t ∧
    ∃ (direct : List (Hop Rat)) (c2 : Conv Rat),
      CM.exec (findPath q.unit t)
        { c₁ with st := ((c₁.st.unprefixedUnit q.unit).1.unprefixedUnit t).1 } = (.ok direct, c2) ∧
      (direct ≠ [] → ∃ (X : Rat) (W : Nat), r.mag.val * unitSz σS c₁.st t = q.mag.val * X ∧
        W ≤ Gd c₁.st q.unit * direct.length ∧ Near lbS ubS W X (unitSz σS c₁.st q.unit)) :=
  convert_direct_near rootClosed_Zt bnd σS_pos hs.near hs.wf hq ht (shippedState_offRef hs) hz h

theorem path_search_never_raises_in {c₁ : Conv Rat} (hs : ShippedState c₁) {start stop : UId}
    (hst : start < c₁.st.units.length) (ht : stop < c₁.st.units.length)
    (hd : c₁.st.dimOfUnit start = c₁.st.dimOfUnit stop) :
    ∃ p c', CM.exec (findPath start stop) c₁ = (.ok p, c') :=
  findPath_totalN trueClosed bnd σS_pos hs.near hs.wf hst ht hd

theorem fundamental_units_interconvert_in {c₁ : Conv Rat} (hs : ShippedState c₁) {u v : UId}
    (hu : u ∈ fundNodes) (hv : v ∈ fundNodes) (hd : init.dimOfUnit u = init.dimOfUnit v) {q : Qty Rat} {t : UId}
    (hq : q.unit < c₁.st.units.length) (ht : t < c₁.st.units.length)
    (hsf : (c₁.st.unit! q.unit).factors = [(u, 1)]) (htf : (c₁.st.unit! t).factors = [(v, 1)]) :
    ∃ r c', CM.exec (convert q t) c₁ = (.ok r, c') := by
  obtain ⟨g, w, f⟩ := hs
  have hu' := (List.mem_filter.1 hu).2
  have hv' := (List.mem_filter.1 hv).2
  simp only [Bool.and_eq_true, decide_eq_true_eq] at hu' hv'
  obtain ⟨hul, hfu⟩ := hu'
  obtain ⟨hvl, _⟩ := hv'
  unfold fundOk at hfu
  simp only [Bool.and_eq_true, decide_eq_true_eq, Bool.not_eq_true'] at hfu
  obtain ⟨⟨⟨⟨hw, hnn⟩, hfac⟩, hnum⟩, hneg⟩ := hfu
  have hreach : Reaches c₁.ratios v u := by rw [f.ratios]; exact fund_reaches hu hv hd
  exact convert_flat_connected (d := init.dimOfUnit u) bnd σS_pos g w hq ht
    (Nat.lt_of_lt_of_le hul f.ext.len) (Nat.lt_of_lt_of_le hvl f.ext.len) hsf htf
    (f.ext.dimOfUnit hul) ((f.ext.dimOfUnit hvl).trans hd.symm) hw hnn hfac hnum hneg hreach

theorem simple_conversions_near_in {c₁ c' : Conv Rat} (hs : ShippedState c₁) {K : List Dim} (hK : keysOkB K = true)
    {q r : Qty Rat} {t : UId} {plan : List (Rough Rat)}
    (hq : q.unit < c₁.st.units.length) (ht : t < c₁.st.units.length) (hz : Zt (c₁.st.dimOfUnit q.unit))
    (hfs : ∀ f ∈ (c₁.st.unit! q.unit).factors, factorOkB K c₁.st σS f = true ∧ Zt (c₁.st.dimOfUnit f.1))
    (hft : ∀ f ∈ (c₁.st.unit! t).factors, factorOkB K c₁.st σS f = true)
    (hspec : matchSpec (splat c₁.st t).byComplexFirst (splat c₁.st q.unit) (splat c₁.st t) [] = some ([], [], plan))
    (h : CM.exec (convert q t) c₁ = (.ok r, c')) :
    r.unit = t ∧ ∃ (X : Rat) (W : Nat) (P : Plan Rat),
      CM.exec (planConversion q.unit t) { c₁ with st := (c₁.st.unprefixedUnit q.unit).1 } = (.ok P, c') ∧
      W ≤ Gd c₁.st q.unit * planHops P ∧
      r.mag.val * unitSz σS c₁.st t = q.mag.val * X ∧ Near lbQ ubQ W X (unitSz σS c₁.st q.unit) := by
  have gQ : GraphNear lbQ ubQ σS c₁ :=
    hs.near.weaken σS_pos (by norm_num [lbQ]) (by norm_num [lbQ, lbS]) (by norm_num [ubS]) (by norm_num [ubQ, ubS])
  obtain ⟨hK1, hKw⟩ := keysOkB_sound hK
  have hz1 : Zt (c₁.st.dimOfUnit c₁.st.one) := by rw [hs.near.inv.1.oneNum]; exact zt_number _
  exact convert_simple_near rootClosed_Zt bndQ symQ σS_pos hK1 hKw gQ hs.wf (shippedState_offRef hs) hq ht hz hz1
    (fun f hf => by
      obtain ⟨a, b, c⟩ := factorOkB_sound (hfs f hf).1
      exact ⟨a, b, c, (hfs f hf).2⟩)
    (fun f hf => factorOkB_sound (hft f hf)) hspec h

theorem simple_only_not_found_in {c₁ : Conv Rat} (hs : ShippedState c₁) {K : List Dim} (hK : keysOkB K = true)
    {q : Qty Rat} {t : UId} {plan : List (Rough Rat)}
    (hq : q.unit < c₁.st.units.length) (ht : t < c₁.st.units.length)
    (hfs : ∀ f ∈ (c₁.st.unit! q.unit).factors, factorOkB K c₁.st σS f = true)
    (hft : ∀ f ∈ (c₁.st.unit! t).factors, factorOkB K c₁.st σS f = true)
    (hspec : matchSpec (splat c₁.st t).byComplexFirst (splat c₁.st q.unit) (splat c₁.st t) [] = some ([], [], plan))
    (hdims : ∀ r ∈ plan, c₁.st.dimOfUnit r.start = c₁.st.dimOfUnit r.stop) :
    ∃ res c', CM.exec (convert q t) c₁ = (res, c') ∧ ((∃ r, res = .ok r) ∨ res = .error .notFound) := by
  obtain ⟨hK1, hKw⟩ := keysOkB_sound hK
  exact convert_simple_totalN bnd σS_pos hs.near hs.wf hq ht
    ⟨hK1, hKw, fun f hf => factorOkB_sound (hfs f hf), fun f hf => factorOkB_sound (hft f hf), hspec⟩ hdims

theorem simple_units_interconvert_in {c₁ : Conv Rat} (hs : ShippedState c₁) {K : List Dim} (hK : keysOkB K = true)
    {q : Qty Rat} {t : UId} {plan : List (Rough Rat)}
    (hq : q.unit < c₁.st.units.length) (ht : t < c₁.st.units.length)
    (hdqt : c₁.st.dimOfUnit q.unit = c₁.st.dimOfUnit t)
    (hfs : ∀ f ∈ (c₁.st.unit! q.unit).factors, factorOkB K c₁.st σS f = true)
    (hft : ∀ f ∈ (c₁.st.unit! t).factors, factorOkB K c₁.st σS f = true)
    (hspec : matchSpec (splat c₁.st t).byComplexFirst (splat c₁.st q.unit) (splat c₁.st t) [] = some ([], [], plan))
    (hnodes : ∀ r ∈ plan, r.start ∈ fundNodes ∧ r.stop ∈ fundNodes ∧ init.dimOfUnit r.start = init.dimOfUnit r.stop) :
    ∃ r c', CM.exec (convert q t) c₁ = (.ok r, c') := by
  obtain ⟨g, w, f⟩ := hs
  obtain ⟨hK1, hKw⟩ := keysOkB_sound hK
  refine convert_simple_connected bnd σS_pos g w hq ht
    ⟨hK1, hKw, fun f hf => factorOkB_sound (hfs f hf), fun f hf => factorOkB_sound (hft f hf), hspec⟩ hdqt ?_
  intro r hr
  obtain ⟨h1, h2, h3⟩ := hnodes r hr
  obtain ⟨g1, l1⟩ := fund_gcd h1
  obtain ⟨_, l2⟩ := fund_gcd h2
  refine ⟨?_, ?_, ?_⟩
  · rw [f.ext.dimOfUnit l1, f.ext.dimOfUnit l2]; exact h3
  · rw [f.ext.dimOfUnit l1]; exact g1
  · rw [f.ratios]; exact fund_reaches h1 h2 h3

/-- **In every state reached by any valid history of queries and unit operations on the shipped registries**:
    temperatures convert by the affine definitions for every prefix and magnitude (and the state that leaves is
    again such a state); units of one fundamental dimension linked by declarations convert; the path search returns
    for every pair of units of one dimension. -/
theorem after_any_history (ops : List QOp) (hv : ValidHistory shipped ops) :
    let c₁ := ops.foldl QOp.after shipped
    (∀ {a b : String × Rat × Rat}, a ∈ tempScales → b ∈ tempScales → ∀ {q r : Qty Rat} {t : UId} {c' : Conv Rat},
        q.unit < c₁.st.units.length → t < c₁.st.units.length →
        (c₁.st.unit! q.unit).factors = [(uidOf a.1, 1)] → (c₁.st.unit! t).factors = [(uidOf b.1, 1)] →
        CM.exec (convert q t) c₁ = (.ok r, c') →
        r.unit = t ∧ closeTo (coeffs a b).1 (a.2.1 / b.2.1) tol 0 = true ∧
          closeTo (coeffs a b).2 ((a.2.2 - b.2.2) / b.2.1) tol 1000 = true ∧
          r.mag.val = ((coeffs a b).1 * (Pfx.val (c₁.st.unit! q.unit).pfx * q.mag.val) + (coeffs a b).2) *
            (1 / Pfx.val (c₁.st.unit! t).pfx)) ∧
    (∀ {u v : UId}, u ∈ fundNodes → v ∈ fundNodes → init.dimOfUnit u = init.dimOfUnit v → ∀ {q : Qty Rat} {t : UId},
        q.unit < c₁.st.units.length → t < c₁.st.units.length →
        (c₁.st.unit! q.unit).factors = [(u, 1)] → (c₁.st.unit! t).factors = [(v, 1)] →
        ∃ r c', CM.exec (convert q t) c₁ = (.ok r, c')) ∧
    (∀ {start stop : UId}, start < c₁.st.units.length → stop < c₁.st.units.length →
        c₁.st.dimOfUnit start = c₁.st.dimOfUnit stop → ∃ p c', CM.exec (findPath start stop) c₁ = (.ok p, c')) := by
  intro c₁
  have hs : ShippedState c₁ := shippedState_after ops hv
  refine ⟨?_, ?_, ?_⟩
  · intro a b ha hb q r t c' hq ht hsf htf h
    obtain ⟨h1, _, h3, h4, h5, _⟩ := temperature_conversion_core hs ha hb hq ht hsf htf h
    exact ⟨h1, h3, h4, h5⟩
  · intro u v hu hv hd q t hq ht hsf htf
    exact fundamental_units_interconvert_in hs hu hv hd hq ht hsf htf
  · intro start stop h1 h2 h3
    exact path_search_never_raises_in hs h1 h2 h3

/-! ### inhabited: a history with unit operations, a conversion that succeeds and one that is refused -/

def meterI' : UId := (lookup "meter" init.unitByName).getD 0

def sampleHistory : List QOp :=
  [ QOp.units tOps, QOp.convert q25 mF, QOp.convert ⟨.int 3, mF⟩ meterI', QOp.lt ⟨.int 3, mF⟩ q25, QOp.convert ⟨.int 3, mF⟩ kC ]

def sampleValid : Bool :=
  let c1 := (QOp.units tOps).after shipped
  let c2 := (QOp.convert q25 mF).after c1
  let c3 := (QOp.convert ⟨.int 3, mF⟩ meterI').after c2
  let c4 := (QOp.lt ⟨.int 3, mF⟩ q25).after c3
  decide (kC < c1.st.units.length) && decide (mF < c1.st.units.length) &&
  decide (mF < c2.st.units.length) && decide (meterI' < c2.st.units.length) &&
  decide (mF < c3.st.units.length) && decide (kC < c3.st.units.length) &&
  decide (mF < c4.st.units.length) && decide (kC < c4.st.units.length) &&
  -- the second conversion is refused (temperature into a length)
  (match (CM.exec (convert ⟨.int 3, mF⟩ meterI') c2).1 with | .error .notFound => true | _ => false)

theorem sample_valid_check : sampleValid = true := by decide +kernel

set_option maxRecDepth 8000 in
theorem sample_history_valid : ValidHistory shipped sampleHistory := by
  have h := sample_valid_check
  unfold sampleValid at h
  simp only [Bool.and_eq_true, decide_eq_true_eq] at h
  obtain ⟨⟨⟨⟨⟨⟨⟨⟨h1, h2⟩, h3⟩, h4⟩, h5⟩, h6⟩, h7⟩, h8⟩, _⟩ := h
  exact ⟨trivial, ⟨h1, h2⟩, ⟨h3, h4⟩, ⟨h5, h6⟩, ⟨h7, h8⟩, trivial⟩

/-- so the state after that history — one refused conversion in it — is a state of the shipped graph -/
theorem sample_history_state : ShippedState (sampleHistory.foldl QOp.after shipped) :=
  shippedState_after sampleHistory sample_history_valid

end Measured.Obligations.History
