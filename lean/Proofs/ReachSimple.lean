/-
  Proofs/ReachSimple.lean — the reachable states, with conversions through the factor planner
  allowed in the history as well: unit operations, size-consistent declarations, directly settled
  conversions and conversions between simple units, in any order.
-/
import Proofs.PlanSimple

namespace Measured
open St

variable {σ : UId → Rat}

/-- what `convert_simple_exact` asks of the two units -/
structure SimplePair (σ : UId → Rat) (K : List Dim) (c : Conv Rat) (a t : UId) (plan : List (Rough Rat)) : Prop where
  keys   : KeysOK K
  light  : ∀ d ∈ K, d.weight ≤ 1
  srcOK  : ∀ f ∈ (c.st.unit! a).factors, FactorOK K c.st f ∧ f.1 < c.st.units.length ∧ unitSz σ c.st f.1 = σ f.1
  dstOK  : ∀ f ∈ (c.st.unit! t).factors, FactorOK K c.st f ∧ f.1 < c.st.units.length ∧ unitSz σ c.st f.1 = σ f.1
  paired : matchSpec (splat c.st t).byComplexFirst (splat c.st a) (splat c.st t) [] = some ([], [], plan)

inductive Reach2 (σ : UId → Rat) : Conv Rat → Prop
  | init {c : Conv Rat} : GraphOK σ c → GraphWF c → c.offsets = [] → Reach2 σ c
  | units {c : Conv Rat} (ops : List Op) : Reach2 σ c → Reach2 σ { c with st := run c.st ops }
  | equate {c c' : Conv Rat} {a b : Qty Rat} : Reach2 σ c →
      a.unit < c.st.units.length → b.unit < c.st.units.length →
      a.mag.val * unitSz σ c.st a.unit = b.mag.val * unitSz σ c.st b.unit →
      c.st.dimOfUnit a.unit = c.st.dimOfUnit b.unit →
      CM.exec (Measured.equate a b) c = (.ok (), c') → Reach2 σ c'
  | direct {c c' c2 : Conv Rat} {q r : Qty Rat} {t : UId} {p : List (Hop Rat)} : Reach2 σ c →
      q.unit < c.st.units.length → t < c.st.units.length →
      CM.exec (convert q t) c = (.ok r, c') →
      CM.exec (findPath q.unit t) { c with st := ((c.st.unprefixedUnit q.unit).1.unprefixedUnit t).1 } = (.ok p, c2) →
      p ≠ [] → Reach2 σ c'
  | simple {c c' : Conv Rat} {q r : Qty Rat} {t : UId} {K : List Dim} {plan : List (Rough Rat)} : Reach2 σ c →
      q.unit < c.st.units.length → t < c.st.units.length → SimplePair σ K c q.unit t plan →
      CM.exec (convert q t) c = (.ok r, c') → Reach2 σ c'

theorem reach2_graphOK (hσ : ∀ k, σ k ≠ 0) {c : Conv Rat} (h : Reach2 σ c) :
    GraphOK σ c ∧ c.offsets = [] ∧ GraphWF c := by
  induction h with
  | init hg hw ho => exact ⟨hg, ho, hw⟩
  | units ops _ ih =>
    obtain ⟨g, f⟩ := units_graphOK ih.1 ops
    exact ⟨g, ih.2.1, ih.2.2.frame ih.1 f⟩
  | equate _ ha hb hc hdim hx ih =>
    obtain ⟨g, _, ho, hw, _⟩ := equate_graphOK ih.1 ha hb hc hx
    exact ⟨g, by rw [ho]; exact ih.2.1, hw ih.2.2 hdim⟩
  | direct _ hq ht hx hp hne ih =>
    obtain ⟨_, d, c2', hfp, hd⟩ := convert_direct_exact hσ ih.1 hq ht ih.2.1 hx
    rw [hp] at hfp
    simp only [Prod.mk.injEq, Except.ok.injEq] at hfp
    obtain ⟨rfl, rfl⟩ := hfp
    obtain ⟨_, g, f⟩ := hd hne
    exact ⟨g, by rw [f.offsets]; exact ih.2.1, ih.2.2.frame ih.1 f⟩
  | simple _ hq ht hsp hx ih =>
    obtain ⟨_, _, g, f⟩ := convert_simple_exact hσ hsp.keys hsp.light ih.1 ih.2.2 ih.2.1 hq ht hsp.srcOK hsp.dstOK hsp.paired hx
    exact ⟨g, by rw [f.offsets]; exact ih.2.1, ih.2.2.frame ih.1 f⟩

theorem Reach2.ofReach {c : Conv Rat} (h : Reach σ c) : Reach2 σ c := by
  induction h with
  | init hg hw ho => exact Reach2.init hg hw ho
  | units ops _ ih => exact Reach2.units ops ih
  | equate _ ha hb hc hdim hx ih => exact Reach2.equate ih ha hb hc hdim hx
  | direct _ hq ht hx hp hne ih => exact Reach2.direct ih hq ht hx hp hne

end Measured
