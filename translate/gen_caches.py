"""Translator: the memoisation discipline of measured/conversions.py, read from its AST
-> lean/Generated/Caches.lean.

Emitted: the functions decorated with lru_cache, which of them (transitively) read the
conversion graph `_ratios` / `_offsets`, and for every function that *writes* the graph the
caches it clears unconditionally at the end of its body.
"""
import ast
import os
import sys

sys.path.insert(0, os.path.dirname(os.path.abspath(__file__)))
from common import GEN, REPO, lean_list, lean_str, write_if_changed  # noqa: E402

GRAPH_NAMES = {"_ratios", "_offsets"}


def is_lru(dec):
    src = ast.unparse(dec)
    return "lru_cache" in src or src.endswith(".cache") or src == "cache"


def main():
    path = os.path.join(REPO, "src", "measured", "conversions.py")
    tree = ast.parse(open(path, encoding="utf-8").read())
    funcs = {n.name: n for n in tree.body if isinstance(n, ast.FunctionDef)}
    cached = [n for n, f in funcs.items() if any(is_lru(d) for d in f.decorator_list)]

    def names_read(f):
        return {n.id for n in ast.walk(f) if isinstance(n, ast.Name)}

    def calls(f):
        out = set()
        for n in ast.walk(f):
            if isinstance(n, ast.Call) and isinstance(n.func, ast.Name) and n.func.id in funcs:
                out.add(n.func.id)
        return out

    reads = {n for n, f in funcs.items() if names_read(f) & GRAPH_NAMES}
    changed = True
    while changed:
        changed = False
        for n, f in funcs.items():
            if n not in reads and calls(f) & reads:
                reads.add(n)
                changed = True

    def writes_graph(f):
        for n in ast.walk(f):
            targets = []
            if isinstance(n, ast.Assign):
                targets = n.targets
            elif isinstance(n, (ast.AugAssign, ast.AnnAssign)):
                targets = [n.target]
            elif isinstance(n, ast.Delete):
                targets = n.targets
            for t in targets:
                base = t
                while isinstance(base, ast.Subscript):
                    base = base.value
                if isinstance(base, ast.Name) and base.id in GRAPH_NAMES and isinstance(t, ast.Subscript):
                    return True
            if isinstance(n, ast.Call) and isinstance(n.func, ast.Attribute):
                base = n.func.value
                while isinstance(base, ast.Subscript):
                    base = base.value
                if isinstance(base, ast.Name) and base.id in GRAPH_NAMES and n.func.attr in (
                        "clear", "pop", "update", "setdefault", "popitem"):
                    return True
        return False

    direct_writers = {n for n, f in funcs.items() if writes_graph(f)}
    # a function "performs a write" if it writes the graph itself or calls one that does
    performs = set(direct_writers)
    changed = True
    while changed:
        changed = False
        for n, f in funcs.items():
            if n not in performs and calls(f) & performs:
                performs.add(n)
                changed = True

    def stmt_performs_write(st):
        m = ast.Module(body=[st], type_ignores=[])
        if writes_graph(m):
            return True
        return any(isinstance(c, ast.Call) and isinstance(c.func, ast.Name) and c.func.id in performs for c in ast.walk(m))

    def clears_of(stmts, seen=()):
        """caches unconditionally cleared by a statement list: `<fn>.cache_clear()`, a call of a module
        function that does so, a `for` over a literal tuple/list of cached functions, `with`/`try` blocks"""
        out = set()
        for st in stmts:
            if isinstance(st, ast.Expr) and isinstance(st.value, ast.Call):
                c = st.value
                if isinstance(c.func, ast.Attribute) and c.func.attr == "cache_clear" and isinstance(c.func.value, ast.Name):
                    out.add(c.func.value.id)
                elif isinstance(c.func, ast.Name) and c.func.id in funcs and c.func.id not in seen:
                    out |= clears_of(funcs[c.func.id].body, seen + (c.func.id,))
            elif isinstance(st, ast.For) and isinstance(st.iter, (ast.Tuple, ast.List)) and isinstance(st.target, ast.Name):
                names = [e.id for e in st.iter.elts if isinstance(e, ast.Name)]
                for b in st.body:
                    if isinstance(b, ast.Expr) and isinstance(b.value, ast.Call) and isinstance(b.value.func, ast.Attribute) \
                            and b.value.func.attr == "cache_clear" and isinstance(b.value.func.value, ast.Name) \
                            and b.value.func.value.id == st.target.id:
                        out |= set(names)
            elif isinstance(st, ast.With):
                out |= clears_of(st.body, seen)
            elif isinstance(st, ast.Try):
                out |= clears_of(st.finalbody, seen)
                if not st.handlers:
                    out |= clears_of(st.body, seen)
        return out

    def cleared(f):
        """caches cleared unconditionally after the last statement that performs a graph write"""
        last_write = -1
        for i, st in enumerate(f.body):
            if stmt_performs_write(st):
                last_write = i
        tail = []
        for st in f.body[last_write + 1:]:
            # a statement that can leave the function (return / raise somewhere inside it) ends the part of the
            # body that is executed unconditionally: clears after it do not count
            if any(isinstance(n, (ast.Return, ast.Raise)) for n in ast.walk(st)):
                break
            tail.append(st)
        out = clears_of(tail)
        # a write inside `try:` with the clearing in `finally:` / inside a `with` block that also clears
        if last_write >= 0 and isinstance(f.body[last_write], ast.Try):
            out |= clears_of(f.body[last_write].finalbody)
        return sorted(out)

    # entry points: functions that perform a write and are public, or are not called by any other function
    # of the module (a private helper called only from checked entry points is covered by its callers)
    called_by_others = set()
    for n, f in funcs.items():
        called_by_others |= {c for c in calls(f) if c != n}
    mutators = [(n, cleared(funcs[n])) for n in funcs
                if n in performs and (not n.startswith("_") or n not in called_by_others)]
    L = ["-- GENERATED by /verif/translate/gen_caches.py from the AST of measured/conversions.py. Do not edit.",
         "namespace Measured.Generated", "",
         "/-- functions decorated with lru_cache -/",
         "def cachedFns : List String := %s" % lean_list([lean_str(c) for c in cached]),
         "/-- functions that (transitively) read `_ratios` / `_offsets` -/",
         "def graphReaders : List String := %s" % lean_list([lean_str(c) for c in sorted(reads)]),
         "/-- functions that write the graph, with the caches each clears afterwards -/",
         "def graphMutators : List (String × List String) := %s" % lean_list(
             ["(%s, %s)" % (lean_str(n), lean_list([lean_str(c) for c in cs])) for n, cs in mutators]),
         "", "end Measured.Generated"]
    changed = write_if_changed(os.path.join(GEN, "Caches.lean"), "\n".join(L) + "\n")
    print('{"cached": %r, "mutators": %r, "changed": %s}' % (cached, mutators, str(changed).lower()))


if __name__ == "__main__":
    main()
