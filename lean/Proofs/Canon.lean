/-
  Proofs/Canon.lean — canonical keys: factor mappings that denote the same finite map
  base-unit ↦ exponent have the same intern key, and the intern table never holds two
  records with one key.  The basis of C02 (object identity of equal expressions).
-/
import Proofs.ResultDim
import Mathlib.Data.List.Nodup

namespace Measured
open St

/-! ### sortedness of the structural insertion sort -/

def keyLe (a b : Nat × Int) : Bool := decide (a.1 ≤ b.1)

theorem keyLe_total (a b : Nat × Int) : keyLe a b = true ∨ keyLe b a = true := by
  unfold keyLe; simp only [decide_eq_true_eq]; omega

theorem keyLe_trans {a b c : Nat × Int} (h1 : keyLe a b = true) (h2 : keyLe b c = true) :
    keyLe a c = true := by
  unfold keyLe at *; simp only [decide_eq_true_eq] at *; omega

theorem insertBy_pairwise {x : UId × Int} {l : List (UId × Int)}
    (h : l.Pairwise (fun a b => keyLe a b = true)) :
    (insertBy keyLe x l).Pairwise (fun a b => keyLe a b = true) := by
  induction l with
  | nil => simp [insertBy]
  | cons y rest ih =>
    unfold insertBy
    have hy := List.pairwise_cons.1 h
    split
    · next hxy =>
      refine List.pairwise_cons.2 ⟨?_, h⟩
      intro z hz
      rcases List.mem_cons.1 hz with rfl | hz
      · exact hxy
      · exact keyLe_trans hxy (hy.1 z hz)
    · next hxy =>
      have hyx : keyLe y x = true := by
        rcases keyLe_total x y with h' | h'
        · exact absurd h' hxy
        · exact h'
      refine List.pairwise_cons.2 ⟨?_, ih hy.2⟩
      intro z hz
      have := (insertBy_perm keyLe x rest).mem_iff.1 hz
      rcases List.mem_cons.1 this with rfl | hz'
      · exact hyx
      · exact hy.1 z hz'

theorem sortKey_pairwise (fs : Factors) : (sortKey fs).Pairwise (fun a b => keyLe a b = true) := by
  unfold sortKey isort
  induction fs with
  | nil => simp
  | cons x rest ih => simp only [List.foldr_cons]; exact insertBy_pairwise ih

/-- Keys (first components) are pairwise distinct. -/
def NodupKeys (fs : Factors) : Prop := (fs.map (·.1)).Nodup

theorem nodupKeys_nodup {fs : Factors} (h : NodupKeys fs) : fs.Nodup :=
  List.Nodup.of_map _ h

theorem nodupKeys_inj {fs : Factors} (h : NodupKeys fs) {a b : UId × Int}
    (ha : a ∈ fs) (hb : b ∈ fs) (hk : a.1 = b.1) : a = b := by
  unfold NodupKeys at h
  exact List.inj_on_of_nodup_map h ha hb hk

/-- Two permutation-equal factor lists with distinct keys have the same sorted key. -/
theorem sortKey_eq_of_perm {a b : Factors} (hp : a.Perm b) (hn : NodupKeys a) :
    sortKey a = sortKey b := by
  have hpk : (sortKey a).Perm (sortKey b) :=
    (sortKey_perm a).trans (hp.trans (sortKey_perm b).symm)
  refine List.Perm.eq_of_pairwise ?_ (sortKey_pairwise a) (sortKey_pairwise b) hpk
  intro x y hx hy hxy hyx
  have hxa : x ∈ a := (sortKey_perm a).mem_iff.1 hx
  have hya : y ∈ a := hp.mem_iff.2 ((sortKey_perm b).mem_iff.1 hy)
  unfold keyLe at hxy hyx
  simp only [decide_eq_true_eq] at hxy hyx
  exact nodupKeys_inj hn hxa hya (Nat.le_antisymm hxy hyx)

/-! ### the finite map a factor list denotes -/

/-- The exponent of base unit `k` in `fs` (sum over its occurrences). -/
def expOf (fs : Factors) (k : UId) : Int :=
  fs.foldr (fun f acc => (if f.1 = k then f.2 else 0) + acc) 0

@[simp] theorem expOf_nil (k : UId) : expOf [] k = 0 := rfl
@[simp] theorem expOf_cons (f : UId × Int) (fs : Factors) (k : UId) :
    expOf (f :: fs) k = (if f.1 = k then f.2 else 0) + expOf fs k := rfl

theorem expOf_of_not_mem {fs : Factors} {k : UId} (h : k ∉ fs.map (·.1)) : expOf fs k = 0 := by
  induction fs with
  | nil => rfl
  | cons f rest ih =>
    simp only [List.map_cons, List.mem_cons, not_or] at h
    simp only [expOf_cons]
    rw [if_neg (fun e => h.1 e.symm), ih h.2]; simp

theorem expOf_of_mem {fs : Factors} (hn : NodupKeys fs) {f : UId × Int} (hf : f ∈ fs) :
    expOf fs f.1 = f.2 := by
  induction fs with
  | nil => cases hf
  | cons g rest ih =>
    unfold NodupKeys at hn
    simp only [List.map_cons, List.nodup_cons] at hn
    simp only [expOf_cons]
    rcases List.mem_cons.1 hf with rfl | hf
    · simp only [↓reduceIte]
      rw [expOf_of_not_mem hn.1]; simp
    · have hne : g.1 ≠ f.1 := by
        intro e
        exact hn.1 (e ▸ List.mem_map_of_mem hf)
      rw [if_neg hne, ih hn.2 hf]; simp

/-- A simplified factor list: distinct keys, no zero exponent. -/
structure Simp (fs : Factors) : Prop where
  nodup : NodupKeys fs
  nonzero : ∀ f ∈ fs, f.2 ≠ 0

theorem mem_iff_expOf {fs : Factors} (h : Simp fs) (f : UId × Int) :
    f ∈ fs ↔ expOf fs f.1 = f.2 ∧ f.2 ≠ 0 := by
  constructor
  · intro hf; exact ⟨expOf_of_mem h.nodup hf, h.nonzero f hf⟩
  · intro ⟨he, hz⟩
    by_cases hk : f.1 ∈ fs.map (·.1)
    · obtain ⟨g, hg, hgk⟩ := List.mem_map.1 hk
      have := expOf_of_mem h.nodup hg
      rw [hgk, he] at this
      have : g = f := Prod.ext hgk this.symm
      exact this ▸ hg
    · rw [expOf_of_not_mem hk] at he; exact absurd he.symm hz

/-- **Canonical form.**  Two simplified factor lists denoting the same finite map have
    the same intern key. -/
theorem sortKey_eq_of_expOf {a b : Factors} (ha : Simp a) (hb : Simp b)
    (h : ∀ k, expOf a k = expOf b k) : sortKey a = sortKey b := by
  apply sortKey_eq_of_perm _ ha.nodup
  apply (List.perm_ext_iff_of_nodup (nodupKeys_nodup ha.nodup) (nodupKeys_nodup hb.nodup)).2
  intro f
  rw [mem_iff_expOf ha, mem_iff_expOf hb, h]

/-! ### the factor helpers on finite maps -/

theorem keys_insertAdd (fs : Factors) (k : UId) (e : Int) :
    (insertAdd fs k e).map (·.1) = if k ∈ fs.map (·.1) then fs.map (·.1) else fs.map (·.1) ++ [k] := by
  induction fs with
  | nil => simp [insertAdd]
  | cons f rest ih =>
    unfold insertAdd
    split
    · next hk => subst hk; simp
    · next hk =>
      simp only [List.map_cons, ih, List.mem_cons]
      have : ¬ k = f.1 := fun e => hk e.symm
      simp only [this, false_or]
      split <;> simp

theorem nodupKeys_insertAdd {fs : Factors} (h : NodupKeys fs) (k : UId) (e : Int) :
    NodupKeys (insertAdd fs k e) := by
  unfold NodupKeys at *
  rw [keys_insertAdd]
  split
  · exact h
  · next hk =>
    rw [List.nodup_append]
    refine ⟨h, by simp, ?_⟩
    intro a ha b hb
    simp at hb; subst hb
    intro e; exact hk (e ▸ ha)

theorem nodupKeys_mergeAdd {a : Factors} (h : NodupKeys a) (b : Factors) : NodupKeys (mergeAdd a b) := by
  unfold mergeAdd
  induction b generalizing a with
  | nil => exact h
  | cons p rest ih => simp only [List.foldl_cons]; exact ih (nodupKeys_insertAdd h _ _)

theorem expOf_insertAdd (fs : Factors) (k : UId) (e : Int) (k' : UId) :
    expOf (insertAdd fs k e) k' = expOf fs k' + (if k = k' then e else 0) := by
  induction fs with
  | nil => simp [insertAdd]
  | cons f rest ih =>
    unfold insertAdd
    split
    · next hk =>
      subst hk
      simp only [expOf_cons]
      split <;> omega
    · next hk =>
      simp only [expOf_cons, ih]
      omega

theorem expOf_mergeAdd (a b : Factors) (k : UId) : expOf (mergeAdd a b) k = expOf a k + expOf b k := by
  unfold mergeAdd
  induction b generalizing a with
  | nil => simp
  | cons p rest ih =>
    simp only [List.foldl_cons, ih, expOf_insertAdd, expOf_cons]
    omega

theorem expOf_map_mul (fs : Factors) (n : Int) (k : UId) :
    expOf (fs.map (fun p => (p.1, p.2 * n))) k = expOf fs k * n := by
  induction fs with
  | nil => simp
  | cons f rest ih =>
    simp only [List.map_cons, expOf_cons, ih]
    split <;> simp [Int.add_mul]

theorem expOf_negate (fs : Factors) (k : UId) : expOf (negate fs) k = - expOf fs k := by
  unfold negate
  induction fs with
  | nil => simp
  | cons f rest ih =>
    simp only [List.map_cons, expOf_cons, ih]
    split <;> omega

theorem nodupKeys_map {fs : Factors} (h : NodupKeys fs) (g : Int → Int) :
    NodupKeys (fs.map (fun p => (p.1, g p.2))) := by
  unfold NodupKeys at *
  rw [List.map_map]
  exact h

theorem nodupKeys_negate {fs : Factors} (h : NodupKeys fs) : NodupKeys (negate fs) :=
  nodupKeys_map h (fun e => -e)

theorem nodupKeys_filter {fs : Factors} (h : NodupKeys fs) (p : UId × Int → Bool) :
    NodupKeys (fs.filter p) := by
  unfold NodupKeys at *
  exact List.Nodup.sublist (List.Sublist.map _ List.filter_sublist) h

theorem expOf_filter {fs : Factors} (p : UId × Int → Bool) (k : UId)
    (hp : ∀ f ∈ fs, f.1 = k → p f = false → f.2 = 0) :
    expOf (fs.filter p) k = expOf fs k := by
  induction fs with
  | nil => rfl
  | cons f rest ih =>
    have hr : ∀ g ∈ rest, g.1 = k → p g = false → g.2 = 0 := fun g hg => hp g (List.mem_cons_of_mem _ hg)
    rw [List.filter_cons]
    split
    · simp only [expOf_cons, ih hr]
    · next hpf =>
      rw [ih hr, expOf_cons]
      split
      · next hk => rw [hp f List.mem_cons_self hk (by simpa using hpf)]; simp
      · simp

/-- What `simplify` returns is `Simp`, or the dimensionless marker `[(one, 1)]`. -/
theorem simplify_cases (one : UId) (fs : Factors) :
    (simplify one fs = [(one, 1)] ∧ (fs.filter (fun p => p.1 != one && p.2 != 0)) = []) ∨
    (simplify one fs = fs.filter (fun p => p.1 != one && p.2 != 0) ∧
      (fs.filter (fun p => p.1 != one && p.2 != 0)) ≠ []) := by
  unfold simplify
  simp only
  split
  · next h => exact Or.inl ⟨rfl, List.isEmpty_iff.1 h⟩
  · next h => exact Or.inr ⟨rfl, fun e => h (by rw [e]; rfl)⟩

theorem simp_simplify {one : UId} {fs : Factors} (h : NodupKeys fs) : Simp (simplify one fs) := by
  rcases simplify_cases one fs with ⟨e, _⟩ | ⟨e, _⟩
  · rw [e]; exact ⟨by simp [NodupKeys], by simp⟩
  · rw [e]
    refine ⟨nodupKeys_filter h _, ?_⟩
    intro f hf
    have := (List.mem_filter.1 hf).2
    simp only [Bool.and_eq_true, bne_iff_ne, ne_eq] at this
    exact this.2

/-- The finite map of `simplify one fs`, away from `one`. -/
theorem expOf_simplify {one : UId} (fs : Factors) {k : UId} (hk : k ≠ one) :
    expOf (simplify one fs) k = expOf fs k := by
  have hf : expOf (fs.filter (fun p => p.1 != one && p.2 != 0)) k = expOf fs k := by
    apply expOf_filter
    intro f _ hfk hp
    simp only [Bool.and_eq_false_iff, bne_eq_false_iff_eq] at hp
    rcases hp with hp | hp
    · exact absurd (hfk ▸ hp) hk
    · exact hp
  rcases simplify_cases one fs with ⟨e, he⟩ | ⟨e, _⟩
  · rw [e, ← hf, he]
    simp only [expOf_cons, expOf_nil]
    rw [if_neg (fun e => hk e.symm)]; simp
  · rw [e, hf]

/-- Two factor lists with the same finite map away from `one` simplify to the same key. -/
theorem sortKey_simplify_congr {one : UId} {a b : Factors} (ha : NodupKeys a) (hb : NodupKeys b)
    (h : ∀ k, k ≠ one → expOf a k = expOf b k) :
    sortKey (simplify one a) = sortKey (simplify one b) := by
  -- compare the filtered lists
  have sa : Simp (a.filter (fun p => p.1 != one && p.2 != 0)) :=
    ⟨nodupKeys_filter ha _, fun f hf => by
      have := (List.mem_filter.1 hf).2
      simp only [Bool.and_eq_true, bne_iff_ne, ne_eq] at this; exact this.2⟩
  have sb : Simp (b.filter (fun p => p.1 != one && p.2 != 0)) :=
    ⟨nodupKeys_filter hb _, fun f hf => by
      have := (List.mem_filter.1 hf).2
      simp only [Bool.and_eq_true, bne_iff_ne, ne_eq] at this; exact this.2⟩
  have hfa : ∀ (x : Factors) k, expOf (x.filter (fun p => p.1 != one && p.2 != 0)) k =
      if k = one then 0 else expOf x k := by
    intro x k
    by_cases hk : k = one
    · rw [if_pos hk]
      apply expOf_of_not_mem
      intro hm
      obtain ⟨g, hg, hgk⟩ := List.mem_map.1 hm
      have := (List.mem_filter.1 hg).2
      simp only [Bool.and_eq_true, bne_iff_ne, ne_eq] at this
      exact this.1 (hgk.trans hk)
    · rw [if_neg hk]
      apply expOf_filter
      intro f _ hfk hp
      simp only [Bool.and_eq_false_iff, bne_eq_false_iff_eq] at hp
      rcases hp with hp | hp
      · exact absurd (hfk ▸ hp) hk
      · exact hp
  have hperm : (a.filter (fun p => p.1 != one && p.2 != 0)).Perm (b.filter (fun p => p.1 != one && p.2 != 0)) := by
    apply (List.perm_ext_iff_of_nodup (nodupKeys_nodup sa.nodup) (nodupKeys_nodup sb.nodup)).2
    intro f
    rw [mem_iff_expOf sa, mem_iff_expOf sb, hfa, hfa]
    by_cases hk : f.1 = one
    · simp [hk]
    · simp only [hk, ↓reduceIte, h f.1 hk]
  rcases simplify_cases one a with ⟨ea, ha0⟩ | ⟨ea, ha0⟩
  · rcases simplify_cases one b with ⟨eb, _⟩ | ⟨_, hb0⟩
    · rw [ea, eb]
    · rw [ha0] at hperm
      exact absurd (List.Perm.nil_eq hperm).symm hb0
  · rcases simplify_cases one b with ⟨_, hb0⟩ | ⟨eb, _⟩
    · rw [hb0] at hperm
      exact absurd (List.Perm.eq_nil hperm) ha0
    · rw [ea, eb]; exact sortKey_eq_of_perm hperm sa.nodup

end Measured
