"""Translator: the shipped generated parser (`measured/_parser.py`: DATA, MEMO) and a parser
freshly built from `measured/measured.lark` by the installed lark with the Makefile's
options  ->  lean/Generated/Grammar.lean.

Emitted for each of the two parsers: rules (origin, expansion, alias, filter_out flags are
implied by the `_` prefix), terminals (name, pattern type, pattern text, flags, priority),
the ignore list, lexer type, the LALR table (state -> symbol -> shift/goto n | reduce r),
start/end states per start symbol, and lark's terminal scan order.  Also a *candidate*
state bijection between the two tables, found by a BFS from the start states; Lean
re-checks it (it is an untrusted certificate).
"""
import os
import re
import sys

sys.path.insert(0, os.path.dirname(os.path.abspath(__file__)))
from common import GEN, REPO, ensure_repo_on_path, lean_list, lean_str, write_if_changed  # noqa: E402

ensure_repo_on_path()


def makefile_args():
    """The command-line arguments of the Makefile rule that generates _parser.py
    (`python -m lark.tools.standalone ARGS $<`), without the grammar file."""
    text = open(os.path.join(REPO, "Makefile"), encoding="utf-8").read()
    m = re.search(r"lark\.tools\.standalone([^\n|]*)", text)
    if not m:
        return ["--start", "unit", "--start", "quantity"], False
    return [a for a in m.group(1).split() if a not in ("$<", "\\")], True


def makefile_starts():
    args, found = makefile_args()
    return [args[i + 1] for i, a in enumerate(args[:-1]) if a in ("--start", "-s")], found


def normalise(data, memo):
    """Turn lark's serialised form into plain python structures."""
    def deref(x):
        if isinstance(x, dict) and set(x.keys()) == {"@"}:
            return memo[x["@"]]
        return x

    pdata = data["parser"]
    lex = pdata["lexer_conf"]
    terms = []
    for t in lex["terminals"]:
        t = deref(t)
        pat = t["pattern"]
        width = pat.get("_width")
        if width is None:
            # PatternStr: width is the literal's length
            width = [len(pat["value"]), len(pat["value"])]
        terms.append({
            "name": str(t["name"]), "ptype": pat["__type__"], "value": pat["value"],
            "flags": sorted(pat.get("flags", [])), "priority": t["priority"],
            "max_width": width[1],
        })
    rules = []
    for r in data["rules"]:
        r = deref(r)
        rules.append({
            "origin": str(r["origin"]["name"]),
            "expansion": [str(s["name"]) for s in r["expansion"]],
            "filter_out": [bool(s.get("filter_out", False)) for s in r["expansion"]],
            "is_term": [s["__type__"] == "Terminal" for s in r["expansion"]],
            "alias": r["alias"], "order": r["order"],
            "expand1": r["options"]["expand1"], "keep_all": r["options"]["keep_all_tokens"],
        })
    rule_index = {}
    for i, r in enumerate(data["rules"]):
        if isinstance(r, dict) and set(r.keys()) == {"@"}:
            rule_index[r["@"]] = i
    p = pdata["parser"]
    tokens = p["tokens"]
    states = {}
    for st, row in p["states"].items():
        out = {}
        for tok, (act, arg) in row.items():
            name = str(tokens[tok])
            if act == 0:
                out[name] = ("shift", int(arg))
            else:
                out[name] = ("reduce", rule_index[arg["@"]])
        states[int(st)] = out
    # lark's terminal scan order: TraditionalLexer sorts by
    # (-priority, -max_width, -len(pattern.value), name)
    order = [t["name"] for t in sorted(
        terms, key=lambda t: (-t["priority"], -t["max_width"], -len(t["value"]), t["name"]))]
    return {
        "terms": terms, "rules": rules, "states": states,
        "start_states": {str(k): int(v) for k, v in p["start_states"].items()},
        "end_states": {str(k): int(v) for k, v in p["end_states"].items()},
        "ignore": [str(x) for x in lex["ignore"]],
        "lexer_type": str(lex["lexer_type"]), "g_regex_flags": int(lex["g_regex_flags"]),
        "parser_type": str(pdata["parser_conf"]["parser_type"]),
        "starts": [str(s) for s in pdata["parser_conf"]["start"]],
        "order": order,
        "options": {k: data["options"][k] for k in (
            "keep_all_tokens", "maybe_placeholders", "parser", "lexer", "priority", "ambiguity", "regex")},
    }


def shipped():
    from measured import _parser
    return normalise(_parser.DATA, _parser.MEMO)


def fresh(starts):
    """The parser the Makefile rule would generate now: lark's standalone tool builds it with
    `build_lalr(lalr_argparser.parse_args(ARGS + [grammar]))`; the same call is made here."""
    import lark
    from lark.tools import build_lalr, lalr_argparser
    path = os.path.join(REPO, "src", "measured", "measured.lark")
    args, _ = makefile_args()
    ns = lalr_argparser.parse_args(args + [path])
    try:
        inst, _out = build_lalr(ns)
    finally:
        ns.grammar_file.close()
    data, memo = inst.memo_serialize([lark.lexer.TerminalDef, lark.grammar.Rule])
    return renumber(normalise(data, memo)), lark.__version__


def renumber(g):
    """lark numbers LALR states in set-iteration order, which varies with the hash seed: give
    the states a canonical numbering (BFS from the start states, symbols in sorted order)."""
    new = {}
    queue = []
    for name in g["starts"]:
        st = g["start_states"][name]
        if st not in new:
            new[st] = len(new)
            queue.append(st)
    while queue:
        s = queue.pop(0)
        for sym in sorted(g["states"][s]):
            act, arg = g["states"][s][sym]
            if act == "shift" and arg not in new:
                new[arg] = len(new)
                queue.append(arg)
    for st in sorted(g["states"]):          # unreachable states, if any, keep a stable place
        if st not in new:
            new[st] = len(new)
    g["states"] = {new[st]: {sym: (act, new[arg] if act == "shift" else arg) for sym, (act, arg) in row.items()}
                   for st, row in g["states"].items()}
    g["start_states"] = {k: new[v] for k, v in g["start_states"].items()}
    g["end_states"] = {k: new[v] for k, v in g["end_states"].items()}
    return g


def find_iso(a, b):
    """BFS from the start states pairing states reached by the same symbol."""
    phi = {}
    queue = []
    for name, st in a["start_states"].items():
        if name in b["start_states"]:
            phi[st] = b["start_states"][name]
            queue.append(st)
    while queue:
        s = queue.pop(0)
        ra, rb = a["states"].get(s, {}), b["states"].get(phi[s], {})
        for sym, (act, arg) in ra.items():
            if act == "shift" and sym in rb and rb[sym][0] == "shift":
                if arg not in phi:
                    phi[arg] = rb[sym][1]
                    queue.append(arg)
    return sorted(phi.items())


def rule_perm(a, b):
    """rule index in a -> index of the identical rule in b (by origin/expansion/alias)."""
    key = lambda r: (r["origin"], tuple(r["expansion"]), r["alias"])
    idx = {key(r): i for i, r in enumerate(b["rules"])}
    return [(i, idx.get(key(r), len(b["rules"]))) for i, r in enumerate(a["rules"])]


def emit_parser(name, g, row_order=None):
    L = []
    L.append("def %s.rules : List GRule := [" % name)
    L.append(",\n".join(
        "  { origin := %s, expansion := %s, alias := %s }" % (
            lean_str(r["origin"]), lean_list([lean_str(s) for s in r["expansion"]]),
            "none" if r["alias"] is None else "some %s" % lean_str(r["alias"]))
        for r in g["rules"]))
    L.append("]")
    L.append("/-- per rule: (filter_out, is_term) of every expansion symbol, expand1, keep_all_tokens -/")
    L.append("def %s.ruleOptions : List (List (Bool × Bool) × Bool × Bool) := [" % name)
    L.append(",\n".join(
        "  (%s, %s, %s)" % (
            lean_list(["(%s, %s)" % (str(f).lower(), str(t).lower()) for f, t in zip(r["filter_out"], r["is_term"])]),
            str(bool(r["expand1"])).lower(), str(bool(r["keep_all"])).lower())
        for r in g["rules"]))
    L.append("]")
    L.append("/-- name, pattern type, pattern text, flags, priority -/")
    L.append("def %s.terminals : List (String × String × String × List String × Int) := [" % name)
    L.append(",\n".join(
        "  (%s, %s, %s, %s, %d)" % (
            lean_str(t["name"]), lean_str(t["ptype"]), lean_str(t["value"]),
            lean_list([lean_str(f) for f in t["flags"]]), t["priority"])
        for t in sorted(g["terms"], key=lambda t: t["name"])))
    L.append("]")
    L.append("def %s.table : LRTable := { states := [" % name)
    rows = []
    order = sorted(g["states"])
    if row_order is not None:
        # a dict has no order of its own: list the rows in the order induced by the candidate
        # state bijection (remaining states after), so that Lean can compare with plain equality
        first = [q for q in row_order if q in g["states"]]
        order = first + [q for q in order if q not in set(first)]
    for st in order:
        cells = []
        for sym in sorted(g["states"][st]):
            act, arg = g["states"][st][sym]
            cells.append("(%s, .%s %d)" % (lean_str(sym), act, arg))
        rows.append("  (%d, %s)" % (st, lean_list(cells)))
    L.append(",\n".join(rows))
    L.append("] }")
    L.append("def %s.ignore : List String := %s" % (name, lean_list([lean_str(x) for x in g["ignore"]])))
    L.append("def %s.lexOrder : List String := %s" % (name, lean_list([lean_str(x) for x in g["order"]])))
    L.append("def %s.config : List String := %s" % (name, lean_list([lean_str(x) for x in [
        "lexer_type=" + g["lexer_type"], "parser_type=" + g["parser_type"],
        "g_regex_flags=%d" % g["g_regex_flags"], "starts=" + ",".join(g["starts"]),
    ] + ["%s=%s" % (k, g["options"][k]) for k in sorted(g["options"])]])))
    L.append("def %s.grammar : Grammar :=" % name)
    L.append("  { table := %s.table, rules := %s.rules," % (name, name))
    L.append("    startUnit := %d, endUnit := %d, startQty := %d, endQty := %d," % (
        g["start_states"].get("unit", 0), g["end_states"].get("unit", 0),
        g["start_states"].get("quantity", 0), g["end_states"].get("quantity", 0)))
    L.append("    lexOrder := %s.lexOrder, ignore := %s.ignore," % (name, name))
    L.append("    patterns := %s.terminals.map (fun t => (t.1, t.2.1 == \"PatternRE\", t.2.2.1)) }" % name)
    L.append("")
    return L


def main():
    starts, found = makefile_starts()
    a = shipped()
    b, lark_version = fresh(starts)
    L = []
    L.append("-- GENERATED by /verif/translate/gen_grammar.py from measured/_parser.py (DATA, MEMO) and from")
    L.append("-- measured/measured.lark compiled by lark %s with the Makefile's --start options. Do not edit." % lark_version)
    L.append("import Model.Text")
    L.append("namespace Measured.Generated")
    L.append("open Measured")
    L.append("")
    L.append("def makefileStarts : List String := %s" % lean_list([lean_str(s) for s in starts]))
    L.append("def makefileRuleFound : Bool := %s" % str(found).lower())
    iso = find_iso(a, b)
    L += emit_parser("shipped", a)
    L += emit_parser("fresh", b, row_order=[q2 for _q, q2 in iso])
    L.append("/-- candidate state bijection shipped -> fresh (untrusted; re-checked in Lean) -/")
    L.append("def stateIso : List (Nat × Nat) := %s" % lean_list(["(%d, %d)" % p for p in iso]))
    L.append("/-- rule renumbering shipped -> fresh (by identical origin/expansion/alias) -/")
    L.append("def rulePerm : List (Nat × Nat) := %s" % lean_list(["(%d, %d)" % p for p in rule_perm(a, b)]))
    L.append("")
    L.append("end Measured.Generated")
    changed = write_if_changed(os.path.join(GEN, "Grammar.lean"), "\n".join(L) + "\n")
    print('{"rules": %d, "terminals": %d, "states": %d, "fresh_states": %d, "changed": %s}' % (
        len(a["rules"]), len(a["terms"]), len(a["states"]), len(b["states"]), str(changed).lower()))


if __name__ == "__main__":
    main()
