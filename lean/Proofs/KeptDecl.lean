/-
  Proofs/KeptDecl.lean — histories with DECLARATIONS in them.  `Unit.equals` (`equate`) and
  `Dimension.scale`'s `translate` write the graph tables, so they are not `Framed`; but they intern
  only the unprefixed forms of their two operands and touch no name registry.  Hence: through every
  history of declarations, queries and unit operations — each about units that exist — the unit table
  stays canonical, consistent and base-factored (`history_good`), the old units are never changed
  (`history_ext`) and the name registries stay faithful (`history_faithful`).  What declarations do to the
  VALUES is the subject of `equate_graphOK` / `Reach` (exact graphs) and of the per-run obligations on
  the shipped graph.
-/
import Proofs.Kept
import Proofs.RegFrame

namespace Measured
open St

theorem exec_modifyThe (f : Conv Rat → Conv Rat) (c : Conv Rat) :
    CM.exec (modifyThe (Conv Rat) f : CM Rat Unit) c = (.ok (), f c) := rfl

/-- a declaration, a query or a batch of unit operations -/
inductive HOp where
  | query (o : QOp)
  | equate (a b : Qty Rat)
  | translate (scale : UId) (zero : Qty Rat)

def HOp.after (c : Conv Rat) : HOp → Conv Rat
  | .query o => o.after c
  | .equate a b => (CM.exec (Measured.equate a b) c).2
  | .translate s z => (CM.exec (Measured.translate s z) c).2

def HOp.ok (c : Conv Rat) : HOp → Prop
  | .query o => o.ok c
  | .equate a b => a.unit < c.st.units.length ∧ b.unit < c.st.units.length
  | .translate _ _ => True

/-- the state part after `equate` is the state after the two `unprefixed` internings, or unchanged -/
theorem equate_st (a b : Qty Rat) (c : Conv Rat) :
    (CM.exec (equate a b) c).2.st = c.st ∨
    (CM.exec (equate a b) c).2.st = ((c.st.unprefixedUnit a.unit).1.unprefixedUnit b.unit).1 := by
  unfold equate
  rw [exec_bind, exec_getSt]
  simp only
  split
  · left; rw [exec_bind, exec_throw]
  · right
    rw [exec_bind, exec_unprefixedQty]
    simp only
    rw [exec_bind, exec_unprefixedQty]
    simp only
    rw [exec_bind, exec_liftE]
    cases Mag.div (Mag.mul (Pfx.value ((c.st.unprefixedUnit a.unit).1.unit! b.unit).pfx) b.mag)
        (Mag.mul (Pfx.value (c.st.unit! a.unit).pfx) a.mag) with
    | error e => rfl
    | ok r1 =>
      simp only
      rw [exec_bind, exec_modifyThe]
      simp only
      rw [exec_bind, exec_liftE]
      cases Mag.div (Mag.mul (Pfx.value (c.st.unit! a.unit).pfx) a.mag)
          (Mag.mul (Pfx.value ((c.st.unprefixedUnit a.unit).1.unit! b.unit).pfx) b.mag) with
      | error e => rfl
      | ok r2 => simp only [exec_modifyThe]

theorem translate_st (s : UId) (z : Qty Rat) (c : Conv Rat) : (CM.exec (translate s z) c).2.st = c.st := by
  unfold translate
  split
  · rfl
  · rw [exec_modifyThe]

theorem HOp.after_good (c : Conv Rat) (hg : Good c.st) (o : HOp) (ho : o.ok c) : Good (o.after c).st := by
  cases o with
  | query q => exact QOp.after_good c hg q ho
  | equate a b =>
    rcases equate_st a b c with h | h
    · show Good (CM.exec (Measured.equate a b) c).2.st
      rw [h]; exact hg
    · show Good (CM.exec (Measured.equate a b) c).2.st
      rw [h]
      have g1 := unprefixedUnit_good hg ho.1
      exact unprefixedUnit_good g1 (Nat.lt_of_lt_of_le ho.2 (unprefixedUnit_ext _ _).len)
  | translate s z =>
    show Good (CM.exec (Measured.translate s z) c).2.st
    rw [translate_st]; exact hg

theorem HOp.after_ext (c : Conv Rat) (o : HOp) : Ext c.st (o.after c).st := by
  cases o with
  | query q => exact (QOp.after_frame c q).ext
  | equate a b =>
    show Ext c.st (CM.exec (Measured.equate a b) c).2.st
    rcases equate_st a b c with h | h
    · rw [h]; exact Ext.refl _
    · rw [h]; exact (unprefixedUnit_ext _ _).trans (unprefixedUnit_ext _ _)
  | translate s z =>
    show Ext c.st (CM.exec (Measured.translate s z) c).2.st
    rw [translate_st]; exact Ext.refl _

theorem HOp.ok_mono {c c' : Conv Rat} (hl : c.st.units.length ≤ c'.st.units.length) {o : HOp} (h : o.ok c) : o.ok c' := by
  cases o with
  | query q => cases q <;> first | exact trivial | exact ⟨Nat.lt_of_lt_of_le h.1 hl, Nat.lt_of_lt_of_le h.2 hl⟩
  | equate a b => exact ⟨Nat.lt_of_lt_of_le h.1 hl, Nat.lt_of_lt_of_le h.2 hl⟩
  | translate s z => exact trivial

def ValidHist : Conv Rat → List HOp → Prop
  | _, [] => True
  | c, o :: rest => o.ok c ∧ ValidHist (o.after c) rest

/-- **Every history of declarations, queries and unit operations keeps the interning invariants.** -/
theorem history_good : ∀ (ops : List HOp) (c : Conv Rat), Good c.st → ValidHist c ops → Good (ops.foldl HOp.after c).st := by
  intro ops
  induction ops with
  | nil => intro c hg _; exact hg
  | cons o rest ih => intro c hg hv; exact ih _ (HOp.after_good c hg o hv.1) hv.2

/-- … and never changes a unit that exists -/
theorem history_ext : ∀ (ops : List HOp) (c : Conv Rat), Ext c.st (ops.foldl HOp.after c).st := by
  intro ops
  induction ops with
  | nil => intro c; exact Ext.refl _
  | cons o rest ih => intro c; exact (HOp.after_ext c o).trans (ih _)

theorem validHist_of_initial : ∀ (ops : List HOp) (c : Conv Rat), (∀ o ∈ ops, o.ok c) → ValidHist c ops := by
  intro ops
  induction ops with
  | nil => intro c _; exact trivial
  | cons o rest ih =>
    intro c h
    refine ⟨h o List.mem_cons_self, ih _ ?_⟩
    intro o' ho'
    exact HOp.ok_mono (HOp.after_ext c o).len (h o' (List.mem_cons_of_mem _ ho'))

/-- the name registries: declarations of equivalences do not touch them either -/
theorem HOp.after_faithful (c : Conv Rat) (h : Faithful c.st) (o : HOp) : Faithful (o.after c).st := by
  cases o with
  | query q => exact queries_faithful [q] c h
  | equate a b =>
    show Faithful (CM.exec (Measured.equate a b) c).2.st
    rcases equate_st a b c with e | e
    · rw [e]; exact h
    · rw [e]; exact h.of_frame ((unprefixedUnit_frame _ _).trans (unprefixedUnit_frame _ _))
  | translate s z =>
    show Faithful (CM.exec (Measured.translate s z) c).2.st
    rw [translate_st]; exact h

theorem history_faithful : ∀ (ops : List HOp) (c : Conv Rat), Faithful c.st → Faithful (ops.foldl HOp.after c).st := by
  intro ops
  induction ops with
  | nil => intro c h; exact h
  | cons o rest ih => intro c h; exact ih _ (HOp.after_faithful c h o)

end Measured
