"""Canonicalise and compare the two answer streams (implementation vs Lean model)."""
import math
import struct
from fractions import Fraction

# ops after which a model "Unmodelled" answer does not desynchronise the two states
STATELESS = {"ustr", "qstr", "pvalue", "info", "named", "neg", "pos", "abs", "qnew", "mnew", "approx",
             "lnew"}

FLOAT_RTOL = 1e-12
DEC_RTOL = 1e-12


def _flt(tok):
    return struct.unpack("<d", struct.pack("<Q", int(tok[2:], 16)))[0]


def _bigint(t):
    """integers beyond 10**1000 travel as H<hex> (both sides print them that way)"""
    neg = t.startswith("-")
    body = t[1:] if neg else t
    v = int(body[1:], 16) if body[:1] == "H" else int(body)
    return -v if neg else v


def tok_equal(a, b, rtol=FLOAT_RTOL):
    if a == b:
        return True
    if a[:2] == "f:" and b[:2] == "f:":
        x, y = _flt(a), _flt(b)
        if math.isnan(x) or math.isnan(y):
            return math.isnan(x) and math.isnan(y)
        if math.isinf(x) or math.isinf(y):
            return x == y
        if x == y:
            return True
        return abs(x - y) <= rtol * max(abs(x), abs(y))
    if a[:2] == "d:" and b[:2] == "d:" and "/" in a and "/" in b:
        x = Fraction(*map(_bigint, a[2:].split("/")))
        y = Fraction(*map(_bigint, b[2:].split("/")))
        if x == y:
            return True
        return abs(x - y) <= Fraction(max(DEC_RTOL, rtol)) * max(abs(x), abs(y))
    return False


def plan_equal(a, b, rtol):
    """plans: `ratio^e[scale+offset@uN,…];…` compared structurally, numbers with tolerance."""
    sa, sb = a.split(";"), b.split(";")
    if len(sa) != len(sb):
        return False
    for x, y in zip(sa, sb):
        hx, _, px = x.partition("[")
        hy, _, py = y.partition("[")
        rx, _, ex = hx.rpartition("^")
        ry, _, ey = hy.rpartition("^")
        if ex != ey or not tok_equal(rx, ry, rtol):
            return False
        hops_x = px.rstrip("]").split(",") if px.rstrip("]") else []
        hops_y = py.rstrip("]").split(",") if py.rstrip("]") else []
        if len(hops_x) != len(hops_y):
            return False
        for p, q in zip(hops_x, hops_y):
            vp, _, up = p.partition("@")
            vq, _, uq = q.partition("@")
            if up != uq:
                return False
            sp, _, op_ = vp.partition("+")
            sq, _, oq = vq.partition("+")
            if not (tok_equal(sp, sq, rtol) and tok_equal(op_, oq, rtol)):
                return False
    return True


def line_equal(impl, model, rtol=FLOAT_RTOL):
    if impl == model:
        return True
    fa, fb = impl.split("\t"), model.split("\t")
    if len(fa) != len(fb):
        return False
    if len(fa) >= 3 and fa[0] == "ok" and fa[1] == "plan" and fb[1] == "plan":
        return plan_equal(fa[2], fb[2], rtol)
    return all(tok_equal(x, y, rtol) for x, y in zip(fa, fb))


def compare_streams(ops, impl, model, rtol=FLOAT_RTOL, skip=frozenset()):
    """Returns (n_compared, n_unmodelled, first_disagreement or None, stopped_at or None).
    A disagreement is (index, op, impl_line, model_line)."""
    compared = 0
    unmodelled = 0
    for i, op in enumerate(ops):
        if i >= len(impl) or i >= len(model):
            return compared, unmodelled, (i, op, impl[i] if i < len(impl) else "<missing>",
                                          model[i] if i < len(model) else "<missing>"), None
        a, b = impl[i], model[i]
        if b == "ERR\tUnmodelled":
            unmodelled += 1
            f = op.split("\t")
            if len(f) > 1 and f[1] in STATELESS:
                continue
            # the model declined an op that may have changed the implementation's state:
            # ordinals are no longer comparable; stop this chunk here.
            if a.startswith("ERR"):
                # both failed without a unit being created?  cannot know; stop as well
                return compared, unmodelled, None, i
            return compared, unmodelled, None, i
        if i in skip:
            # both must still agree on success vs failure
            if a.startswith("ERR") == b.startswith("ERR"):
                continue
        compared += 1
        if not line_equal(a, b, rtol):
            return compared, unmodelled, (i, op, a, b), None
    return compared, unmodelled, None, None
