#!/bin/bash
# usage: try_seed.sh <patch> <Cxx> [more Cyy ...]   — applies the patch to /repo, runs the quick checks, reverts.
P=$1; shift
cd /repo && git apply "$P" || { echo "patch does not apply"; exit 3; }
cd /verif
for c in "$@"; do ./check $c quick 2>&1 | grep -E "VIOLATION|exit [0-9]" ; done
cd /repo && git checkout -- . && git status --short | head -3
