/-
  Proofs/PlanTotal.lean — C07 for conversions between simple units: `convert` returns a quantity or
  raises ConversionNotFound — nothing else (no AssertionError, KeyError, ZeroDivisionError, …), in
  either interpreter mode.
-/
import Proofs.ReachSimple

namespace Measured
open St

variable {σ : UId → Rat}

/-! ### applying a plan whose scales are non-zero cannot fail -/

theorem powInt_nonzero_ok {a : Mag Rat} (h : a.val ≠ 0) (e : Int) : ∃ r, a.powInt e = .ok r := by
  unfold Mag.powInt
  have hz : a.isZero = false := by
    cases hb : a.isZero with
    | false => rfl
    | true => exact absurd ((isZero_iff a).1 hb) h
  have hp : Mag.powErr a e = none := by unfold Mag.powErr; simp [hz]
  rw [hp]
  cases a with
  | int i => simp only; split <;> exact ⟨_, rfl⟩
  | flt x => exact ⟨_, rfl⟩
  | dec r => exact ⟨_, rfl⟩

theorem applyPath_ok (e : Int) : ∀ (p : List (Hop Rat)) (m : Mag Rat), (∀ h ∈ p, h.scale.val ≠ 0) →
    ∃ r, applyPath e m p = .ok r := by
  intro p
  induction p with
  | nil => intro m _; exact ⟨m, rfl⟩
  | cons h t ih =>
    intro m hz
    obtain ⟨sc, hsc⟩ := powInt_nonzero_ok (hz h List.mem_cons_self) e
    simp only [applyPath, hsc]
    exact ih _ (fun x hx => hz x (List.mem_cons_of_mem _ hx))

theorem applyPlan_ok : ∀ (P : Plan Rat) (m : Mag Rat), (∀ p ∈ P, ∀ h ∈ p.path, h.scale.val ≠ 0) →
    ∃ r, applyPlan m P = .ok r := by
  intro P
  induction P with
  | nil => intro m _; exact ⟨m, rfl⟩
  | cons p rest ih =>
    intro m hz
    obtain ⟨m1, hm1⟩ := applyPath_ok p.exp p.path (Mag.mul m p.ratio) (hz p List.mem_cons_self)
    simp only [applyPlan, hm1]
    exact ih _ (fun x hx => hz x (List.mem_cons_of_mem _ hx))

theorem pathScale_ne_zero_all {p : List (Hop Rat)} (h : pathScale p ≠ 0) : ∀ x ∈ p, x.scale.val ≠ 0 := by
  induction p with
  | nil => intro x hx; cases hx
  | cons a t ih =>
    intro x hx
    rw [pathScale_cons] at h
    rcases List.mem_cons.1 hx with rfl | hx
    · exact left_ne_zero_of_mul h
    · exact ih (right_ne_zero_of_mul h) x hx

theorem stepOK_scales (hσ : ∀ k, σ k ≠ 0) {s : St} (hc : Canon s) {r : Rough Rat} {p : PlanStep Rat}
    (h : StepOK σ s r p) (hs : r.start < s.units.length) : ∀ x ∈ p.path, x.scale.val ≠ 0 := by
  obtain ⟨_, _, hv, _⟩ := h
  apply pathScale_ne_zero_all
  intro h0
  rw [h0, zero_mul] at hv
  exact unitSz_ne_zero hσ hc hs hv.symm

/-! ### `_inline_paths` returns or raises ConversionNotFound -/

theorem inlinePaths_total : ∀ (plan : List (Rough Rat)) (c : Conv Rat),
    GraphOK σ c → GraphWF c → (∀ r ∈ plan, r.start < c.st.units.length ∧ r.stop < c.st.units.length ∧
      c.st.dimOfUnit r.start = c.st.dimOfUnit r.stop) →
    ∃ res c', CM.exec (inlinePaths plan) c = (res, c') ∧ ((∃ P, res = .ok P) ∨ res = .error .notFound) := by
  intro plan
  induction plan with
  | nil => intro c _ _ _; exact ⟨.ok [], c, rfl, Or.inl ⟨[], rfl⟩⟩
  | cons r rest ih =>
    intro c hg hw hv
    obtain ⟨hrs, hrt, hrd⟩ := hv r List.mem_cons_self
    obtain ⟨path, c0, h0⟩ := findPath_total hg hw hrs hrt hrd
    obtain ⟨g0, f0, _⟩ := findPath_sound hg hrs hrt h0
    have w0 := hw.frame hg f0
    unfold inlinePaths
    simp only [List.mapM_cons]
    rw [exec_bind, exec_bind, h0]
    simp only
    by_cases hpe : path.isEmpty = true
    · simp only [hpe, ↓reduceIte]
      rw [exec_bind, exec_throw]
      exact ⟨_, _, rfl, Or.inr rfl⟩
    · simp only [hpe, Bool.false_eq_true, ↓reduceIte, exec_pure]
      obtain ⟨res, c', hx, hres⟩ := ih c0 g0 w0 (fun x hx => by
        obtain ⟨a1, a2, a3⟩ := hv x (List.mem_cons_of_mem _ hx)
        exact ⟨f0.lt a1, f0.lt a2, by rw [f0.ext.dimOfUnit a1, f0.ext.dimOfUnit a2]; exact a3⟩)
      have hx' : CM.exec (List.mapM (fun r => do
          let path ← findPath r.start r.stop
          if path.isEmpty = true then throw Exc.notFound
          pure ({ ratio := r.ratio, path := path, exp := r.exp } : PlanStep Rat)) rest) c0 = (res, c') := by
        unfold inlinePaths at hx; exact hx
      rw [exec_bind, hx']
      rcases hres with ⟨P, rfl⟩ | rfl
      · simp only [exec_pure]; exact ⟨_, _, rfl, Or.inl ⟨_, rfl⟩⟩
      · exact ⟨_, _, rfl, Or.inr rfl⟩

/-! ### `convert` between simple units -/

theorem planConversion_direct_fwd {c c2 : Conv Rat} {start stop : UId} {p0 : List (Hop Rat)} {head : Mag Rat}
    (hhead : recip (Pfx.value (c.st.unit! stop).pfx : Mag Rat) = .ok head)
    (hfp0 : CM.exec (findPath start stop) { c with st := (c.st.unprefixedUnit stop).1 } = (.ok p0, c2))
    (hne : p0 ≠ []) :
    CM.exec (planConversion start stop) c =
      (.ok [ { ratio := .int 1, path := p0, exp := 1 },
             { ratio := head, path := [{ scale := .int 1, offset := .int 0, unit := c.st.one }], exp := 1 } ], c2) := by
  unfold planConversion
  rw [exec_bind, exec_getSt]
  simp only
  rw [exec_bind]
  unfold quantifyUnit
  rw [exec_bind, exec_getSt]
  simp only
  rw [exec_bind, exec_liftSt]
  simp only [exec_pure]
  rw [exec_bind, exec_liftE, hhead]
  simp only
  rw [exec_bind, exec_getSt]
  simp only
  rw [exec_bind, hfp0]
  have hne' : p0.isEmpty = false := by
    cases p0 with
    | nil => exact absurd rfl hne
    | cons _ _ => rfl
  simp only [hne', Bool.not_false, ↓reduceIte]
  unfold inlinePaths
  simp only [List.mapM_cons, List.mapM_nil]
  rw [exec_bind, exec_bind, exec_bind, exec_findPath_self]
  simp only [List.isEmpty_cons, Bool.false_eq_true, ↓reduceIte, exec_pure, exec_bind]

/-- **C07 for conversions between simple units**: `convert` returns a quantity or raises
    ConversionNotFound, and nothing else, whatever the interpreter mode (`c.asserts`). -/
theorem convert_simple_total (hσ : ∀ k, σ k ≠ 0) {K : List Dim} {plan : List (Rough Rat)} {c : Conv Rat} {q : Qty Rat} {t : UId}
    (hg : GraphOK σ c) (hwf : GraphWF c) (hoff : c.offsets = [])
    (hq : q.unit < c.st.units.length) (ht : t < c.st.units.length)
    (hsp : SimplePair σ K c q.unit t plan)
    (hdims : ∀ r ∈ plan, c.st.dimOfUnit r.start = c.st.dimOfUnit r.stop) :
    ∃ res c', CM.exec (convert q t) c = (res, c') ∧ ((∃ r, res = .ok r) ∨ res = .error .notFound) := by
  by_cases hdim : (c.st.dimOfUnit q.unit != c.st.dimOfUnit t) = true
  · refine ⟨.error .notFound, c, ?_, Or.inr rfl⟩
    unfold convert
    rw [exec_bind, exec_getSt]
    simp only [hdim, ↓reduceIte]
    rw [exec_bind, exec_throw]
  · have hdqt : c.st.dimOfUnit q.unit = c.st.dimOfUnit t := by simpa using hdim
    obtain ⟨ga, fa⟩ := unprefixStep hg hq
    have wa := hwf.frame hg fa
    obtain ⟨gb, fb⟩ := unprefixStep ga (fa.lt ht)
    have wb := wa.frame ga fb
    have fab := fa.trans fb
    have hdb : ({ c with st := ((c.st.unprefixedUnit q.unit).1.unprefixedUnit t).1 } : Conv Rat).st.dimOfUnit q.unit =
        ({ c with st := ((c.st.unprefixedUnit q.unit).1.unprefixedUnit t).1 } : Conv Rat).st.dimOfUnit t := by
      rw [fab.ext.dimOfUnit hq, fab.ext.dimOfUnit ht]; exact hdqt
    obtain ⟨p0, c2, hfp0⟩ := findPath_total gb wb (fab.lt hq) (fab.lt ht) hdb
    obtain ⟨g2, f2, hps0, _, _⟩ := findPath_sound gb (fab.lt hq) (fab.lt ht) hfp0
    have w2 := wb.frame gb f2
    have fab2 := fab.trans f2
    have hpt : ((c.st.unprefixedUnit q.unit).1.unit! t).pfx = (c.st.unit! t).pfx := fa.pfx ht
    have hptpos : Pfx.val (c.st.unit! t).pfx ≠ 0 := ne_of_gt (Pfx.val_pos (canon_pfx hg.canon ht))
    obtain ⟨head, hhead⟩ := recip_ok (m := (Pfx.value ((c.st.unprefixedUnit q.unit).1.unit! t).pfx : Mag Rat))
      (by rw [Pfx.value_val, hpt]; exact hptpos)
    -- the common frame: `convert` up to the plan
    have hconv : ∀ (P : Plan Rat) (c3 : Conv Rat) (res : Except Exc (Plan Rat)),
        CM.exec (planConversion q.unit t) { c with st := (c.st.unprefixedUnit q.unit).1 } = (res, c3) →
        (res = .ok P → ∀ p ∈ P, ∀ h ∈ p.path, h.scale.val ≠ 0) →
        (res = .ok P ∨ res = .error .notFound) →
        ∃ res' c', CM.exec (convert q t) c = (res', c') ∧ ((∃ r, res' = .ok r) ∨ res' = .error .notFound) := by
      intro P c3 res hpc hnz hres
      unfold convert
      rw [exec_bind, exec_getSt]
      simp only [hdim, Bool.false_eq_true, ↓reduceIte]
      rw [exec_bind, exec_unprefixedQty]
      simp only
      rw [exec_bind, hpc]
      rcases hres with rfl | rfl
      · simp only
        obtain ⟨m, hm⟩ := applyPlan_ok P (Mag.mul (Pfx.value (c.st.unit! q.unit).pfx) q.mag) (hnz rfl)
        rw [exec_bind, exec_liftE, hm]
        simp only [exec_pure]
        exact ⟨_, _, rfl, Or.inl ⟨_, rfl⟩⟩
      · exact ⟨_, _, rfl, Or.inr rfl⟩
    by_cases hp0 : p0 = []
    · subst hp0
      -- through the factor planner
      have hfacq : (((c.st.unprefixedUnit q.unit).1.unprefixedUnit t).1.unit! q.unit).factors = (c.st.unit! q.unit).factors :=
        (fab.ext.same q.unit hq).2.1
      have hfact : (((c.st.unprefixedUnit q.unit).1.unprefixedUnit t).1.unit! t).factors = (c.st.unit! t).factors :=
        (fab.ext.same t ht).2.1
      have hFOK : ∀ f, f.1 < c.st.units.length → FactorOK K c.st f →
          FactorOK K ((c.st.unprefixedUnit q.unit).1.unprefixedUnit t).1 f := by
        intro f hf hok
        unfold FactorOK at hok ⊢
        rw [fab.ext.dimOfUnit hf]; exact hok
      have hfs' : ∀ f ∈ (((c.st.unprefixedUnit q.unit).1.unprefixedUnit t).1.unit! q.unit).factors,
          FactorOK K ((c.st.unprefixedUnit q.unit).1.unprefixedUnit t).1 f := by
        rw [hfacq]; intro f hf; exact hFOK f (hsp.srcOK f hf).2.1 (hsp.srcOK f hf).1
      have hft' : ∀ f ∈ (((c.st.unprefixedUnit q.unit).1.unprefixedUnit t).1.unit! t).factors,
          FactorOK K ((c.st.unprefixedUnit q.unit).1.unprefixedUnit t).1 f := by
        rw [hfact]; intro f hf; exact hFOK f (hsp.dstOK f hf).2.1 (hsp.dstOK f hf).1
      have hsq : splat ((c.st.unprefixedUnit q.unit).1.unprefixedUnit t).1 q.unit = splat c.st q.unit :=
        splat_ext fab.ext hq (fun f hf => (hsp.srcOK f hf).2.1)
      have hst : splat ((c.st.unprefixedUnit q.unit).1.unprefixedUnit t).1 t = splat c.st t :=
        splat_ext fab.ext ht (fun f hf => (hsp.dstOK f hf).2.1)
      obtain ⟨hpc, _, _, _⟩ := planConversion_simple hsp.keys hsp.light (fun _ => (1 : Rat)) (fun _ => one_ne_zero)
        (c := { c with st := (c.st.unprefixedUnit q.unit).1 }) hfs' hft' hhead hfp0 (by rw [hsq, hst]; exact hsp.paired)
      have hone2 : c.st.one < c2.st.units.length := fab2.lt hg.inv.1.oneLt
      have hone' : ((c.st.unprefixedUnit q.unit).1).one = c.st.one := fa.ext.one
      have hvalid : ∀ x ∈ plan ++ [Rough.mk head ((c.st.unprefixedUnit q.unit).1).one ((c.st.unprefixedUnit q.unit).1).one 1],
          x.start < c2.st.units.length ∧ x.stop < c2.st.units.length ∧ c2.st.dimOfUnit x.start = c2.st.dimOfUnit x.stop := by
        intro x hx
        rcases List.mem_append.1 hx with hx | hx
        · rcases matchSpec_units _ _ _ _ _ _ _ hsp.paired x hx with h0 | ⟨h1, h2⟩
          · cases h0
          · obtain ⟨f1, hf1, e1⟩ := splat_units c.st q.unit _ h1
            obtain ⟨f2', hf2, e2⟩ := splat_units c.st t _ h2
            have v1 : x.start < c.st.units.length := by rw [← e1]; exact (hsp.srcOK f1 hf1).2.1
            have v2 : x.stop < c.st.units.length := by rw [← e2]; exact (hsp.dstOK f2' hf2).2.1
            exact ⟨fab2.lt v1, fab2.lt v2, by rw [fab2.ext.dimOfUnit v1, fab2.ext.dimOfUnit v2]; exact hdims x hx⟩
        · simp only [List.mem_singleton] at hx
          subst hx
          simp only [hone']
          exact ⟨hone2, hone2, trivial⟩
      obtain ⟨res, c3, hx, hres⟩ := inlinePaths_total _ c2 g2 w2 hvalid
      rw [← hpc] at hx
      rcases hres with ⟨P, rfl⟩ | rfl
      · rw [hpc] at hx
        obtain ⟨g3, f3, hall⟩ := inlinePaths_sound _ c2 c3 P g2 (by rw [fab2.offsets]; exact hoff)
          (fun x hx => ⟨(hvalid x hx).1, (hvalid x hx).2.1⟩) hx
        rw [← hpc] at hx
        refine hconv P c3 _ hx ?_ (Or.inl rfl)
        intro _
        -- every inlined path has non-zero scales
        have key : ∀ {pl : List (Rough Rat)} {PP : Plan Rat}, List.Forall₂ (StepOK σ c2.st) pl PP →
            (∀ x ∈ pl, x.start < c2.st.units.length) → ∀ p ∈ PP, ∀ h ∈ p.path, h.scale.val ≠ 0 := by
          intro pl PP hF
          induction hF with
          | nil => intro _ p hp; cases hp
          | @cons a b l1 l2 hab _ ih2 =>
            intro hv p hp
            rcases List.mem_cons.1 hp with rfl | hp
            · exact stepOK_scales hσ g2.canon hab (hv a List.mem_cons_self)
            · exact ih2 (fun x hx => hv x (List.mem_cons_of_mem _ hx)) p hp
        exact key hall (fun x hx => (hvalid x hx).1)
      · exact hconv [] c3 _ hx (by intro h; cases h) (Or.inr rfl)
    · -- the directly found path
      have hpl := planConversion_direct_fwd (c := { c with st := (c.st.unprefixedUnit q.unit).1 }) hhead hfp0 hp0
      refine hconv _ c2 _ hpl ?_ (Or.inl rfl)
      intro _ p hp h hh
      simp only [List.mem_cons, List.mem_nil_iff, or_false] at hp
      rcases hp with rfl | rfl
      · simp only at hh
        have hsc := hps0 hp0
        have : pathScale p0 ≠ 0 := by
          intro h0; rw [h0, zero_mul] at hsc
          exact unitSz_ne_zero hσ gb.canon (fab.lt hq) hsc.symm
        exact pathScale_ne_zero_all this h hh
      · simp only [List.mem_singleton] at hh
        subst hh
        simp [val_int]

end Measured
