/-
  Per-run obligations for C16, on the data regenerated from /repo on this run:
  `shipped.*` = the tables embedded in `_parser.py` (DATA, MEMO); `fresh.*` = the tables lark
  generates now from `measured.lark` with the arguments of the Makefile rule.

  * `shipped_iso_fresh`   the shipped LR table is the fresh one up to the state bijection and
                          the rule renumbering found by the translator (re-checked here by
                          the kernel; the certificate is untrusted), start/end states, terminal
                          scan order and ignore list included;
  * `shipped_parser_is_grammar_parser_*`  hence, for EVERY text and both start symbols, same
                          tree or same rejection (by `C16.parseTree_iso`), and the same
                          `Unit.parse`/`Quantity.parse` computation;
  * `terminals_eq`, `patterns_parse`, `rule_options_ok`, `config_eq`, `makefile_ok`:
                          the lexer definitions, tree-shaping options and generator options
                          agree; the Lean lexer INTERPRETS the regenerated pattern texts (Model/Regex.lean).
-/
import Props.C16
import Generated.Grammar

namespace Measured.Obligations
open Measured Generated C16

/-- bound above every state number of either table -/
def stateBound : Nat := 100000

theorem shipped_iso_fresh : checkIso stateIso rulePerm stateBound shipped.grammar fresh.grammar = true := by
  decide +kernel

theorem shipped_grammar_iso :
    GrammarIso (phiOf stateIso stateBound) (rhoOf rulePerm shipped.grammar.rules.length) shipped.grammar fresh.grammar :=
  checkIso_sound shipped_iso_fresh

/-- **C16**: for every input string, start symbol `unit`. -/
theorem shipped_parser_is_grammar_parser_unit (text : String) :
    parseTree fresh.grammar fresh.grammar.startUnit fresh.grammar.endUnit text =
      parseTree shipped.grammar shipped.grammar.startUnit shipped.grammar.endUnit text :=
  parseTree_unit_iso shipped_grammar_iso text

/-- **C16**: for every input string, start symbol `quantity`. -/
theorem shipped_parser_is_grammar_parser_quantity (text : String) :
    parseTree fresh.grammar fresh.grammar.startQty fresh.grammar.endQty text =
      parseTree shipped.grammar shipped.grammar.startQty shipped.grammar.endQty text :=
  parseTree_quantity_iso shipped_grammar_iso text

theorem terminals_eq : shipped.terminals = fresh.terminals := by decide +kernel

/-- every terminal pattern of the grammar is inside the regular-expression subset the model
    interprets (`Re.parse` succeeds), has no flags and the default priority; every terminal of the
    scan order has a pattern -/
theorem patterns_parse :
    (fresh.terminals.all (fun t =>
      (t.2.1 == "PatternStr" || (t.2.1 == "PatternRE" && (Re.parse t.2.2.1).isSome)) &&
      t.2.2.2.1.isEmpty && t.2.2.2.2 == 0)) = true ∧
    (fresh.lexOrder.all (fun n => fresh.terminals.any (fun t => t.1 == n))) = true ∧
    fresh.lexOrder.length = fresh.terminals.length := by
  decide +kernel

/-- lark's tree builder options as the Lean `treeAction` assumes them: a symbol is filtered out
    exactly when it is a `_`-named terminal; no `?rule` inlining, no keep_all_tokens. -/
def optionsOk (rules : List GRule) (opts : List (List (Bool × Bool) × Bool × Bool)) : Bool :=
  rules.length == opts.length &&
  (rules.zip opts).all (fun ro =>
    ro.1.expansion.length == ro.2.1.length &&
    (ro.1.expansion.zip ro.2.1).all (fun so => so.2.1 == (so.2.2 && so.1.startsWith "_")) &&
    !ro.2.2.1 && !ro.2.2.2)

theorem rule_options_ok :
    optionsOk shipped.rules shipped.ruleOptions = true ∧ optionsOk fresh.rules fresh.ruleOptions = true := by
  decide +kernel

theorem config_eq : shipped.config = fresh.config := by decide +kernel

theorem makefile_ok : makefileRuleFound = true ∧ makefileStarts = ["unit", "quantity"] := by decide +kernel

end Measured.Obligations
