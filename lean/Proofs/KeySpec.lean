/-
  Proofs/KeySpec.lean — the key (prefix, finite map of exponents) of the unit each
  operation returns, and preservation of the canonical-table invariant.
-/
import Proofs.CanonStep
import Proofs.ExprDim

namespace Measured
open St

theorem expOf_perm {a b : Factors} (hp : a.Perm b) (k : UId) : expOf a k = expOf b k := by
  induction hp with
  | nil => rfl
  | cons x _ ih => simp only [expOf_cons, ih]
  | swap x y l => simp only [expOf_cons]; omega
  | trans _ _ ih1 ih2 => rw [ih1, ih2]

theorem expOf_map_of_nodup {fs : Factors} (h : NodupKeys fs) (g : Int → Int) (g0 : g 0 = 0) (k : UId) :
    expOf (fs.map (fun p => (p.1, g p.2))) k = g (expOf fs k) := by
  induction fs with
  | nil => simp [g0]
  | cons f rest ih =>
    unfold NodupKeys at h
    simp only [List.map_cons, List.nodup_cons] at h
    simp only [List.map_cons, expOf_cons, ih h.2]
    split
    · next hk =>
      have : expOf rest k = 0 := expOf_of_not_mem (hk ▸ h.1)
      rw [this, g0]; simp
    · simp

/-- The record `newUnit` returns carries the requested prefix and a permutation of the
    requested factors. -/
theorem newUnit_key (s : St) (p : Pfx) (fs : Factors) (d : Dim) :
    ((s.newUnit p fs d).1.unit! (s.newUnit p fs d).2).pfx = p ∧
    ((s.newUnit p fs d).1.unit! (s.newUnit p fs d).2).factors.Perm fs := by
  cases hf : findUnit s.units p fs with
  | some i =>
    have h1 : s.newUnit p fs d = (s, i) := by simp [newUnit, hf]
    obtain ⟨hi, hp, hperm⟩ := findUnit_some hf
    rw [h1]; simp only
    rw [unit!_eq hi]; exact ⟨hp, hperm⟩
  | none =>
    have h1 : s.newUnit p fs d =
        ({ s with units := s.units ++ [({ pfx := p, factors := fs, dim := d } : UnitRec)] }, s.units.length) := by
      simp [newUnit, hf]
    rw [h1]; simp only
    unfold unit!; simp only
    rw [getD_eq_getElem' _ _ (by simp)]
    simp

/-- Canonical identity: in a canonical table two records with one prefix and one finite
    map (away from `One`) are the same record. -/
theorem canonical_identity {s : St} (hc : Canon s) {i j : Nat} (hi : i < s.units.length)
    (hj : j < s.units.length) (hp : (s.unit! i).pfx = (s.unit! j).pfx)
    (he : ∀ k, k ≠ s.one → expOf (s.unit! i).factors k = expOf (s.unit! j).factors k) : i = j := by
  rw [unit!_eq hi, unit!_eq hj] at hp
  rw [unit!_eq hi, unit!_eq hj] at he
  have ni := hc.norm _ (List.getElem_mem hi)
  have nj := hc.norm _ (List.getElem_mem hj)
  have := sortKey_simplify_congr (one := s.one) ni.nodupKeys nj.nodupKeys he
  rw [ni.simplify_eq, nj.simplify_eq] at this
  exact hc.uniq i j hi hj hp this

/-! ### Canon is preserved by every operation -/

variable {s : St}

theorem canon_unit (hc : Canon s) {a : Nat} (ha : a < s.units.length) :
    Norm s.one (s.unit! a).factors := hc.norm _ (unit!_mem ha)

theorem canon_pfx (hc : Canon s) {a : Nat} (ha : a < s.units.length) :
    (s.unit! a).pfx.Normal := hc.pfxNormal _ (unit!_mem ha)

theorem mulUnit_canon (hc : Canon s) {a b : Nat} (ha : a < s.units.length) (hb : b < s.units.length) :
    Canon (s.mulUnit a b).1 := by
  unfold mulUnit; simp only; split
  · exact hc
  · next p hp =>
    exact newUnit_canon hc (Pfx.mul_normal (canon_pfx hc ha) (canon_pfx hc hb) hp) _
      (norm_simplify (nodupKeys_mergeAdd (canon_unit hc ha).nodupKeys _))

theorem divUnit_canon (hc : Canon s) {a b : Nat} (ha : a < s.units.length) (hb : b < s.units.length) :
    Canon (s.divUnit a b).1 := by
  unfold divUnit; simp only; split
  · exact hc
  · next p hp =>
    exact newUnit_canon hc (Pfx.div_normal (canon_pfx hc ha) (canon_pfx hc hb) hp) _
      (norm_simplify (nodupKeys_mergeAdd (canon_unit hc ha).nodupKeys _))

theorem powUnit_canon (hc : Canon s) {a : Nat} (ha : a < s.units.length) (n : Int) :
    Canon (s.powUnit a n).1 := by
  unfold powUnit
  exact newUnit_canon hc (Pfx.pow_normal (canon_pfx hc ha) n) _
    (norm_simplify (nodupKeys_map (canon_unit hc ha).nodupKeys (· * n)))

theorem rootUnit_canon (hc : Canon s) {a : Nat} (ha : a < s.units.length) (n : Int) :
    Canon (s.rootUnit a n).1 := by
  unfold rootUnit
  split
  · exact hc
  · simp only
    split
    · exact hc
    · split
      · exact hc
      · next p hp =>
        split
        · exact hc
        · exact newUnit_canon hc (Pfx.root_normal (canon_pfx hc ha) hp) _
            (norm_simplify (nodupKeys_map (canon_unit hc ha).nodupKeys (fun e => Int.fdiv e n)))

theorem unprefixedUnit_canon (hc : Canon s) {a : Nat} (ha : a < s.units.length) :
    Canon (s.unprefixedUnit a).1 := by
  unfold unprefixedUnit; exact newUnit_canon hc Pfx.normal_identity _ (canon_unit hc ha)

theorem pmulUnit_canon (hc : Canon s) {p : Pfx} (hp : p.Normal) {a : Nat} (ha : a < s.units.length) :
    Canon (s.pmulUnit p a).1 := by
  unfold pmulUnit; simp only; split
  · exact hc
  · next p' hp' => exact newUnit_canon hc (Pfx.mul_normal (canon_pfx hc ha) hp hp') _ (canon_unit hc ha)

/-! ### the key of each operation's result -/

theorem mulUnit_key (hc : Canon s) {a b i : Nat} (ha : a < s.units.length) (_hb : b < s.units.length)
    (hr : (s.mulUnit a b).2 = .ok i) :
    Pfx.mul (s.unit! a).pfx (s.unit! b).pfx = .ok ((s.mulUnit a b).1.unit! i).pfx ∧
    ∀ k, k ≠ s.one → expOf ((s.mulUnit a b).1.unit! i).factors k =
      expOf (s.unit! a).factors k + expOf (s.unit! b).factors k := by
  cases hp : Pfx.mul (s.unit! a).pfx (s.unit! b).pfx with
  | error e => simp [mulUnit, hp] at hr
  | ok p =>
    have hres : s.mulUnit a b = ((s.newUnit p (simplify s.one (mergeAdd (s.unit! a).factors (s.unit! b).factors))
        ((s.unit! a).dim.mul (s.unit! b).dim)).1, .ok (s.newUnit p (simplify s.one (mergeAdd (s.unit! a).factors (s.unit! b).factors))
        ((s.unit! a).dim.mul (s.unit! b).dim)).2) := by simp [mulUnit, hp]
    rw [hres] at hr ⊢
    simp only at hr ⊢
    injection hr with hr; subst hr
    obtain ⟨k1, k2⟩ := newUnit_key s p (simplify s.one (mergeAdd (s.unit! a).factors (s.unit! b).factors))
      ((s.unit! a).dim.mul (s.unit! b).dim)
    refine ⟨by rw [k1], ?_⟩
    intro k hk
    rw [expOf_perm k2, expOf_simplify _ hk, expOf_mergeAdd]

theorem divUnit_key (hc : Canon s) {a b i : Nat} (ha : a < s.units.length) (_hb : b < s.units.length)
    (hr : (s.divUnit a b).2 = .ok i) :
    Pfx.div (s.unit! a).pfx (s.unit! b).pfx = .ok ((s.divUnit a b).1.unit! i).pfx ∧
    ∀ k, k ≠ s.one → expOf ((s.divUnit a b).1.unit! i).factors k =
      expOf (s.unit! a).factors k - expOf (s.unit! b).factors k := by
  cases hp : Pfx.div (s.unit! a).pfx (s.unit! b).pfx with
  | error e => simp [divUnit, hp] at hr
  | ok p =>
    have hres : s.divUnit a b = ((s.newUnit p (simplify s.one (mergeAdd (s.unit! a).factors (negate (s.unit! b).factors)))
        ((s.unit! a).dim.div (s.unit! b).dim)).1, .ok (s.newUnit p (simplify s.one (mergeAdd (s.unit! a).factors (negate (s.unit! b).factors)))
        ((s.unit! a).dim.div (s.unit! b).dim)).2) := by simp [divUnit, hp]
    rw [hres] at hr ⊢
    simp only at hr ⊢
    injection hr with hr; subst hr
    obtain ⟨k1, k2⟩ := newUnit_key s p (simplify s.one (mergeAdd (s.unit! a).factors (negate (s.unit! b).factors)))
      ((s.unit! a).dim.div (s.unit! b).dim)
    refine ⟨by rw [k1], ?_⟩
    intro k hk
    rw [expOf_perm k2, expOf_simplify _ hk, expOf_mergeAdd, expOf_negate]; omega

theorem powUnit_key (s : St) (a : Nat) (n : Int) :
    ((s.powUnit a n).1.unit! (s.powUnit a n).2).pfx = (s.unit! a).pfx.pow n ∧
    ∀ k, k ≠ s.one → expOf ((s.powUnit a n).1.unit! (s.powUnit a n).2).factors k =
      expOf (s.unit! a).factors k * n := by
  unfold powUnit
  obtain ⟨k1, k2⟩ := newUnit_key s ((s.unit! a).pfx.pow n)
    (simplify s.one ((s.unit! a).factors.map (fun p => (p.1, p.2 * n)))) ((s.unit! a).dim.pow n)
  refine ⟨k1, ?_⟩
  intro k hk
  rw [expOf_perm k2, expOf_simplify _ hk, expOf_map_mul]

theorem pmulUnit_key (s : St) (p : Pfx) (a : Nat) {i : Nat} (hr : (s.pmulUnit p a).2 = .ok i) :
    Pfx.mul (s.unit! a).pfx p = .ok ((s.pmulUnit p a).1.unit! i).pfx ∧
    ∀ k, expOf ((s.pmulUnit p a).1.unit! i).factors k = expOf (s.unit! a).factors k := by
  cases hp : Pfx.mul (s.unit! a).pfx p with
  | error e => simp [pmulUnit, hp] at hr
  | ok p' =>
    have hres : s.pmulUnit p a = ((s.newUnit p' (s.unit! a).factors (s.unit! a).dim).1,
        .ok (s.newUnit p' (s.unit! a).factors (s.unit! a).dim).2) := by simp [pmulUnit, hp]
    rw [hres] at hr ⊢
    simp only at hr ⊢
    injection hr with hr; subst hr
    obtain ⟨k1, k2⟩ := newUnit_key s p' (s.unit! a).factors (s.unit! a).dim
    exact ⟨by rw [k1], fun k => expOf_perm k2 k⟩

theorem rootUnit_key (hc : Canon s) {a i : Nat} (ha : a < s.units.length) {n : Int} (hn : n ≠ 0)
    (hr : (s.rootUnit a n).2 = .ok i) :
    (s.unit! a).pfx.root n = .ok ((s.rootUnit a n).1.unit! i).pfx ∧
    ∀ k, k ≠ s.one → expOf ((s.rootUnit a n).1.unit! i).factors k =
      Int.fdiv (expOf (s.unit! a).factors k) n := by
  have hn0 : (n == 0) = false := by simpa using hn
  cases hroot : (s.unit! a).dim.root n with
  | error e => simp [rootUnit, hn0, hroot] at hr
  | ok d =>
    cases hp : (s.unit! a).pfx.root n with
    | error e => simp [rootUnit, hn0, hroot, hp] at hr
    | ok p =>
      by_cases hall : ((s.unit! a).factors.any (fun f => f.1 != s.one && f.2 % n != 0)) = true
      · simp [rootUnit, hn0, hroot, hp, hall] at hr
      · have hres : s.rootUnit a n = ((s.newUnit p (simplify s.one ((s.unit! a).factors.map (fun f => (f.1, Int.fdiv f.2 n)))) d).1,
            .ok (s.newUnit p (simplify s.one ((s.unit! a).factors.map (fun f => (f.1, Int.fdiv f.2 n)))) d).2) := by
          simp [rootUnit, hn0, hroot, hp, hall]
        rw [hres] at hr ⊢
        simp only at hr ⊢
        injection hr with hr; subst hr
        obtain ⟨k1, k2⟩ := newUnit_key s p (simplify s.one ((s.unit! a).factors.map (fun f => (f.1, Int.fdiv f.2 n)))) d
        refine ⟨by rw [k1], ?_⟩
        intro k hk
        rw [expOf_perm k2, expOf_simplify _ hk,
          expOf_map_of_nodup (canon_unit hc ha).nodupKeys (fun e => Int.fdiv e n) (by simp)]

end Measured
