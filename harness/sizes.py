"""Exact unit sizes from the conversion graph (oracle side; independent of the Lean model).

`Sizes()` solves one positive rational size per base unit from `conversions._ratios`
(every stored ratio `_ratios[a][b] = r` means 1 a = r b), seeding the coherent SI base units
with 1, in `fractions.Fraction` arithmetic.  `size(unit)` is then prefix value x the product
of base sizes; `ratio(a, b)` is the exact factor by which a magnitude in `a` must be
multiplied to express it in `b`.
"""
from fractions import Fraction as F

from measured import One, Unit, conversions

SI_SEEDS = ["meter", "second", "gram", "coulomb", "kelvin", "mole", "candela", "bit", "radian"]


class Sizes:
    def __init__(self):
        self.size = {id(One): F(1)}
        self.solve()

    def pfx(self, p):
        if p.base == 0:
            return F(1)
        if isinstance(p.exponent, int):
            return F(p.base) ** p.exponent
        return None

    def unit_size(self, u):
        s = self.pfx(u.prefix)
        if s is None:
            return None
        for f, e in u.factors.items():
            if f is One:
                continue
            v = self.size.get(id(f))
            if v is None:
                return None
            s *= v ** e
        return s

    def solve(self):
        for name in SI_SEEDS:
            if name in Unit._by_name:
                self.size.setdefault(id(Unit._by_name[name]), F(1))
        R, O = conversions._ratios, conversions._offsets
        edges = [(a, b, F(r)) for a, row in list(R.items()) for b, r in list(row.items())
                 if not (a in O and b in O[a]) and r != 0]
        changed = True
        while changed:
            changed = False
            for a, b, r in edges:
                for (u1, u2, k) in ((a, b, r), (b, a, 1 / r)):
                    # 1 u1 = k u2
                    s2 = self.unit_size(u2)
                    if s2 is None or self.unit_size(u1) is not None:
                        continue
                    unknown = [f for f in u1.factors if f is not One and id(f) not in self.size]
                    if len(unknown) != 1 or abs(u1.factors[unknown[0]]) != 1:
                        continue
                    f = unknown[0]
                    e = u1.factors[f]
                    rest = self.pfx(u1.prefix)
                    for g, eg in u1.factors.items():
                        if g is not f and g is not One:
                            rest *= self.size[id(g)] ** eg
                    val = k * s2 / rest
                    self.size[id(f)] = val if e == 1 else 1 / val
                    changed = True

    def known(self, u):
        return self.unit_size(u) is not None

    def ratio(self, a, b):
        """magnitude_in_b = magnitude_in_a * ratio(a, b)"""
        sa, sb = self.unit_size(a), self.unit_size(b)
        if sa is None or sb is None:
            return None
        return sa / sb

    def has_offset(self, u):
        O = conversions._offsets
        return any(f in O and O[f] for f in u.factors)


def degree(u):
    return max(1, sum(abs(e) for f, e in u.factors.items() if f is not One))
