from measured import *
from measured import systems, conversions
from measured.conversions import ConversionNotFound
from measured.si import *
from measured.us import *
from decimal import Decimal
def t(label, f):
    try:
        print(label, "->", f())
    except Exception as e:
        print(label, "!!", type(e).__name__, e)
# C10 temperature
t("0C in K", lambda: (0*Celsius).in_unit(Kelvin))
t("0K in C", lambda: (0*Kelvin).in_unit(Celsius))
t("32F in C", lambda: (32*Fahrenheit).in_unit(Celsius))
t("100C in F", lambda: (100*Celsius).in_unit(Fahrenheit))
t("0 R in F", lambda: (0*Rankine).in_unit(Fahrenheit))
t("0 K in F", lambda: (0*Kelvin).in_unit(Fahrenheit))
t("-40F in C", lambda: (-40*Fahrenheit).in_unit(Celsius))
t("1 kC in K", lambda: (1*(Kilo*Celsius)).in_unit(Kelvin))
t("1000 C in K", lambda: (1000*(Celsius)).in_unit(Kelvin))
t("300 K in mC", lambda: (300*Kelvin).in_unit(Milli*Celsius))
t("300 K in C", lambda: (300*Kelvin).in_unit(Celsius))
t("mK in C", lambda: (300000*(Milli*Kelvin)).in_unit(Celsius))
t("C==K", lambda: (0*Celsius)==(273.15*Kelvin))
t("K==C", lambda: (273.15*Kelvin)==(0*Celsius))
t("C<K", lambda: (0*Celsius)<(274*Kelvin))
t("F==C", lambda: (32*Fahrenheit)==(0*Celsius))
t("F==C", lambda: (-40*Fahrenheit)==(-40*Celsius))
t("C+C", lambda: (10*Celsius)+(10*Celsius))
t("C+K", lambda: (10*Celsius)+(10*Kelvin))
t("K+C", lambda: (10*Kelvin)+(10*Celsius))
t("Decimal C", lambda: (Decimal("10")*Celsius).in_unit(Kelvin))
t("plan F->C", lambda: conversions._plan_conversion(Fahrenheit, Celsius))
t("plan C->F", lambda: conversions._plan_conversion(Celsius, Fahrenheit))
t("plan K->F", lambda: conversions._plan_conversion(Kelvin, Fahrenheit))
