/-
  Model/LALR.lean — a generic table-driven LR driver and lark's contextual lexer.

  Source modelled: the parse loop of lark's `_Parser`/`ParserState.feed_token` and the
  `ContextualLexer`/`Scanner.match` embedded in /repo/src/measured/_parser.py
  (lines 1–3498, the engine), driven by the tables `DATA`/`MEMO` of that file
  (emitted per run as Generated/Grammar.lean).

  * `feed` is lark's `feed_token`: look the token type up in the current state, shift,
    or reduce (pop `len(expansion)` entries, call the rule's callback, goto on the rule's
    origin) until the token is shifted; on `$END` return the value when the end state is
    reached.
  * Semantic actions run at reduce time, threaded through a state `σ` — lark invokes the
    transformer callbacks inside the parser, so side effects of earlier reductions (unit
    interning) persist when a later token is rejected.
  * The lexer is contextual: in parser state `q` only the terminals that `q` has an action
    for (plus the ignored ones) are tried, in lark's global terminal order
    (priority, max width, pattern length, name), and the first that matches wins — the
    semantics of Python's `re` alternation.
-/
import Model.Basic

namespace Measured

structure Tok where
  type : String
  text : String
  deriving DecidableEq, Repr, Inhabited

inductive Action where
  | shift (state : Nat)
  | reduce (rule : Nat)
  deriving DecidableEq, Repr, Inhabited

structure GRule where
  origin    : String
  expansion : List String
  alias     : Option String := none
  deriving DecidableEq, Repr, Inhabited

structure LRTable where
  states : List (Nat × List (String × Action))
  deriving DecidableEq, Repr, Inhabited

namespace LRTable

def row (t : LRTable) (q : Nat) : List (String × Action) :=
  match t.states.find? (fun r => r.1 == q) with
  | some r => r.2
  | none => []

def action? (t : LRTable) (q : Nat) (sym : String) : Option Action :=
  match (t.row q).find? (fun c => c.1 == sym) with
  | some c => some c.2
  | none => none

end LRTable

/-- One `feed_token`.  `vals`/`stack` are the value and state stacks (top = head).
    Returns the new stacks, the semantic state, and `some v` when parsing finished. -/
def feed {σ V : Type} (t : LRTable) (rules : List GRule) (endState : Nat)
    (act : σ → GRule → List V → σ × Except Exc V) (mkTok : Tok → V)
    (tok : Tok) (isEnd : Bool) :
    Nat → σ → List Nat → List V → σ × Except Exc (List Nat × List V × Option V)
  | 0, s, _, _ => (s, .error .unmodelled)
  | fuel + 1, s, stack, vals =>
    match stack with
    | [] => (s, .error .parseError)
    | q :: _ =>
      match t.action? q tok.type with
      | none => (s, .error .parseError)                          -- UnexpectedToken
      | some (.shift q') => (s, .ok (q' :: stack, mkTok tok :: vals, none))
      | some (.reduce r) =>
        match rules[r]? with
        | none => (s, .error .parseError)
        | some rule =>
          let n := rule.expansion.length
          let args := (vals.take n).reverse
          let stack' := stack.drop n
          let vals' := vals.drop n
          match act s rule args with
          | (s', .error e) => (s', .error e)
          | (s', .ok v) =>
            match stack' with
            | [] => (s', .error .parseError)
            | q0 :: _ =>
              match t.action? q0 rule.origin with
              | some (.shift q1) =>
                if isEnd && q1 == endState then (s', .ok (q1 :: stack', v :: vals', some v))
                else feed t rules endState act mkTok tok isEnd fuel s' (q1 :: stack') (v :: vals')
              | _ => (s', .error .parseError)

/-! ### the contextual lexer -/

/-- A terminal matcher: the length (in characters) of the match at the head of the input,
    `none` for no match.  All shipped terminals have a minimum width of 1. -/
abbrev Matcher := List Char → Option Nat

structure LexConf where
  /-- terminals in lark's scan order, with their matchers -/
  terminals : List (String × Matcher)
  ignore    : List String

/-- `Scanner.match` restricted to the terminals acceptable in a parser state. -/
def scan (lc : LexConf) (accepts : List String) (input : List Char) : Option (String × Nat) :=
  lc.terminals.findSome? (fun tm =>
    if accepts.contains tm.1 || lc.ignore.contains tm.1 then
      match tm.2 input with
      | some n => if n > 0 then some (tm.1, n) else none
      | none => none
    else none)

/-- The terminals a parser state has an action for. -/
def acceptsOf (t : LRTable) (lc : LexConf) (q : Nat) : List String :=
  ((t.row q).map (·.1)).filter (fun n => lc.terminals.any (fun tm => tm.1 == n))

/-- The interleaved lex/parse loop (`parse_from_state`). -/
def parseLoop {σ V : Type} (t : LRTable) (rules : List GRule) (endState : Nat) (lc : LexConf)
    (act : σ → GRule → List V → σ × Except Exc V) (mkTok : Tok → V) :
    Nat → List Char → σ → List Nat → List V → σ × Except Exc V
  | 0, _, s, _, _ => (s, .error .unmodelled)
  | fuel + 1, input, s, stack, vals =>
    match input with
    | [] =>
      match feed t rules endState act mkTok ⟨"$END", ""⟩ true 4096 s stack vals with
      | (s', .ok (_, _, some v)) => (s', .ok v)
      | (s', .ok (_, _, none)) => (s', .error .parseError)
      | (s', .error e) => (s', .error e)
    | _ =>
      match stack with
      | [] => (s, .error .parseError)
      | q :: _ =>
        match scan lc (acceptsOf t lc q) input with
        | none => (s, .error .parseError)                        -- UnexpectedCharacters
        | some (name, n) =>
          let text := String.ofList (input.take n)
          let rest := input.drop n
          if lc.ignore.contains name then parseLoop t rules endState lc act mkTok fuel rest s stack vals
          else
            match feed t rules endState act mkTok ⟨name, text⟩ false 4096 s stack vals with
            | (s', .ok (stack', vals', _)) => parseLoop t rules endState lc act mkTok fuel rest s' stack' vals'
            | (s', .error e) => (s', .error e)

def parseWith {σ V : Type} (t : LRTable) (rules : List GRule) (startState endState : Nat) (lc : LexConf)
    (act : σ → GRule → List V → σ × Except Exc V) (mkTok : Tok → V) (s : σ) (text : String) :
    σ × Except Exc V :=
  let cs := text.toList
  parseLoop t rules endState lc act mkTok (cs.length + 2) cs s [startState] []

/-! ### parse trees (lark's default tree builder) -/

inductive Tree where
  | node (name : String) (children : List Tree)
  | tok (t : Tok)
  deriving Repr, Inhabited

/-- lark's `ParseTreeBuilder` for this grammar's options: tokens whose terminal name
    starts with `_` are filtered out, children that are trees of `_`-prefixed rules are
    inlined, and the node is named by the alias or the origin. -/
def treeAction (_ : Unit) (r : GRule) (args : List Tree) : Unit × Except Exc Tree :=
  let kids := args.flatMap (fun c =>
    match c with
    | .tok t => if t.type.startsWith "_" then [] else [c]
    | .node n ch => if n.startsWith "_" then ch else [c])
  ((), .ok (.node (r.alias.getD r.origin) kids))

partial def Tree.show : Tree → String
  | .tok t => s!"{t.type}:{t.text}"
  | .node n ch => s!"({n} " ++ " ".intercalate (ch.map Tree.show) ++ ")"

end Measured
