/-
  Proofs/Dim.lean — algebra of dimension vectors (`Dim = List Int`).
-/
import Model.Basic

namespace Measured
namespace Dim

theorem mul_comm (a b : Dim) : mul a b = mul b a := by
  unfold mul
  rw [List.zipWith_comm]
  congr 1; funext x y; exact Int.add_comm y x

theorem mul_assoc (a b c : Dim) : mul (mul a b) c = mul a (mul b c) := by
  unfold mul
  induction a generalizing b c with
  | nil => simp
  | cons x xs ih =>
    cases b with
    | nil => simp
    | cons y ys =>
      cases c with
      | nil => simp
      | cons z zs => simp [Int.add_assoc, ih]

theorem mul_left_comm (a b c : Dim) : mul a (mul b c) = mul b (mul a c) := by
  rw [← mul_assoc, mul_comm a b, mul_assoc]

theorem number_mul (a : Dim) : mul (number a.length) a = a := by
  unfold mul number
  induction a with
  | nil => simp
  | cons x xs ih => simp [List.replicate_succ, ih]

theorem mul_number (a : Dim) : mul a (number a.length) = a := by
  rw [mul_comm, number_mul]

theorem pow_add (a : Dim) (m n : Int) : mul (pow a m) (pow a n) = pow a (m + n) := by
  unfold mul pow
  induction a with
  | nil => simp
  | cons x xs ih => simp [Int.mul_add, ih]

theorem pow_mul (a : Dim) (m n : Int) : pow (pow a m) n = pow a (m * n) := by
  unfold pow
  simp [List.map_map, Int.mul_assoc]

theorem pow_zero (a : Dim) : pow a 0 = number a.length := by
  unfold pow number
  induction a with
  | nil => simp
  | cons x xs ih =>
    simp only [Int.mul_zero] at ih
    simp [List.replicate_succ, ih]

theorem pow_one (a : Dim) : pow a 1 = a := by
  unfold pow; simp

theorem mul_pow (a b : Dim) (n : Int) : pow (mul a b) n = mul (pow a n) (pow b n) := by
  unfold mul pow
  induction a generalizing b with
  | nil => simp
  | cons x xs ih =>
    cases b with
    | nil => simp
    | cons y ys => simp [Int.add_mul, ih]

theorem number_pow (k : Nat) (n : Int) : pow (number k) n = number k := by
  unfold pow number
  induction k with
  | zero => simp
  | succ k ih => simp [List.replicate_succ]

@[simp] theorem length_mul (a b : Dim) : (mul a b).length = min a.length b.length := by
  simp [mul]

@[simp] theorem length_pow (a : Dim) (n : Int) : (pow a n).length = a.length := by
  simp [pow]

@[simp] theorem length_number (k : Nat) : (number k).length = k := by
  simp [number]

theorem div_eq_mul_pow (a b : Dim) : div a b = mul a (pow b (-1)) := by
  unfold div mul pow
  induction a generalizing b with
  | nil => simp
  | cons x xs ih =>
    cases b with
    | nil => simp
    | cons y ys =>
      simp only [List.zipWith_cons_cons, List.map_cons, List.cons.injEq]
      exact ⟨by omega, ih ys⟩

theorem mul_pow_neg_self (a : Dim) : mul a (pow a (-1)) = number a.length := by
  have := pow_add a 1 (-1)
  rw [pow_one] at this
  rw [this]; simpa using pow_zero a

/-- `x ↦ x ^ n` is injective on vectors of one length for `n ≠ 0`. -/
theorem pow_inj {a b : Dim} {n : Int} (hn : n ≠ 0) (hl : a.length = b.length)
    (h : pow a n = pow b n) : a = b := by
  unfold pow at h
  induction a generalizing b with
  | nil => cases b with
    | nil => rfl
    | cons y ys => simp at hl
  | cons x xs ih =>
    cases b with
    | nil => simp at hl
    | cons y ys =>
      simp only [List.map_cons, List.cons.injEq] at h
      simp only [List.length_cons, Nat.add_right_cancel_iff] at hl
      have hx : x = y := Int.eq_of_mul_eq_mul_right hn h.1
      rw [hx, ih hl h.2]

/-- When `root` succeeds its result, raised to the degree, is the original vector. -/
theorem root_pow {a r : Dim} {n : Int} (hn : n ≠ 0) (h : root a n = .ok r) : pow r n = a := by
  unfold root at h
  have hn' : (n == 0) = false := by simpa using hn
  simp only [hn', Bool.false_eq_true, ↓reduceIte] at h
  split at h
  · cases h
  · next hdiv =>
    injection h with h
    subst h
    simp only [Bool.not_eq_true, List.any_eq_false] at hdiv
    unfold pow
    rw [List.map_map]
    conv => rhs; rw [← List.map_id a]
    apply List.map_congr_left
    intro s hs
    have := hdiv s hs
    simp only [Function.comp_apply, id_eq]
    have hmod : s % n = 0 := by simpa using this
    rw [Int.fdiv_eq_ediv_of_dvd (Int.dvd_of_emod_eq_zero hmod)]
    exact Int.ediv_mul_cancel (Int.dvd_of_emod_eq_zero hmod)

theorem root_length {a r : Dim} {n : Int} (h : root a n = .ok r) : r.length = a.length := by
  unfold root at h
  split at h
  · injection h with h; subst h; simp
  · split at h
    · cases h
    · injection h with h; subst h; simp

end Dim
end Measured
