/-
  Proofs/CanonStep.lean — the intern table holds at most one record per key, every record's
  factor mapping is in normal form, and all public operations keep it that way.  Hence
  equal keys ⇒ the same object.
-/
import Proofs.Canon
import Proofs.Pfx

namespace Measured
open St

/-- Normal form of a factor mapping as `Unit` stores it: either the dimensionless marker
    `{One: 1}`, or a non-empty mapping with distinct keys, no zero exponent and no `One`. -/
def Norm (one : UId) (fs : Factors) : Prop :=
  fs = [(one, 1)] ∨ (Simp fs ∧ one ∉ fs.map (·.1) ∧ fs ≠ [])

theorem Norm.nodupKeys {one : UId} {fs : Factors} (h : Norm one fs) : NodupKeys fs := by
  rcases h with rfl | ⟨h, _, _⟩
  · simp [NodupKeys]
  · exact h.nodup

theorem filter_eq_self_of {one : UId} {fs : Factors} (hs : Simp fs) (ho : one ∉ fs.map (·.1)) :
    fs.filter (fun p => p.1 != one && p.2 != 0) = fs := by
  apply List.filter_eq_self.2
  intro f hf
  simp only [Bool.and_eq_true, bne_iff_ne, ne_eq]
  exact ⟨fun e => ho (e ▸ List.mem_map_of_mem hf), hs.nonzero f hf⟩

theorem Norm.simplify_eq {one : UId} {fs : Factors} (h : Norm one fs) : simplify one fs = fs := by
  rcases h with rfl | ⟨hs, ho, hne⟩
  · simp [simplify]
  · unfold simplify
    simp only
    rw [filter_eq_self_of hs ho]
    split
    · next he => exact absurd (List.isEmpty_iff.1 he) hne
    · rfl

theorem norm_simplify {one : UId} {fs : Factors} (h : NodupKeys fs) : Norm one (simplify one fs) := by
  rcases simplify_cases one fs with ⟨e, _⟩ | ⟨e, hne⟩
  · exact Or.inl e
  · right
    rw [e]
    refine ⟨?_, ?_, hne⟩
    · refine ⟨nodupKeys_filter h _, ?_⟩
      intro f hf
      have := (List.mem_filter.1 hf).2
      simp only [Bool.and_eq_true, bne_iff_ne, ne_eq] at this
      exact this.2
    · intro hm
      obtain ⟨g, hg, hgk⟩ := List.mem_map.1 hm
      have := (List.mem_filter.1 hg).2
      simp only [Bool.and_eq_true, bne_iff_ne, ne_eq] at this
      exact this.1 hgk

/-- The canonical-table invariant. -/
structure Canon (s : St) : Prop where
  uniq : ∀ i j (hi : i < s.units.length) (hj : j < s.units.length),
    s.units[i].pfx = s.units[j].pfx → sortKey s.units[i].factors = sortKey s.units[j].factors → i = j
  norm : ∀ u ∈ s.units, Norm s.one u.factors
  pfxNormal : ∀ u ∈ s.units, u.pfx.Normal
  oneRec : s.one < s.units.length ∧ (s.unit! s.one).pfx = Pfx.identity ∧
    (s.unit! s.one).factors = [(s.one, 1)]

theorem findUnit_none {us : List UnitRec} {p : Pfx} {fs : Factors} (h : findUnit us p fs = none) :
    ∀ u ∈ us, ¬ (u.pfx = p ∧ sortKey u.factors = sortKey fs) := by
  unfold findUnit at h
  simp only at h
  intro u hu ⟨h1, h2⟩
  have := List.findIdx?_eq_none_iff.1 h u hu
  simp [h1, h2] at this

theorem findUnit_key {us : List UnitRec} {p : Pfx} {fs : Factors} {i : Nat}
    (h : findUnit us p fs = some i) :
    ∃ hi : i < us.length, us[i].pfx = p ∧ sortKey us[i].factors = sortKey fs := by
  unfold findUnit at h
  simp only at h
  obtain ⟨hi, hp, _⟩ := List.findIdx?_eq_some_iff_getElem.1 h
  simp only [Bool.and_eq_true, beq_iff_eq] at hp
  exact ⟨hi, hp.1, hp.2⟩

/-- In a canonical table the lookup finds *the* record with the key. -/
theorem findUnit_of_key {s : St} (hc : Canon s) {p : Pfx} {fs : Factors} {i : Nat}
    (hi : i < s.units.length) (hp : s.units[i].pfx = p) (hk : sortKey s.units[i].factors = sortKey fs) :
    findUnit s.units p fs = some i := by
  cases hf : findUnit s.units p fs with
  | none => exact absurd ⟨hp, hk⟩ (findUnit_none hf _ (List.getElem_mem hi))
  | some j =>
    obtain ⟨hj, hpj, hkj⟩ := findUnit_key hf
    have := hc.uniq i j hi hj (hp.trans hpj.symm) (hk.trans hkj.symm)
    rw [this]

theorem newUnit_canon {s : St} (hc : Canon s) {p : Pfx} (hpn : p.Normal) {fs : Factors} (d : Dim)
    (hn : Norm s.one fs) : Canon (s.newUnit p fs d).1 := by
  unfold newUnit
  split
  · exact hc
  · next hnone =>
    have hno := findUnit_none hnone
    refine ⟨?_, ?_, ?_, ?_⟩
    · intro i j hi hj hp hk
      simp only [List.length_append, List.length_cons, List.length_nil] at hi hj
      by_cases hi' : i < s.units.length
      · by_cases hj' : j < s.units.length
        · simp only [List.getElem_append_left hi', List.getElem_append_left hj'] at hp hk
          exact hc.uniq i j hi' hj' hp hk
        · have hj'' : j = s.units.length := by omega
          subst hj''
          simp only [List.getElem_append_left hi', List.getElem_append_right (Nat.le_refl _),
            Nat.sub_self, List.getElem_cons_zero] at hp hk
          exact absurd ⟨hp, hk⟩ (hno _ (List.getElem_mem hi'))
      · have hi'' : i = s.units.length := by omega
        subst hi''
        by_cases hj' : j < s.units.length
        · simp only [List.getElem_append_left hj', List.getElem_append_right (Nat.le_refl _),
            Nat.sub_self, List.getElem_cons_zero] at hp hk
          exact absurd ⟨hp.symm, hk.symm⟩ (hno _ (List.getElem_mem hj'))
        · omega
    · intro u hu
      rcases List.mem_append.1 hu with hu | hu
      · exact hc.norm u hu
      · simp at hu; subst hu; exact hn
    · intro u hu
      rcases List.mem_append.1 hu with hu | hu
      · exact hc.pfxNormal u hu
      · simp at hu; subst hu; exact hpn
    · obtain ⟨h1, h2, h3⟩ := hc.oneRec
      refine ⟨by simp; exact Nat.lt_succ_of_lt h1, ?_, ?_⟩
      · rw [unit!_append_old h1]; exact h2
      · rw [unit!_append_old h1]; exact h3

/-- **Same key ⇒ same object.**  Whatever dimension a call site passes along, interning
    the same prefix and an equal-keyed factor mapping returns the same index. -/
theorem newUnit_same {s : St} (_hc : Canon s) (p : Pfx) {fs fs' : Factors} (d d' : Dim)
    (hk : sortKey fs = sortKey fs') :
    ((s.newUnit p fs d).1.newUnit p fs' d').2 = (s.newUnit p fs d).2 ∧
    ((s.newUnit p fs d).1.newUnit p fs' d').1 = (s.newUnit p fs d).1 := by
  cases hf : findUnit s.units p fs with
  | some i =>
    have h1 : s.newUnit p fs d = (s, i) := by simp [newUnit, hf]
    have hf' : findUnit s.units p fs' = some i := by
      unfold findUnit at hf ⊢; rw [← hk]; exact hf
    have h2 : s.newUnit p fs' d' = (s, i) := by simp [newUnit, hf']
    rw [h1]; simp only; rw [h2]; exact ⟨rfl, rfl⟩
  | none =>
    have h1 : s.newUnit p fs d =
        ({ s with units := s.units ++ [({ pfx := p, factors := fs, dim := d } : UnitRec)] }, s.units.length) := by
      simp [newUnit, hf]
    have hno := findUnit_none hf
    have hf' : findUnit (s.units ++ [({ pfx := p, factors := fs, dim := d } : UnitRec)]) p fs' = some s.units.length := by
      unfold findUnit
      simp only
      apply List.findIdx?_eq_some_iff_getElem.2
      refine ⟨by simp, ?_, ?_⟩
      · simp [hk]
      · intro j hj
        rw [List.getElem_append_left hj]
        have := hno _ (List.getElem_mem hj)
        simp only [Bool.and_eq_true, beq_iff_eq, not_and]
        intro hp hkj
        exact this ⟨hp, hkj.trans hk.symm⟩
    rw [h1]
    simp only
    have h2 : ({ s with units := s.units ++ [({ pfx := p, factors := fs, dim := d } : UnitRec)] } : St).newUnit p fs' d' =
        (({ s with units := s.units ++ [({ pfx := p, factors := fs, dim := d } : UnitRec)] } : St), s.units.length) := by
      simp [newUnit, hf']
    rw [h2]; exact ⟨rfl, rfl⟩

end Measured
