/-
  C07 — impossible conversions fail only with ConversionNotFound, with or without -O.

  Proved on the model for every input: `==`/`!=` never raise ConversionNotFound (it is caught
  and turned into NotImplemented → False / True), the ordering operators turn it into
  TypeError, an `assert` is a no-op when assertions are disabled, and conversion across
  dimensions raises exactly ConversionNotFound.  That NO AssertionError/KeyError/… escapes the
  planner is false for the pinned code (known findings); the claim for the rest of the input
  space rests on the kernel-evaluated family (both interpreter modes) and on correspondence.
-/
import Proofs.Monad
import Props.C03
import Proofs.GraphHist
import Proofs.ConvertMode
import Proofs.PlanTotal
import Proofs.PlanMode

namespace Measured.C07
open Measured

variable {α : Type} [Add α] [Sub α] [Mul α] [Div α] [Neg α] [OfNat α 0] [OfNat α 1] [FloatLike α]

/-- `assert cond` under `python -O`. -/
theorem cassert_off (cond : Bool) (c : Conv α) (h : c.asserts = false) :
    CM.exec (cassert cond : CM α Unit) c = (.ok (), c) := by
  unfold cassert
  rw [exec_bind]
  have : CM.exec (getThe (Conv α) : CM α (Conv α)) c = (.ok c, c) := rfl
  rw [this]
  simp [h]

/-- `assert cond` in the default mode: passes silently or raises AssertionError, never anything else. -/
theorem cassert_on (cond : Bool) (c : Conv α) (h : c.asserts = true) :
    CM.exec (cassert cond : CM α Unit) c = (if cond then (.ok (), c) else (.error .assertion, c)) := by
  unfold cassert
  rw [exec_bind]
  have : CM.exec (getThe (Conv α) : CM α (Conv α)) c = (.ok c, c) := rfl
  rw [this]
  cases cond <;> simp [h]

/-- `Quantity.__eq__` never lets ConversionNotFound escape: it answers NotImplemented. -/
theorem eqCore_no_notFound (a b : Qty α) (c : Conv α) :
    (CM.exec (Qty.eqCore a b) c).1 ≠ .error .notFound := by
  unfold Qty.eqCore
  rw [exec_bind, exec_getSt]
  simp only
  split
  · simp
  · rw [exec_bind, exec_unprefixedQty]
    simp only
    rw [exec_bind, exec_unprefixedQty]
    simp only
    split
    · simp
    · rw [exec_tryCatch]
      split
      · simp
      · next e c3 _ =>
        by_cases hn : e = .notFound
        · subst hn; simp
        · simp only [beq_iff_eq, hn, ↓reduceIte, exec_throw]
          intro he
          injection he with he
          exact hn he

/-- The same for `<`. -/
theorem ltCore_no_notFound (a b : Qty α) (c : Conv α) :
    (CM.exec (Qty.ltCore a b) c).1 ≠ .error .notFound := by
  unfold Qty.ltCore
  rw [exec_bind, exec_getSt]
  simp only
  split
  · simp
  · rw [exec_bind, exec_unprefixedQty]
    simp only
    rw [exec_bind, exec_unprefixedQty]
    simp only
    split
    · simp
    · rw [exec_tryCatch]
      split
      · simp
      · next e c3 _ =>
        by_cases hn : e = .notFound
        · subst hn; simp
        · simp only [beq_iff_eq, hn, ↓reduceIte, exec_throw]
          intro he
          injection he with he
          exact hn he

/-- Converting across dimensions raises exactly ConversionNotFound (restated from C03). -/
theorem convert_incommensurable {c : Conv α} {q : Qty α} {t : UId}
    (hd : c.st.dimOfUnit q.unit ≠ c.st.dimOfUnit t) :
    CM.exec (convert q t) c = (.error .notFound, c) := C03.convert_incommensurable hd

/-! ### the path search itself (proved for the model of `_find_path_recursive` / `_reduce_dimension`) -/

/-- In every state reached by unit operations, declarations that are consistent with a size
    assignment (and dimensionally sound) and directly settled conversions, a path search between two
    units of one dimension ENDS QUIETLY: it returns a path or the empty list — which `_inline_paths`
    turns into ConversionNotFound — and raises nothing else, whether assertions are enabled
    (`c.asserts`) or not.  The same theorem shows that the fuel of the model (`rows + 3`) is never
    exhausted, i.e. the bounded recursion of the model is the unbounded recursion of the code. -/
theorem path_search_never_raises {σ : UId → Rat} (hσ : ∀ k, σ k ≠ 0) {c : Conv Rat} (hr : Reach σ c)
    {start stop : UId} (hs : start < c.st.units.length) (ht : stop < c.st.units.length)
    (hd : c.st.dimOfUnit start = c.st.dimOfUnit stop) :
    ∃ p c', CM.exec (findPath start stop) c = (.ok p, c') :=
  reach_findPath_total hσ hr hs ht hd

/-- **`-O` changes nothing (path search)**: in every reachable state, the search between two units of
    one dimension returns the same path and interns the same units with assertions on and off
    (`withAsserts x` sets the interpreter mode). -/
theorem path_search_mode_independent {σ : UId → Rat} (hσ : ∀ k, σ k ≠ 0) {c c' : Conv Rat} (hr : Reach σ c)
    {start stop : UId} {p : List (Hop Rat)} (hs : start < c.st.units.length) (ht : stop < c.st.units.length)
    (hd : c.st.dimOfUnit start = c.st.dimOfUnit stop)
    (hx : CM.exec (findPath start stop) c = (.ok p, c')) (x : Bool) :
    CM.exec (findPath start stop) (withAsserts x c) = (.ok p, withAsserts x c') := by
  obtain ⟨hg, _, hw⟩ := reach_graphOK hσ hr
  exact findPath_mode hg hw hs ht hd hx x

/-- **`-O` changes nothing (directly settled conversions)**: a conversion that succeeds through the
    directly found path succeeds in the other interpreter mode too, with the same magnitude, the same
    unit and the same interning. -/
theorem direct_conversion_mode_independent {σ : UId → Rat} (hσ : ∀ k, σ k ≠ 0) {c c' c2 : Conv Rat} (hr : Reach σ c)
    {q r : Qty Rat} {t : UId} {p : List (Hop Rat)}
    (hq : q.unit < c.st.units.length) (ht : t < c.st.units.length)
    (hx : CM.exec (convert q t) c = (.ok r, c'))
    (hfp : CM.exec (findPath q.unit t)
      { c with st := ((c.st.unprefixedUnit q.unit).1.unprefixedUnit t).1 } = (.ok p, c2))
    (hne : p ≠ []) (x : Bool) :
    CM.exec (convert q t) (withAsserts x c) = (.ok r, withAsserts x c') := by
  obtain ⟨hg, _, hw⟩ := reach_graphOK hσ hr
  exact convert_direct_mode hg hw hq ht hx hfp hne x

/-- **Only ConversionNotFound (conversions between simple units, through the factor planner).**  For
    products of powers of prefixed base units of fundamental, independent dimensions whose pairing
    exhausts both sides and pairs units of one dimension, in every reachable state (`Reach2`: also
    after planner conversions) `convert` returns a quantity or raises ConversionNotFound — no
    AssertionError, KeyError, ZeroDivisionError, IndexError — with assertions on or off. -/
theorem simple_conversion_only_not_found {σ : UId → Rat} (hσ : ∀ k, σ k ≠ 0) {K : List Dim} {plan : List (Rough Rat)}
    {c : Conv Rat} (hr : Reach2 σ c) {q : Qty Rat} {t : UId}
    (hq : q.unit < c.st.units.length) (ht : t < c.st.units.length)
    (hsp : SimplePair σ K c q.unit t plan)
    (hdims : ∀ r ∈ plan, c.st.dimOfUnit r.start = c.st.dimOfUnit r.stop) :
    ∃ res c', CM.exec (convert q t) c = (res, c') ∧ ((∃ r, res = .ok r) ∨ res = .error .notFound) := by
  obtain ⟨hg, ho, hw⟩ := reach2_graphOK hσ hr
  exact convert_simple_total hσ hg hw ho hq ht hsp hdims

/-- **`-O` changes nothing (conversions between simple units, through the factor planner).** -/
theorem simple_conversion_mode_independent {σ : UId → Rat} (hσ : ∀ k, σ k ≠ 0) {K : List Dim} {plan : List (Rough Rat)}
    {c c' : Conv Rat} (hr : Reach2 σ c) {q r : Qty Rat} {t : UId}
    (hq : q.unit < c.st.units.length) (ht : t < c.st.units.length)
    (hsp : SimplePair σ K c q.unit t plan)
    (hdims : ∀ r ∈ plan, c.st.dimOfUnit r.start = c.st.dimOfUnit r.stop)
    (hx : CM.exec (convert q t) c = (.ok r, c')) (x : Bool) :
    CM.exec (convert q t) (withAsserts x c) = (.ok r, withAsserts x c') := by
  obtain ⟨hg, ho, hw⟩ := reach2_graphOK hσ hr
  exact convert_simple_mode hσ hg hw ho hq ht hsp hdims hx x

end Measured.C07
