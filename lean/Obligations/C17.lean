/-
  Per-run obligation for C17: the invariants the idempotence theorem needs hold in the state the
  shipped modules register at import (`init_ginv`, `init_canon`, decide +kernel) and are preserved by
  every history (`run_ginv`, `run_canon`) — so in EVERY state reachable from the imported library,
  parsing a text twice gives the same result and the second parse changes nothing.
-/
import Props.C17
import Obligations.C02

namespace Measured.Obligations
open Measured Generated

theorem reachable_good (ops : List Op) : Good (run init ops) :=
  ⟨run_ginv init_ginv ops, run_canon init_ginv init_canon ops⟩

section
variable {α : Type} [Add α] [Sub α] [Mul α] [Div α] [Neg α] [OfNat α 0] [OfNat α 1] [FloatLike α]

theorem reachable_parse_idempotent_unit (ops : List Op) (g : Grammar) (t : String) (c : Conv α)
    (hc : c.st = run init ops) :
    CM.exec (parseUnit g t : CM α UId) (CM.exec (parseUnit g t : CM α UId) c).2 = CM.exec (parseUnit g t : CM α UId) c :=
  C17.parse_idempotent_unit g t c (by rw [hc]; exact reachable_good ops)

theorem reachable_parse_idempotent_quantity (ops : List Op) (g : Grammar) (t : String) (c : Conv α)
    (hc : c.st = run init ops) :
    CM.exec (parseQuantity g t : CM α (Qty α)) (CM.exec (parseQuantity g t : CM α (Qty α)) c).2 =
      CM.exec (parseQuantity g t : CM α (Qty α)) c :=
  C17.parse_idempotent_quantity g t c (by rw [hc]; exact reachable_good ops)

/-- In EVERY state reachable from the imported library: the magnitude of an accepted quantity is
    `int(text)` of an integer literal or `float(text)` of a decimal literal, and an `int` magnitude is
    the decimal value of a text `[+-]digits`. -/
theorem reachable_parse_magnitude_as_written (ops : List Op) (g : Grammar) (t : String) (c : Conv α)
    (hc : c.st = run init ops) (q : Qty α)
    (h : (CM.exec (parseQuantity g t : CM α (Qty α)) c).1 = .ok q) :
    Written q.mag ∧
    (q.mag.isInt = true →
      ∃ text : String, (stripSign text.toList).isEmpty = false ∧ (stripSign text.toList).all isDigit = true ∧
        q.mag = .int (if isNegChars text.toList then -((Nat.ofDigitChars 10 (stripSign text.toList) 0 : Nat) : Int)
                      else ((Nat.ofDigitChars 10 (stripSign text.toList) 0 : Nat) : Int))) :=
  have hg : Good c.st := by rw [hc]; exact reachable_good ops
  ⟨(C17.parse_magnitude_as_written g t c hg q h).1,
   C17.parse_int_magnitude_is_integer_literal g t c hg q h⟩

/-- the hypotheses are met and both cases of `Written` occur: `int("-12")` and `float("2.5e3")` -/
example : pyInt "-12" = .ok (-12) ∧ decimalLiteral "2.5e3" = some 2500 := by decide +kernel

end
end Measured.Obligations
