/-
  Model/Expr.lean — unit expressions (`*`, `/`, `**`, `root`, prefix application over
  existing units) and their evaluation against the intern table.
-/
import Model.Step

namespace Measured

inductive UExpr where
  | ref (i : UId)
  | mul (a b : UExpr)
  | div (a b : UExpr)
  | pow (a : UExpr) (n : Int)
  | root (a : UExpr) (n : Int)
  | pfx (p : Pfx) (a : UExpr)
  deriving Repr, Inhabited

namespace UExpr

def refs : UExpr → List UId
  | .ref i => [i]
  | .mul a b | .div a b => a.refs ++ b.refs
  | .pow a _ | .root a _ | .pfx _ a => a.refs

def pfxs : UExpr → List Pfx
  | .ref _ => []
  | .mul a b | .div a b => a.pfxs ++ b.pfxs
  | .pow a _ | .root a _ => a.pfxs
  | .pfx p a => p :: a.pfxs

/-- Evaluate left to right, the way Python evaluates the operands of a binary operator. -/
def eval (s : St) : UExpr → St × Except Exc UId
  | .ref i => (s, .ok i)
  | .mul a b =>
    match eval s a with
    | (s1, .error e) => (s1, .error e)
    | (s1, .ok i) =>
      match eval s1 b with
      | (s2, .error e) => (s2, .error e)
      | (s2, .ok j) => s2.mulUnit i j
  | .div a b =>
    match eval s a with
    | (s1, .error e) => (s1, .error e)
    | (s1, .ok i) =>
      match eval s1 b with
      | (s2, .error e) => (s2, .error e)
      | (s2, .ok j) => s2.divUnit i j
  | .pow a n =>
    match eval s a with
    | (s1, .error e) => (s1, .error e)
    | (s1, .ok i) => let (s2, j) := s1.powUnit i n; (s2, .ok j)
  | .root a n =>
    match eval s a with
    | (s1, .error e) => (s1, .error e)
    | (s1, .ok i) => s1.rootUnit i n
  | .pfx p a =>
    match eval s a with
    | (s1, .error e) => (s1, .error e)
    | (s1, .ok i) => s1.pmulUnit p i

/-- The dimension an expression denotes, computed from the leaves' dimensions alone. -/
def dimDenote (base : St) : UExpr → Option Dim
  | .ref i => some (base.dimOfUnit i)
  | .mul a b => do let x ← dimDenote base a; let y ← dimDenote base b; pure (x.mul y)
  | .div a b => do let x ← dimDenote base a; let y ← dimDenote base b; pure (x.div y)
  | .pow a n => do let x ← dimDenote base a; pure (x.pow n)
  | .root a n => do
      let x ← dimDenote base a
      match x.root n with
      | .ok d => pure d
      | .error _ => none
  | .pfx _ a => dimDenote base a

end UExpr
end Measured

namespace Measured
namespace UExpr

/-- The prefix an expression denotes (same-base algebra of `Pfx`). -/
def pfxDenote (base : St) : UExpr → Except Exc Pfx
  | .ref i => .ok (base.unit! i).pfx
  | .mul a b => do let x ← pfxDenote base a; let y ← pfxDenote base b; Pfx.mul x y
  | .div a b => do let x ← pfxDenote base a; let y ← pfxDenote base b; Pfx.div x y
  | .pow a n => do let x ← pfxDenote base a; pure (x.pow n)
  | .root a n => do let x ← pfxDenote base a; if n == 0 then pure Pfx.identity else x.root n
  | .pfx p a => do let x ← pfxDenote base a; Pfx.mul x p

/-- The finite map base-unit ↦ exponent an expression denotes (free abelian group). -/
def expDenote (base : St) : UExpr → UId → Int
  | .ref i, k => (base.unit! i).factors.foldr (fun f acc => (if f.1 = k then f.2 else 0) + acc) 0
  | .mul a b, k => expDenote base a k + expDenote base b k
  | .div a b, k => expDenote base a k - expDenote base b k
  | .pow a n, k => expDenote base a k * n
  | .root a n, k => if n = 0 then 0 else Int.fdiv (expDenote base a k) n
  | .pfx _ a, k => expDenote base a k

end UExpr
end Measured
