/-
  Proofs/ResultDim.lean — the dimension of the unit an operation returns is the
  corresponding operation on the operands' dimensions, whether the unit was freshly
  interned or found in the table (C01 second sentence; C03 dimensional analysis).
-/
import Proofs.StepAll

namespace Measured
open St

variable {s : St}

theorem dimOf_perm (h : WF s) {a b : Factors} (hp : a.Perm b) (ha : ValidF s a) :
    s.dimOf a = s.dimOf b := by
  induction hp with
  | nil => rfl
  | cons x _ ih =>
    simp only [dimOf_cons]
    rw [ih (fun g hg => ha g (List.mem_cons_of_mem _ hg))]
  | swap x y l =>
    simp only [dimOf_cons]
    rw [Dim.mul_left_comm]
  | trans h1 _ ih1 ih2 =>
    rw [ih1 ha, ih2 (fun g hg => ha g ((h1.mem_iff).2 hg))]

theorem insertBy_perm {α} (le : α → α → Bool) (x : α) (l : List α) : (insertBy le x l).Perm (x :: l) := by
  induction l with
  | nil => exact List.Perm.refl _
  | cons y rest ih =>
    unfold insertBy
    split
    · exact List.Perm.refl _
    · exact (List.Perm.cons y ih).trans (List.Perm.swap x y rest)

theorem isort_perm {α} (le : α → α → Bool) (l : List α) : (isort le l).Perm l := by
  unfold isort
  induction l with
  | nil => exact List.Perm.refl _
  | cons x rest ih =>
    simp only [List.foldr_cons]
    exact (insertBy_perm le x _).trans (List.Perm.cons x ih)

theorem sortKey_perm (fs : Factors) : (sortKey fs).Perm fs := isort_perm _ fs

theorem findUnit_some {us : List UnitRec} {p : Pfx} {fs : Factors} {i : Nat}
    (h : findUnit us p fs = some i) :
    ∃ hi : i < us.length, us[i].pfx = p ∧ us[i].factors.Perm fs := by
  unfold findUnit at h
  simp only at h
  obtain ⟨hi, hp, _⟩ := List.findIdx?_eq_some_iff_getElem.1 h
  refine ⟨hi, ?_, ?_⟩
  · simp only [Bool.and_eq_true, beq_iff_eq] at hp; exact hp.1
  · simp only [Bool.and_eq_true, beq_iff_eq] at hp
    exact (sortKey_perm _).symm.trans (hp.2 ▸ sortKey_perm fs)

/-- The unit `newUnit` returns has the requested dimension and prefix — also when it was
    already interned (possibly registered by a different call site, with its own `dim`). -/
theorem newUnit_result (h : Inv s) (p : Pfx) {fs : Factors} {d : Dim}
    (hv : ValidF s fs) (hd : d = s.dimOf fs) :
    ((s.newUnit p fs d).1.unit! (s.newUnit p fs d).2).dim = d ∧
    ((s.newUnit p fs d).1.unit! (s.newUnit p fs d).2).pfx = p := by
  unfold newUnit
  split
  · next i hf =>
    obtain ⟨hi, hp, hperm⟩ := findUnit_some hf
    simp only
    rw [unit!_eq hi]
    refine ⟨?_, hp⟩
    rw [h.2 _ (List.getElem_mem hi), hd]
    exact dimOf_perm h.1 hperm (h.1.facValid _ (List.getElem_mem hi))
  · simp only
    unfold unit!
    simp only
    rw [getD_eq_getElem' _ _ (by simp)]
    simp

theorem mulUnit_dim (h : Inv s) {a b i : Nat} (ha : a < s.units.length) (hb : b < s.units.length)
    (hr : (s.mulUnit a b).2 = .ok i) :
    (s.mulUnit a b).1.dimOfUnit i = (s.dimOfUnit a).mul (s.dimOfUnit b) := by
  unfold mulUnit at hr ⊢
  simp only at hr ⊢
  split at hr
  · cases hr
  · next p hp =>
    simp only [hp]
    obtain ⟨va, da, _⟩ := inv_unit h ha
    obtain ⟨vb, db, _⟩ := inv_unit h hb
    have := newUnit_result h p (validF_simplify h.1 (validF_mergeAdd va vb))
      (d := (s.unit! a).dim.mul (s.unit! b).dim)
      (by rw [dimOf_simplify h.1 (validF_mergeAdd va vb), dimOf_mergeAdd h.1 va vb, da, db])
    simp only at hr
    injection hr with hr
    subst hr
    exact this.1

theorem divUnit_dim (h : Inv s) {a b i : Nat} (ha : a < s.units.length) (hb : b < s.units.length)
    (hr : (s.divUnit a b).2 = .ok i) :
    (s.divUnit a b).1.dimOfUnit i = (s.dimOfUnit a).div (s.dimOfUnit b) := by
  unfold divUnit at hr ⊢
  simp only at hr ⊢
  split at hr
  · cases hr
  · next p hp =>
    simp only [hp]
    obtain ⟨va, da, _⟩ := inv_unit h ha
    obtain ⟨vb, db, _⟩ := inv_unit h hb
    have vn := validF_negate vb
    have := newUnit_result h p (validF_simplify h.1 (validF_mergeAdd va vn))
      (d := (s.unit! a).dim.div (s.unit! b).dim)
      (by rw [dimOf_simplify h.1 (validF_mergeAdd va vn), dimOf_mergeAdd h.1 va vn,
            dimOf_negate h.1 vb, da, db, Dim.div_eq_mul_pow])
    simp only at hr
    injection hr with hr
    subst hr
    exact this.1

theorem powUnit_dim (h : Inv s) {a : Nat} (ha : a < s.units.length) (n : Int) :
    (s.powUnit a n).1.dimOfUnit (s.powUnit a n).2 = (s.dimOfUnit a).pow n := by
  unfold powUnit
  obtain ⟨va, da, _⟩ := inv_unit h ha
  have vm : ValidF s ((s.unit! a).factors.map (fun p => (p.1, p.2 * n))) := validF_map (· * n) va
  exact (newUnit_result h _ (validF_simplify h.1 vm)
    (by rw [dimOf_simplify h.1 vm, dimOf_scale h.1 va, da])).1

theorem unprefixedUnit_dim (h : Inv s) {a : Nat} (ha : a < s.units.length) :
    (s.unprefixedUnit a).1.dimOfUnit (s.unprefixedUnit a).2 = s.dimOfUnit a := by
  unfold unprefixedUnit
  obtain ⟨va, da, _⟩ := inv_unit h ha
  exact (newUnit_result h _ va da).1

theorem pmulUnit_dim (h : Inv s) (p : Pfx) {a i : Nat} (ha : a < s.units.length)
    (hr : (s.pmulUnit p a).2 = .ok i) :
    (s.pmulUnit p a).1.dimOfUnit i = s.dimOfUnit a := by
  unfold pmulUnit at hr ⊢
  simp only at hr ⊢
  split at hr
  · cases hr
  · next p' hp =>
    simp only [hp]
    obtain ⟨va, da, _⟩ := inv_unit h ha
    have := newUnit_result h p' va da
    simp only at hr
    injection hr with hr
    subst hr
    exact this.1

theorem rootUnit_dim (h : Inv s) {a i : Nat} (ha : a < s.units.length) {n : Int} (hn : n ≠ 0)
    (hr : (s.rootUnit a n).2 = .ok i) :
    (s.dimOfUnit a).root n = .ok ((s.rootUnit a n).1.dimOfUnit i) := by
  have hn0 : (n == 0) = false := by simpa using hn
  obtain ⟨va, da, la⟩ := inv_unit h ha
  cases hroot : (s.unit! a).dim.root n with
  | error e => simp [rootUnit, hn0, hroot] at hr
  | ok d =>
    cases hp : (s.unit! a).pfx.root n with
    | error e => simp [rootUnit, hn0, hroot, hp] at hr
    | ok p =>
      by_cases hall : ((s.unit! a).factors.any (fun f => f.1 != s.one && f.2 % n != 0)) = true
      · simp [rootUnit, hn0, hroot, hp, hall] at hr
      · have vm : ValidF s ((s.unit! a).factors.map (fun f => (f.1, Int.fdiv f.2 n))) :=
          validF_map (fun e => Int.fdiv e n) va
        have hdiv : ∀ f ∈ (s.unit! a).factors, f.1 ≠ s.one → f.2 % n = 0 := by
          intro f hf hne
          simp only [Bool.not_eq_true, List.any_eq_false, Bool.and_eq_false_iff] at hall
          rcases hall f hf with h1 | h1
          · simp at h1; exact absurd h1 hne
          · simpa using h1
        have hdd : d = s.dimOf (simplify s.one ((s.unit! a).factors.map (fun f => (f.1, Int.fdiv f.2 n)))) := by
          rw [dimOf_simplify h.1 vm]
          apply Dim.pow_inj hn
          · rw [Dim.root_length hroot, la, dimOf_length h.1 vm]
          · rw [Dim.root_pow hn hroot, dimOf_rootScale h.1 va hdiv, da]
        have key := newUnit_result h p (validF_simplify h.1 vm) hdd
        have hres : s.rootUnit a n = ((s.newUnit p (simplify s.one ((s.unit! a).factors.map (fun f => (f.1, Int.fdiv f.2 n)))) d).1,
            .ok (s.newUnit p (simplify s.one ((s.unit! a).factors.map (fun f => (f.1, Int.fdiv f.2 n)))) d).2) := by
          simp [rootUnit, hn0, hroot, hp, hall]
        rw [hres] at hr ⊢
        simp only at hr ⊢
        injection hr with hr
        subst hr
        show Dim.root (s.unit! a).dim n = _
        rw [hroot]
        congr 1
        exact key.1.symm

end Measured
