/-
  Thorough-tier obligation for C10: the full 5 × 5 grid of prefixes on both sides for all 12
  ordered pairs of temperature scales (300 planner evaluations in the kernel, ~6 min).
-/
import Obligations.C10

namespace Measured.Obligations
open Measured

theorem temperature_plans_exact_full :
    tempAllWith (tempPrefixes.flatMap (fun p => tempPrefixes.map (fun q => (p, q)))) = true := by
  decide +kernel

end Measured.Obligations
