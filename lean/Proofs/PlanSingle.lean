import Proofs.GraphHist
import Proofs.PathTotal
namespace Measured
open St
variable {σ : UId → Rat}

theorem replaceFactors_light (c : Conv Rat) (d : Dim) (u : UId) (hw : d.weight ≤ 1) :
    CM.exec (replaceFactors (α := Rat) [(d, [u])]) c = (.ok ([], [(d, [u])]), c) := by
  unfold replaceFactors
  simp only
  rw [exec_bind, exec_getSt]
  simp only
  unfold replaceFactors.outer
  simp only [forIn, List.forIn'_cons, List.forIn'_nil, hw, ↓reduceIte]
  rw [exec_bind, exec_getSt]
  simp only
  rw [exec_bind, exec_getThe']
  simp only
  rw [exec_bind, exec_bind, exec_pure]
  simp only [exec_pure, List.isEmpty_nil, ↓reduceIte]

theorem matchFactors_nil (c : Conv Rat) :
    CM.exec (matchFactors (α := Rat) [] []) c = (.ok ([], [], []), c) := by
  unfold matchFactors
  have h0 : Splat.byComplexFirst ([] : Splat) = [] := rfl
  simp only [h0, List.foldlM_nil, pure_bind, exec_pure]

theorem cleanPop_single (d : Dim) (u : UId) : Splat.cleanPop [(d, [u])] d = .ok (u, []) := by
  unfold Splat.cleanPop Splat.get?
  simp

theorem matchFactors_single (c : Conv Rat) (d : Dim) (u v : UId)
    (hfac : d.isFactor d = true) (hnum : (d.div d).isNumber = true) (hneg : d.any (fun x => decide (x < 0)) = false) :
    CM.exec (matchFactors (α := Rat) [(d, [u])] [(d, [v])]) c =
      (.ok ([{ ratio := .int 1, start := u, stop := v, exp := 1 }], [], []), c) := by
  unfold matchFactors
  have h1 : ∀ w : UId, Splat.byComplexFirst ([(d, [w])] : Splat) = [d] := fun _ => rfl
  simp only [h1, List.foldlM_cons, List.foldlM_nil]
  unfold matchStep
  simp only [h1, matchCollect, hfac, hnum, ↓reduceIte, List.nil_append, List.foldl_nil, bne_self_eq_false,
    Bool.false_eq_true, popAll, cleanPop_single, liftE, mulUnits, List.foldlM_nil, pure_bind, hneg, bind_pure]
  rfl

theorem splat_single {s : St} {a u : UId} (h : (s.unit! a).factors = [(u, 1)]) :
    splat s a = [(s.dimOfUnit u, [u])] := by
  unfold splat
  rw [h]
  simp [Splat.extend]

theorem cancelFactors_nil (b : Bool) : cancelFactors (α := Rat) [] b = .ok ([], []) := rfl

/-- `_plan_conversion` for two units with ONE factor each (to the first power) of one fundamental
    dimension, when the direct search finds nothing (the units carry prefixes): the factor planner
    pairs the two base units and asks the path search for them. -/
theorem planConversion_single {c c2 c3 : Conv Rat} {start stop u v : UId} {d : Dim} {path : List (Hop Rat)} {head : Mag Rat}
    (hsf : ((c.st.unprefixedUnit stop).1.unit! start).factors = [(u, 1)])
    (htf : ((c.st.unprefixedUnit stop).1.unit! stop).factors = [(v, 1)])
    (hdu : (c.st.unprefixedUnit stop).1.dimOfUnit u = d) (hdv : (c.st.unprefixedUnit stop).1.dimOfUnit v = d)
    (hw : d.weight ≤ 1) (hfac : d.isFactor d = true) (hnum : (d.div d).isNumber = true)
    (hneg : d.any (fun x => decide (x < 0)) = false)
    (hhead : recip (Pfx.value (c.st.unit! stop).pfx : Mag Rat) = .ok head)
    (hfp0 : CM.exec (findPath start stop) { c with st := (c.st.unprefixedUnit stop).1 } = (.ok [], c2))
    (hfp1 : CM.exec (findPath u v) c2 = (.ok path, c3)) (hne : path ≠ []) :
    CM.exec (planConversion start stop) c =
      (.ok [ { ratio := .int 1, path := path, exp := 1 },
             { ratio := head, path := [{ scale := .int 1, offset := .int 0, unit := c.st.one }], exp := 1 } ], c3) := by
  unfold planConversion
  rw [exec_bind, exec_getSt]
  simp only
  rw [exec_bind]
  unfold quantifyUnit
  rw [exec_bind, exec_getSt]
  simp only
  rw [exec_bind, exec_liftSt]
  simp only [exec_pure]
  rw [exec_bind, exec_liftE, hhead]
  simp only
  rw [exec_bind, exec_getSt]
  simp only
  rw [exec_bind, hfp0]
  simp only [List.isEmpty_nil, Bool.not_true, Bool.false_eq_true, ↓reduceIte]
  rw [splat_single hsf, splat_single htf, hdu, hdv]
  rw [exec_bind, replaceFactors_light c2 d u hw]
  simp only [List.map_nil]
  rw [exec_bind, replaceFactors_light c2 d v hw]
  simp only [List.mapM_nil]
  rw [exec_bind, exec_pure]
  simp only [List.append_nil, List.nil_append]
  rw [exec_bind, matchFactors_single c2 d u v hfac hnum hneg]
  simp only
  rw [exec_bind, matchFactors_nil]
  simp only [List.map_nil, List.append_nil]
  rw [exec_bind, exec_liftE, cancelFactors_nil]
  simp only
  rw [exec_bind, exec_liftE, cancelFactors_nil]
  simp only [List.append_nil, List.isEmpty_nil]
  rw [exec_bind, cassert_true]
  simp only
  rw [exec_bind, cassert_true]
  simp only
  unfold inlinePaths
  simp only [List.cons_append, List.nil_append, List.mapM_cons, List.mapM_nil]
  have hne' : path.isEmpty = false := by
    cases path with
    | nil => exact absurd rfl hne
    | cons _ _ => rfl
  rw [exec_bind, exec_bind, hfp1]
  simp only [hne', Bool.false_eq_true, ↓reduceIte, exec_pure]
  rw [exec_bind, exec_bind, exec_bind, exec_findPath_self]
  simp only [List.isEmpty_cons, Bool.false_eq_true, ↓reduceIte, exec_pure, exec_bind]

theorem recip_ok {m : Mag Rat} (h : m.val ≠ 0) : ∃ r, recip m = .ok r := by
  unfold recip Mag.div
  have hz : m.isZero = false := by
    cases hb : m.isZero with
    | false => rfl
    | true => exact absurd ((isZero_iff m).1 hb) h
  have : Mag.divErr (.int 1) m = none := by unfold Mag.divErr; simp [hz]
  rw [this]
  simp only
  split <;> exact ⟨_, rfl⟩

/-- the same with an empty search between the base units: ConversionNotFound -/
theorem planConversion_single_notFound {c c2 c3 : Conv Rat} {start stop u v : UId} {d : Dim} {head : Mag Rat}
    (hsf : ((c.st.unprefixedUnit stop).1.unit! start).factors = [(u, 1)])
    (htf : ((c.st.unprefixedUnit stop).1.unit! stop).factors = [(v, 1)])
    (hdu : (c.st.unprefixedUnit stop).1.dimOfUnit u = d) (hdv : (c.st.unprefixedUnit stop).1.dimOfUnit v = d)
    (hw : d.weight ≤ 1) (hfac : d.isFactor d = true) (hnum : (d.div d).isNumber = true)
    (hneg : d.any (fun x => decide (x < 0)) = false)
    (hhead : recip (Pfx.value (c.st.unit! stop).pfx : Mag Rat) = .ok head)
    (hfp0 : CM.exec (findPath start stop) { c with st := (c.st.unprefixedUnit stop).1 } = (.ok [], c2))
    (hfp1 : CM.exec (findPath u v) c2 = (.ok [], c3)) :
    CM.exec (planConversion start stop) c = (.error .notFound, c3) := by
  unfold planConversion
  rw [exec_bind, exec_getSt]
  simp only
  rw [exec_bind]
  unfold quantifyUnit
  rw [exec_bind, exec_getSt]
  simp only
  rw [exec_bind, exec_liftSt]
  simp only [exec_pure]
  rw [exec_bind, exec_liftE, hhead]
  simp only
  rw [exec_bind, exec_getSt]
  simp only
  rw [exec_bind, hfp0]
  simp only [List.isEmpty_nil, Bool.not_true, Bool.false_eq_true, ↓reduceIte]
  rw [splat_single hsf, splat_single htf, hdu, hdv]
  rw [exec_bind, replaceFactors_light c2 d u hw]
  simp only [List.map_nil]
  rw [exec_bind, replaceFactors_light c2 d v hw]
  simp only [List.mapM_nil]
  rw [exec_bind, exec_pure]
  simp only [List.append_nil, List.nil_append]
  rw [exec_bind, matchFactors_single c2 d u v hfac hnum hneg]
  simp only
  rw [exec_bind, matchFactors_nil]
  simp only [List.map_nil, List.append_nil]
  rw [exec_bind, exec_liftE, cancelFactors_nil]
  simp only
  rw [exec_bind, exec_liftE, cancelFactors_nil]
  simp only [List.append_nil, List.isEmpty_nil]
  rw [exec_bind, cassert_true]
  simp only
  rw [exec_bind, cassert_true]
  simp only
  unfold inlinePaths
  simp only [List.cons_append, List.nil_append, List.mapM_cons, List.mapM_nil]
  rw [exec_bind, exec_bind, hfp1]
  simp only [List.isEmpty_nil, ↓reduceIte]
  rw [exec_bind, exec_throw]

/-- **Prefixed units of one fundamental dimension convert exactly.**  Source and target each consist
    of ONE base unit to the first power (with any prefixes): kilometre → mile, milligram → pound,
    millisecond → hour.  Whether the path search connects the two units directly or — the usual case
    with a prefix — the factor planner pairs the two base units and asks the path search for those,
    whatever `convert` returns is exact: `result · size(target) = magnitude · size(source)`. -/
theorem convert_single_exact (hσ : ∀ k, σ k ≠ 0) {c c' : Conv Rat} {q r : Qty Rat} {t u v : UId} {d : Dim}
    (hg : GraphOK σ c) (hwf : GraphWF c) (hoff : c.offsets = [])
    (hq : q.unit < c.st.units.length) (ht : t < c.st.units.length)
    (hu : u < c.st.units.length) (hv : v < c.st.units.length)
    (hsf : (c.st.unit! q.unit).factors = [(u, 1)]) (htf : (c.st.unit! t).factors = [(v, 1)])
    (hub : (c.st.unit! u).pfx = Pfx.identity ∧ (c.st.unit! u).factors = [(u, 1)])
    (hvb : (c.st.unit! v).pfx = Pfx.identity ∧ (c.st.unit! v).factors = [(v, 1)])
    (hdu : c.st.dimOfUnit u = d) (hdv : c.st.dimOfUnit v = d)
    (hw : d.weight ≤ 1) (hfac : d.isFactor d = true) (hnum : (d.div d).isNumber = true)
    (hneg : d.any (fun x => decide (x < 0)) = false)
    (h : CM.exec (convert q t) c = (.ok r, c')) :
    r.unit = t ∧ r.mag.val * unitSz σ c.st t = q.mag.val * unitSz σ c.st q.unit := by
  have hdqt : c.st.dimOfUnit q.unit = c.st.dimOfUnit t := by
    by_contra hne
    have hbne : (c.st.dimOfUnit q.unit != c.st.dimOfUnit t) = true := by simpa using hne
    unfold convert at h
    rw [exec_bind, exec_getSt] at h
    simp only [hbne, ↓reduceIte] at h
    rw [exec_bind, exec_throw] at h
    simp at h
  obtain ⟨hru, plan, hp, hval⟩ := convert_ok h
  refine ⟨hru, ?_⟩
  obtain ⟨ga, fa⟩ := unprefixStep hg hq
  have wa := hwf.frame hg fa
  obtain ⟨gb, fb⟩ := unprefixStep ga (fa.lt ht)
  have wb := wa.frame ga fb
  have fab := fa.trans fb
  have hdb : ({ c with st := ((c.st.unprefixedUnit q.unit).1.unprefixedUnit t).1 } : Conv Rat).st.dimOfUnit q.unit =
      ({ c with st := ((c.st.unprefixedUnit q.unit).1.unprefixedUnit t).1 } : Conv Rat).st.dimOfUnit t := by
    rw [fab.ext.dimOfUnit hq, fab.ext.dimOfUnit ht]; exact hdqt
  obtain ⟨p0, c2, hfp0⟩ := findPath_total gb wb (fab.lt hq) (fab.lt ht) hdb
  by_cases hp0 : p0 = []
  · subst hp0
    obtain ⟨g2, f2, _, _, _⟩ := findPath_sound gb (fab.lt hq) (fab.lt ht) hfp0
    have w2 := wb.frame gb f2
    have fab2 := fab.trans f2
    have hd2 : c2.st.dimOfUnit u = c2.st.dimOfUnit v := by
      rw [fab2.ext.dimOfUnit hu, fab2.ext.dimOfUnit hv, hdu, hdv]
    obtain ⟨path, c3, hfp1⟩ := findPath_total g2 w2 (fab2.lt hu) (fab2.lt hv) hd2
    -- facts in the state after the two `unprefixed` internings
    have hsf' : (((c.st.unprefixedUnit q.unit).1.unprefixedUnit t).1.unit! q.unit).factors = [(u, 1)] := by
      have := (fab.ext.same q.unit hq).2.1; rw [← hsf]; exact this
    have htf' : (((c.st.unprefixedUnit q.unit).1.unprefixedUnit t).1.unit! t).factors = [(v, 1)] := by
      have := (fab.ext.same t ht).2.1; rw [← htf]; exact this
    have hdu' : ((c.st.unprefixedUnit q.unit).1.unprefixedUnit t).1.dimOfUnit u = d := by
      rw [← hdu]; exact fab.ext.dimOfUnit hu
    have hdv' : ((c.st.unprefixedUnit q.unit).1.unprefixedUnit t).1.dimOfUnit v = d := by
      rw [← hdv]; exact fab.ext.dimOfUnit hv
    have hpt : ((c.st.unprefixedUnit q.unit).1.unit! t).pfx = (c.st.unit! t).pfx := fa.pfx ht
    have hptpos : Pfx.val (c.st.unit! t).pfx ≠ 0 := ne_of_gt (Pfx.val_pos (canon_pfx hg.canon ht))
    obtain ⟨head, hhead⟩ := recip_ok (m := (Pfx.value ((c.st.unprefixedUnit q.unit).1.unit! t).pfx : Mag Rat))
      (by rw [Pfx.value_val, hpt]; exact hptpos)
    by_cases hpath : path = []
    · subst hpath
      have := planConversion_single_notFound (c := { c with st := (c.st.unprefixedUnit q.unit).1 })
        hsf' htf' hdu' hdv' hw hfac hnum hneg hhead hfp0 hfp1
      rw [this] at hp
      simp at hp
    · have hpl := planConversion_single (c := { c with st := (c.st.unprefixedUnit q.unit).1 })
        hsf' htf' hdu' hdv' hw hfac hnum hneg hhead hfp0 hfp1 hpath
      rw [hpl] at hp
      simp only [Prod.mk.injEq, Except.ok.injEq] at hp
      obtain ⟨hplan, _⟩ := hp
      subst hplan
      obtain ⟨_, _, hps, _, hpo⟩ := findPath_sound g2 (fab2.lt hu) (fab2.lt hv) hfp1
      have hz := hpo (by rw [fab2.offsets]; exact hoff)
      have hscale := hps hpath
      rw [fab2.sz hu, fab2.sz hv] at hscale
      obtain ⟨hhv, _⟩ := recip_val hhead
      rw [Pfx.value_val, hpt] at hhv
      -- sizes
      have szq : unitSz σ c.st q.unit = Pfx.val (c.st.unit! q.unit).pfx * σ u := by
        unfold unitSz; rw [hsf]; simp
      have szt : unitSz σ c.st t = Pfx.val (c.st.unit! t).pfx * σ v := by
        unfold unitSz; rw [htf]; simp
      have szu : unitSz σ c.st u = σ u := by
        unfold unitSz; rw [hub.1, hub.2, Pfx.val_identity]; simp
      have szv : unitSz σ c.st v = σ v := by
        unfold unitSz; rw [hvb.1, hvb.2, Pfx.val_identity]; simp
      rw [szu, szv] at hscale
      rw [hval]
      simp only [List.map_cons, List.map_nil, PlanStep.toV, applyPlanV, val_int, Int.cast_one, mul_one]
      rw [applyPathV_offsetFree path hz]
      simp only [applyPathV, Hop.toV, val_int, Int.cast_one, Int.cast_zero, zpow_one, mul_one, add_zero, hhv,
        Pfx.value_val]
      rw [szq, szt]
      field_simp
      rw [← hscale]
      ring
  · obtain ⟨_, d', c2', hfp', hd'⟩ := convert_direct_exact hσ hg hq ht hoff h
    rw [hfp0] at hfp'
    simp only [Prod.mk.injEq, Except.ok.injEq] at hfp'
    obtain ⟨rfl, rfl⟩ := hfp'
    exact (hd' hp0).1

end Measured
