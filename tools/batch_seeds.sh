#!/bin/bash
# usage: batch_seeds.sh <outroot> <ID>...   — confirm + try both patches of each ID; log to /tmp/batch_seeds.log
R=$1; shift
for id in "$@"; do
  for k in "patch.diff demo.py" "patch2.diff demo2.py"; do
    set -- $k
    [ -f $R/$id/$1 ] || continue
    echo "== $id $1"
    /verif/tools/confirm_seed.sh $R/$id $1 $2 | head -1
    /verif/tools/try_seed.sh $R/$id/$1 $id
  done
done
