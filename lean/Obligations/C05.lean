/-
  Per-run obligations for C05: on the evaluated family the model's plans are offset-free with
  positive constants (so the linearity / sign theorems apply to them), and there-and-back
  coefficients multiply to 1 within the tolerance of the shipped constants.
-/
import Props.C05
import Obligations.C04

namespace Measured.Obligations
open Measured Generated

def planVOf (c : Conv Rat) (a b : UId) : Except Exc (List StepV) :=
  (CM.exec (planConversion a b) c).1.map (fun p => p.map PlanStep.toV)

def planShapeOk (plan : List StepV) : Bool :=
  plan.all (fun st => decide (0 < st.ratio) && st.path.all (fun h => decide (0 < h.scale) && h.offset == 0))

def roundTripCase (ab : UId × UId) : Bool :=
  match planVOf famConv ab.1 ab.2, planVOf famConv ab.2 ab.1 with
  | .ok p, .ok q =>
    planShapeOk p && planShapeOk q &&
    closeTo ((affineOf p).1 * (affineOf q).1) 1 (4 / 10^5) 0
  | _, _ => false

theorem family_round_trip : familyQuick.all roundTripCase = true := by decide +kernel

theorem planShapeOk_sound {plan : List StepV} (h : planShapeOk plan = true) :
    offsetFree plan ∧ positivePlan plan := by
  unfold planShapeOk at h
  simp only [List.all_eq_true, Bool.and_eq_true, decide_eq_true_eq, beq_iff_eq] at h
  exact ⟨fun st hst hp hh => ((h st hst).2 hp hh).2,
         fun st hst => ⟨(h st hst).1, fun hp hh => ((h st hst).2 hp hh).1⟩⟩

end Measured.Obligations
