"""C19 — declared names/symbols bind faithfully; failed definitions change nothing.

Generator: histories that first create objects anonymously (unit arithmetic; `Prefix(b, e)`;
`Dimension(exponents)`) and later declare names for them, in every order; define/derive/alias
with fresh names, duplicate names, duplicate symbols, symbols with spaces, empty strings, a clash
in either argument position; second names for one object; the identity-prefix shortcut;
lookups (`Unit.named`, `resolve_symbol`) in between; registry digests.
Oracle (implementation only), after EVERY operation, on the real registries: every
`_by_name`/`_by_symbol` entry of Unit, Prefix, Dimension points at an object that reports it and
every reported name looks up to that very object; after an operation that raised, all
registries, every object's names/symbols, the intern tables' sizes and `Unit._base` are
identical to the snapshot taken before the call; after a successful declaration the lookups
return that object.  Configurations: the shipped modules imported in random orders in fresh
interpreters (extra check).
"""
import json
import os
import subprocess

from measured import Dimension, Prefix, Unit

from .common import BaseContext

LEVEL_TEXT = ("Lean: Faithful (every registry entry points at an existing unit that reports it; every name/symbol a unit reports looks "
              "up to that very unit) is preserved by EVERY finite history of the public operations - arithmetic, roots, as_ratio, prefix "
              "application, symbol resolution, define/derive/alias (run_faithful, induction over the op list); a define/derive/alias "
              "that raises returns exactly the state it was given (failed_unit_naming_changes_nothing); a successful alias binds "
              "(alias_binds); no name is reported by two units (unit_name_never_bound_twice). QUERIES: no conversion, comparison or arithmetic "
              "operation on quantities, whatever its arguments and outcome, touches a name registry or the names a unit reports "
              "(rframed_convert, ...: the structural walk of Proofs/Frame.lean with the finer relation Frame), so the registries stay "
              "faithful through every history of queries, unit operations and declarations (queries_faithful). For the single-name classes Prefix and "
              "Dimension the same over every history of constructor calls - anonymous or naming, in any order - and Dimension.derive "
              "(declarations_faithful_in_every_history, failed_declaration_changes_nothing, declaration_binds, name_never_bound_twice). "
              "Per run the registries regenerated from /repo satisfy the invariants (init_faithful, init_prefixes_faithful, "
              "init_dimensions_faithful: decidable checkers evaluated by the kernel, lifted by soundness lemmas). Tied to the code by "
              "differential execution of generated naming histories on both sides and a registry oracle after every operation.")
LEVEL_NOTE = ("A SUCCESSFUL Dimension.define (which widens every key) and the symbol text of dimensions are not modelled (a failing one is: it must raise before anything is widened); Logarithm/LogarithmicUnit "
              "naming is outside the property. `exceptions raised part-way through a definition' are covered for the exceptions the "
              "library itself raises (ValueError); an asynchronous exception (KeyboardInterrupt, MemoryError) between two registry "
              "writes is runtime behaviour no executable model of the call exhibits. Module import orders are checked on the "
              "implementation only (fresh interpreters).")
TECHNIQUE = "Lean 4 invariant by induction over operation histories (unit registries) and declaration histories (prefix/dimension tables) + failed-call-is-no-op theorems + decide +kernel on regenerated registries + differential correspondence + registry oracle"

THEOREMS = [
    "Measured.run_faithful", "Measured.failed_naming_is_noop", "Measured.aliasUnit_binds",
    "Measured.C19.unit_names_faithful_in_every_history", "Measured.C19.failed_unit_naming_changes_nothing",
    "Measured.C19.alias_binds", "Measured.C19.unit_name_never_bound_twice",
    "Measured.C19.declarations_faithful_in_every_history", "Measured.C19.failed_declaration_changes_nothing",
    "Measured.C19.declaration_binds", "Measured.C19.name_never_bound_twice",
    "Measured.Obligations.init_faithful", "Measured.Obligations.init_prefixes_faithful",
    "Measured.Obligations.init_dimensions_faithful", "Measured.Obligations.shipped_unit_names_faithful",
    "Measured.queries_faithful", "Measured.rframed_convert", "Measured.C19.registries_faithful_after_every_query_history",
    "Measured.history_faithful", "Measured.C19.registries_faithful_in_every_history",
]
LEAN_TARGETS = ["Props.C19", "Obligations.C19", "Proofs.RegFrame", "Props.Planner"]
QUICK = {"chunks": 8, "ops": 700}
THOROUGH = {"chunks": 16, "ops": 5000}
RULE = ("(history prefix, declaration); non-trivial = a declaration naming an object that already existed anonymously, a "
        "declaration that raises, or a lookup after a declaration; distinct by op text")

MODULES = ["acoustics", "apocrypha", "astronomical", "avoirdupois", "computing", "electronics", "energy", "eu", "fff",
           "iec", "iso", "metric", "music", "natural", "si", "troy", "us"]


def snapshot():
    return {
        "un": dict(Unit._by_name), "us": dict(Unit._by_symbol), "pn": dict(Prefix._by_name), "ps": dict(Prefix._by_symbol),
        "dn": dict(Dimension._by_name),
        "unames": {id(u): (u.names, u.symbols) for u in Unit._known.values()},
        "pnames": {id(p): (p.name, p.symbol) for p in Prefix._known.values()},
        "dnames": {id(d): (d.name, d.symbol) for d in Dimension._known.values()},
        "sizes": (len(Unit._known), len(Prefix._known), len(Dimension._known), len(Unit._base)),
        # the intern tables themselves (key -> object) and what fixes a dimension's key
        "uk": dict(Unit._known), "pk": dict(Prefix._known), "dk": dict(Dimension._known),
        "dexp": {id(d): d.exponents for d in Dimension._known.values()},
        "fund": list(Dimension._fundamental),
    }


def same_dict(a, b):
    return a.keys() == b.keys() and all(a[k] is b[k] for k in a)


def faithful_failures():
    out = []
    for n, u in Unit._by_name.items():
        if n not in u.names:
            out.append(("Unit._by_name", n, "object does not report the name"))
    for y, u in Unit._by_symbol.items():
        if y not in u.symbols:
            out.append(("Unit._by_symbol", y, "object does not report the symbol"))
    for u in Unit._known.values():
        for n in u.names:
            if Unit._by_name.get(n) is not u:
                out.append(("Unit.names", n, "reported name looks up to another object or nothing"))
        for y in u.symbols:
            if Unit._by_symbol.get(y) is not u:
                out.append(("Unit.symbols", y, "reported symbol looks up to another object or nothing"))
    for n, p in Prefix._by_name.items():
        if p.name != n:
            out.append(("Prefix._by_name", n, "object reports %r" % (p.name,)))
    for y, p in Prefix._by_symbol.items():
        if p.symbol != y:
            out.append(("Prefix._by_symbol", y, "object reports %r" % (p.symbol,)))
    for p in Prefix._known.values():
        if p.name and Prefix._by_name.get(p.name) is not p:
            out.append(("Prefix.name", p.name, "reported name looks up to another object or nothing"))
        if p.symbol and Prefix._by_symbol.get(p.symbol) is not p:
            out.append(("Prefix.symbol", p.symbol, "reported symbol looks up to another object or nothing"))
    for n, d in Dimension._by_name.items():
        if d.name != n:
            out.append(("Dimension._by_name", n, "object reports %r" % (d.name,)))
    for d in Dimension._known.values():
        if d.name and Dimension._by_name.get(d.name) is not d:
            out.append(("Dimension.name", d.name, "reported name looks up to another object or nothing"))
    return out


class Context(BaseContext):
    def __init__(self, sess, rng):
        super().__init__(sess, rng)
        self.before = snapshot()
        self.extra = {"raised": 0, "declared_after_anonymous": 0}
        self.fresh = 0
        self.anon_units = []
        self.anon_pfx = []
        self.anon_dims = []
        self.split_texts = []     # texts that resolved through a prefix split (not registered symbols)
        self.expect = {}


def oracle(ctx, line, res):
    f = line.split("\t")
    fails = []
    if f[0] not in ("U", "N", "X"):
        return fails
    ctx.oracle_checks += 1
    now = snapshot()
    # (1) faithful, always
    for reg, key, why in faithful_failures()[:3]:
        fails.append({"kind": "unfaithful-registry", "registry": reg, "key": key, "why": why})
    # (2) a call that raised changed nothing
    if res.startswith("ERR") and f[1] in ("define", "derive", "alias", "pfx", "dim", "dderive", "ddefine"):
        ctx.extra["raised"] += 1
        b = ctx.before
        changed = [k for k in ("un", "us", "pn", "ps", "dn") if not same_dict(b[k], now[k])]
        changed += [k for k in ("unames", "pnames", "dnames") if any(b[k].get(i) != v for i, v in now[k].items() if i in b[k])]
        changed += ["intern-table " + k for k in ("uk", "pk", "dk") if not same_dict(b[k], now[k])]
        if b["dexp"] != now["dexp"]:
            changed.append("dimension-exponents")
        if len(b["fund"]) != len(now["fund"]) or any(x is not y for x, y in zip(b["fund"], now["fund"])):
            changed.append("fundamental-dimensions")
        if b["sizes"] != now["sizes"]:
            changed.append("intern-table-sizes %s -> %s" % (b["sizes"], now["sizes"]))
        if changed:
            fails.append({"kind": "failed-call-changed-state", "changed": changed, "error": res[4:]})
    # (3) a declaration that returned binds
    if res.startswith("ok"):
        try:
            if f[0] == "U" and f[1] in ("define", "derive"):
                name, sym = f[3], f[4]
                u = ctx.sess.U(res.split("\t")[1])
                if name and (Unit._by_name.get(name) is not u or name not in u.names):
                    fails.append({"kind": "declaration-does-not-bind", "what": "unit name", "name": name})
                if sym and (Unit._by_symbol.get(sym) is not u or sym not in u.symbols):
                    fails.append({"kind": "declaration-does-not-bind", "what": "unit symbol", "name": sym})
            elif f[0] == "U" and f[1] == "alias":
                u = ctx.sess.U(f[2])
                for what, t, reg, rep in (("unit name", f[3], Unit._by_name, u.names), ("unit symbol", f[4], Unit._by_symbol, u.symbols)):
                    if t not in ("-", "") and (reg.get(t) is not u or t not in rep):
                        fails.append({"kind": "declaration-does-not-bind", "what": what, "name": t})
            elif f[0] == "N" and f[1] == "pfx":
                b, e = f[2][1:].split(":")
                p = Prefix(int(b), int(e))
                for what, t, reg, rep in (("prefix name", f[3], Prefix._by_name, p.name), ("prefix symbol", f[4], Prefix._by_symbol, p.symbol)):
                    if t not in ("-", "=") and (reg.get(t) is not p or rep != t):
                        fails.append({"kind": "declaration-does-not-bind", "what": what, "name": t})
            elif f[0] == "N" and f[1] in ("dim", "dderive"):
                d = Dimension._known[tuple(int(x) for x in f[2][1:].split(","))]
                t = f[3]
                if t not in ("-", "=") and (Dimension._by_name.get(t) is not d or d.name != t):
                    fails.append({"kind": "declaration-does-not-bind", "what": "dimension name", "name": t})
        except Exception as e:  # noqa: BLE001
            fails.append({"kind": "oracle-crash", "error": repr(e)})
    # (4) lookups after a declaration return the declared object (resolve_symbol / named)
    exp = ctx.expect.pop(line, None)
    if exp is not None:
        want = exp
        got = ctx.sess.U(res.split("\t")[1]) if res.startswith("ok\tu") else None
        if got is not want:
            fails.append({"kind": "lookup-after-declaration", "op": line, "got": res, "want": str(want)})
    ctx.before = now
    return fails


def nontrivial(ctx, line, res):
    f = line.split("\t")
    if f[0] in ("U", "N") and f[1] in ("define", "derive", "alias", "pfx", "dim", "dderive", "ddefine", "named", "resolve"):
        return line
    return None


def generate(ctx, n_ops):
    rng = ctx.rng
    emitted = 0

    def fresh(kind):
        ctx.fresh += 1
        return "%s%s%d" % (kind, "".join(rng.choice("qwxzjv") for _ in range(2)), ctx.fresh)

    def taken_name():
        return rng.choice(list(Unit._by_name))

    def taken_symbol():
        return rng.choice(list(Unit._by_symbol))

    dim_tok = lambda d: "d" + ",".join(str(e) for e in d.exponents)  # noqa: E731

    while emitted < n_ops:
        r = rng.random()
        line = None
        if r < 0.22:
            # anonymous construction by arithmetic
            a, b = ctx.pick_pair()
            line = rng.choice(["U\tmul\tu%d\tu%d" % (a, b), "U\tdiv\tu%d\tu%d" % (a, b), "U\tpow\tu%d\t%d" % (a, ctx.small_int(-3, 3)),
                               "U\tpmul\t%s\tu%d" % (ctx.pfx_tok(ctx.pick_prefix_for(a)), a)])
            res = yield line
            emitted += 1
            if res.startswith("ok\tu"):
                i = int(res.split("\t")[1][1:])
                if not ctx.unit(i).names:
                    ctx.anon_units.append(i)
            continue
        if r < 0.50:
            # a unit declaration: derive / alias / define, good and bad
            target = rng.choice(ctx.anon_units) if ctx.anon_units and rng.random() < 0.6 else ctx.pick_unit()
            bad = rng.random() < 0.4
            name = taken_name() if bad and rng.random() < 0.5 else fresh("n")
            sym = taken_symbol() if bad and rng.random() < 0.5 else fresh("y")
            if bad and rng.random() < 0.25:
                sym = fresh("y") + " " + "x"
            if not bad and ctx.split_texts and rng.random() < 0.3:
                cand = rng.choice(ctx.split_texts)
                if cand not in Unit._by_symbol:
                    sym = cand        # a text that earlier resolved as prefix + symbol now becomes a declared symbol
            if rng.random() < 0.08:
                name = "="
            if rng.random() < 0.08:
                sym = "="
            name_t = "" if name == "=" else name
            sym_t = "" if sym == "=" else sym
            k = rng.random()
            if k < 0.4:
                line = "U\tderive\tu%d\t%s\t%s" % (target, name_t, sym_t)
            elif k < 0.75:
                which = rng.random()
                line = "U\talias\tu%d\t%s\t%s" % (target, "-" if which < 0.3 else name_t, "-" if 0.3 <= which < 0.6 else sym_t)
            else:
                d = rng.choice(list(Dimension._by_name.values()))
                line = "U\tdefine\t%s\t%s\t%s" % (dim_tok(d), name_t, sym_t)
            if ctx.unit(target).names == () and not bad:
                ctx.extra["declared_after_anonymous"] += 1
            res = yield line
            emitted += 1
            if res.startswith("ok"):
                f = line.split("\t")
                u = ctx.sess.U(res.split("\t")[1]) if f[1] != "alias" else ctx.sess.U(f[2])
                nm, sy = f[3], f[4]
                if nm not in ("-", ""):
                    l2 = "U\tnamed\t%s" % nm
                    ctx.expect[l2] = u
                    yield l2
                    emitted += 1
                if sy not in ("-", ""):
                    l2 = "U\tresolve\t%s" % sy
                    ctx.expect[l2] = u
                    yield l2
                    emitted += 1
            continue
        elif r < 0.60:
            text = rng.choice([p.symbol for p in ctx.si_prefixes if p.symbol]) + taken_symbol()
            line = rng.choice(["U\tnamed\t%s" % rng.choice(list(Unit._by_name) + ["nosuch"]),
                               "U\tresolve\t%s" % rng.choice(list(Unit._by_symbol) + ["nosuch"]),
                               "U\tresolve\t%s" % text])
            res = yield line
            emitted += 1
            if line.endswith(text) and res.startswith("ok\tu") and text not in Unit._by_symbol:
                ctx.split_texts.append(text)
            continue
        elif r < 0.80:
            # prefixes: anonymous first, declared later; duplicates; second names; identity shortcut
            k = rng.random()
            if k < 0.3:
                base, e = rng.choice([(10, rng.randint(31, 60)), (10, -rng.randint(31, 60)), (2, rng.randint(90, 140)), (7, rng.randint(1, 9))])
                ctx.anon_pfx.append((base, e))
                line = "N\tpfx\tp%d:%d\t-\t-" % (base, e)
            elif k < 0.65 and ctx.anon_pfx:
                base, e = rng.choice(ctx.anon_pfx)
                line = "N\tpfx\tp%d:%d\t%s\t%s" % (base, e, rng.choice([fresh("pn"), "-", "kilo", "="]), rng.choice([fresh("ps"), "-", "k", "Qi" if False else fresh("ps")]))
                ctx.extra["declared_after_anonymous"] += 1
            elif k < 0.8:
                p = rng.choice(list(Prefix._by_name.values()))
                line = "N\tpfx\tp%d:%d\t%s\t%s" % (p.base, p.exponent, rng.choice([p.name, fresh("pn"), "-"]), rng.choice([p.symbol or "-", fresh("ps"), "-"]))
            elif k < 0.9:
                line = "N\tpfx\tp%d:0\t%s\t%s" % (rng.choice([10, 2, 0]), rng.choice(["kilo", fresh("pn"), "-"]), rng.choice(["k", "-", fresh("ps")]))
            else:
                line = "N\tpfx\tp%d:%d\t%s\t%s" % (10, rng.randint(61, 90), rng.choice(["mega", "kilo", fresh("pn")]), rng.choice(["M", fresh("ps")]))
        elif r < 0.97:
            k = rng.random()
            if k < 0.3:
                ex = [0] + [rng.choice([0, 0, 1, -1, 2, 5, -7]) for _ in range(9)]
                ctx.anon_dims.append(ex)
                line = "N\tdim\td%s\t-\t-" % ",".join(map(str, ex))
            elif k < 0.6 and ctx.anon_dims:
                ex = rng.choice(ctx.anon_dims)
                op = rng.choice(["dim", "dderive"])
                nm = rng.choice([fresh("dn"), "length", "area", fresh("dn")])
                line = "N\t%s\td%s\t%s\t%s" % (op, ",".join(map(str, ex)), nm, rng.choice(["-", fresh("ds")]))
                ctx.extra["declared_after_anonymous"] += 1
            elif k < 0.8:
                d = rng.choice(list(Dimension._by_name.values()))
                line = "N\t%s\t%s\t%s\t-" % (rng.choice(["dim", "dderive"]), dim_tok(d), rng.choice([d.name, fresh("dn"), "speed", "length"]))
            else:
                # a fundamental definition that must fail: the name is taken (any symbol)
                line = "N\tddefine\t%s\t%s" % (rng.choice(list(Dimension._by_name)), rng.choice(["-", fresh("ds"), "L", "T"]))
        else:
            line = rng.choice(["STATE", "N\tpstate", "N\tdstate"])
        yield line
        emitted += 1
    yield "STATE"
    yield "N\tpstate"
    yield "N\tdstate"


ORDER_SCRIPT = r'''
import importlib, json, random, sys
sys.path.insert(0, sys.argv[1] + "/src")
mods = sys.argv[3].split(",")
random.Random(int(sys.argv[2])).shuffle(mods)
import measured
for m in mods:
    importlib.import_module("measured." + m)
from measured import Dimension, Prefix, Unit
bad = []
for n, u in Unit._by_name.items():
    if n not in u.names: bad.append(["Unit._by_name", n])
for y, u in Unit._by_symbol.items():
    if y not in u.symbols: bad.append(["Unit._by_symbol", y])
for u in Unit._known.values():
    bad += [["Unit.names", n] for n in u.names if Unit._by_name.get(n) is not u]
    bad += [["Unit.symbols", y] for y in u.symbols if Unit._by_symbol.get(y) is not u]
for n, p in Prefix._by_name.items():
    if p.name != n: bad.append(["Prefix._by_name", n])
for y, p in Prefix._by_symbol.items():
    if p.symbol != y: bad.append(["Prefix._by_symbol", y])
for p in Prefix._known.values():
    if p.name and Prefix._by_name.get(p.name) is not p: bad.append(["Prefix.name", p.name])
    if p.symbol and Prefix._by_symbol.get(p.symbol) is not p: bad.append(["Prefix.symbol", p.symbol])
for n, d in Dimension._by_name.items():
    if d.name != n: bad.append(["Dimension._by_name", n])
sig = [sorted(Unit._by_name), sorted(Unit._by_symbol), sorted(Prefix._by_name), sorted(Prefix._by_symbol), sorted(Dimension._by_name),
       sorted((n, str(u.dimension.exponents), str(u.prefix.base), str(u.prefix.exponent)) for n, u in Unit._by_name.items())]
print(json.dumps({"order": mods, "bad": bad, "sig": hash(json.dumps(sig)) if False else json.dumps(sig)}))
'''


def extra_checks(tier, seed, build_ok):
    """Configurations: the shipped modules imported in random orders, each in a fresh interpreter;
    the registries must be faithful and identical (same names -> same unit structure) in each."""
    repo = os.environ.get("MEASURED_REPO", "/repo")
    n = 6 if tier == "quick" else 40
    failures, sigs = [], {}
    procs = []
    for k in range(n):
        procs.append(subprocess.Popen(["/venv/bin/python", "-c", ORDER_SCRIPT, repo, str(seed * 1000 + k), ",".join(MODULES)],
                                      stdout=subprocess.PIPE, stderr=subprocess.PIPE, text=True))
    for k, pr in enumerate(procs):
        out, err = pr.communicate(timeout=600)
        if pr.returncode != 0:
            failures.append({"kind": "import-order-crash", "order_seed": seed * 1000 + k, "error": err[-300:]})
            continue
        rep = json.loads(out.strip().splitlines()[-1])
        for reg, key in rep["bad"][:3]:
            failures.append({"kind": "unfaithful-registry", "registry": reg, "key": key, "import_order": rep["order"]})
        sigs.setdefault(rep["sig"], rep["order"])
    if len(sigs) > 1:
        orders = list(sigs.values())
        failures.append({"kind": "import-order-dependent-registries", "orders": orders[:2]})
    return {"failures": failures, "evaluations": n, "oracle_checks": n, "distinct_nontrivial": n,
            "info": {"import_orders_checked": n, "distinct_registry_signatures": len(sigs)}}
