"""C01 — a unit's dimension always equals the product of its factors' dimensions.

Generator: histories of public operations that can intern units (unit arithmetic, roots,
ratio splitting, rendering with "/", parsing, conversion, prefixing), biased towards base
units whose own dimension is derived and of mixed sign (g-force, lbf, eV, …).
Oracle (on the implementation, after every op): every unit interned since the last check
has dimension == prod(factor.dimension ** exponent); at the end every unit is re-checked.
"""
from functools import reduce
from operator import mul

from measured import Number, One, Unit

from .common import BaseContext

LEVEL_TEXT = "For every finite history of public operations (unit arithmetic, roots, as_ratio and the renderings that call it, quantify, prefix application, symbol resolution, define/derive/alias) the Lean model's intern table satisfies: each unit's dimension equals the product of its factors' dimensions (run_inv, by induction over the op list, no bound on length); the dimension of a unit expression is its homomorphic image regardless of history (dimension_history_independent). HISTORIES WITH QUERIES TOO: conversions, comparisons and arithmetic on quantities intern units (unprefixed forms, roots and powers for the path search, products for the factor planner); for every history of them and of unit operations, each asked about units that exist, each ending however it ends - value or exception, through any branch of the factor planner - the table stays canonical and consistent (queries_good, good_convert, Proofs/Kept.lean: a structural walk over the model's planner; the unit operations it uses are harmless on ids that do not exist, the two that are not are only applied to the query's arguments and to results). The hypotheses are discharged for the state the shipped modules register at import (init_ginv, decide +kernel over data regenerated from /repo on every run). The model is tied to the code by differential execution of generated histories, comparing object identity by creation ordinal, plus the property's own oracle on every interned unit of the real library."
LEVEL_NOTE = 'Trusted: Lean kernel; translator gen_init.py; correspondence harness. Modelled not verified: lru_cache transparency (justified by idempotence of interning), dict insertion order, conversion planner (corresponds on generated cases). Hand-crafted pickle/JSON payloads with a lying dimension field are outside the quantifier.'
TECHNIQUE = 'Lean 4 invariant proof by induction over operation histories + regenerated initial state (decide +kernel) + differential correspondence'

LEAN_TARGETS = ["Props.C01", "Obligations.C01", "Props.Planner", "Obligations.History"]
THEOREMS = [
    "Measured.C01.step_preserves_inv",
    "Measured.C01.run_inv",
    "Measured.C01.dimension_history_independent",
    "Measured.C01.eval_dimension",
    "Measured.Obligations.init_ginv",
    "Measured.Obligations.shipped_histories_inv",
    "Measured.queries_good", "Measured.queries_good_of_initial", "Measured.good_convert", "Measured.C01.invariants_survive_every_query_history", "Measured.Obligations.History.shippedState_after", "Measured.Obligations.History.sample_history_state",
    "Measured.history_good", "Measured.history_ext", "Measured.C01.invariants_survive_every_history",
]
QUICK = {"chunks": 4, "ops": 800}
THOROUGH = {"chunks": 16, "ops": 6000}
RULE = ("histories of public unit operations (mul/div/pow/root/as_ratio/quantify/prefix*unit/format '/'/"
        "str/parse/convert) generated from one PRNG seed, operands biased to base units with derived "
        "mixed-sign dimensions; a case is non-trivial when it interned a new unit or raised; distinct by op text")


class Context(BaseContext):
    pass


def expected_dimension(u):
    return reduce(mul, (f.dimension ** e for f, e in u.factors.items()), Number)


def check_units(ctx, lo, hi):
    fails = []
    units = ctx.sess.units
    for i in range(lo, hi):
        u = units[i]
        ctx.oracle_checks += 1
        try:
            want = expected_dimension(u)
        except Exception as e:  # noqa: BLE001
            fails.append({"kind": "dimension-uncomputable", "unit": i, "error": type(e).__name__})
            continue
        if u.dimension is not want:
            fails.append({
                "kind": "dimension-mismatch", "unit": i,
                "factors": [(ctx.sess.uid(f), e) for f, e in u.factors.items()],
                "reported": list(u.dimension.exponents), "expected": list(want.exponents),
            })
    return fails


def oracle(ctx, line, res):
    n = ctx.n_units()
    fails = check_units(ctx, ctx.checked_upto, n)
    ctx.checked_upto = n
    return fails


def final_oracle(ctx):
    return check_units(ctx, 0, ctx.n_units())


def nontrivial(ctx, line, res):
    # non-trivial: the op interned at least one new compound unit, or raised
    f = line.split("\t")
    if f[0] == "STATE":
        return None
    n = ctx.n_units()
    grew = n > getattr(ctx, "_last_n", ctx.initial_units)
    ctx._last_n = n
    if grew or res.startswith("ERR"):
        return line
    return None


def generate(ctx, n_ops):
    rng = ctx.rng
    emitted = 0
    qcount = 0
    while emitted < n_ops:
        r = rng.random()
        if r < 0.20:
            a, b = ctx.pick_pair()
            line = "U\tmul\tu%d\tu%d" % (a, b)
        elif r < 0.40:
            a, b = ctx.pick_pair()
            line = "U\tdiv\tu%d\tu%d" % (a, b)
        elif r < 0.50:
            line = "U\tpow\tu%d\t%d" % (ctx.pick_unit(), ctx.small_int())
        elif r < 0.58:
            line = "U\troot\tu%d\t%d" % (ctx.pick_unit(), ctx.small_int(-3, 3))
        elif r < 0.68:
            line = "U\tratio\tu%d" % ctx.pick_unit()
        elif r < 0.72:
            line = "U\tunpre\tu%d" % ctx.pick_unit()
        elif r < 0.79:
            a = ctx.pick_unit()
            line = "U\tpmul\t%s\tu%d" % (ctx.pfx_tok(ctx.pick_prefix_for(a)), a)
        elif r < 0.84:
            line = "X\tufmt\tu%d" % ctx.pick_unit()
        elif r < 0.87:
            line = "X\tustr\tu%d" % ctx.pick_unit()
        elif r < 0.92:
            # parse the str() of some unit, or a small expression over symbols
            u = ctx.unit(ctx.pick_unit())
            if rng.random() < 0.5:
                try:
                    text = str(u)
                except Exception:  # noqa: BLE001
                    text = "m"
            else:
                syms = [ctx.unit(ctx.pick_unit()).symbol or "m" for _ in range(rng.randint(1, 3))]
                text = rng.choice(["*", "⋅", " "]).join(
                    s + (("^%d" % ctx.small_int(-3, 3, nonzero=True)) if rng.random() < 0.5 else "")
                    for s in syms)
                if rng.random() < 0.4:
                    text += "/" + (ctx.unit(ctx.pick_unit()).symbol or "s")
            if "\t" in text or "\n" in text:
                text = "m"
            line = "X\tuparse\ts:" + text
        elif r < 0.97:
            a = ctx.pick_unit()
            same = ctx.same_dimension_units(a, 10)
            b = rng.choice(same) if same else a
            res = yield "X\tqnew\ti:%d\tu%d" % (rng.randint(-5, 9), a)
            emitted += 1
            if res.startswith("ok\tq"):
                line = "X\tconv\tq%d\tu%d" % (qcount, b)
                qcount += 1
            else:
                continue
        elif r < 0.985:
            # a dimensionless ratio of two units of one dimension, a power of it, and a root of that: the
            # dimension is Number throughout while the factors are not trivial (m^3/ft^3 -> root 2 must raise)
            a = ctx.pick_unit()
            same = [j for j in ctx.same_dimension_units(a, 10) if j != a]
            if not same:
                continue
            res = yield "U\tdiv\tu%d\tu%d" % (a, rng.choice(same))
            emitted += 1
            if not res.startswith("ok\tu"):
                continue
            res = yield "U\tpow\t%s\t%d" % (res.split("\t")[1], rng.choice([2, 3, -3, 5]))
            emitted += 1
            if not res.startswith("ok\tu"):
                continue
            line = "U\troot\t%s\t%d" % (res.split("\t")[1], rng.choice([2, 3, -2]))
        else:
            line = "STATE"
        res = yield line
        emitted += 1
        if res.startswith("ok\tq"):
            qcount += 1
    yield "STATE"
