/-
  Model/Names.lean — the name/symbol registries of the single-name classes `Prefix` and
  `Dimension` of /repo/src/measured/__init__.py, after the `fix:` commits (conflicting
  declarations raise before anything is changed; an anonymous object created earlier adopts a
  later declaration).

  `NTab κ`: `_known` as an insertion-ordered list of objects (key, name, symbol) — object identity
  is the index — plus `_by_name` and `_by_symbol` (`regSyms = false` for `Dimension`, which has no
  symbol registry).  `construct` is the interning constructor `Cls(key, name=…, symbol=…)`,
  `derive` is `Dimension.derive(obj, name, symbol)`.

  Not modelled: `Dimension.define` (it widens every key by one coordinate; the shipped fundamental
  dimensions are part of the regenerated initial state).
-/
import Model.Basic

namespace Measured

structure NObj (κ : Type) where
  key  : κ
  name : Option String := none
  sym  : Option String := none
  deriving Repr, DecidableEq

structure NTab (κ : Type) where
  objs    : List (NObj κ)
  byName  : List (String × Nat) := []
  bySym   : List (String × Nat) := []
  regSyms : Bool := true
  deriving Repr

namespace NTab
variable {κ : Type} [DecidableEq κ]

/-- Python truthiness of an optional string argument: `None` and `""` are both "not given". -/
def given : Option String → Option String
  | some t => if t == "" then none else some t
  | none => none

def lookupS (k : String) : List (String × Nat) → Option Nat
  | [] => none
  | (k', v) :: rest => if k' == k then some v else lookupS k rest

/-- `d[k] = v` on an insertion-ordered dict. -/
def setS (k : String) (v : Nat) : List (String × Nat) → List (String × Nat)
  | [] => [(k, v)]
  | (k', v') :: rest => if k' == k then (k', v) :: rest else (k', v') :: setS k v rest

def find (t : NTab κ) (key : κ) : Option Nat := t.objs.findIdx? (fun o => decide (o.key = key))

/-- `registry.get(text, existing) is not existing` -/
def takenByOther (reg : List (String × Nat)) (text : Option String) (existing : Option Nat) : Bool :=
  match text with
  | none => false
  | some n => match lookupS n reg with
    | none => false
    | some j => existing != some j

/-- the object already carries a different name / symbol -/
def ownClash (cur text : Option String) : Bool :=
  match text, cur with
  | some n, some c => c != n
  | _, _ => false

def setObj (t : NTab κ) (i : Nat) (f : NObj κ → NObj κ) : NTab κ :=
  { t with objs := t.objs.mapIdx (fun j o => if j = i then f o else o) }

/-- `if name and not self.name: self.name = name; self._by_name[name] = self` -/
def adoptName (t : NTab κ) (i : Nat) (name : Option String) : NTab κ :=
  match name, t.objs[i]? with
  | some n, some o =>
    if o.name.isNone then { (t.setObj i (fun o => { o with name := some n })) with byName := setS n i t.byName }
    else t
  | _, _ => t

/-- `if symbol and not self.symbol: self.symbol = symbol; self._by_symbol[symbol] = self`
    (classes with a symbol registry; `Dimension` symbols are not modelled). -/
def adoptSym (t : NTab κ) (i : Nat) (sym : Option String) : NTab κ :=
  if !t.regSyms then t else
  match sym, t.objs[i]? with
  | some y, some o =>
    if o.sym.isNone then { (t.setObj i (fun o => { o with sym := some y })) with bySym := setS y i t.bySym }
    else t
  | _, _ => t

def adopt (t : NTab κ) (i : Nat) (name sym : Option String) : NTab κ := (t.adoptName i name).adoptSym i sym

/-- the checks the constructor makes before it changes anything -/
def constructErr (t : NTab κ) (key : κ) (name sym : Option String) : Bool :=
  takenByOther t.byName name (t.find key) ||
  (t.regSyms && takenByOther t.bySym sym (t.find key)) ||
  (match t.find key with
   | some i => ownClash ((t.objs[i]?).bind (·.name)) name || (t.regSyms && ownClash ((t.objs[i]?).bind (·.sym)) sym)
   | none => false)

/-- `Cls(key, name=name, symbol=sym)`: returns the object (index) or raises `ValueError`, in which
    case the table is returned untouched. -/
def construct (t : NTab κ) (key : κ) (name sym : Option String) : NTab κ × Except Exc Nat :=
  if t.constructErr key (given name) (given sym) then (t, .error .valueError)
  else
    match t.find key with
    | some i => (t.adopt i (given name) (given sym), .ok i)
    | none =>
      (({ t with objs := t.objs ++ [({ key := key } : NObj κ)] } : NTab κ).adopt t.objs.length (given name) (given sym),
       .ok t.objs.length)

def deriveErr (t : NTab κ) (i : Nat) (name : String) : Bool :=
  takenByOther t.byName (some name) (some i) || ownClash ((t.objs[i]?).bind (·.name)) (some name)

/-- `Dimension.derive(obj, name, symbol)` (name is required and truthy). -/
def derive (t : NTab κ) (i : Nat) (name : String) (_sym : Option String) : NTab κ × Except Exc Nat :=
  if (t.objs[i]?).isNone || name == "" then (t, .error .unmodelled)
  else if t.deriveErr i name then (t, .error .valueError)
  else ({ (t.setObj i (fun o => { o with name := some name })) with byName := setS name i t.byName }, .ok i)

inductive NOp (κ : Type) where
  | construct (key : κ) (name sym : Option String)
  | derive (i : Nat) (name : String) (sym : Option String)

def step (t : NTab κ) : NOp κ → NTab κ × Except Exc Nat
  | .construct k n y => t.construct k n y
  | .derive i n y => t.derive i n y

def run (t : NTab κ) (ops : List (NOp κ)) : NTab κ := ops.foldl (fun t o => (t.step o).1) t

end NTab
end Measured

namespace Measured
namespace NTab
variable {κ : Type} [DecidableEq κ]

/-- Build a table from the regenerated registries: objects in `_known` order and the two
    registries given by key. -/
def ofRegistries (objs : List (κ × Option String × Option String)) (byName bySym : List (String × κ))
    (regSyms : Bool) : NTab κ :=
  let os : List (NObj κ) := objs.map (fun o => { key := o.1, name := o.2.1, sym := o.2.2 })
  let idx (k : κ) : Nat := (os.findIdx? (fun o => decide (o.key = k))).getD os.length
  { objs := os, byName := byName.map (fun e => (e.1, idx e.2)), bySym := bySym.map (fun e => (e.1, idx e.2)),
    regSyms := regSyms }

end NTab
end Measured
