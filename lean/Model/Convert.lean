/-
  Model/Convert.lean — /repo/src/measured/conversions.py, transliterated:
  `equate`, `translate`, `convert`, `_plan_conversion`, `_inline_paths`, `_replace_factors`,
  `_match_factors`, `_cancel_factors`, `_splat`, `_by_complex_first`, `_clean_pop`,
  `_clean_remove`, `_find_path`, `_find_path_recursive`, `_reduce_dimension`; plus
  `Prefix.quantify`, `Unit.quantify`, `Quantity.unprefixed` of __init__.py.

  Python dict order is modelled with insertion-ordered association lists because the
  planner depends on it.  Every `assert` is `if cfg.asserts ∧ ¬cond then raise Assertion`,
  so the `-O` interpreter is the same function with `asserts := false`.
  The `lru_cache`s on `_find_path` / `_plan_conversion` are modelled as transparent: they
  are cleared whenever the graph changes (see the `fix:` commit), and recomputation in any
  later state returns the same objects because interning is deterministic.
-/
import Model.Graph

namespace Measured

structure Qty (α : Type) where
  mag  : Mag α
  unit : UId
  deriving Inhabited

structure Hop (α : Type) where
  scale  : Mag α
  offset : Mag α
  unit   : UId
  deriving Inhabited

structure PlanStep (α : Type) where
  ratio : Mag α
  path  : List (Hop α)
  exp   : Int
  deriving Inhabited

abbrev Plan (α : Type) := List (PlanStep α)

/-- `(ratio, start, end, exponent)` -/
structure Rough (α : Type) where
  ratio : Mag α
  start : UId
  stop  : UId
  exp   : Int

structure Conv (α : Type) where
  st      : St
  ratios  : Table (Mag α)
  offsets : Table (Mag α)
  asserts : Bool := true
  deriving Inhabited

abbrev CM (α : Type) := ExceptT Exc (StateM (Conv α))

section
variable {α : Type} [Add α] [Sub α] [Mul α] [Div α] [Neg α] [OfNat α 0] [OfNat α 1] [FloatLike α]

def liftSt {β} (f : St → St × β) : CM α β := do
  let c ← getThe (Conv α)
  let (s', b) := f c.st
  set { c with st := s' }
  pure b

def liftStE {β} (f : St → St × Except Exc β) : CM α β := do
  let r ← liftSt f
  match r with
  | .ok b => pure b
  | .error e => throw e

def liftE {β} (r : Except Exc β) : CM α β :=
  match r with
  | .ok b => pure b
  | .error e => throw e

def getSt : CM α St := do return (← getThe (Conv α)).st

def cassert (cond : Bool) : CM α Unit := do
  let c ← getThe (Conv α)
  if c.asserts && !cond then throw .assertion else pure ()

/-- `Prefix.quantify`: `base ** exponent` on Python ints (a negative exponent gives a float). -/
def Pfx.value (p : Pfx) : Mag α :=
  if p.exp ≥ 0 then .int ((p.base : Int) ^ p.exp.toNat)
  else .flt (FloatLike.powInt (FloatLike.ofInt (p.base : Int) : α) p.exp)

/-- `Unit.quantify`. -/
def quantifyUnit (u : UId) : CM α (Qty α) := do
  let s ← getSt
  let p := (s.unit! u).pfx
  let i ← liftSt (fun s => s.unprefixedUnit u)
  pure { mag := Pfx.value p, unit := i }

/-- `Quantity.unprefixed`: `self.magnitude * self.unit.quantify()`. -/
def unprefixedQty (q : Qty α) : CM α (Qty α) := do
  let uq ← quantifyUnit q.unit
  pure { mag := Mag.mul uq.mag q.mag, unit := uq.unit }

/-! ### the graph -/

/-- `equate(a, b)` (after the `fix:` commit the memo tables are cleared; they are
    transparent in the model). -/
def equate (a b : Qty α) : CM α Unit := do
  let s ← getSt
  if a.unit == b.unit && a.unit != s.one then throw .valueError
  let a' ← unprefixedQty a
  let b' ← unprefixedQty b
  let r1 ← liftE (Mag.div b'.mag a'.mag)
  modifyThe (Conv α) (fun c => { c with ratios := c.ratios.set a'.unit b'.unit r1 })
  let r2 ← liftE (Mag.div a'.mag b'.mag)
  modifyThe (Conv α) (fun c => { c with ratios := c.ratios.set b'.unit a'.unit r2 })

/-- `translate(scale, zero)`. -/
def translate (scale : UId) (zero : Qty α) : CM α Unit := do
  if scale == zero.unit then throw .valueError
  let degree := zero.unit
  modifyThe (Conv α) (fun c =>
    { c with ratios := (c.ratios.set degree scale (.int 1)).set scale degree (.int 1),
             offsets := (c.offsets.set degree scale zero.mag.neg).set scale degree zero.mag })

/-! ### path search -/

/-- `_reduce_dimension`. -/
def reduceDimension (start stop : UId) : CM α (Int × UId × UId) := do
  let s ← getSt
  cassert (s.dimOfUnit start == s.dimOfUnit stop)
  if (s.dimOfUnit start).isNumber then return (1, start, stop)
  let g : Int := (s.dimOfUnit start).gcdAll
  let tried : CM α (UId × UId) := do
    let a ← liftStE (fun s => s.rootUnit start g)
    let b ← liftStE (fun s => s.rootUnit stop g)
    pure (a, b)
  tryCatch (do let (a, b) ← tried; pure (g, a, b))
    (fun e => if e == .fractional then pure (1, start, stop) else throw e)

def powHop (h : Hop α) (e : Int) : CM α (Hop α) := do
  let sc ← liftE (h.scale.powInt e)
  let off ← liftE (h.offset.powInt e)
  let u ← liftSt (fun s => s.powUnit h.unit e)
  pure { scale := sc, offset := off, unit := u }

/-- The `for intermediate, scale in _ratios[start].items()` loop of `_find_path_recursive`;
    `recur` is the recursive call. -/
def pathLoop (recur : UId → UId → List UId → CM α (List (Hop α) × List UId))
    (start' stop' : UId) (e : Int) :
    List (UId × Mag α) → List (Hop α) → List UId → CM α (List (Hop α) × List UId)
  | [], best, visited => pure (best, visited)
  | (mid, scale) :: rest, best, visited => do
    let c ← getThe (Conv α)
    let offset := (c.offsets.get? start' mid).getD (.int 0)
    if mid == stop' then
      let h ← powHop { scale := scale, offset := offset, unit := stop' } e
      return ([h], visited)
    let (path, visited) ← recur mid stop' visited
    if path.isEmpty then pathLoop recur start' stop' e rest best visited
    else
      let path ← ({ scale := scale, offset := offset, unit := mid } :: path).mapM (fun h => powHop h e)
      if best.isEmpty || path.length < best.length then pathLoop recur start' stop' e rest path visited
      else pathLoop recur start' stop' e rest best visited

/-- `if end in _ratios[start]: return [(_ratios[start][end], _offsets[start].get(end, 0), end)]` -/
def directEdge (c : Conv α) (start stop : UId) : Option (Hop α) :=
  (c.ratios.get? start stop).map (fun scale =>
    { scale := scale, offset := (c.offsets.get? start stop).getD (.int 0), unit := stop })

/-- `_find_path_recursive`; `visited` is the shared mutable set, threaded explicitly.
    Fuel bounds the recursion depth (every call below the first adds a graph node to
    `visited`, so `number of graph rows + 2` is enough). -/
def findPathRec (fuel : Nat) (start stop : UId) (visited : List UId) :
    CM α (List (Hop α) × List UId) :=
  match fuel with
  | 0 => throw .unmodelled
  | fuel + 1 => do
    if start == stop then return ([{ scale := .int 1, offset := .int 0, unit := stop }], visited)
    if visited.contains start then return ([], visited)
    let visited := visited ++ [start]
    -- an equivalence declared between these very units (e.g. between two squares) would be hidden
    -- by the reduction to roots (the `fix:` commit)
    let c0 ← getThe (Conv α)
    let direct := directEdge c0 start stop
    if direct.isSome then return (direct.toList, visited)
    let (e, start', stop') ← reduceDimension start stop
    let c ← getThe (Conv α)
    pathLoop (findPathRec fuel) start' stop' e (c.ratios.row start') [] visited

/-- `_find_path`. -/
def findPath (start stop : UId) : CM α (List (Hop α)) := do
  let c ← getThe (Conv α)
  let (p, _) ← findPathRec (c.ratios.length + 3) start stop []
  pure p

/-! ### the planner -/

abbrev Splat := List (Dim × List UId)

namespace Splat

def get? (f : Splat) (d : Dim) : Option (List UId) :=
  match f.find? (fun r => r.1 == d) with
  | some r => some r.2
  | none => none

/-- `f[d].extend(us)`, creating the key at the end when absent. -/
def extend (f : Splat) (d : Dim) (us : List UId) : Splat :=
  if f.any (fun r => r.1 == d) then f.map (fun r => if r.1 == d then (d, r.2 ++ us) else r)
  else f ++ [(d, us)]

/-- `_clean_pop`. -/
def cleanPop (f : Splat) (d : Dim) : Except Exc (UId × Splat) :=
  match f.get? d with
  | none => .error .keyError
  | some [] => .error .keyError      -- IndexError cannot occur: empty lists are always removed
  | some (u :: rest) =>
    if rest.isEmpty then .ok (u, f.filter (fun r => r.1 != d))
    else .ok (u, f.map (fun r => if r.1 == d then (d, rest) else r))

/-- `_clean_remove`. -/
def cleanRemove (f : Splat) (d : Dim) (u : UId) : Except Exc Splat :=
  match f.get? d with
  | none => .error .keyError
  | some us =>
    if !us.contains u then .error .valueError else
    let us' := us.erase u
    if us'.isEmpty then .ok (f.filter (fun r => r.1 != d))
    else .ok (f.map (fun r => if r.1 == d then (d, us') else r))

/-- `dimension for dimension, factors in f.items() for _ in factors`, `_by_complex_first`. -/
def byComplexFirst (f : Splat) : List Dim :=
  let ds := f.flatMap (fun r => r.2.map (fun _ => r.1))
  isort (fun a b => decide (a.weight ≥ b.weight)) ds

end Splat

/-- `_splat`. -/
def splat (s : St) (u : UId) : Splat :=
  (s.unit! u).factors.foldl (fun acc f =>
    let d := s.dimOfUnit f.1
    if f.2 < 0 then acc.extend (d.pow (-1)) (List.replicate f.2.natAbs f.1)
    else acc.extend d (List.replicate f.2.toNat f.1)) []

def factorSum (fs : Factors) : Int := fs.foldl (fun a f => a + f.2) 0

/-- `_replace_factors`.  Returns the rough plan and the mutated factor dict. -/
def replaceFactors (factors : Splat) : CM α (List (Rough α) × Splat) := do
  let one := (← getSt).one
  let rec outer (fuel : Nat) (factors : Splat) (plan : List (Rough α)) :
      CM α (List (Rough α) × Splat) := do
    match fuel with
    | 0 => throw .unmodelled
    | fuel + 1 =>
      let s ← getSt
      let c ← getThe (Conv α)
      -- collect the replacements
      let mut replacements : List (Dim × UId × UId) := []
      for (dimension, units) in factors do
        if dimension.weight ≤ 1 then continue
        for unit in units do
          let alts := (c.ratios.row unit).map (·.1)
          let key (u : UId) : Int := ((s.unit! u).factors.length : Int) + factorSum (s.unit! u).factors
          let alts := isort (fun a b => decide (key a ≥ key b)) alts
          let uf := (s.unit! unit).factors
          match alts.find? (fun a =>
              let af := (s.unit! a).factors
              af.length > uf.length || factorSum af > factorSum uf) with
          | some a => replacements := replacements ++ [(dimension, unit, a)]
          | none => pure ()
      if replacements.isEmpty then return (plan, factors)
      -- apply them
      let mut factors := factors
      let mut plan := plan
      for (dimension, unit, alternative) in replacements do
        let s ← getSt
        let mut overallSign : Int := 1
        if !(s.dimOfUnit unit).isFactor dimension then
          if (← getThe (Conv α)).asserts then
            let inv ← liftSt (fun s => s.powUnit unit (-1))
            let s ← getSt
            cassert ((s.dimOfUnit inv).isFactor dimension)
          overallSign := -1
        let c ← getThe (Conv α)
        let ratio ← match c.ratios.get? unit alternative with
          | some r => pure r
          | none => throw .keyError
        factors ← liftE (factors.cleanRemove dimension unit)
        let s ← getSt
        for (u, e) in (s.unit! alternative).factors do
          let unitSign : Int := if e < 0 then -1 else 1
          let ud := (s.dimOfUnit u).pow (unitSign * overallSign)
          factors := factors.extend ud (List.replicate e.natAbs u)
        let r ← liftE (ratio.powInt overallSign)
        plan := plan ++ [{ ratio := r, start := one, stop := one, exp := 1 }]
      outer fuel factors plan
  outer 64 factors []

/-- `reduce(operator.mul, units)` on units. -/
def mulUnits : List UId → CM α UId
  | [] => throw .typeError          -- reduce() of an empty sequence
  | u :: rest => rest.foldlM (fun acc v => liftStE (fun s => s.mulUnit acc v)) u

/-- The inner loop of `_match_factors`:
    `for start_dimension in _by_complex_first(start_factors): if start_dimension.is_factor(remaining): …;
     if remaining is Number: break` — collect the start dimensions that are factors of what remains. -/
def matchCollect : List Dim → List Dim → Dim → List Dim × Dim
  | [], acc, remaining => (acc, remaining)
  | sd :: rest, acc, remaining =>
    let r := if sd.isFactor remaining then (acc ++ [sd], remaining.div sd) else (acc, remaining)
    if r.2.isNumber then r else matchCollect rest r.1 r.2

/-- `[_clean_pop(start_factors, d) for d in dimension_factors]` -/
def popAll : List Dim → Splat → List UId → Except Exc (Splat × List UId)
  | [], f, popped => .ok (f, popped)
  | d :: ds, f, popped =>
    match f.cleanPop d with
    | .error e => .error e
    | .ok (u, f') => popAll ds f' (popped ++ [u])

/-- One iteration of the outer loop of `_match_factors` (state: both dicts and the plan so far). -/
def matchStep (st : Splat × Splat × List (Rough α)) (stopDim : Dim) : CM α (Splat × Splat × List (Rough α)) :=
  match (matchCollect st.1.byComplexFirst [] stopDim).1 with
  | [] => pure st
  | d0 :: ds =>
    if ds.foldl Dim.mul d0 != stopDim then pure st else do
      let (startF, popped) ← liftE (popAll (d0 :: ds) st.1 [])
      let combined ← mulUnits popped
      let (stopUnit, stopF) ← liftE (st.2.1.cleanPop stopDim)
      let e : Int := if stopDim.any (· < 0) then -1 else 1
      pure (startF, stopF, st.2.2 ++ [{ ratio := .int 1, start := combined, stop := stopUnit, exp := e }])

/-- `_match_factors`.  Returns the rough plan and both mutated dicts. -/
def matchFactors (startF stopF : Splat) : CM α (List (Rough α) × Splat × Splat) := do
  let r ← stopF.byComplexFirst.foldlM matchStep (startF, stopF, [])
  pure (r.2.2, r.1, r.2.1)

/-- The `while dimension in factors and inverse in factors` loop of `_cancel_factors`. -/
def cancelLoop (dimension inverse : Dim) (e : Int) (invert : Bool) :
    Nat → Splat → List (Rough α) → Except Exc (List (Rough α) × Splat)
  | 0, f, plan => .ok (plan, f)
  | fuel + 1, f, plan =>
    if (f.get? dimension).isSome && (f.get? inverse).isSome then do
      let (stopUnit, f) ← f.cleanPop dimension
      if dimension == inverse then cancelLoop dimension inverse e invert fuel f plan
      else
        let (startUnit, f) ← f.cleanPop inverse
        let plan :=
          if invert then
            plan ++ [{ ratio := .int 1, start := startUnit, stop := stopUnit, exp := -e },
                     { ratio := .int 1, start := stopUnit, stop := stopUnit, exp := e }]
          else
            plan ++ [{ ratio := .int 1, start := startUnit, stop := stopUnit, exp := e },
                     { ratio := .int 1, start := startUnit, stop := startUnit, exp := -e }]
        cancelLoop dimension inverse e invert fuel f plan
    else .ok (plan, f)

/-- `_cancel_factors` (the loop runs over `list(factors)`, the keys at entry). -/
def cancelFactors (factors : Splat) (invert : Bool) : Except Exc (List (Rough α) × Splat) :=
  (factors.map (·.1)).foldlM (fun (acc : List (Rough α) × Splat) dimension =>
    let e : Int := if dimension.any (· < 0) then -1 else 1
    let fuel := acc.2.foldl (fun n r => n + r.2.length) 0 + 1
    cancelLoop dimension (dimension.pow (-1)) e invert fuel acc.2 acc.1) ([], factors)

/-- `_inline_paths`. -/
def inlinePaths (plan : List (Rough α)) : CM α (Plan α) :=
  plan.mapM (fun r => do
    let path ← findPath r.start r.stop
    if path.isEmpty then throw .notFound
    pure { ratio := r.ratio, path := path, exp := r.exp })

/-- Python's `1 / x` on a number. -/
def recip (m : Mag α) : Except Exc (Mag α) := Mag.div (.int 1) m

/-- `_plan_conversion` (after the `fix:` commit the target prefix is divided out last). -/
def planConversion (start stop : UId) : CM α (Plan α) := do
  let one := (← getSt).one
  let unprefixed ← quantifyUnit stop
  let head ← liftE (recip unprefixed.mag)
  let unprefix : List (Rough α) := [{ ratio := head, start := one, stop := one, exp := 1 }]
  let s ← getSt
  let startF := splat s start
  let stopF := splat s stop
  let direct ← findPath start stop
  if !direct.isEmpty then
    let tail ← inlinePaths unprefix
    return { ratio := .int 1, path := direct, exp := 1 } :: tail
  let (p1, startF) ← replaceFactors startF
  let plan : List (Rough α) := p1.map (fun r => { ratio := r.ratio, start := r.stop, stop := r.start, exp := r.exp })
  let (p2, stopF) ← replaceFactors stopF
  let p2' ← p2.mapM (fun r => do
    let q ← liftE (recip r.ratio)
    pure ({ ratio := q, start := r.start, stop := r.stop, exp := r.exp } : Rough α))
  let plan := plan ++ p2'
  let (p3, startF, stopF) ← matchFactors startF stopF
  let plan := plan ++ p3
  let (p4, stopF, startF) ← matchFactors stopF startF
  let plan := plan ++ p4.map (fun r => { ratio := .int 1, start := r.stop, stop := r.start, exp := r.exp })
  let (p5, stopF) ← liftE (cancelFactors stopF false)
  let plan := plan ++ p5
  let (p6, startF) ← liftE (cancelFactors startF true)
  let plan := plan ++ p6
  cassert startF.isEmpty
  cassert stopF.isEmpty
  inlinePaths (plan ++ unprefix)

/-- `for scale, offset, _ in path: m = _add(_mul(m, scale**exponent), offset)` -/
def applyPath (e : Int) : Mag α → List (Hop α) → Except Exc (Mag α)
  | m, [] => .ok m
  | m, h :: rest =>
    match h.scale.powInt e with
    | .error x => .error x
    | .ok sc => applyPath e (Mag.add (Mag.mul m sc) h.offset) rest

/-- The application loop of `convert`. -/
def applyPlan : Mag α → Plan α → Except Exc (Mag α)
  | m, [] => .ok m
  | m, st :: rest =>
    match applyPath st.exp (Mag.mul m st.ratio) st.path with
    | .error x => .error x
    | .ok m' => applyPlan m' rest

/-- `conversions.convert`. -/
def convert (q : Qty α) (target : UId) : CM α (Qty α) := do
  let s ← getSt
  if s.dimOfUnit q.unit != s.dimOfUnit target then throw .notFound
  let this ← unprefixedQty q
  let plan ← planConversion q.unit target
  let m ← liftE (applyPlan this.mag plan)
  pure { mag := m, unit := target }

end

end Measured
