"""C04 — a conversion that returns a value returns the right value, in the asked unit.

Generator: source quantities and target units of equal dimension built as products of integer
powers (|e| <= 3, up to 3 factors per side) of registered offset-free named units with
registered SI prefixes, across all shipped unit modules; plus a synthetic unit system with
redundant, exactly consistent definition paths defined at the start of every chunk.
Oracle (implementation only): unit sizes solved from the stored equivalences in exact
rational arithmetic; a returned value must be magnitude x size(source)/size(target) within
1e-5 per unit of total exponent degree (exactly-consistent synthetic units: 1e-12), and must
carry exactly the requested unit.  Failures are attributed to the catalogued planner root
causes only by the structural class of the case (see convcommon.classify); a failure in the
clean fragment is a violation.
"""
from fractions import Fraction as F

from measured import Unit

from .convcommon import ConvContext, classify, ftok

LEVEL_TEXT = ("Lean, for every plan and every magnitude: a conversion that returns carries exactly the requested unit "
              "(convert_result_unit); its magnitude is the plan's affine map applied to the unprefixed magnitude, a map that does "
              "not depend on the magnitude (convert_ok, applyPlanV_affine), so one coefficient per unit pair decides all "
              "magnitudes; sizes are multiplicative over unit products/quotients/powers (Proofs/SizeOf). Per run the kernel "
              "evaluates the model's planner on the graph regenerated from /repo for a family of unit pairs (every named unit of a "
              "fundamental dimension to and from its SI unit, quick: a 60-pair subset) and checks the coefficient against the C09 "
              "size certificate (itself re-checked by the kernel). The path search is proved sound for every graph and state "
              "(findPath_sound) and with it every directly settled conversion is exact in every state reached by unit operations "
              "and size-consistent declarations (convert_direct_exact, C05.direct_conversion_exact; graphs without offsets); so is every conversion between "
              "SIMPLE units - products of powers of prefixed base units of fundamental, independent dimensions with matching "
              "multiplicities - through _replace_factors/_match_factors/_cancel_factors/_inline_paths (convert_simple_exact). FOR THE "
              "SHIPPED DEFINITIONS THEMSELVES (float constants, only approximately consistent) the path search is proved sound up to "
              "the accumulated edge errors (Proofs/PathNear: Near lb ub W x y, W <= max(1, gcd of the exponents) * hops), and per run "
              "the kernel checks that the regenerated graph satisfies the approximate invariant with the C09 size certificate "
              "(every ratio within 1e-3, within 2e-5 for all but the one known pair; nodes unprefixed; offsets only on temperature "
              "units): hence for EVERY pair of interned units, after ANY unit operations, whatever convert returns through a directly "
              "found path is right within (1 +- 1e-3)^W (shipped_direct_conversions_near, _after) - a universal statement where "
              "the family obligation samples 158 pairs; and the same for conversions between simple units through the factor "
              "planner on the shipped data (convert_simple_near, shipped_simple_conversions_near: within (1000/999)^W, W <= graph "
              "edges walked; inhabited by 60 mile/hour -> meter/second). "
              "The factor-matching planner as a whole is NOT proved sound - it is a heuristic "
              "that is wrong outside a fragment - so this check is partial: the model of the planner is tied to the code by "
              "differential execution (plans compared structurally), and the exact-size oracle runs on the real library over the "
              "property's whole input space. Known findings: six structural classes in which the pinned planner returns wrong values "
              "or raises AssertionError.")
LEVEL_NOTE = ("Partial by necessity. Trusted: Lean kernel + Mathlib, translators, harness. The soundness of the conversion for an "
              "arbitrary unit pair rests on (a) the kernel-evaluated family, (b) correspondence model/implementation on generated "
              "pairs, (c) the oracle; float rounding along a plan is not modelled (exact rationals; compared at 1e-11).")
TECHNIQUE = "Lean 4 proofs (result unit; plan = affine map; one coefficient decides all magnitudes) + kernel evaluation of the planner model against the verified size certificate + differential correspondence + exact oracle; partial"

THEOREMS = [
    "Measured.convert_result_unit", "Measured.convert_ok", "Measured.applyPlanV_affine", "Measured.applyPlan_val",
    "Measured.C04.value_determined_by_coefficient", "Measured.C04.convert_value",
    "Measured.Obligations.family_conversions_exact",
    "Measured.findPath_sound", "Measured.convert_direct_exact", "Measured.C05.direct_conversion_exact",
    "Measured.convert_simple_exact", "Measured.C05.simple_conversion_exact", "Measured.C05.single_factor_conversion_exact",
    "Measured.findPath_near", "Measured.convert_direct_near",
    "Measured.Obligations.NearShipped.rows_ok", "Measured.Obligations.NearShipped.rows_tight",
    "Measured.Obligations.NearShipped.shipped_graphNear", "Measured.Obligations.NearShipped.shipped_offRef",
    "Measured.Obligations.NearShipped.shipped_direct_conversions_near",
    "Measured.Obligations.NearShipped.shipped_direct_conversions_near_after",
    "Measured.convert_simple_near", "Measured.inlinePaths_near", "Measured.planValue_near",
    "Measured.Obligations.NearShipped.shipped_simple_conversions_near",
    "Measured.Obligations.NearShipped.shipped_simple_inhabited",
]
LEAN_TARGETS = ["Props.C04", "Props.C05", "Obligations.C04", "Obligations.C09", "Obligations.C04Near", "Obligations.C05Near"]
THOROUGH_TARGETS = ["ObligationsFull.C04Full"]
QUICK = {"chunks": 4, "ops": 1500}
THOROUGH = {"chunks": 16, "ops": 9000}
RTOL = 1e-11
RULE = ("(source unit, target unit, magnitude) with units drawn as described in the module docstring; non-trivial = source "
        "and target differ; distinct by (source unit, target unit)")
ASSUMPTIONS = ["ConversionNotFound for a convertible pair is not a C04 violation (no value is returned)"]


class Context(ConvContext):
    pass


def oracle(ctx, line, res):
    f = line.split("\t")
    if f[0] == "X" and f[1] == "equate" and res == "ok":
        ctx.resolve_sizes()
        return []
    if f[0] != "X" or f[1] != "conv":
        return []
    ctx.oracle_checks += 1
    q, target = ctx.sess.arg(f[2]), ctx.sess.arg(f[3])
    result = ctx.sess.qs[-1] if res.startswith("ok\tq") else None
    fail = ctx.check_conversion(q, target, res, result)
    if fail and getattr(ctx, "synthetic_ids", None) and fail["kind"] == "conversion-wrong":
        pass
    return [fail] if fail else []


def nontrivial(ctx, line, res):
    f = line.split("\t")
    if f[0] == "X" and f[1] == "conv":
        q, t = ctx.sess.arg(f[2]), ctx.sess.arg(f[3])
        if q.unit is not t:
            return (ctx.sess.uid(q.unit), ctx.sess.uid(t))
    return None


def synthetic_system(ctx, tag):
    """Fresh length units with redundant exactly-consistent definitions:
       A = 3 m, B = 4 A, C = 12 m, C = 1 B, D = 5 C, D = 60 m, P (area) = 9 m^2 = 1 A^2."""
    sess = ctx.sess
    meter = sess.uid(Unit._by_name["meter"])
    length = ",".join(str(e) for e in Unit._by_name["meter"].dimension.exponents)
    names = {}
    for k in "ABCDEF":
        nm = "%s%s" % (tag, k)
        res = yield "U\tdefine\td%s\t%s\t%s" % (length, nm, nm)
        if res.startswith("ok\tu"):
            names[k] = int(res.split("\t")[1][1:])
    if len(names) < 6:
        return None
    qn = ctx.nq

    def eq(a, k, b):
        r1 = yield "X\tqnew\ti:1\tu%d" % a
        r2 = yield "X\tqnew\ti:%d\tu%d" % (k, b)
        ctx.nq += 2
        yield "X\tequate\tq%d\tq%d" % (ctx.nq - 2, ctx.nq - 1)

    yield from eq(names["A"], 3, meter)
    yield from eq(names["B"], 4, names["A"])
    yield from eq(names["C"], 12, meter)
    yield from eq(names["C"], 1, names["B"])
    yield from eq(names["D"], 5, names["C"])
    yield from eq(names["D"], 60, meter)
    # declarations whose left-hand side is not `1 * unprefixed unit`:  1 kE = 5000 C  (E = 5 C = 60 m)
    # and  3 F = 7 m  (F = 7/3 m), made through equate() directly
    res = yield "U\tpmul\tp10:3\tu%d" % names["E"]
    if res.startswith("ok\tu"):
        ke = int(res.split("\t")[1][1:])
        yield "X\tqnew\ti:1\tu%d" % ke
        yield "X\tqnew\ti:5000\tu%d" % names["C"]
        ctx.nq += 2
        yield "X\tequate\tq%d\tq%d" % (ctx.nq - 2, ctx.nq - 1)
    # a unit cannot be equated with or translated to itself (ValueError, nothing changes)
    yield from eq(names["A"], 2, names["A"])
    yield "X\tqnew\ti:5\tu%d" % names["B"]
    ctx.nq += 1
    yield "X\ttranslate\tu%d\tq%d" % (names["B"], ctx.nq - 1)
    yield "X\tqnew\ti:3\tu%d" % names["F"]
    yield "X\tqnew\ti:7\tu%d" % meter
    ctx.nq += 2
    yield "X\tequate\tq%d\tq%d" % (ctx.nq - 2, ctx.nq - 1)
    return names


def generate(ctx, n_ops):
    rng = ctx.rng
    emitted = 0
    tag = "syn%d" % rng.randrange(10**6)
    gen = synthetic_system(ctx, tag)
    names = None
    try:
        line = next(gen)
        while True:
            res = yield line
            emitted += 1
            line = gen.send(res)
    except StopIteration as stop:
        names = stop.value
    ctx.resolve_sizes()
    synthetic = [ctx.sess.units[i] for i in (names or {}).values()]
    ctx.synthetic_ids = {id(u) for u in synthetic}
    while emitted < n_ops:
        use_syn = synthetic and rng.random() < 0.25
        if use_syn:
            pool = synthetic + [Unit._by_name["meter"], Unit._by_name["foot"]]
            n = rng.choice([1, 1, 2])
            src, dst = [], []
            for _ in range(n):
                e = rng.choice([-2, -1, 1, 1, 2, 3])
                src.append((rng.choice(pool), e))
                dst.append((rng.choice(pool), e))
        else:
            src, dst = ctx.gen_units()
        ps = ctx.si_prefix() if rng.random() < 0.3 else None
        pd = ctx.si_prefix() if rng.random() < 0.3 else None
        if synthetic and names and rng.random() < 0.06:
            # exactly the prefixed form an equivalence was DECLARED on (1 kE = 5000 C), against any unit of the
            # system, in either direction and at a power: the declaration's prefix must count once
            from measured import Prefix
            kilo = Prefix._by_name["kilo"]
            e = rng.choice([1, 1, 2, -1])
            E = ctx.sess.units[names["E"]]
            other = rng.choice(synthetic + [Unit._by_name["meter"]])
            if rng.random() < 0.5:
                src, dst, ps, pd = [(E, e)], [(other, e)], kilo, None
            else:
                src, dst, ps, pd = [(other, e)], [(E, e)], None, kilo
        g = ctx.build(src, ps)
        a = None
        try:
            line = next(g)
            while True:
                res = yield line
                emitted += 1
                line = g.send(res)
        except StopIteration as stop:
            a = stop.value
        g = ctx.build(dst, pd)
        b = None
        try:
            line = next(g)
            while True:
                res = yield line
                emitted += 1
                line = g.send(res)
        except StopIteration as stop:
            b = stop.value
        if a is None or b is None:
            continue
        res = yield "X\tqnew\t%s\tu%d" % (ctx.magnitude(), a)
        emitted += 1
        if not res.startswith("ok\tq"):
            continue
        qa = ctx.nq
        ctx.nq += 1
        res = yield "X\tconv\tq%d\tu%d" % (qa, b)
        emitted += 1
        if res.startswith("ok\tq"):
            ctx.nq += 1
        if rng.random() < 0.1:
            res = yield "X\tplan\tu%d\tu%d" % (a, b)
            emitted += 1
    yield "STATE"
