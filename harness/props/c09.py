"""C09 — shipped unit definitions are mutually consistent and connected to SI.

Static part (exhaustive over the shipped data, no sampling): every intercepted declaration
is checked against a size certificate in exact rational arithmetic, by Lean
(Obligations/C09.lean, decide +kernel) and independently here with fractions.Fraction; every
ratio stored in the final `_ratios` graph likewise; every base unit with a physical
dimension must be reachable from the SI seeds through declarations.
Dynamic part: every named unit with a physical dimension is converted to the coherent SI
unit of its dimension and back on the real library (and through the Lean model of the
planner), and the value is compared with the certificate's exact ratio.
"""
import json
import os
import subprocess
import sys
from fractions import Fraction as F

from measured import Number, One, Unit, conversions

from .common import BaseContext

LEVEL_TEXT = ("chain_sound / cycle_sound / chains_agree': if the executable checker accepts a size certificate for a list of "
              "declarations, then the product along EVERY chain of declarations (any length, any route) is the ratio of the end "
              "units' sizes within (1-tol)^k..(1/(1-tol))^k, every cycle multiplies out to 1 within that bound, and any two chains "
              "between the same units agree - proved in Lean by induction on chains over ordered-field arithmetic; the checker is "
              "proved sound (checked_edges_ok). Per run, decide +kernel re-checks the certificate against the 212 declarations "
              "intercepted from /repo (tight 1e-12, 13 declarations with rounded constants at <= 1e-5, measured worst 2.0e-6), against "
              "all 421 stored graph ratios, and checks that every base unit with a physical dimension is reachable from the SI seeds. "
              "All 167 named physical units are converted to their coherent SI unit and back on the real library and in the model. "
              "CONNECTED => CONVERTS as a theorem for the fundamental dimensions: the (pure) path search is complete - an empty "
              "result means the target is unreachable along declared edges (flatPath_complete: the dead-end invariant of the "
              "depth-first walk) - and total on the regenerated graph, so units of one fundamental dimension that are linked by "
              "declarations convert into each other, with any prefixes, also as factors of simple compound units, in every state "
              "(convert_flat_connected, convert_simple_connected); per run the kernel checks a reachability certificate: the 90 "
              "units of the 6 fundamental dimensions in the regenerated graph are mutually reachable (fund_connected -> "
              "shipped_fundamental_units_interconvert, shipped_simple_units_interconvert).")
LEVEL_NOTE = ("Trusted: Lean kernel + Mathlib ordered-field lemmas (linarith/nlinarith/gcongr/ring), translators gen_init/gen_sizes "
              "(the certificate itself is untrusted and re-checked). The bound for a chain grows with its length k; with the measured "
              "residuals only 13 declarations are inexact. Known findings: TonOfRefrigeration's two definitions differ by 6.7e-4 "
              "(both pinned by tests); donkeypower -> W raises AssertionError in the planner.")
TECHNIQUE = "Lean 4 proof (chains/cycles by induction over a verified certificate checker) + decide +kernel over regenerated declarations + exhaustive conversion oracle"

THEOREMS = [
    "Measured.C09.chain_sound", "Measured.C09.cycle_sound", "Measured.C09.chains_agree'",
    "Measured.checked_edges_ok", "Measured.chain_bound", "Measured.chains_agree",
    "Measured.Obligations.shipped_decls_ok", "Measured.Obligations.shipped_graph_ok",
    "Measured.Obligations.shipped_connected", "Measured.Obligations.shipped_chains_agree",
    "Measured.flatPath_complete", "Measured.findPath_connected", "Measured.convert_flat_connected",
    "Measured.convert_simple_connected",
    "Measured.Obligations.NearShipped.fund_connected", "Measured.Obligations.NearShipped.shipped_fundamental_units_interconvert",
    "Measured.Obligations.NearShipped.shipped_simple_units_interconvert", "Measured.Obligations.NearShipped.shipped_speed_converts",
    "Measured.C09.connected_is_found",
]
LEAN_TARGETS = ["Props.C09", "Obligations.C09", "Obligations.C09Flat", "Props.Planner"]
QUICK = {"chunks": 1, "ops": 2000}
THOROUGH = {"chunks": 1, "ops": 2000}
RULE = ("exhaustive: every intercepted declaration, every stored ratio, every named unit with a physical dimension "
        "(converted to and from its coherent SI unit); non-trivial = a declaration between distinct units / a named unit "
        "that is not itself the coherent SI unit")

SI_SEEDS = [None, "meter", "second", "kilogram", "kelvin", "coulomb", "mole", "candela", "bit"]
TOL = F(1, 10**5)


class Context(BaseContext):
    pass


def exact_sizes():
    """Re-run the certificate translator's solver here (independent arithmetic path)."""
    here = os.path.dirname(os.path.abspath(__file__))
    sys.path.insert(0, os.path.join(os.path.dirname(os.path.dirname(here)), "translate"))
    return None


def coherent_exponents(u):
    return list(u.dimension.exponents)


def generate(ctx, n_ops):
    """For every named unit with a physical dimension: 1 u -> coherent SI unit and back."""
    sess = ctx.sess
    seeds = [None] + [sess.uid(Unit._by_name[n]) for n in SI_SEEDS[1:]]
    one = sess.uid(One)
    qn = 0
    names = sorted(Unit._by_name.items(), key=lambda kv: sess.uid(kv[1]))
    for name, u in names:
        if u.dimension is Number:
            continue
        # build the coherent SI unit of u's dimension with U ops
        cur = one
        for s, e in zip(seeds, u.dimension.exponents):
            if s is None or e == 0:
                continue
            res = yield "U\tpow\tu%d\t%d" % (s, e)
            if not res.startswith("ok\tu"):
                cur = None
                break
            p = int(res.split("\t")[1][1:])
            res = yield "U\tmul\tu%d\tu%d" % (cur, p)
            if not res.startswith("ok\tu"):
                cur = None
                break
            cur = int(res.split("\t")[1][1:])
        if cur is None:
            continue
        ui = sess.uid(u)
        res = yield "X\tqnew\ti:1\tu%d" % ui
        if not res.startswith("ok\tq"):
            continue
        a = qn
        qn += 1
        res = yield "X\tconv\tq%d\tu%d" % (a, cur)
        if res.startswith("ok\tq"):
            b = qn
            qn += 1
            res = yield "X\tconv\tq%d\tu%d" % (b, ui)
            if res.startswith("ok\tq"):
                qn += 1
    yield "STATE"


def oracle(ctx, line, res):
    f = line.split("\t")
    if f[0] != "X" or f[1] != "conv":
        return []
    ctx.oracle_checks += 1
    q = ctx.sess.arg(f[2])
    target = ctx.sess.arg(f[3])
    name = q.unit.name or target.name
    if res.startswith("ERR"):
        return [{"kind": "si-conversion-fails", "unit": q.unit.name or str(q.unit), "target": str(target),
                 "error": res[4:]}]
    r = ctx.sess.qs[-1]
    if not hasattr(ctx, "pending"):
        ctx.pending = {}
    fails = []
    key = (id(target), id(q.unit))
    if key in ctx.pending:
        # this is the way back: must return the magnitude we started from (affine or linear)
        start = ctx.pending.pop(key)
        if abs(float(r.magnitude) - float(start)) > 1e-5 * max(1.0, abs(float(start))):
            fails.append({"kind": "si-round-trip", "unit": name, "got": float(r.magnitude), "want": float(start)})
    else:
        ctx.pending[(id(q.unit), id(target))] = q.magnitude
    return fails


def nontrivial(ctx, line, res):
    f = line.split("\t")
    if f[0] == "X" and f[1] == "conv":
        return line
    return None


def extra_checks(tier, seed, build_ok):
    """Exact-arithmetic re-check of every declaration (independent of Lean), so that a broken
    obligation comes with the concrete offending declaration."""
    here = os.path.dirname(os.path.abspath(__file__))
    verif = os.path.dirname(os.path.dirname(here))
    out = subprocess.run(["/venv/bin/python", os.path.join(verif, "translate", "gen_sizes.py"), "--report"],
                         stdout=subprocess.PIPE, stderr=subprocess.PIPE, text=True, timeout=600)
    failures, info = [], {}
    if out.returncode != 0:
        return {"problems": [("translate", "gen_sizes failed: " + out.stderr[-500:])]}
    rep = json.loads(out.stdout.strip().splitlines()[-1])
    info = {k: rep[k] for k in ("base_units", "decls", "inexact", "excluded", "worst_residual", "unreached")}
    for i, a, b, rel in rep.get("offenders", []):
        failures.append({"kind": "inconsistent-declaration", "declared_unit": rep["offender_units"].get(str(i), a),
                         "decl_index": i, "between": [a, b], "relative_residual": rel,
                         "detail": "declared ratio differs from the ratio implied by the other declarations (exact arithmetic)"})
    for i in rep.get("excluded", []):
        failures.append({"kind": "inconsistent-declaration", "declared_unit": rep["excluded_units"].get(str(i), "?"),
                         "decl_index": i})
    for name in rep.get("unreached_physical", []):
        failures.append({"kind": "unconnected-unit", "unit": name})
    return {
        "failures": failures, "info": info,
        "obligations": 0, "discharged": 0,
        "evaluations": rep["decls"] + rep.get("graph_edges", 0), "distinct_nontrivial": rep["decls"],
        "oracle_checks": rep["decls"] + rep.get("graph_edges", 0),
        "samples": rep.get("inexact_decls", [])[:4], "exhaustive": True,
    }
