/-
  Proofs/CanonAll.lean — every public operation keeps the intern table canonical.
-/
import Proofs.ExprKey

namespace Measured
open St

variable {s : St}

theorem canon_congr {s s' : St} (hu : s'.units = s.units) (ho : s'.one = s.one) (hc : Canon s) : Canon s' := by
  refine ⟨?_, ?_, ?_, ?_⟩
  · intro i j hi hj hp hk
    have hi' : i < s.units.length := by rw [← hu]; exact hi
    have hj' : j < s.units.length := by rw [← hu]; exact hj
    have e1 : s'.units[i] = s.units[i] := by simp [hu]
    have e2 : s'.units[j] = s.units[j] := by simp [hu]
    rw [e1, e2] at hp hk
    exact hc.uniq i j hi' hj' hp hk
  · intro u hu'; rw [hu] at hu'; rw [ho]; exact hc.norm u hu'
  · intro u hu'; rw [hu] at hu'; exact hc.pfxNormal u hu'
  · obtain ⟨h1, h2, h3⟩ := hc.oneRec
    have : s'.unit! s'.one = s.unit! s.one := by unfold unit!; rw [hu, ho]
    rw [this, ho, hu]; exact ⟨h1, h2, h3⟩

theorem aliasUnit_canon (hc : Canon s) (a : Nat) (name sym : Option String) :
    Canon (s.aliasUnit a name sym).1 := by
  obtain ⟨hu, _, ho⟩ := aliasUnit_units s a name sym
  exact canon_congr hu ho hc

theorem norm_filter_nonneg {one : UId} {fs : Factors} (h : Norm one fs) :
    Norm one (if (fs.filter (fun f => f.2 ≥ 0)).isEmpty then [(one, (1 : Int))] else fs.filter (fun f => f.2 ≥ 0)) := by
  split
  · exact Or.inl rfl
  · next hne =>
    rcases h with rfl | ⟨hs, ho, _⟩
    · left; simp
    · right
      refine ⟨⟨nodupKeys_filter hs.nodup _, fun f hf => hs.nonzero f (List.mem_filter.1 hf).1⟩, ?_, ?_⟩
      · intro hm
        obtain ⟨g, hg, hgk⟩ := List.mem_map.1 hm
        exact ho (hgk ▸ List.mem_map_of_mem (List.mem_filter.1 hg).1)
      · intro e; exact hne (by rw [e]; rfl)

theorem norm_filter_neg {one : UId} {fs : Factors} (h : Norm one fs) :
    Norm one (if ((fs.filter (fun f => f.2 < 0)).map (fun f => (f.1, -f.2))).isEmpty then [(one, (1 : Int))]
      else (fs.filter (fun f => f.2 < 0)).map (fun f => (f.1, -f.2))) := by
  split
  · exact Or.inl rfl
  · next hne =>
    rcases h with rfl | ⟨hs, ho, _⟩
    · exfalso; apply hne; simp
    · right
      refine ⟨⟨nodupKeys_map (nodupKeys_filter hs.nodup _) (fun e => -e), ?_⟩, ?_, ?_⟩
      · intro f hf
        obtain ⟨g, hg, rfl⟩ := List.mem_map.1 hf
        have := hs.nonzero g (List.mem_filter.1 hg).1
        simp only [ne_eq, Int.neg_eq_zero]; exact this
      · intro hm
        rw [List.map_map] at hm
        obtain ⟨g, hg, hgk⟩ := List.mem_map.1 hm
        have hg1 : g.1 = one := hgk
        exact ho (hg1 ▸ List.mem_map_of_mem (f := (·.1)) (List.mem_filter.1 hg).1)
      · intro e; exact hne (by rw [e]; rfl)

theorem asRatio_canon (hc : Canon s) {a : Nat} (ha : a < s.units.length) : Canon (s.asRatio a).1 := by
  unfold asRatio
  simp only
  have hn := canon_unit hc ha
  have c1 := newUnit_canon hc (canon_pfx hc ha)
    (s.dimOf (if ((s.unit! a).factors.filter (fun f => f.2 ≥ 0)).isEmpty then [(s.one, (1 : Int))]
      else (s.unit! a).factors.filter (fun f => f.2 ≥ 0))) (norm_filter_nonneg hn)
  have e1 := newUnit_ext s (s.unit! a).pfx
    (if ((s.unit! a).factors.filter (fun f => f.2 ≥ 0)).isEmpty then [(s.one, (1 : Int))]
      else (s.unit! a).factors.filter (fun f => f.2 ≥ 0))
    (s.dimOf (if ((s.unit! a).factors.filter (fun f => f.2 ≥ 0)).isEmpty then [(s.one, (1 : Int))]
      else (s.unit! a).factors.filter (fun f => f.2 ≥ 0)))
  apply newUnit_canon c1 Pfx.normal_identity
  rw [e1.one]
  exact norm_filter_neg hn

theorem appendBase_canon (hw : WF s) (hc : Canon s) (d : Dim) : Canon (s.appendBase d) := by
  have hunits : (s.appendBase d).units = s.units ++ [({ pfx := Pfx.identity, factors := [(s.units.length, 1)], dim := d } : UnitRec)] := rfl
  have hone : (s.appendBase d).one = s.one := rfl
  have hfresh : ∀ u ∈ s.units, sortKey u.factors ≠ sortKey [(s.units.length, 1)] := by
    intro u hu e
    have hm : (s.units.length, (1 : Int)) ∈ u.factors := by
      have : (s.units.length, (1 : Int)) ∈ sortKey [(s.units.length, 1)] := by simp [sortKey, isort, insertBy]
      rw [← e] at this
      exact (sortKey_perm _).mem_iff.1 this
    have := hw.facValid u hu _ hm
    simp at this
  refine ⟨?_, ?_, ?_, ?_⟩
  · intro i j hi hj hp hk
    simp only [hunits, List.length_append, List.length_cons, List.length_nil] at hi hj
    by_cases hi' : i < s.units.length
    · by_cases hj' : j < s.units.length
      · simp only [hunits, List.getElem_append_left hi', List.getElem_append_left hj'] at hp hk
        exact hc.uniq i j hi' hj' hp hk
      · have hj'' : j = s.units.length := by omega
        subst hj''
        simp only [hunits, List.getElem_append_left hi', List.getElem_append_right (Nat.le_refl _),
          Nat.sub_self, List.getElem_cons_zero] at hp hk
        exact absurd hk (hfresh _ (List.getElem_mem hi'))
    · have hi'' : i = s.units.length := by omega
      subst hi''
      by_cases hj' : j < s.units.length
      · simp only [hunits, List.getElem_append_left hj', List.getElem_append_right (Nat.le_refl _),
          Nat.sub_self, List.getElem_cons_zero] at hp hk
        exact absurd hk.symm (hfresh _ (List.getElem_mem hj'))
      · omega
  · intro u hu
    rw [hunits] at hu
    rw [hone]
    rcases List.mem_append.1 hu with hu | hu
    · exact hc.norm u hu
    · simp at hu; subst hu
      right
      refine ⟨⟨by simp [NodupKeys], by simp⟩, ?_, by simp⟩
      simp only [List.map_cons, List.map_nil, List.mem_cons, List.not_mem_nil, or_false]
      exact fun e => absurd hw.oneLt (by rw [e]; exact Nat.lt_irrefl _)
  · intro u hu
    rw [hunits] at hu
    rcases List.mem_append.1 hu with hu | hu
    · exact hc.pfxNormal u hu
    · simp at hu; subst hu; exact Pfx.normal_identity
  · obtain ⟨h1, h2, h3⟩ := hc.oneRec
    have hx := appendBase_ext s d
    obtain ⟨p1, p2⟩ := hx.unit_same h1
    rw [hone]
    exact ⟨Nat.lt_of_lt_of_le h1 hx.len, p1.trans h2, p2.trans h3⟩

theorem defineUnit_canon (hw : WF s) (hc : Canon s) (d : Dim) (name sym : String) :
    Canon (s.defineUnit d name sym).1 := by
  unfold defineUnit
  split
  · exact hc
  · split
    · exact hc
    · split
      · exact hc
      · exact aliasUnit_canon (appendBase_canon hw hc d) _ _ _

theorem deriveUnit_canon (hc : Canon s) (a : Nat) (name sym : String) :
    Canon (s.deriveUnit a name sym).1 := by
  unfold deriveUnit
  have := aliasUnit_canon hc a (some name) (some sym)
  split <;> simp_all

theorem resolveSymbol_canon (hc : Canon s) (hr : Reg s) (t : String) : Canon (s.resolveSymbol t).1 := by
  unfold resolveSymbol
  split
  · exact hc
  · simp only
    split
    · next p u hgo =>
      obtain ⟨⟨k, hk⟩, ⟨k', hk'⟩⟩ := go_some hgo
      exact pmulUnit_canon hc (hr.2.2 _ (lookup_mem hk')) (hr.1 _ (lookup_mem hk))
    · split <;> exact hc

theorem step_canon (h : GInv s) (hc : Canon s) (o : Op) (hok : o.ok s = true) : Canon (step s o).1 := by
  unfold Op.ok at hok
  simp only [Bool.and_eq_true, List.all_eq_true, decide_eq_true_eq] at hok
  obtain ⟨href, hextra⟩ := hok
  cases o with
  | mul a b => exact mulUnit_canon hc (href a (by simp [Op.refs])) (href b (by simp [Op.refs]))
  | div a b => exact divUnit_canon hc (href a (by simp [Op.refs])) (href b (by simp [Op.refs]))
  | pow a n => exact powUnit_canon hc (href a (by simp [Op.refs])) n
  | root a n => exact rootUnit_canon hc (href a (by simp [Op.refs])) n
  | ratio a => exact asRatio_canon hc (href a (by simp [Op.refs]))
  | unprefixed a => exact unprefixedUnit_canon hc (href a (by simp [Op.refs]))
  | pmul p a => exact pmulUnit_canon hc (show p.Normal by unfold Pfx.Normal; simpa using hextra) (href a (by simp [Op.refs]))
  | define d name sym => exact defineUnit_canon h.1.1 hc d name sym
  | derive a name sym => exact deriveUnit_canon hc a name sym
  | «alias» a name sym =>
    have h1 := aliasUnit_canon hc a name sym
    simp only [step]
    split <;> simp_all
  | resolve t => exact resolveSymbol_canon hc h.2 t
  | named n =>
    simp only [step]
    split <;> exact hc

theorem stepC_canon (h : GInv s) (hc : Canon s) (o : Op) : Canon (stepC s o).1 := by
  unfold stepC
  split
  · next hok => exact step_canon h hc o hok
  · exact hc

theorem run_canon (h : GInv s) (hc : Canon s) (ops : List Op) : Canon (run s ops) := by
  unfold run
  induction ops generalizing s with
  | nil => exact hc
  | cons o rest ih => exact ih (stepC_ginv h o) (stepC_canon h hc o)

end Measured
