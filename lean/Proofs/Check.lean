/-
  Proofs/Check.lean — executable checkers for the invariants, with soundness proofs, so
  that the per-run obligations about `Generated.init` are closed by `decide +kernel`.
-/
import Proofs.StepAll

namespace Measured
open St

def checkValidF (s : St) (fs : Factors) : Bool := fs.all (fun f => decide (f.1 < s.units.length))

def checkGInv (s : St) : Bool :=
  s.units.all (fun u => u.dim.length == s.ndim) &&
  s.units.all (fun u => checkValidF s u.factors) &&
  decide (s.one < s.units.length) &&
  (s.dimOfUnit s.one == Dim.number s.ndim) &&
  s.units.all (fun u => u.dim == s.dimOf u.factors) &&
  s.unitBySym.all (fun e => decide (e.2 < s.units.length)) &&
  s.unitByName.all (fun e => decide (e.2 < s.units.length))

theorem checkGInv_sound {s : St} (h : checkGInv s = true) : GInv s := by
  unfold checkGInv at h
  simp only [Bool.and_eq_true, List.all_eq_true, beq_iff_eq, decide_eq_true_eq] at h
  obtain ⟨⟨⟨⟨⟨⟨h1, h2⟩, h3⟩, h4⟩, h5⟩, h6⟩, h7⟩ := h
  refine ⟨⟨⟨h1, ?_, h3, h4⟩, h5⟩, ⟨h6, h7⟩⟩
  intro u hu f hf
  have := h2 u hu
  unfold checkValidF at this
  simp only [List.all_eq_true, decide_eq_true_eq] at this
  exact this f hf

end Measured
