from measured import *
from measured import systems, conversions
from measured.si import *
from measured.us import *
from measured.energy import *
from measured.astronomical import Jansky
from measured.computing import Furman
import traceback
def show(a,b):
    print("=====", a, "->", b)
    try:
        plan = conversions._plan_conversion.__wrapped__(a,b)
        for ratio, path, exp in plan:
            print("   step ratio=%r exp=%r path=%s" % (ratio, exp, [(s,o,str(u)) for s,o,u in path]))
        print("   result", (1.0*a).in_unit(b))
    except Exception as e:
        tb = traceback.extract_tb(e.__traceback__)
        print("   EXC", type(e).__name__, str(e)[:100], "at", [(f.name, f.lineno) for f in tb][-3:])
show(BoilerHorsepower, ElectricalHorsepower)
print("ratios hp(S):", {str(k):v for k,v in conversions._ratios[BoilerHorsepower].items()})
print("ratios BTU/h:", {str(k):v for k,v in conversions._ratios[BritishThermalUnit/Hour].items()})
show(BritishThermalUnit**-1, Calorie**-1)
show(Donkeypower, Watt)
show(Furman**-1, Arcminute**-1)
show(Hertz, Fresnel) if 'Fresnel' in globals() else None
from measured.metric import Fresnel
show(Hertz, Fresnel)
show(Kilo*Hertz, Fresnel)
show(Foot**-1, Meter**-1)
show(Foot/Second, Meter/Hour)
show(Acre, Meter**2)
show(Acre**-1, Meter**-2)
show(Liter**-1, Meter**-3)
show(Joule**-1, ElectronVolt**-1)
