/-
  Proofs/ConvertSelf.lean — converting a quantity to its own unit returns the same value
  (exactly, over exact arithmetic): the plan is the identity hop followed by 1/prefix.
-/
import Proofs.ConvertVal
import Proofs.Inv

namespace Measured

theorem exec_getThe (c : Conv Rat) : CM.exec (getThe (Conv Rat) : CM Rat (Conv Rat)) c = (.ok c, c) := rfl

theorem exec_findPathRec_self (c : Conv Rat) (u : UId) (fuel : Nat) (v : List UId) :
    CM.exec (findPathRec (fuel + 1) u u v) c =
      (.ok ([{ scale := .int 1, offset := .int 0, unit := u }], v), c) := by
  unfold findPathRec
  simp only [beq_self_eq_true, ↓reduceIte]
  rfl

theorem exec_findPath_self (c : Conv Rat) (u : UId) :
    CM.exec (findPath u u) c = (.ok [{ scale := .int 1, offset := .int 0, unit := u }], c) := by
  unfold findPath
  rw [exec_bind, exec_getThe]
  simp only
  rw [exec_bind, exec_findPathRec_self]
  rfl

end Measured

namespace Measured

theorem recip_val {m r : Mag Rat} (h : recip m = .ok r) : r.val = 1 / m.val ∧ m.val ≠ 0 := by
  unfold recip at h
  have := val_div h
  simpa using this

/-- `_plan_conversion(u, u)`: the identity hop, then division by the unit's own prefix. -/
theorem exec_plan_self (c : Conv Rat) (u : UId) :
    (∃ e c', CM.exec (planConversion u u) c = (.error e, c')) ∨
    (∃ (head : Mag Rat) (c' : Conv Rat),
      CM.exec (planConversion u u) c =
        (.ok [ { ratio := .int 1, path := [{ scale := .int 1, offset := .int 0, unit := u }], exp := 1 },
               { ratio := head, path := [{ scale := .int 1, offset := .int 0, unit := c.st.one }], exp := 1 } ], c') ∧
      head.val = 1 / (Pfx.value (c.st.unit! u).pfx : Mag Rat).val ∧
      (Pfx.value (c.st.unit! u).pfx : Mag Rat).val ≠ 0) := by
  unfold planConversion
  rw [exec_bind, exec_getSt]
  simp only
  rw [exec_bind]
  unfold quantifyUnit
  rw [exec_bind, exec_getSt]
  simp only
  rw [exec_bind, exec_liftSt]
  simp only [exec_pure]
  rw [exec_bind, exec_liftE]
  cases hr : recip (Pfx.value (c.st.unit! u).pfx : Mag Rat) with
  | error e => left; exact ⟨e, _, rfl⟩
  | ok head =>
    right
    simp only
    rw [exec_bind, exec_getSt]
    simp only
    rw [exec_bind, exec_findPath_self]
    simp only [List.isEmpty_cons, Bool.not_false, ↓reduceIte]
    rw [exec_bind]
    unfold inlinePaths
    simp only [List.mapM_cons, List.mapM_nil]
    rw [exec_bind, exec_bind, exec_findPath_self]
    simp only [List.isEmpty_cons, Bool.false_eq_true, ↓reduceIte]
    obtain ⟨h1, h2⟩ := recip_val hr
    refine ⟨head, { c with st := (c.st.unprefixedUnit u).1 }, ?_, h1, h2⟩
    simp only [exec_pure, exec_bind]

end Measured

namespace Measured
open St

/-- **C05**: converting a quantity to its own unit returns the same magnitude (exactly, in
    exact arithmetic; the float implementation multiplies by `p` and then by `1/p`, one ulp). -/
theorem convert_self {c c' : Conv Rat} {q r : Qty Rat} (hq : q.unit < c.st.units.length)
    (h : CM.exec (convert q q.unit) c = (.ok r, c')) : r.mag.val = q.mag.val ∧ r.unit = q.unit := by
  obtain ⟨hu, plan, hp, hv⟩ := convert_ok h
  refine ⟨?_, hu⟩
  have hx := newUnit_ext c.st Pfx.identity (c.st.unit! q.unit).factors (c.st.unit! q.unit).dim
  have hsame : ((c.st.unprefixedUnit q.unit).1.unit! q.unit).pfx = (c.st.unit! q.unit).pfx := by
    unfold unprefixedUnit; exact (hx.same q.unit hq).1
  rcases exec_plan_self { c with st := (c.st.unprefixedUnit q.unit).1 } q.unit with ⟨e, c2, he⟩ | ⟨head, c2, he, hh, hne⟩
  · rw [he] at hp; cases hp
  · rw [he] at hp
    simp only [Prod.mk.injEq, Except.ok.injEq] at hp
    obtain ⟨hplan, _⟩ := hp
    subst hplan
    rw [hv]
    simp only [List.map_cons, List.map_nil, PlanStep.toV, Hop.toV, applyPlanV, applyPathV, val_int]
    simp only at hh hne
    rw [hsame] at hh hne
    rw [hh]
    field_simp
    push_cast
    ring

end Measured
