/-
  Proofs/Frame.lean — EVERY conversion, comparison and arithmetic operation on quantities, whatever
  its arguments and whether it returns or raises, leaves the conversion graph (ratios, offsets, the
  interpreter flag) untouched and only EXTENDS the unit table: existing units keep their prefix,
  factors and dimension.  (`equate` and `translate` are the only writers of the graph.)

  `Framed m`: from every state, `m` ends in a `CFrame` extension of it.  The predicate is closed under
  everything the planner is written with (bind, try/except, loops over lists, the state-passing unit
  operations), so the proof is a structural walk over the model's code — including the parts of the
  factor planner that are wrong about VALUES: nothing here depends on what is computed.
-/
import Proofs.PathSound

namespace Measured
open St

/-- from every state the action ends in an extension of it with the same graph -/
structure Framed {β} (m : CM Rat β) : Prop where
  frame : ∀ c : Conv Rat, CFrame c (CM.exec m c).2

theorem framed_pure {β} (a : β) : Framed (pure a : CM Rat β) := ⟨fun c => CFrame.refl c⟩
theorem framed_throw {β} (e : Exc) : Framed (throw e : CM Rat β) := ⟨fun c => CFrame.refl c⟩
theorem framed_getSt : Framed (getSt : CM Rat St) := ⟨fun c => CFrame.refl c⟩
theorem framed_getThe : Framed (getThe (Conv Rat) : CM Rat (Conv Rat)) := ⟨fun c => by
  rw [exec_getThe']; exact CFrame.refl c⟩
theorem framed_liftE {β} (r : Except Exc β) : Framed (liftE r : CM Rat β) := ⟨fun c => by
  rw [exec_liftE]; exact CFrame.refl c⟩

theorem framed_liftSt {β} (f : St → St × β) (hf : ∀ s, Ext s (f s).1) : Framed (liftSt f : CM Rat β) := ⟨fun c => by
  rw [exec_liftSt]; exact frame_setSt c (hf c.st)⟩

theorem framed_liftStE {β} (f : St → St × Except Exc β) (hf : ∀ s, Ext s (f s).1) :
    Framed (liftStE f : CM Rat β) := ⟨fun c => by
  rw [exec_liftStE]; exact frame_setSt c (hf c.st)⟩

theorem framed_bind {β γ} {m : CM Rat β} {f : β → CM Rat γ} (hm : Framed m) (hf : ∀ a, Framed (f a)) :
    Framed (m >>= f) := by
  constructor
  intro c
  rw [exec_bind]
  have h1 := hm.frame c
  cases h : CM.exec m c with
  | mk r c' =>
    rw [h] at h1
    cases r with
    | ok a => exact h1.trans ((hf a).frame c')
    | error e => exact h1

theorem framed_tryCatch {β} {m : CM Rat β} {h : Exc → CM Rat β} (hm : Framed m) (hh : ∀ e, Framed (h e)) :
    Framed (tryCatch m h) := by
  constructor
  intro c
  rw [exec_tryCatch]
  have h1 := hm.frame c
  cases hx : CM.exec m c with
  | mk r c' =>
    rw [hx] at h1
    cases r with
    | ok a => exact h1
    | error e => exact h1.trans ((hh e).frame c')

theorem framed_cassert (b : Bool) : Framed (cassert b : CM Rat Unit) := by
  unfold cassert
  apply framed_bind framed_getThe
  intro c
  split
  · exact framed_throw _
  · exact framed_pure _

theorem framed_ite {β} (p : Prop) [Decidable p] {a b : CM Rat β} (ha : Framed a) (hb : Framed b) :
    Framed (if p then a else b) := by
  split
  · exact ha
  · exact hb

/-- a `for` loop over a list -/
theorem framed_forIn {β γ} (l : List γ) (f : γ → β → CM Rat (ForInStep β)) (hf : ∀ x b, Framed (f x b)) :
    ∀ init : β, Framed (forIn l init f) := by
  induction l with
  | nil => intro init; simp only [List.forIn_nil]; exact framed_pure _
  | cons x rest ih =>
    intro init
    simp only [List.forIn_cons]
    apply framed_bind (hf x init)
    intro r
    cases r with
    | done b => exact framed_pure _
    | yield b => exact ih b

theorem framed_foldlM {β γ} (f : β → γ → CM Rat β) (hf : ∀ b x, Framed (f b x)) :
    ∀ (l : List γ) (init : β), Framed (l.foldlM f init) := by
  intro l
  induction l with
  | nil => intro init; simp only [List.foldlM_nil]; exact framed_pure _
  | cons x rest ih =>
    intro init
    simp only [List.foldlM_cons]
    exact framed_bind (hf init x) (fun b => ih b)

theorem framed_mapM {β γ} (f : γ → CM Rat β) (hf : ∀ x, Framed (f x)) : ∀ l : List γ, Framed (l.mapM f) := by
  intro l
  induction l with
  | nil => simp only [List.mapM_nil]; exact framed_pure _
  | cons x rest ih =>
    simp only [List.mapM_cons]
    exact framed_bind (hf x) (fun a => framed_bind ih (fun _ => framed_pure _))

/-! ### the pieces of the search -/

theorem framed_powHop (h : Hop Rat) (e : Int) : Framed (powHop h e) := by
  unfold powHop
  exact framed_bind (framed_liftE _) (fun _ => framed_bind (framed_liftE _) (fun _ =>
    framed_bind (framed_liftSt _ (fun s => powUnit_ext s _ _)) (fun _ => framed_pure _)))

theorem framed_mulUnits : ∀ l : List UId, Framed (mulUnits (α := Rat) l) := by
  intro l
  cases l with
  | nil => exact framed_throw _
  | cons u rest =>
    unfold mulUnits
    exact framed_foldlM _ (fun acc v => framed_liftStE _ (fun s => mulUnit_ext s _ _)) rest u

theorem ext_of_eq {s s' : St} (h : s' = s) : Ext s s' := by subst h; exact Ext.refl _

/-- one structural step of a `Framed` proof -/
macro "framed_step" : tactic => `(tactic| first
  | with_reducible exact framed_pure _ | with_reducible exact framed_throw _ | with_reducible exact framed_getSt
  | with_reducible exact framed_getThe | with_reducible exact framed_liftE _
  | with_reducible exact framed_cassert _ | with_reducible exact framed_powHop _ _ | with_reducible exact framed_mulUnits _
  | with_reducible exact framed_liftSt _ (fun s => powUnit_ext s _ _)
  | with_reducible exact framed_liftSt _ (fun s => unprefixedUnit_ext s _)
  | with_reducible exact framed_liftStE _ (fun s => rootUnit_ext s _ _)
  | with_reducible exact framed_liftStE _ (fun s => mulUnit_ext s _ _)
  | with_reducible exact framed_liftStE _ (fun s => divUnit_ext s _ _)
  | assumption
  | with_reducible apply framed_forIn
  | with_reducible apply framed_foldlM
  | with_reducible apply framed_mapM
  | with_reducible apply framed_tryCatch
  | with_reducible apply framed_bind
  | intro _
  | split
  | dsimp only)

macro "framed" : tactic => `(tactic| repeat (any_goals framed_step))

/-- the same with extra facts (recursion hypotheses, earlier `Framed` theorems) tried first -/
syntax "framed_using" "[" term,* "]" : tactic
macro_rules
  | `(tactic| framed_using [$ts,*]) => `(tactic| repeat (any_goals (first $[| with_reducible exact $ts]* | framed_step)))

theorem framed_reduceDimension (a b : UId) : Framed (reduceDimension (α := Rat) a b) := by
  unfold reduceDimension
  framed

theorem framed_pathLoop {recur : UId → UId → List UId → CM Rat (List (Hop Rat) × List UId)}
    (hrec : ∀ a b v, Framed (recur a b v)) (start' stop' : UId) (e : Int) :
    ∀ (items : List (UId × Mag Rat)) (best : List (Hop Rat)) (visited : List UId),
      Framed (pathLoop recur start' stop' e items best visited) := by
  intro items
  induction items with
  | nil => intro best visited; unfold pathLoop; exact framed_pure _
  | cons it rest ih =>
    intro best visited
    obtain ⟨mid, scale⟩ := it
    unfold pathLoop
    framed_using [hrec _ _ _, ih _ _]

theorem framed_findPathRec : ∀ (fuel : Nat) (a b : UId) (v : List UId), Framed (findPathRec (α := Rat) fuel a b v) := by
  intro fuel
  induction fuel with
  | zero => intro a b v; unfold findPathRec; exact framed_throw _
  | succ fuel ih =>
    intro a b v
    unfold findPathRec
    framed_using [framed_reduceDimension _ _, framed_pathLoop ih _ _ _ _ _ _]

theorem framed_findPath (a b : UId) : Framed (findPath (α := Rat) a b) := by
  unfold findPath
  framed_using [framed_findPathRec _ _ _ _]

theorem framed_inlinePaths (plan : List (Rough Rat)) : Framed (inlinePaths plan) := by
  unfold inlinePaths
  framed_using [framed_findPath _ _]

/-! ### the factor planner -/

theorem framed_replaceFactors_outer (one : UId) : ∀ (fuel : Nat) (factors : Splat) (plan : List (Rough Rat)),
    Framed (replaceFactors.outer (α := Rat) one fuel factors plan) := by
  intro fuel
  induction fuel with
  | zero => intro factors plan; unfold replaceFactors.outer; exact framed_throw _
  | succ fuel ih =>
    intro factors plan
    unfold replaceFactors.outer
    framed_using [ih _ _]

theorem framed_replaceFactors (factors : Splat) : Framed (replaceFactors (α := Rat) factors) := by
  unfold replaceFactors
  framed_using [framed_replaceFactors_outer _ _ _ _]

theorem framed_matchStep (st : Splat × Splat × List (Rough Rat)) (d : Dim) : Framed (matchStep st d) := by
  unfold matchStep
  framed

theorem framed_matchFactors (a b : Splat) : Framed (matchFactors (α := Rat) a b) := by
  unfold matchFactors
  framed_using [framed_matchStep _ _]

theorem framed_quantifyUnit (u : UId) : Framed (quantifyUnit (α := Rat) u) := by
  unfold quantifyUnit
  framed

theorem framed_unprefixedQty (q : Qty Rat) : Framed (unprefixedQty q) := by
  unfold unprefixedQty
  framed_using [framed_quantifyUnit _]

theorem framed_planConversion (a b : UId) : Framed (planConversion (α := Rat) a b) := by
  unfold planConversion
  framed_using [framed_quantifyUnit _, framed_findPath _ _, framed_inlinePaths _, framed_replaceFactors _,
    framed_matchFactors _ _]

/-- **Every conversion — any quantity, any target, returning or raising — leaves the graph untouched and
    only extends the unit table.** -/
theorem framed_convert (q : Qty Rat) (t : UId) : Framed (convert q t) := by
  unfold convert
  framed_using [framed_unprefixedQty _, framed_planConversion _ _]

/-! ### arithmetic and comparisons on quantities -/

theorem framed_add (a b : Qty Rat) : Framed (Qty.add a b) := by
  unfold Qty.add; framed_using [framed_convert _ _]
theorem framed_sub (a b : Qty Rat) : Framed (Qty.sub a b) := by
  unfold Qty.sub; framed_using [framed_convert _ _]
theorem framed_mul (a b : Qty Rat) : Framed (Qty.mul a b) := by unfold Qty.mul; framed
theorem framed_mulUnit (a : Qty Rat) (u : UId) : Framed (Qty.mulUnit a u) := by unfold Qty.mulUnit; framed
theorem framed_div (a b : Qty Rat) : Framed (Qty.div a b) := by unfold Qty.div; framed
theorem framed_divUnit (a : Qty Rat) (u : UId) : Framed (Qty.divUnit a u) := by unfold Qty.divUnit; framed
theorem framed_divNum (a : Qty Rat) (m : Mag Rat) : Framed (Qty.divNum a m) := by unfold Qty.divNum; framed
theorem framed_rdivNum (a : Qty Rat) (m : Mag Rat) : Framed (Qty.rdivNum a m) := by unfold Qty.rdivNum; framed
theorem framed_pow (a : Qty Rat) (n : Int) : Framed (Qty.pow a n) := by unfold Qty.pow; framed
theorem framed_root (a : Qty Rat) (n : Int) : Framed (Qty.root a n) := by unfold Qty.root; framed

theorem framed_eqCore (a b : Qty Rat) : Framed (Qty.eqCore a b) := by
  unfold Qty.eqCore; framed_using [framed_unprefixedQty _, framed_convert _ _]
theorem framed_ltCore (a b : Qty Rat) : Framed (Qty.ltCore a b) := by
  unfold Qty.ltCore; framed_using [framed_unprefixedQty _, framed_convert _ _]
theorem framed_eq (a b : Qty Rat) : Framed (Qty.eq a b) := by
  unfold Qty.eq; framed_using [framed_eqCore _ _]
theorem framed_ne (a b : Qty Rat) : Framed (Qty.ne a b) := by
  unfold Qty.ne; framed_using [framed_eqCore _ _]
theorem framed_gtCore (a b : Qty Rat) : Framed (Qty.gtCore a b) := by
  unfold Qty.gtCore; framed_using [framed_ltCore _ _, framed_ne _ _]
theorem framed_leCore (a b : Qty Rat) : Framed (Qty.leCore a b) := by
  unfold Qty.leCore; framed_using [framed_ltCore _ _, framed_eq _ _]
theorem framed_geCore (a b : Qty Rat) : Framed (Qty.geCore a b) := by
  unfold Qty.geCore; framed_using [framed_ltCore _ _]
theorem framed_lt (a b : Qty Rat) : Framed (Qty.lt a b) := by
  unfold Qty.lt; framed_using [framed_ltCore _ _, framed_gtCore _ _]
theorem framed_gt (a b : Qty Rat) : Framed (Qty.gt a b) := by
  unfold Qty.gt; framed_using [framed_ltCore _ _, framed_gtCore _ _]
theorem framed_le (a b : Qty Rat) : Framed (Qty.le a b) := by
  unfold Qty.le; framed_using [framed_leCore _ _, framed_geCore _ _]
theorem framed_ge (a b : Qty Rat) : Framed (Qty.ge a b) := by
  unfold Qty.ge; framed_using [framed_leCore _ _, framed_geCore _ _]

/-! ### histories of queries -/

/-- the read-only operations on quantities -/
inductive QOp where
  | convert (q : Qty Rat) (t : UId)
  | add (a b : Qty Rat) | sub (a b : Qty Rat) | mul (a b : Qty Rat) | div (a b : Qty Rat)
  | pow (a : Qty Rat) (n : Int) | root (a : Qty Rat) (n : Int)
  | eq (a b : Qty Rat) | ne (a b : Qty Rat) | lt (a b : Qty Rat) | le (a b : Qty Rat) | gt (a b : Qty Rat) | ge (a b : Qty Rat)
  | units (ops : List Op)

/-- the state after one query (its result, value or exception, is dropped) -/
def QOp.after (c : Conv Rat) : QOp → Conv Rat
  | .convert q t => (CM.exec (Measured.convert q t) c).2
  | .add a b => (CM.exec (Qty.add a b) c).2
  | .sub a b => (CM.exec (Qty.sub a b) c).2
  | .mul a b => (CM.exec (Qty.mul a b) c).2
  | .div a b => (CM.exec (Qty.div a b) c).2
  | .pow a n => (CM.exec (Qty.pow a n) c).2
  | .root a n => (CM.exec (Qty.root a n) c).2
  | .eq a b => (CM.exec (Qty.eq a b) c).2
  | .ne a b => (CM.exec (Qty.ne a b) c).2
  | .lt a b => (CM.exec (Qty.lt a b) c).2
  | .le a b => (CM.exec (Qty.le a b) c).2
  | .gt a b => (CM.exec (Qty.gt a b) c).2
  | .ge a b => (CM.exec (Qty.ge a b) c).2
  | .units ops => { c with st := run c.st ops }

theorem QOp.after_frame (c : Conv Rat) (o : QOp) : CFrame c (o.after c) := by
  cases o with
  | convert q t => exact (framed_convert q t).frame c
  | add a b => exact (framed_add a b).frame c
  | sub a b => exact (framed_sub a b).frame c
  | mul a b => exact (framed_mul a b).frame c
  | div a b => exact (framed_div a b).frame c
  | pow a n => exact (framed_pow a n).frame c
  | root a n => exact (framed_root a n).frame c
  | eq a b => exact (framed_eq a b).frame c
  | ne a b => exact (framed_ne a b).frame c
  | lt a b => exact (framed_lt a b).frame c
  | le a b => exact (framed_le a b).frame c
  | gt a b => exact (framed_gt a b).frame c
  | ge a b => exact (framed_ge a b).frame c
  | units ops => exact frame_setSt c (run_ext _ _)

/-- **No history of queries changes the declarations**: after any sequence of conversions, comparisons,
    sums, products, powers, roots and unit operations — with any arguments, succeeding or raising — the
    ratio and offset tables and the interpreter flag are what they were, every unit that existed keeps
    its prefix, factors and dimension, and the unit table has only grown. -/
theorem queries_frame (c : Conv Rat) (ops : List QOp) : CFrame c (ops.foldl QOp.after c) := by
  induction ops generalizing c with
  | nil => exact CFrame.refl c
  | cons o rest ih => exact (QOp.after_frame c o).trans (ih _)

end Measured
