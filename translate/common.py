"""Shared helpers for the translators (source tree -> lean/Generated/*.lean).

Translators run under /venv/bin/python with PYTHONPATH=<repo>/src and only *serialise*
what the library registered; they compute nothing the Lean side relies on without
re-checking.
"""
import os
import struct
import sys

REPO = os.environ.get("MEASURED_REPO", "/repo")
VERIF = os.path.dirname(os.path.dirname(os.path.abspath(__file__)))
GEN = os.path.join(VERIF, "lean", "Generated")


def ensure_repo_on_path():
    src = os.path.join(REPO, "src")
    if sys.path[0] != src:
        sys.path.insert(0, src)
    import measured

    assert os.path.abspath(measured.__file__).startswith(os.path.abspath(src)), (
        measured.__file__,
        src,
    )


def lean_str(s):
    out = ['"']
    for c in s:
        if c == '"':
            out.append('\\"')
        elif c == "\\":
            out.append("\\\\")
        elif c == "\n":
            out.append("\\n")
        elif c == "\t":
            out.append("\\t")
        elif ord(c) < 32:
            out.append("\\x%02x" % ord(c))
        else:
            out.append(c)
    out.append('"')
    return "".join(out)


def lean_int(i):
    return str(i) if i >= 0 else "(%d)" % i


def lean_list(items):
    return "[" + ", ".join(items) + "]"


def lean_opt_str(s):
    return "none" if s is None else "(some %s)" % lean_str(s)


def float_bits(x):
    return struct.unpack("<Q", struct.pack("<d", float(x)))[0]


def raw_mag(m):
    """Lean `Raw` literal for a Python int / float / Decimal."""
    from decimal import Decimal
    from fractions import Fraction

    if isinstance(m, bool):
        raise TypeError("bool magnitude")
    if isinstance(m, int):
        return "(.int %s)" % lean_int(m)
    if isinstance(m, float):
        return "(.flt %d)" % float_bits(m)
    if isinstance(m, Decimal):
        f = Fraction(m)
        return "(.dec %s %d)" % (lean_int(f.numerator), f.denominator)
    raise TypeError(type(m))


def write_if_changed(path, text):
    os.makedirs(os.path.dirname(path), exist_ok=True)
    try:
        with open(path, encoding="utf-8") as fh:
            if fh.read() == text:
                return False
    except FileNotFoundError:
        pass
    tmp = path + ".tmp.%d" % os.getpid()
    with open(tmp, "w", encoding="utf-8") as fh:
        fh.write(text)
    os.replace(tmp, path)
    return True
