-- feasibility probe: dimension algebra + factor merging, core Lean only
abbrev Dim := List Int

namespace Dim
def mul (a b : Dim) : Dim := List.zipWith (· + ·) a b
def pow (a : Dim) (n : Int) : Dim := a.map (· * n)
def zero (n : Nat) : Dim := List.replicate n 0

theorem mul_comm (a b : Dim) : mul a b = mul b a := by
  unfold mul
  rw [List.zipWith_comm]
  congr 1; funext x y; exact Int.add_comm y x

theorem mul_assoc (a b c : Dim) : mul (mul a b) c = mul a (mul b c) := by
  unfold mul
  induction a generalizing b c with
  | nil => simp
  | cons x xs ih =>
    cases b with
    | nil => simp
    | cons y ys =>
      cases c with
      | nil => simp
      | cons z zs => simp [Int.add_assoc, ih]

theorem zero_mul (a : Dim) : mul (zero a.length) a = a := by
  unfold mul zero
  induction a with
  | nil => simp
  | cons x xs ih => simp [List.replicate_succ, ih]

theorem pow_add (a : Dim) (m n : Int) : mul (pow a m) (pow a n) = pow a (m + n) := by
  unfold mul pow
  induction a with
  | nil => simp
  | cons x xs ih => simp [Int.mul_add, ih]

theorem mul_left_comm (a b c : Dim) : mul a (mul b c) = mul b (mul a c) := by
  rw [← mul_assoc, mul_comm a b, mul_assoc]

theorem length_mul (a b : Dim) (h : a.length = b.length) : (mul a b).length = a.length := by
  simp [mul, h]
end Dim

-- factors: assoc list base-unit-id ↦ exponent (insertion ordered, unique keys)
abbrev Factors := List (Nat × Int)

def insertAdd (fs : Factors) (k : Nat) (e : Int) : Factors :=
  match fs with
  | [] => [(k, e)]
  | (k', e') :: rest => if k' = k then (k', e' + e) :: rest else (k', e') :: insertAdd rest k e

def mergeAdd (a b : Factors) : Factors := b.foldl (fun acc p => insertAdd acc p.1 p.2) a

variable (dim : Nat → Dim) (n : Nat)

def dimOf (fs : Factors) : Dim :=
  fs.foldr (fun p d => Dim.mul ((dim p.1).pow p.2) d) (Dim.zero n)

theorem dimOf_insertAdd (hd : ∀ k, (dim k).length = n) (fs : Factors) (k : Nat) (e : Int) :
    dimOf dim n (insertAdd fs k e) = Dim.mul ((dim k).pow e) (dimOf dim n fs) := by
  induction fs with
  | nil => simp [insertAdd, dimOf]
  | cons p rest ih =>
    obtain ⟨k', e'⟩ := p
    unfold insertAdd
    split
    · next h =>
      subst h
      simp only [dimOf, List.foldr_cons]
      rw [← Dim.pow_add, Dim.mul_assoc, Dim.mul_left_comm]
    · next h =>
      simp only [dimOf, List.foldr_cons] at ih ⊢
      rw [ih, Dim.mul_left_comm]

theorem dimOf_length (hd : ∀ k, (dim k).length = n) (fs : Factors) : (dimOf dim n fs).length = n := by
  induction fs with
  | nil => simp [dimOf, Dim.zero]
  | cons p rest ih =>
    have : dimOf dim n (p :: rest) = Dim.mul ((dim p.1).pow p.2) (dimOf dim n rest) := rfl
    rw [this, Dim.length_mul]
    · simp [Dim.pow, hd]
    · simp [Dim.pow, hd, ih]

theorem dimOf_mergeAdd (hd : ∀ k, (dim k).length = n) (a b : Factors) :
    dimOf dim n (mergeAdd a b) = Dim.mul (dimOf dim n a) (dimOf dim n b) := by
  unfold mergeAdd
  induction b generalizing a with
  | nil =>
    have hl : (dimOf dim n a).length = n := dimOf_length dim n hd a
    simp only [List.foldl_nil, dimOf, List.foldr_nil]
    rw [Dim.mul_comm]
    have := Dim.zero_mul (dimOf dim n a)
    rw [hl] at this
    exact this.symm
  | cons p rest ih =>
    simp only [List.foldl_cons]
    rw [ih, dimOf_insertAdd dim n hd]
    simp only [dimOf, List.foldr_cons]
    rw [Dim.mul_comm ((dim p.1).pow p.2) _, Dim.mul_assoc]

#print axioms dimOf_insertAdd

#print axioms dimOf_mergeAdd
