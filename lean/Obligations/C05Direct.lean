/-
  Per-run obligations for the direct-fragment theorems (Proofs/PathSound, Proofs/GraphHist,
  Props/C05): the registries regenerated from /repo, with NO declarations, satisfy the invariant
  `GraphOK σ` for every size assignment σ; and the hypotheses of the history theorem are inhabited:
  starting from there, two fresh units are defined, `1 A = 3 m` and `1 B = 4 A` are declared,
  and the model's `convert` turns 5 B² into m² through the directly found path — the theorem then
  says the result is 5·(12/1)² exactly, which the kernel also computes.
-/
import Props.C05
import Obligations.C02

namespace Measured.Obligations.Direct
open Measured Generated St

/-- the shipped registries without any declared equivalence -/
def c0 : Conv Rat := { st := init, ratios := [], offsets := [] }

theorem c0_graphOK (σ : UId → Rat) (h1 : σ init.one = 1) : GraphOK σ c0 :=
  ⟨init_canon, init_ginv.1, init_ginv.2, h1, by intro a b m h; simp [c0, Table.row] at h,
   by intro a b m h; simp [c0, Table.row] at h⟩

def mIdx : UId := (lookup "meter" init.unitByName).getD 0
def A : UId := init.units.length
def B : UId := init.units.length + 1
/-- two fresh base units of the dimension of the metre (what `Dimension.unit(...)` appends; names play no role here) -/
def c1 : Conv Rat := { c0 with st := (init.appendBase (init.unit! mIdx).dim).appendBase (init.unit! mIdx).dim }

theorem c1_ginv : GInv c1.st := checkGInv_sound (by decide +kernel)
theorem c1_canon : Canon c1.st := checkCanon_sound (by decide +kernel)
def c2 : Conv Rat := (CM.exec (equate ⟨.int 1, A⟩ ⟨.int 3, mIdx⟩) c1).2
def c3 : Conv Rat := (CM.exec (equate ⟨.int 1, B⟩ ⟨.int 4, A⟩) c2).2
def powers : List Op := [.pow B 2, .pow mIdx 2]
def c4 : Conv Rat := { c3 with st := run c3.st powers }
def B2 : UId := (c3.st.powUnit B 2).2
def M2 : UId := ((c3.st.powUnit B 2).1.powUnit mIdx 2).2

def σd : UId → Rat := fun k => if k = A then 3 else if k = B then 12 else 1

theorem σd_ne (k : UId) : σd k ≠ 0 := by
  unfold σd; split_ifs <;> norm_num

theorem c1_graphOK : GraphOK σd c1 :=
  ⟨c1_canon, c1_ginv.1, c1_ginv.2, by decide +kernel, by intro a b m h; simp [c1, c0, Table.row] at h,
   by intro a b m h; simp [c1, c0, Table.row] at h⟩

def isOk {β} : Except Exc β → Bool
  | .ok _ => true
  | .error _ => false

theorem exec_unit_of_isOk {m : CM Rat Unit} {c : Conv Rat} (h : isOk (CM.exec m c).1 = true) :
    CM.exec m c = (.ok (), (CM.exec m c).2) := by
  cases hx : CM.exec m c with
  | mk r c' =>
    cases r with
    | ok u => rfl
    | error e => rw [hx] at h; cases h

theorem c1_graphWF : GraphWF c1 :=
  ⟨by intro a b m h; simp [c1, c0, Table.row] at h, by intro a b m h; simp [c1, c0, Table.row] at h⟩

theorem reach1 : Reach σd c1 := Reach.init c1_graphOK c1_graphWF rfl

theorem reach2 : Reach σd c2 :=
  Reach.equate (a := ⟨.int 1, A⟩) (b := ⟨.int 3, mIdx⟩) reach1 (by decide +kernel) (by decide +kernel)
    (by decide +kernel) (by decide +kernel) (exec_unit_of_isOk (by decide +kernel))

theorem reach3 : Reach σd c3 :=
  Reach.equate (a := ⟨.int 1, B⟩) (b := ⟨.int 4, A⟩) reach2 (by decide +kernel) (by decide +kernel)
    (by decide +kernel) (by decide +kernel) (exec_unit_of_isOk (by decide +kernel))

theorem reach4 : Reach σd c4 := Reach.units powers reach3

def q5 : Qty Rat := ⟨.int 5, B2⟩
def convRes := CM.exec (convert q5 M2) c4
def pathRes := CM.exec (findPath q5.unit M2) { c4 with st := ((c4.st.unprefixedUnit q5.unit).1.unprefixedUnit M2).1 }

def convCheck : Bool :=
  match convRes.1 with
  | .ok r => decide (r.mag.val = 720)
  | .error _ => false

def pathCheck : Bool :=
  match pathRes.1 with
  | .ok p => !p.isEmpty && decide (p.length = 2)
  | .error _ => false

theorem conv_evaluates : convCheck = true := by decide +kernel
theorem path_evaluates : pathCheck = true := by decide +kernel
theorem indices_valid : q5.unit < c4.st.units.length ∧ M2 < c4.st.units.length := by decide +kernel

/-- **The hypotheses of the direct-fragment theorems are inhabited on the regenerated registries**:
    in the state reached by appending two base units, declaring `1 A = 3 m`, `1 B = 4 A` and interning
    `B²`, `m²`, the model's `convert` answers `5 B² = 720 m²` through a directly found (two hops,
    squared) path — and `C05.direct_conversion_exact` applies to it. -/
theorem direct_fragment_inhabited :
    ∃ (r : Qty Rat) (c' : Conv Rat) (p : List (Hop Rat)) (c2 : Conv Rat),
      CM.exec (convert q5 M2) c4 = (.ok r, c') ∧
      CM.exec (findPath q5.unit M2) { c4 with st := ((c4.st.unprefixedUnit q5.unit).1.unprefixedUnit M2).1 } = (.ok p, c2) ∧
      p ≠ [] ∧ r.mag.val = 720 ∧
      r.mag.val * unitSz σd c4.st M2 = q5.mag.val * unitSz σd c4.st q5.unit := by
  have hc := conv_evaluates
  have hp := path_evaluates
  unfold convCheck at hc
  unfold pathCheck at hp
  cases h1 : convRes with
  | mk r1 c' =>
    cases r1 with
    | error e => rw [h1] at hc; cases hc
    | ok r =>
      rw [h1] at hc
      simp only [decide_eq_true_eq] at hc
      cases h2 : pathRes with
      | mk p1 c2 =>
        cases p1 with
        | error e => rw [h2] at hp; cases hp
        | ok p =>
          rw [h2] at hp
          simp only [Bool.and_eq_true, Bool.not_eq_true', decide_eq_true_eq] at hp
          have hne : p ≠ [] := by intro h; rw [h] at hp; simp at hp
          obtain ⟨_, d, c3', hfp, hd⟩ := C05.direct_conversion_exact σd_ne reach4 indices_valid.1 indices_valid.2 h1
          have h2' : CM.exec (findPath q5.unit M2)
              { c4 with st := ((c4.st.unprefixedUnit q5.unit).1.unprefixedUnit M2).1 } = (.ok p, c2) := h2
          rw [h2'] at hfp
          simp only [Prod.mk.injEq, Except.ok.injEq] at hfp
          obtain ⟨rfl, rfl⟩ := hfp
          exact ⟨r, c', p, c2, h1, h2', hne, hc, hd hne⟩

/-! ### through the factor planner: prefixed single-factor units -/

/-- every shipped base unit whose dimension has weight one and no negative exponent has a dimension
    the planner handles (`C05.Fundamental`) -/
def fundamentalOk (s : St) : Bool :=
  s.units.all (fun r => !(decide (r.dim.weight ≤ 1) && !r.dim.any (fun x => decide (x < 0)) && decide (r.dim.weight = 1)) ||
    (r.dim.isFactor r.dim && (r.dim.div r.dim).isNumber))

theorem shipped_fundamental_dimensions : fundamentalOk init = true := by decide +kernel

def kilo : Pfx := ⟨10, 3⟩
def milli : Pfx := ⟨10, -3⟩
def kB : UId := match (c4.st.pmulUnit kilo B).2 with | .ok i => i | .error _ => 0
def c5 : Conv Rat := { c4 with st := run c4.st [Op.pmul kilo B] }
def mA : UId := match (c5.st.pmulUnit milli A).2 with | .ok i => i | .error _ => 0
def c6 : Conv Rat := { c5 with st := run c5.st [Op.pmul milli A] }

theorem reach6 : Reach σd c6 := Reach.units [Op.pmul milli A] (Reach.units [Op.pmul kilo B] reach4)

def q5k : Qty Rat := ⟨.int 5, kB⟩
def singleCheck : Bool :=
  match (CM.exec (convert q5k mA) c6).1 with
  | .ok r => decide (r.mag.val = 20000000) && decide (r.unit = mA)
  | .error _ => false

theorem single_evaluates : singleCheck = true := by decide +kernel

theorem single_records :
    kB < c6.st.units.length ∧ mA < c6.st.units.length ∧ A < c6.st.units.length ∧ B < c6.st.units.length ∧
    (c6.st.unit! kB).factors = [(B, 1)] ∧ (c6.st.unit! mA).factors = [(A, 1)] ∧
    (c6.st.unit! B).pfx = Pfx.identity ∧ (c6.st.unit! B).factors = [(B, 1)] ∧
    (c6.st.unit! A).pfx = Pfx.identity ∧ (c6.st.unit! A).factors = [(A, 1)] ∧
    c6.st.dimOfUnit B = c6.st.dimOfUnit A := by decide +kernel

def fundamentalB (d : Dim) : Bool :=
  decide (d.weight ≤ 1) && d.isFactor d && (d.div d).isNumber && !d.any (fun x => decide (x < 0))

theorem single_dim_check : fundamentalB (c6.st.dimOfUnit A) = true := by decide +kernel

theorem single_dim_fundamental : C05.Fundamental (c6.st.dimOfUnit A) := by
  have h := single_dim_check
  unfold fundamentalB at h
  simp only [Bool.and_eq_true, decide_eq_true_eq, Bool.not_eq_true'] at h
  exact ⟨h.1.1.1, h.1.1.2, h.1.2, h.2⟩

set_option maxRecDepth 8000 in
/-- **The hypotheses of `C05.single_factor_conversion_exact` are inhabited**: 5 kB → mA goes through the
    factor planner (the direct search between the prefixed units finds nothing) and the theorem's
    conclusion `result · size(mA) = 5 · size(kB)` holds for the kernel-computed result 2·10⁷. -/
theorem single_factor_inhabited :
    ∃ (r : Qty Rat) (c' : Conv Rat), CM.exec (convert q5k mA) c6 = (.ok r, c') ∧ r.mag.val = 20000000 ∧
      r.mag.val * unitSz σd c6.st mA = q5k.mag.val * unitSz σd c6.st q5k.unit := by
  have hc := single_evaluates
  unfold singleCheck at hc
  cases h1 : CM.exec (convert q5k mA) c6 with
  | mk r1 c' =>
    cases r1 with
    | error e => rw [h1] at hc; cases hc
    | ok r =>
      rw [h1] at hc
      simp only [Bool.and_eq_true, decide_eq_true_eq] at hc
      obtain ⟨hq, ht, ha, hb, f1, f2, b1, b2, a1, a2, hd⟩ := single_records
      obtain ⟨_, hv⟩ := C05.single_factor_conversion_exact σd_ne reach6 (q := q5k) (t := mA) (u := B) (v := A)
        (d := c6.st.dimOfUnit A) hq ht hb ha f1 f2 ⟨b1, b2⟩ ⟨a1, a2⟩ hd rfl single_dim_fundamental h1
      exact ⟨r, c', rfl, hc.1, hv⟩

/-! ### through the factor planner: a compound unit with two keys (a speed) -/

def sIdx : UId := (lookup "second" init.unitByName).getD 0
def hIdx : UId := (lookup "hour" init.unitByName).getD 0
/-- 1 hour = 3600 second, declared in the demo graph -/
def c7 : Conv Rat := (CM.exec (equate ⟨.int 1, hIdx⟩ ⟨.int 3600, sIdx⟩) c6).2
def σs : UId → Rat := fun k => if k = A then 3 else if k = B then 12 else if k = hIdx then 3600 else 1

theorem σs_ne (k : UId) : σs k ≠ 0 := by unfold σs; split_ifs <;> norm_num

/-- the same history with the hour also given its size -/
theorem reach7 : Reach σs c7 := by
  have g1 : GraphOK σs c1 :=
    ⟨c1_canon, c1_ginv.1, c1_ginv.2, by decide +kernel, by intro a b m h; simp [c1, c0, Table.row] at h,
     by intro a b m h; simp [c1, c0, Table.row] at h⟩
  have r1 : Reach σs c1 := Reach.init g1 c1_graphWF rfl
  have r2 : Reach σs c2 := Reach.equate (a := ⟨.int 1, A⟩) (b := ⟨.int 3, mIdx⟩) r1 (by decide +kernel) (by decide +kernel)
    (by decide +kernel) (by decide +kernel) (exec_unit_of_isOk (by decide +kernel))
  have r3 : Reach σs c3 := Reach.equate (a := ⟨.int 1, B⟩) (b := ⟨.int 4, A⟩) r2 (by decide +kernel) (by decide +kernel)
    (by decide +kernel) (by decide +kernel) (exec_unit_of_isOk (by decide +kernel))
  have r6 : Reach σs c6 := Reach.units [Op.pmul milli A] (Reach.units [Op.pmul kilo B] (Reach.units powers r3))
  exact Reach.equate (a := ⟨.int 1, hIdx⟩) (b := ⟨.int 3600, sIdx⟩) r6 (by decide +kernel) (by decide +kernel)
    (by decide +kernel) (by decide +kernel) (exec_unit_of_isOk (by decide +kernel))

/-- kB/h and mA/s -/
def c8 : Conv Rat := { c7 with st := run c7.st [Op.div kB hIdx, Op.div mA sIdx] }
def kBh : UId := match (c7.st.divUnit kB hIdx).2 with | .ok i => i | .error _ => 0
def mAs : UId := match ((c7.st.divUnit kB hIdx).1.divUnit mA sIdx).2 with | .ok i => i | .error _ => 0
theorem reach8 : Reach σs c8 := Reach.units _ reach7

def Kspeed : List Dim := [c8.st.dimOfUnit A, (c8.st.dimOfUnit sIdx).pow (-1)]

def keysOkB (K : List Dim) : Bool :=
  K.all (fun d => d.isFactor d && (d.div d).isNumber && !d.isNumber && decide (d.weight ≤ 1)) &&
  K.all (fun d => K.all (fun d' => d' == d || !d'.isFactor d))

theorem keysOkB_sound {K : List Dim} (h : keysOkB K = true) : KeysOK K ∧ ∀ d ∈ K, d.weight ≤ 1 := by
  unfold keysOkB at h
  simp only [Bool.and_eq_true, List.all_eq_true, decide_eq_true_eq, Bool.or_eq_true, beq_iff_eq,
    Bool.not_eq_true'] at h
  obtain ⟨h1, h2⟩ := h
  refine ⟨⟨fun d hd => ⟨(h1 d hd).1.1.1, (h1 d hd).1.1.2, (h1 d hd).1.2⟩, ?_⟩, fun d hd => (h1 d hd).2⟩
  intro d hd d' hd' hne
  rcases h2 d hd d' hd' with h | h
  · exact absurd h hne
  · exact h

theorem speed_keys : keysOkB Kspeed = true := by decide +kernel

def factorOkB (K : List Dim) (s : St) (σ : UId → Rat) (f : UId × Int) : Bool :=
  (if f.2 < 0 then decide (sgn ((s.dimOfUnit f.1).pow (-1)) = -1) && K.contains ((s.dimOfUnit f.1).pow (-1))
   else decide (sgn (s.dimOfUnit f.1) = 1) && K.contains (s.dimOfUnit f.1)) &&
  decide (f.1 < s.units.length) &&
  ((s.unit! f.1).pfx == Pfx.identity && (s.unit! f.1).factors == [(f.1, 1)])

theorem factorOkB_sound {K : List Dim} {s : St} {σ : UId → Rat} {f : UId × Int} (h : factorOkB K s σ f = true) :
    FactorOK K s f ∧ f.1 < s.units.length ∧ unitSz σ s f.1 = σ f.1 := by
  unfold factorOkB at h
  simp only [Bool.and_eq_true, decide_eq_true_eq, beq_iff_eq] at h
  obtain ⟨⟨h1, h2⟩, h3, h4⟩ := h
  refine ⟨?_, h2, ?_⟩
  · unfold FactorOK
    constructor
    · intro hlt
      simp only [hlt, ↓reduceIte, Bool.and_eq_true, decide_eq_true_eq, List.contains_iff_mem] at h1
      exact h1
    · intro hlt
      simp only [hlt, ↓reduceIte, Bool.and_eq_true, decide_eq_true_eq, List.contains_iff_mem] at h1
      exact h1
  · unfold unitSz
    rw [h3, h4, Pfx.val_identity]; simp

def q5v : Qty Rat := ⟨.int 5, kBh⟩
def speedCheck : Bool :=
  (match (CM.exec (convert q5v mAs) c8).1 with
   | .ok r => decide (r.mag.val = 50000 / 9) && decide (r.unit = mAs)
   | .error _ => false) &&
  decide (kBh < c8.st.units.length) && decide (mAs < c8.st.units.length) &&
  (c8.st.unit! kBh).factors.all (factorOkB Kspeed c8.st σs) && (c8.st.unit! mAs).factors.all (factorOkB Kspeed c8.st σs) &&
  (match matchSpec (splat c8.st mAs).byComplexFirst (splat c8.st kBh) (splat c8.st mAs) [] with
   | some (s', t', _) => s'.isEmpty && t'.isEmpty
   | none => false)

theorem speed_evaluates : speedCheck = true := by decide +kernel

set_option maxRecDepth 8000 in
/-- **The hypotheses of `C05.simple_conversion_exact` are inhabited**: 5 kB/h → mA/s on the regenerated
    registries goes through `_match_factors` with two keys (length, 1/time); the kernel computes 50000/9
    and the theorem gives `result · size(mA/s) = 5 · size(kB/h)`. -/
theorem simple_inhabited :
    ∃ (r : Qty Rat) (c' : Conv Rat), CM.exec (convert q5v mAs) c8 = (.ok r, c') ∧ r.mag.val = 50000 / 9 ∧
      r.mag.val * unitSz σs c8.st mAs = q5v.mag.val * unitSz σs c8.st q5v.unit := by
  have hc := speed_evaluates
  unfold speedCheck at hc
  simp only [Bool.and_eq_true, decide_eq_true_eq, List.all_eq_true] at hc
  obtain ⟨⟨⟨⟨⟨hconv, hq⟩, ht⟩, hfs⟩, hft⟩, hspec⟩ := hc
  obtain ⟨hK, hKw⟩ := keysOkB_sound speed_keys
  cases h1 : CM.exec (convert q5v mAs) c8 with
  | mk r1 c' =>
    cases r1 with
    | error e => rw [h1] at hconv; simp at hconv
    | ok r =>
      rw [h1] at hconv
      simp only [Bool.and_eq_true, decide_eq_true_eq] at hconv
      cases hm : matchSpec (splat c8.st mAs).byComplexFirst (splat c8.st kBh) (splat c8.st mAs) [] with
      | none => rw [hm] at hspec; simp at hspec
      | some res =>
        obtain ⟨s', t', plan⟩ := res
        rw [hm] at hspec
        simp only [Bool.and_eq_true, List.isEmpty_iff] at hspec
        obtain ⟨rfl, rfl⟩ := hspec
        obtain ⟨_, hv⟩ := C05.simple_conversion_exact σs_ne hK hKw reach8 (q := q5v) (t := mAs) hq ht
          (fun f hf => factorOkB_sound (hfs f hf)) (fun f hf => factorOkB_sound (hft f hf)) hm h1
        exact ⟨r, c', rfl, hconv.1, hv⟩

end Measured.Obligations.Direct
