/-
  Proofs/SizeOf.lean — sizes are multiplicative: for any assignment σ of non-zero sizes to
  base units, size(a·b) = size a · size b, size(a/b), size(aⁿ), size(root)ⁿ — for the units
  the intern table actually returns (found or fresh).  Basis of C06 (`*`, `/`, `**`: full
  strength, no conversion involved).
-/
import Proofs.KeySpec
import Proofs.PfxVal

namespace Measured
open St

/-- ∏ σ(base)^exponent -/
def sizeOf (σ : UId → Rat) (fs : Factors) : Rat := fs.foldr (fun f acc => σ f.1 ^ f.2 * acc) 1

@[simp] theorem sizeOf_nil (σ : UId → Rat) : sizeOf σ [] = 1 := rfl
@[simp] theorem sizeOf_cons (σ : UId → Rat) (f : UId × Int) (fs : Factors) :
    sizeOf σ (f :: fs) = σ f.1 ^ f.2 * sizeOf σ fs := rfl

variable {σ : UId → Rat}

theorem sizeOf_ne_zero (hσ : ∀ k, σ k ≠ 0) (fs : Factors) : sizeOf σ fs ≠ 0 := by
  induction fs with
  | nil => simp
  | cons f rest ih => simp only [sizeOf_cons]; exact mul_ne_zero (zpow_ne_zero _ (hσ _)) ih

theorem sizeOf_insertAdd (hσ : ∀ k, σ k ≠ 0) (fs : Factors) (k : UId) (e : Int) :
    sizeOf σ (insertAdd fs k e) = σ k ^ e * sizeOf σ fs := by
  induction fs with
  | nil => simp [insertAdd]
  | cons p rest ih =>
    obtain ⟨k', e'⟩ := p
    unfold insertAdd
    split
    · next hk => subst hk; simp only [sizeOf_cons]; rw [zpow_add₀ (hσ _)]; ring
    · simp only [sizeOf_cons, ih]; ring

theorem sizeOf_mergeAdd (hσ : ∀ k, σ k ≠ 0) (a b : Factors) :
    sizeOf σ (mergeAdd a b) = sizeOf σ a * sizeOf σ b := by
  unfold mergeAdd
  induction b generalizing a with
  | nil => simp
  | cons p rest ih =>
    simp only [List.foldl_cons, ih, sizeOf_insertAdd hσ, sizeOf_cons]; ring

theorem sizeOf_scale (fs : Factors) (n : Int) :
    sizeOf σ (fs.map (fun p => (p.1, p.2 * n))) = sizeOf σ fs ^ n := by
  induction fs with
  | nil => simp
  | cons p rest ih => simp only [List.map_cons, sizeOf_cons, ih, mul_zpow, zpow_mul]

theorem sizeOf_negate (fs : Factors) : sizeOf σ (negate fs) = (sizeOf σ fs)⁻¹ := by
  have := sizeOf_scale (σ := σ) fs (-1)
  unfold negate
  simpa [Int.mul_neg, Int.mul_one] using this

theorem sizeOf_filter_simplify {one : UId} (h1 : σ one = 1) (fs : Factors) :
    sizeOf σ (fs.filter (fun p => p.1 != one && p.2 != 0)) = sizeOf σ fs := by
  induction fs with
  | nil => rfl
  | cons p rest ih =>
    rw [List.filter_cons]
    split
    · simp only [sizeOf_cons, ih]
    · next hc =>
      rw [ih, sizeOf_cons]
      have : p.1 = one ∨ p.2 = 0 := by
        simp only [Bool.and_eq_true, bne_iff_ne, ne_eq, not_and, Decidable.not_not] at hc
        by_cases h1' : p.1 = one
        · exact Or.inl h1'
        · exact Or.inr (hc h1')
      rcases this with h | h
      · rw [h, h1]; simp
      · rw [h]; simp

theorem sizeOf_simplify {one : UId} (h1 : σ one = 1) (fs : Factors) :
    sizeOf σ (simplify one fs) = sizeOf σ fs := by
  rcases simplify_cases one fs with ⟨e, he⟩ | ⟨e, _⟩
  · rw [e, ← sizeOf_filter_simplify h1 fs, he]; simp [h1]
  · rw [e, sizeOf_filter_simplify h1]

theorem sizeOf_perm {a b : Factors} (hp : a.Perm b) : sizeOf σ a = sizeOf σ b := by
  induction hp with
  | nil => rfl
  | cons x _ ih => simp only [sizeOf_cons, ih]
  | swap x y l => simp only [sizeOf_cons]; ring
  | trans _ _ ih1 ih2 => rw [ih1, ih2]

/-- size of an interned unit: prefix value × product of base sizes -/
def unitSz (σ : UId → Rat) (s : St) (u : UId) : Rat :=
  Pfx.val (s.unit! u).pfx * sizeOf σ (s.unit! u).factors

variable {s : St}

theorem mulUnit_size (hσ : ∀ k, σ k ≠ 0) (h1 : σ s.one = 1) (hc : Canon s) {a b i : Nat}
    (ha : a < s.units.length) (hb : b < s.units.length) (hr : (s.mulUnit a b).2 = .ok i) :
    unitSz σ (s.mulUnit a b).1 i = unitSz σ s a * unitSz σ s b := by
  cases hp : Pfx.mul (s.unit! a).pfx (s.unit! b).pfx with
  | error e => simp [mulUnit, hp] at hr
  | ok p =>
    have hres : s.mulUnit a b = ((s.newUnit p (simplify s.one (mergeAdd (s.unit! a).factors (s.unit! b).factors))
        ((s.unit! a).dim.mul (s.unit! b).dim)).1, .ok (s.newUnit p (simplify s.one (mergeAdd (s.unit! a).factors (s.unit! b).factors))
        ((s.unit! a).dim.mul (s.unit! b).dim)).2) := by simp [mulUnit, hp]
    rw [hres] at hr ⊢
    simp only at hr ⊢
    injection hr with hr; subst hr
    obtain ⟨k1, k2⟩ := newUnit_key s p (simplify s.one (mergeAdd (s.unit! a).factors (s.unit! b).factors))
      ((s.unit! a).dim.mul (s.unit! b).dim)
    unfold unitSz
    rw [k1, sizeOf_perm k2, sizeOf_simplify h1, sizeOf_mergeAdd hσ,
      Pfx.val_mul (canon_pfx hc ha) (canon_pfx hc hb) hp]
    ring

theorem divUnit_size (hσ : ∀ k, σ k ≠ 0) (h1 : σ s.one = 1) (hc : Canon s) {a b i : Nat}
    (ha : a < s.units.length) (hb : b < s.units.length) (hr : (s.divUnit a b).2 = .ok i) :
    unitSz σ (s.divUnit a b).1 i = unitSz σ s a / unitSz σ s b := by
  cases hp : Pfx.div (s.unit! a).pfx (s.unit! b).pfx with
  | error e => simp [divUnit, hp] at hr
  | ok p =>
    have hres : s.divUnit a b = ((s.newUnit p (simplify s.one (mergeAdd (s.unit! a).factors (negate (s.unit! b).factors)))
        ((s.unit! a).dim.div (s.unit! b).dim)).1, .ok (s.newUnit p (simplify s.one (mergeAdd (s.unit! a).factors (negate (s.unit! b).factors)))
        ((s.unit! a).dim.div (s.unit! b).dim)).2) := by simp [divUnit, hp]
    rw [hres] at hr ⊢
    simp only at hr ⊢
    injection hr with hr; subst hr
    obtain ⟨k1, k2⟩ := newUnit_key s p (simplify s.one (mergeAdd (s.unit! a).factors (negate (s.unit! b).factors)))
      ((s.unit! a).dim.div (s.unit! b).dim)
    unfold unitSz
    rw [k1, sizeOf_perm k2, sizeOf_simplify h1, sizeOf_mergeAdd hσ, sizeOf_negate,
      Pfx.val_div (canon_pfx hc ha) (canon_pfx hc hb) hp]
    field_simp

theorem powUnit_size (h1 : σ s.one = 1) (hc : Canon s) {a : Nat} (ha : a < s.units.length) (n : Int) :
    unitSz σ (s.powUnit a n).1 (s.powUnit a n).2 = unitSz σ s a ^ n := by
  unfold powUnit
  obtain ⟨k1, k2⟩ := newUnit_key s ((s.unit! a).pfx.pow n)
    (simplify s.one ((s.unit! a).factors.map (fun p => (p.1, p.2 * n)))) ((s.unit! a).dim.pow n)
  unfold unitSz
  rw [k1, sizeOf_perm k2, sizeOf_simplify h1, sizeOf_scale, Pfx.val_pow (canon_pfx hc ha), mul_zpow]

end Measured
