/-
  Per-run obligation for C20: the constructors in /repo ARE the locked program the theorems cover —
  every interning class's `__new__` is the check-then-insert on `cls._known` and its construction is
  one critical section under a module-level re-entrant lock (re-entrant because constructors call
  constructors).  Read from the AST of measured/__init__.py on this run.
-/
import Props.C20
import Generated.Ctor

namespace Measured.Obligations
open Measured Generated

theorem ctor_shape_ok :
    ctors.map (·.1) = ["Dimension", "Prefix", "Unit", "Logarithm", "LogarithmicUnit"] ∧
    ctors.all (fun c => c.2.1 && c.2.2.1 && locks.contains (c.2.2.2, true)) = true := by
  decide +kernel

/-- C20 for the program in /repo: it is `step true`, so `C20.agreement` is about it. -/
theorem shipped_constructors_agree (sched : List Nat) (t u a b : Nat)
    (ha : ((Threads.run true {} sched).thr t).ret = some a) (hb : ((Threads.run true {} sched).thr u).ret = some b) :
    a = b ∧ (Threads.run true {} sched).known = some a :=
  C20.agreement sched t u a b ha hb

end Measured.Obligations
