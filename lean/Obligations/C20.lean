/-
  Per-run obligation for C20: the constructors in /repo ARE the locked program the theorems cover —
  every interning class's `__new__` is the check-then-insert on `cls._known` and its construction is
  one critical section under a module-level re-entrant lock (re-entrant because constructors call
  constructors).  Read from the AST of measured/__init__.py on this run.
-/
import Props.C20
import Generated.Ctor

namespace Measured.Obligations
open Measured Generated

theorem ctor_shape_ok :
    ctors.map (·.1) = ["Dimension", "Prefix", "Unit", "Logarithm", "LogarithmicUnit"] ∧
    ctors.all (fun c => c.2.1 && c.2.2.1 && locks.contains (c.2.2.2, true)) = true := by
  decide +kernel

/-- C20 for the program in /repo: it is `step .call` (lookup, creation and initialisation under one
    lock), so `C20.agreement` is about it — for objects registered by `__new__` (`_known`) and for
    base units, registered by `__init__` (`_by_name`). -/
theorem shipped_constructors_agree (regAtInit : Bool) (sched : List Nat) (t u a b : Nat)
    (ha : ((Threads.run .call regAtInit {} sched).thr t).ret = some a)
    (hb : ((Threads.run .call regAtInit {} sched).thr u).ret = some b) :
    a = b ∧ (Threads.run .call regAtInit {} sched).reg = some a :=
  C20.agreement regAtInit sched t u a b ha hb

end Measured.Obligations
