/-
  C08, the clause "a conversion that failed before an equivalence was declared succeeds once it is
  declared" — proved for the model of the real `equate` / `_find_path_recursive` / `convert`
  (after the `fix:` commit that looks a declared pair up before reducing it to roots; before it the
  clause was FALSE for declarations between powers, `(X**2).equals(4 * Y**2)`).
-/
import Proofs.Declared
import Proofs.Repeat

namespace Measured.C08
open Measured

variable {σ : UId → Rat}

/-- A declared pair is found by the path search, in every state and whatever else is declared. -/
theorem declared_pair_is_found {c : Conv Rat} {a b : UId} {m : Mag Rat}
    (h : c.ratios.get? a b = some m) (hab : a ≠ b) :
    CM.exec (findPath a b) c =
      (.ok [{ scale := m, offset := (c.offsets.get? a b).getD (.int 0), unit := b }], c) :=
  findPath_declared h hab

/-- **Once declared, it converts**: after a successful `equate(a, b)` (sides of equal σ-size), with
    `A`, `B` the unprefixed units of the two sides, every quantity of `A` that `convert` turns into `B`
    comes out multiplied by exactly `(prefix b · b.mag) / (prefix a · a.mag)` — the declaration just
    made — whatever the history before, and also when `A`, `B` are powers (`X²`, `Y²`). -/
theorem once_declared_it_converts (hσ : ∀ k, σ k ≠ 0) {c c' c'' : Conv Rat} {a b : Qty Rat} (hg : GraphOK σ c)
    (hoff : c.offsets = [])
    (ha : a.unit < c.st.units.length) (hb : b.unit < c.st.units.length)
    (hcons : a.mag.val * unitSz σ c.st a.unit = b.mag.val * unitSz σ c.st b.unit)
    (hx : CM.exec (equate a b) c = (.ok (), c')) :
    ∃ (A B : UId), A = (c.st.unprefixedUnit a.unit).2 ∧
      B = ((c.st.unprefixedUnit a.unit).1.unprefixedUnit b.unit).2 ∧
      (A ≠ B → ∀ (x : Mag Rat) (r : Qty Rat), CM.exec (convert ⟨x, A⟩ B) c' = (.ok r, c'') →
        r.unit = B ∧
        r.mag.val = x.val * ((Pfx.val (c.st.unit! b.unit).pfx * b.mag.val) / (Pfx.val (c.st.unit! a.unit).pfx * a.mag.val))) := by
  obtain ⟨A, B, r1, r2, hA, hB, hAl, hBl, h1, _, v1, _, g'⟩ := equate_declares hg ha hb hcons hx
  obtain ⟨_, _, ho, _⟩ := equate_graphOK hg ha hb hcons hx
  refine ⟨A, B, hA, hB, ?_⟩
  intro hne x r hc
  obtain ⟨hu, hv⟩ := convert_declared hσ g' (q := ⟨x, A⟩) hAl hBl (by rw [ho]; exact hoff) (h1 hne) hne hc
  exact ⟨hu, by rw [hv, v1]⟩

/-- **Conversions attempted in between never change the outcome of a later one** (conversions between
    simple units, exact arithmetic): ask, do anything of the proved kinds — unit operations, consistent
    declarations, directly settled and planner conversions —, ask again: the identical magnitude and unit.
    (For units outside this fragment the statement is false on the pinned code: `factor_order_witness`.) -/
theorem simple_conversion_history_free (hσ : ∀ k, σ k ≠ 0) {c c1 c' c'' : Conv Rat} (hr : Reach2 σ c)
    {q r1 r2 : Qty Rat} {t : UId} {K K' : List Dim} {plan plan' : List (Rough Rat)}
    (hq : q.unit < c.st.units.length) (ht : t < c.st.units.length)
    (hsp : SimplePair σ K c q.unit t plan)
    (h1 : CM.exec (convert q t) c = (.ok r1, c1))
    (hsteps : Steps σ c c')
    (hsp' : SimplePair σ K' c' q.unit t plan')
    (h2 : CM.exec (convert q t) c' = (.ok r2, c'')) :
    r2.mag.val = r1.mag.val ∧ r2.unit = r1.unit :=
  simple_conversion_repeatable hσ hr hq ht hsp h1 hsteps hsp' h2

end Measured.C08
