import random, sys, pickle, collections, math as m
from measured import *
from measured import systems, conversions
from measured.conversions import ConversionNotFound
exec(open('/verif/notes/probes/p3_sizes.py').read().split("missing =")[0])   # builds `size` by propagation
sizes = {u.name:s for u,s in size.items()}
sizes.update({'radian':1.0,'degree':m.pi/180,'arcminute':m.pi/10800,'arcsecond':m.pi/648000,'gradian':m.pi/200,'Furman':2*m.pi/65536})
named = sorted([u for u in set(Unit._by_name.values()) if all(f.name in sizes for f in u.factors) and u.name not in ('celsius','fahrenheit','ton of refrigeration')], key=lambda u:u.name)
def usize(u):
    s = float(u.prefix.quantify())
    for f,e in u.factors.items(): s *= sizes[f.name]**e
    return s
by_dim = collections.defaultdict(list)
for u in named: by_dim[u.dimension].append(u)
prefixes = [IdentityPrefix]*4 + list(Prefix._by_name.values())
def fund(u): return all(sum(abs(e) for e in f.dimension.exponents)==1 for f in u.factors if f is not One)
random.seed(int(sys.argv[1]))
stats = collections.Counter(); ex=collections.defaultdict(list)
for i in range(int(sys.argv[2])):
    k = random.randint(1,3); a=One; b=One
    for _ in range(k):
        x = random.choice(named); y = random.choice(by_dim[x.dimension]); e = random.choice([-3,-2,-1,1,1,2,3])
        a = a*(random.choice(prefixes)*x)**e; b = b*(random.choice(prefixes)*y)**e
    if a.dimension is not b.dimension: continue
    try: direct = bool(conversions._find_path(a,b))
    except Exception: direct = False
    cls = 'direct' if direct else ('fund' if fund(a) and fund(b) else 'other')
    try:
        q = (1.0*a).in_unit(b); 
        expected = usize(a)/usize(b); deg = sum(abs(e) for e in a.factors.values())+sum(abs(e) for e in b.factors.values())
        r = 'ok' if abs(q.magnitude/expected-1) <= 1e-5*max(deg,1) else 'WRONG'
    except ConversionNotFound: r='notfound'
    except Exception as exn: r='EXC '+type(exn).__name__
    stats[(cls,r)]+=1
    if r not in('ok','notfound') and len(ex[(cls,r)])<5: ex[(cls,r)].append((str(a),str(b)))
for k,v in sorted(stats.items()): print(k,v)
for k,v in ex.items():
    if k[0]!='other': print(k, v)
print(ex.get(('other','EXC ZeroDivisionError')))
