/-
  Proofs/LRIso.lean — renaming the states (by an injective map) and the rule indices of an LR
  table does not change what the table-driven parser does on ANY input: same accept/reject,
  same semantic values, same side effects.  Basis of C16 (shipped tables vs tables freshly
  generated from the grammar are equal up to renaming).
-/
import Model.LALR

namespace Measured

def mapAction (φ ρ : Nat → Nat) : Action → Action
  | .shift q => .shift (φ q)
  | .reduce r => .reduce (ρ r)

def renameTable (φ ρ : Nat → Nat) (T : LRTable) : LRTable :=
  { states := T.states.map (fun r => (φ r.1, r.2.map (fun c => (c.1, mapAction φ ρ c.2)))) }

variable {φ ρ : Nat → Nat}

theorem find?_map_inj {α β} (f : α → β) (p : α → Bool) (q : β → Bool) (l : List α)
    (h : ∀ a, q (f a) = p a) : (l.map f).find? q = (l.find? p).map f := by
  induction l with
  | nil => rfl
  | cons a rest ih =>
    simp only [List.map_cons, List.find?_cons, h a]
    cases p a <;> simp [ih]

theorem row_rename (hφ : Function.Injective φ) (T : LRTable) (q : Nat) :
    (renameTable φ ρ T).row (φ q) = (T.row q).map (fun c => (c.1, mapAction φ ρ c.2)) := by
  unfold LRTable.row renameTable
  simp only
  have h := find?_map_inj (fun r : Nat × List (String × Action) => (φ r.1, r.2.map (fun c => (c.1, mapAction φ ρ c.2))))
      (fun r => r.1 == q) (fun r => r.1 == φ q) T.states (by
        intro a
        show (φ a.1 == φ q) = (a.1 == q)
        by_cases hq : a.1 = q
        · rw [hq]; simp
        · have : φ a.1 ≠ φ q := fun h => hq (hφ h)
          rw [beq_eq_false_iff_ne.mpr this, beq_eq_false_iff_ne.mpr hq])
  rw [h]
  cases T.states.find? (fun r => r.1 == q) <;> rfl

theorem action?_rename (hφ : Function.Injective φ) (T : LRTable) (q : Nat) (sym : String) :
    (renameTable φ ρ T).action? (φ q) sym = (T.action? q sym).map (mapAction φ ρ) := by
  unfold LRTable.action?
  rw [row_rename hφ]
  have h := find?_map_inj (fun c : String × Action => (c.1, mapAction φ ρ c.2)) (fun c => c.1 == sym)
      (fun c => c.1 == sym) (T.row q) (fun a => rfl)
  rw [h]
  cases (T.row q).find? (fun c => c.1 == sym) <;> rfl

/-- The result of `feed`, with the state stack renamed. -/
def mapFeed {σ V} (φ : Nat → Nat) :
    σ × Except Exc (List Nat × List V × Option V) → σ × Except Exc (List Nat × List V × Option V)
  | (s, .ok (st, vs, o)) => (s, .ok (st.map φ, vs, o))
  | (s, .error e) => (s, .error e)

theorem feed_rename {σ V : Type} (hφ : Function.Injective φ) (T : LRTable) (rules rules' : List GRule)
    (hρ : ∀ r, rules'[ρ r]? = rules[r]?) (endS : Nat)
    (act : σ → GRule → List V → σ × Except Exc V) (mk : Tok → V) (tok : Tok) (isEnd : Bool) :
    ∀ (fuel : Nat) (s : σ) (stack : List Nat) (vals : List V),
      feed (renameTable φ ρ T) rules' (φ endS) act mk tok isEnd fuel s (stack.map φ) vals =
        mapFeed φ (feed T rules endS act mk tok isEnd fuel s stack vals) := by
  intro fuel
  induction fuel with
  | zero => intro s stack vals; rfl
  | succ fuel ih =>
    intro s stack vals
    cases stack with
    | nil => rfl
    | cons q rest =>
      simp only [List.map_cons, feed]
      rw [action?_rename hφ]
      cases ha : T.action? q tok.type with
      | none => rfl
      | some a =>
        cases a with
        | shift q' => simp only [Option.map_some, mapAction, mapFeed, List.map_cons]
        | reduce r =>
          simp only [Option.map_some, mapAction, hρ r]
          cases hr : rules[r]? with
          | none => rfl
          | some rule =>
            simp only
            cases hact : act s rule ((vals.take rule.expansion.length).reverse) with
            | mk s' res =>
              cases res with
              | error e => rfl
              | ok v =>
                simp only
                have hdrop : (φ q :: rest.map φ).drop rule.expansion.length =
                    ((q :: rest).drop rule.expansion.length).map φ := by
                  rw [← List.map_cons, List.map_drop]
                rw [hdrop]
                cases hst : (q :: rest).drop rule.expansion.length with
                | nil => rfl
                | cons q0 rest0 =>
                  simp only [List.map_cons]
                  rw [action?_rename hφ]
                  cases hg : T.action? q0 rule.origin with
                  | none => rfl
                  | some g =>
                    cases g with
                    | reduce _ => rfl
                    | shift q1 =>
                      simp only [Option.map_some, mapAction]
                      have hend : (φ q1 == φ endS) = (q1 == endS) := by
                        by_cases hq : q1 = endS
                        · rw [hq]; simp
                        · have : φ q1 ≠ φ endS := fun h => hq (hφ h)
                          rw [beq_eq_false_iff_ne.mpr this, beq_eq_false_iff_ne.mpr hq]
                      rw [hend]
                      split
                      · simp only [mapFeed, List.map_cons]
                      · have := ih s' (q1 :: q0 :: rest0) (v :: vals.drop rule.expansion.length)
                        simpa only [List.map_cons] using this

theorem acceptsOf_rename (hφ : Function.Injective φ) (T : LRTable) (lc : LexConf) (q : Nat) :
    acceptsOf (renameTable φ ρ T) lc (φ q) = acceptsOf T lc q := by
  unfold acceptsOf
  rw [row_rename hφ, List.map_map]
  rfl

/-- **Every input**: the renamed tables drive the interleaved lexer/parser loop to the same
    outcome — same acceptance, same values, same semantic state. -/
theorem parseLoop_rename {σ V : Type} (hφ : Function.Injective φ) (T : LRTable) (rules rules' : List GRule)
    (hρ : ∀ r, rules'[ρ r]? = rules[r]?) (endS : Nat) (lc : LexConf)
    (act : σ → GRule → List V → σ × Except Exc V) (mk : Tok → V) :
    ∀ (fuel : Nat) (input : List Char) (s : σ) (stack : List Nat) (vals : List V),
      parseLoop (renameTable φ ρ T) rules' (φ endS) lc act mk fuel input s (stack.map φ) vals =
        parseLoop T rules endS lc act mk fuel input s stack vals := by
  intro fuel
  induction fuel with
  | zero => intro input s stack vals; rfl
  | succ fuel ih =>
    intro input s stack vals
    cases input with
    | nil =>
      simp only [parseLoop]
      rw [feed_rename hφ T rules rules' hρ]
      cases feed T rules endS act mk ⟨"$END", ""⟩ true 4096 s stack vals with
      | mk s' r =>
        cases r with
        | error e => rfl
        | ok t => obtain ⟨st, vs, o⟩ := t; cases o <;> rfl
    | cons ch rest =>
      cases stack with
      | nil => rfl
      | cons q qs =>
        simp only [List.map_cons, parseLoop]
        rw [acceptsOf_rename hφ]
        cases hsc : scan lc (acceptsOf T lc q) (ch :: rest) with
        | none => rfl
        | some nm =>
          obtain ⟨name, n⟩ := nm
          simp only
          split
          · have := ih ((ch :: rest).drop n) s (q :: qs) vals
            simpa only [List.map_cons] using this
          · have hf := feed_rename hφ T rules rules' hρ endS act mk ⟨name, String.ofList ((ch :: rest).take n)⟩ false 4096 s (q :: qs) vals
            simp only [List.map_cons] at hf
            rw [hf]
            cases feed T rules endS act mk ⟨name, String.ofList ((ch :: rest).take n)⟩ false 4096 s (q :: qs) vals with
            | mk s' r =>
              cases r with
              | error e => rfl
              | ok t =>
                obtain ⟨st, vs, o⟩ := t
                simp only [mapFeed]
                exact ih _ s' st vs

theorem parseWith_rename {σ V : Type} (hφ : Function.Injective φ) (T : LRTable) (rules rules' : List GRule)
    (hρ : ∀ r, rules'[ρ r]? = rules[r]?) (startS endS : Nat) (lc : LexConf)
    (act : σ → GRule → List V → σ × Except Exc V) (mk : Tok → V) (s : σ) (text : String) :
    parseWith (renameTable φ ρ T) rules' (φ startS) (φ endS) lc act mk s text =
      parseWith T rules startS endS lc act mk s text := by
  unfold parseWith
  have := parseLoop_rename hφ T rules rules' hρ endS lc act mk (text.toList.length + 2) text.toList s [startS] []
  simpa only [List.map_cons, List.map_nil] using this

end Measured
