/-
  Props/Planner.lean — the property-level names of the theorems about the conversion planner that
  were proved after the per-property files were written (DESIGN.md §0.75).  Nothing is proved
  here: each name is an `alias` of the theorem in `Proofs/`, grouped by the property it serves, so
  that the statements a reader should look at are in `Props/` and cannot be weakened by editing a
  helper file unnoticed (the alias has the very type of its target).
-/
import Proofs.Frame
import Proofs.FlatComplete
import Proofs.Kept
import Proofs.RegFrame
import Proofs.KeptDecl

namespace Measured

/-! ## C01 / C02 — the interning invariants in histories with queries -/

/-- after any valid history of conversions, comparisons, arithmetic and unit operations the unit table is canonical
    (C02) and every unit's dimension is the product of its factors' dimensions (C01) -/
alias C01.invariants_survive_every_query_history := queries_good
alias C02.canonical_after_every_query_history := queries_good
/-- … and every factor of every unit is still a base unit (C13's rendering theorem applies in those states) -/
alias C13.base_factors_after_every_query_history := queries_good
/-- the same with declarations (`equals`, `scale`) in the history -/
alias C01.invariants_survive_every_history := history_good
/-- one conversion between existing units, returning or raising -/
alias C01.conversion_keeps_invariants := good_convert

/-! ## C04 / C05 — values -/

/-- every directly settled conversion on an approximately consistent graph is right up to the accumulated edge errors -/
alias C04.direct_conversion_near := convert_direct_near
/-- the same through the factor planner, for simple units -/
alias C04.simple_conversion_near := convert_simple_near
/-- single-factor units of a fundamental dimension: closed form of the result, offsets included, in every state -/
alias C05.flat_conversion_closed_form := convert_flat_single

/-! ## C07 — only ConversionNotFound; connected ⇒ converts -/

/-- the path search returns on every approximately consistent, well-formed graph -/
alias C07.path_search_never_raises_near := findPath_totalN
/-- simple units on such a graph: a quantity or ConversionNotFound -/
alias C07.simple_conversion_only_not_found_near := convert_simple_totalN
/-- completeness of the search: an empty path means the target is unreachable along declared edges -/
alias C07.search_complete := flatPath_complete
/-- connected ⇒ converts (single-factor units, any prefixes) -/
alias C07.connected_converts := convert_flat_connected
/-- connected ⇒ converts (simple compound units) -/
alias C07.connected_converts_simple := convert_simple_connected

/-! ## C08 — answers do not depend on earlier queries -/

/-- on a flat dimension the path search is a pure function of the two tables and leaves the state alone -/
alias C08.path_search_pure := findPath_flat
/-- the same conversion in any later state of the same tables returns the same magnitude (no exactness assumed) -/
alias C08.flat_conversion_history_free := flat_conversion_state_free
/-- every conversion, whatever its arguments and outcome, leaves the graph untouched and only extends the unit table -/
alias C08.conversion_changes_no_declaration := framed_convert
/-- no history of queries changes the declarations -/
alias C08.no_query_changes_the_declarations := queries_frame

/-! ## C09 — connected to SI -/

alias C09.connected_is_found := findPath_connected

/-! ## C19 — the name registries in histories with queries -/

/-- no conversion touches a name registry or an existing unit's names -/
alias C19.conversion_touches_no_registry := rframed_convert
/-- the registries stay faithful through every history of queries, unit operations and declarations -/
alias C19.registries_faithful_after_every_query_history := queries_faithful
/-- the same with declarations of equivalences in the history -/
alias C19.registries_faithful_in_every_history := history_faithful

/-! ## C11 — prefixes in conversions -/

/-- `q.in_unit(p·u)·value(p) = q.in_unit(u)`, `(m·(p·u)).in_unit(t) = ((m·value(p))·u).in_unit(t)`, offsets included -/
alias C11.prefixes_scale_conversions := flat_prefix_laws

end Measured
